#!/usr/bin/env python3
"""Regenerates seeded/TABLE.md from the meta.json files."""
import json, os, glob
ROOT = os.path.dirname(os.path.dirname(os.path.abspath(__file__)))
rows = []
for d in sorted(glob.glob(os.path.join(ROOT, "seeded", "C*"))):
    m = json.load(open(os.path.join(d, "meta.json")))
    notes = " ".join(m.get("needs_to_manifest", "").split())[:260]
    det = m.get("detected_by", {})
    cells = []
    for chk, r in sorted(det.items()):
        lines = r.get("lines", [])
        kind = "not detected"
        if r.get("rc") == 1:
            kind = "VIOLATION with failing input" if any("VIOLATION" in l and "no-failing-input-found" not in l for l in lines) else "VIOLATION (no-failing-input-found)"
        cells.append("%s: %s" % (chk, kind))
    rows.append("| %s | %s | %s | %s |" % (os.path.basename(d), m["property"], "; ".join(cells) or "not run", notes))
with open(os.path.join(ROOT, "seeded", "TABLE.md"), "w") as f:
    f.write("# Seeded changes and the checks that catch them\n\nEach row: a change produced by an independent sub-agent from the property text alone, confirmed "
            "(suite passes with it, demonstration fails with it / passes without), applied to /repo, the check run, the change undone.\n\n"
            "| seed | property | result of the quick check(s) | what was changed / what it needs to manifest |\n|---|---|---|---|\n" + "\n".join(rows) + "\n")
print(len(rows), "seeds")
