#!/usr/bin/env python3
"""Confirm seeded defects delivered by the sub-agents and run the checks against them.
   usage: seedtest.py confirm <Cxx> <a|b>     verify the agent's claims in a scratch worktree, store under /verif/seeded
          seedtest.py run <seed-id> [check-id] apply the stored patch to /repo, run the check, undo"""
import json, os, shutil, subprocess, sys, time
ROOT = os.path.dirname(os.path.dirname(os.path.abspath(__file__)))
ENV = dict(os.environ, GOFLAGS="-mod=mod", GOPROXY="off", GOSUMDB="off", GOTOOLCHAIN="local")

def sh(cmd, cwd=None, timeout=900):
    p = subprocess.run(cmd, cwd=cwd, env=ENV, shell=isinstance(cmd, str), stdout=subprocess.PIPE, stderr=subprocess.STDOUT, text=True, timeout=timeout)
    return p.returncode, p.stdout

def confirm(pid, x):
    src = "/tmp/mut/%s/out/%s" % (pid, x)
    wt = "/tmp/seedwt_%s%s" % (pid, x)
    sh(["git", "-C", "/repo", "worktree", "remove", "--force", wt])
    rc, out = sh(["git", "-C", "/repo", "worktree", "add", "-q", "--detach", wt, "HEAD"])
    assert rc == 0, out
    try:
        demo = open(os.path.join(src, "demo_test.go")).read()
        pkgdir = wt + ("/css" if "package css" in demo.split("\n", 5)[0:5].__str__() else "")
        import re
        mm = re.search(r"func (TestSeeded\w*)\(", demo)
        test = mm.group(1) if mm else "TestSeeded" + x.upper()
        res = {}
        shutil.copy(os.path.join(src, "demo_test.go"), os.path.join(pkgdir, "zz_demo_test.go"))
        rc, out = sh("go test -vet=off -count=1 -run '^%s$' ." % test, cwd=pkgdir)
        res["demo_passes_clean"] = (rc == 0)
        os.remove(os.path.join(pkgdir, "zz_demo_test.go"))
        rc, out = sh(["git", "-C", wt, "apply", os.path.join(src, "patch.diff")])
        res["patch_applies"] = (rc == 0)
        rc, out = sh("go build ./... && go build -tags verif ./... && go test -vet=off -count=1 ./...", cwd=wt)
        res["suite_passes_with_patch"] = (rc == 0)
        shutil.copy(os.path.join(src, "demo_test.go"), os.path.join(pkgdir, "zz_demo_test.go"))
        rc, out = sh("go test -vet=off -count=1 -run '^%s$' ." % test, cwd=pkgdir)
        res["demo_fails_with_patch"] = (rc != 0)
        ok = all(res.values())
        print(pid, x, res, "KEEP" if ok else "REJECT")
        if ok:
            d = os.path.join(ROOT, "seeded", "%s%s" % (pid, x))
            os.makedirs(d, exist_ok=True)
            shutil.copy(os.path.join(src, "patch.diff"), d)
            shutil.copy(os.path.join(src, "demo_test.go"), d)
            notes = open(os.path.join(src, "notes.md")).read() if os.path.exists(os.path.join(src, "notes.md")) else ""
            json.dump({"property": pid, "needs_to_manifest": notes, "confirmed": res,
                       "ran": ["go test -vet=off -count=1 ./... (with patch: pass)", "go test -run %s (clean: pass, with patch: fail)" % test],
                       "repo_head": sh(["git", "-C", "/repo", "rev-parse", "--short", "HEAD"])[1].strip()},
                      open(os.path.join(d, "meta.json"), "w"), indent=1)
        return ok
    finally:
        sh(["git", "-C", "/repo", "worktree", "remove", "--force", wt])

def run(seed, check=None):
    d = os.path.join(ROOT, "seeded", seed)
    meta = json.load(open(os.path.join(d, "meta.json")))
    check = check or meta["property"]
    rc, out = sh(["git", "-C", "/repo", "status", "--porcelain"])
    assert out.strip() == "", "repo not clean: " + out
    rc, out = sh(["git", "-C", "/repo", "apply", os.path.join(d, "patch.diff")])
    assert rc == 0, out
    t0 = time.time()
    try:
        rc, out = sh([os.path.join(ROOT, "check"), check], cwd=ROOT, timeout=1800)
    finally:
        sh(["git", "-C", "/repo", "checkout", "--", "."])
        # what the run wrote from the changed tree is not evidence and not the translation of /repo: restore both
        sh(["git", "-C", ROOT, "checkout", "--", "evidence/%s.json" % check, "coq/Generated"])
    lines = [l for l in out.splitlines() if l.startswith(("VIOLATION", "OK", "KNOWN", "BROKEN"))]
    print(seed, check, "rc=%d" % rc, "%.0fs" % (time.time() - t0), "|", " ; ".join(lines)[:300])
    res = meta.setdefault("detected_by", {})
    res[check] = {"rc": rc, "lines": lines[:4]}
    json.dump(meta, open(os.path.join(d, "meta.json"), "w"), indent=1)
    return rc

if __name__ == "__main__":
    if sys.argv[1] == "confirm":
        sys.exit(0 if confirm(sys.argv[2], sys.argv[3]) else 1)
    sys.exit(run(*sys.argv[2:]))
