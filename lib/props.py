"""Per-property checks."""
import json, os, re
import vcheck as V
from vcheck import Broken

CHECKS = {}


def check(pid):
    def deco(f):
        CHECKS[pid] = f
        return f
    return deco


def setup():
    V.hygiene()
    rc, out = V.build_go()
    if rc != 0:
        raise Broken("cannot build harness:\n" + out)
    ok, out = V.run_gen()
    if not ok:
        raise Broken("gen failed:\n" + out)
    V.coq_makefile()
    ok, out = V.coq_make([])
    if not ok:
        V.log(out[-3000:])
        V.log("setup: some Coq targets failed (reported per property by the checks)")
    ok, out = V.build_driver()
    if not ok:
        raise Broken("driver build failed:\n" + out[-3000:])
    print("setup ok")
    return 0


def known_match(pid, case):
    """does a failing case satisfy a listed known-finding predicate?  returns the finding or None"""
    for f in V.load_known():
        if f.get("property") != pid or f.get("status", "open") != "open":
            continue
        pred = f.get("predicate", {})
        if all(re.search(v, str(case.get(k, ""))) for k, v in pred.items()):
            return f
    return None


def report_case(res, pid, case, found=True):
    f = known_match(pid, case)
    if f is not None:
        res.known_finding(f["id"] + " " + f["what"])
    else:
        res.violation(case, found)


def broken_tooling(res, st, what_for):
    """gen or correspondence build broke: a violation without failing input (after the search ran)"""
    if not st["gen"]:
        res.violation({"kind": "translator-failed", "detail": st["gen_out"][-2000:],
                       "broken": "translator /verif/go/cmd/gen could not translate the source shapes needed for " + what_for}, found=False)
    if not st["harness"]:
        raise Broken("/repo does not build with -tags verif:\n" + st["harness_out"][-3000:])
    if not st["driver"]:
        res.violation({"kind": "model-build-failed", "detail": st["driver_out"][-2000:],
                       "broken": "the Coq model (with regenerated data) no longer builds"}, found=False)


def parse_coq_witness_report(out):
    """parse `= [(name, [(kind, witness); ...]); ...]` printed by Eval vm_compute of a *_report"""
    txt = out[out.index("= ["):] if "= [" in out else ""
    txt = re.sub(r"\s+", " ", txt)
    items = []
    # split on top-level ("Name", [ ... ])
    for m in re.finditer(r'\("([A-Za-z0-9_]+)", \[(.*?)\]\)(?=; \("|\] *:)', txt):
        name, body = m.group(1), m.group(2)
        for k in re.finditer(r'\("([a-z_]+)", (None|Some None|Some \(Some \[([0-9; ]*)\]\))\)', body):
            kind, val, w = k.group(1), k.group(2), k.group(3)
            if val == "Some None":
                status, wit = "holds", None
            elif val == "None":
                status, wit = "out-of-fuel", None
            else:
                status, wit = "fails", [int(x) for x in w.replace(" ", "").split(";") if x]
            items.append((name, kind, status, wit))
    return items


def utf8_hex(runes):
    b = bytearray()
    for r in runes:
        try:
            b += chr(r).encode("utf8", "surrogatepass")
        except ValueError:
            b += b"\xef\xbf\xbd"
    return b.hex() or "-"


# ---------------------------------------------------------------------------------------------
@check("C19")
def c19(res):
    pid = "C19"
    st = V.prepare(res)
    broken_tooling(res, st, "the regexp literals of helpers.go")
    thorough = res.tier == "thorough"
    ok, out = (False, "") if not st["gen"] else V.prove(res, "Properties/C19.v")
    # tie: Regex.v's matcher against Go's regexp engine on every regexp literal of the tree
    rx = V.harness(["rxcheck", "-regexps", os.path.join(V.GEN_OUT, "regexps.tsv"), "-driver", V.DRIVER,
                    "-seed", str(res.seed), "-maxlen", "3" if not thorough else "4", "-n", "400" if not thorough else "4000"]) if st["driver"] else None
    # implementation-side oracle (independent restatement of the documented alphabets)
    orc = V.harness(["c19oracle", "-maxlen", "3" if not thorough else "4"])
    cov = res.coverage
    cov["evaluations"] = (rx["evaluations"] if rx else 0) + orc["evaluations"]
    cov["distinct_nontrivial"] = (rx["distinct_nontrivial"] if rx else 0) + orc["distinct_nontrivial"]
    cov["rule"] = ("theorems: reflection (verified derivative emptiness procedure) on the regenerated regexp ASTs, all string lengths; "
                   "tie: every regexp.MustCompile literal of the tree run by Go's regexp and by the extracted matcher on all strings "
                   "of length <= %s over the pattern's own characters plus HTML-significant ones, single/double substitutions of the "
                   "documented examples, and random mutations; non-trivial = distinct (regexp, string) pairs that are accepted" % (4 if thorough else 3))
    cov["samples"] = (rx["samples"] if rx else []) + [{"obligation": "C19_alphabet bm_ISO8601", "query": "is_empty (And (wrap X) (contains_cls true A))"}]
    cov["input_distribution"] = {"rxcheck": rx["distribution"] if rx else None, "oracle": orc["distribution"]}
    if rx and rx["mismatches"]:
        for m in rx["mismatches"][:3]:
            report_case(res, pid, dict(m, kind="regexp-engine-correspondence",
                                       broken="Regex.search (Coq) disagrees with Go regexp.MatchString"), found=False)
    for f in (orc["oracle_failures"] or [])[:3]:
        report_case(res, pid, dict(f, kind="matcher-" + f["clause"], replay_cmd="harness rxeval -matcher %s -input %s" % (f["matcher"], f["input_hex"])))
    if st["gen"] and not ok:
        rc, rep, _ = V.run([V.DRIVER], input="REPORT C19\nF\n", timeout=900)
        failing = []
        for line in rep.splitlines():
            t = line.split()
            if len(t) == 5 and t[0] == "R" and t[3] != "holds":
                failing.append((t[1], t[2], t[3], None if t[4] == "-" and t[3] != "fails" else [int(x) for x in t[4].split(",") if x != "-"]))
        if not failing:
            res.violation({"kind": "proof-obligation-failed", "broken": "Properties/C19.v no longer compiles", "detail": out[-2500:]}, found=False)
        confirmed = False
        for name, kind, status, wit in failing:
            case = {"kind": "matcher-" + kind, "matcher": name, "obligation": "C19 %s (%s)" % (kind, status),
                    "broken": "Properties/C19.v: c19_all_%s" % kind.split("_")[0]}
            if wit is not None:
                hx = utf8_hex(wit)
                ev = V.harness(["rxeval", "-matcher", name, "-input", hx])
                case.update(input_hex=hx, witness_runes=wit, impl=ev["extra"])
                acc = ev["extra"].get("accepted")
                # the witness is a concrete failing input if the real matcher behaves as the model says
                found = (acc is True) if kind in ("whole", "alphabet", "exact_sub") else (acc is False)
                if found:
                    confirmed = True
                    report_case(res, pid, case)
                    continue
            if not confirmed and not (orc["oracle_failures"] or []):
                report_case(res, pid, case, found=False)
    if thorough and ok:
        V.coqchk(res, "Properties/C19.v")
    return res.finish("proof")


def replay(path):
    rep = json.load(open(path))
    pid = rep.get("property")
    kind = rep.get("kind", "")
    V.build_go()
    if kind.startswith("matcher-") and "input_hex" in rep:
        ev = V.harness(["rxeval", "-matcher", rep["matcher"], "-input", rep["input_hex"]])
        print(json.dumps(ev["extra"]))
        bad = ev["extra"].get("accepted") and ev["extra"].get("outside_alphabet")
        print("REPRODUCED" if bad else "NOT-REPRODUCED")
        return 1 if bad else 0
    print("replay: nothing executable recorded for kind", kind, "- see the 'broken' field:", rep.get("broken"))
    return 1
