"""Per-property checks."""
import json, os, re
import vcheck as V
from vcheck import Broken

CHECKS = {}


def check(pid):
    def deco(f):
        CHECKS[pid] = f
        return f
    return deco


def setup():
    V.hygiene()
    rc, out = V.build_go()
    if rc != 0:
        raise Broken("cannot build harness:\n" + out)
    ok, out = V.run_gen()
    if not ok:
        raise Broken("gen failed:\n" + out)
    V.coq_makefile()
    ok, out = V.coq_make([])
    if not ok:
        V.log(out[-3000:])
        V.log("setup: some Coq targets failed (reported per property by the checks)")
    ok, out = V.build_driver()
    if not ok:
        raise Broken("driver build failed:\n" + out[-3000:])
    print("setup ok")
    return 0


def known_match(pid, case):
    """does a failing case satisfy a listed known-finding predicate?  returns the finding or None"""
    for f in V.load_known():
        if f.get("property") != pid or f.get("status", "open") != "open":
            continue
        pred = f.get("predicate", {})
        if all(re.search(v, str(case.get(k, ""))) for k, v in pred.items()):
            return f
    return None


def report_case(res, pid, case, found=True):
    f = known_match(pid, case)
    if f is not None:
        res.known_finding(f["id"] + " " + f["what"])
    else:
        res.violation(case, found)


def broken_tooling(res, st, what_for):
    """gen or correspondence build broke: a violation without failing input (after the search ran)"""
    if not st["gen"]:
        res.violation({"kind": "translator-failed", "detail": st["gen_out"][-2000:],
                       "broken": "translator /verif/go/cmd/gen could not translate the source shapes needed for " + what_for}, found=False)
    if not st["harness"]:
        raise Broken("/repo does not build with -tags verif:\n" + st["harness_out"][-3000:])
    if not st["driver"]:
        res.violation({"kind": "model-build-failed", "detail": st["driver_out"][-2000:],
                       "broken": "the Coq model (with regenerated data) no longer builds"}, found=False)


def parse_coq_witness_report(out):
    """parse `= [(name, [(kind, witness); ...]); ...]` printed by Eval vm_compute of a *_report"""
    txt = out[out.index("= ["):] if "= [" in out else ""
    txt = re.sub(r"\s+", " ", txt)
    items = []
    # split on top-level ("Name", [ ... ])
    for m in re.finditer(r'\("([A-Za-z0-9_]+)", \[(.*?)\]\)(?=; \("|\] *:)', txt):
        name, body = m.group(1), m.group(2)
        for k in re.finditer(r'\("([a-z_]+)", (None|Some None|Some \(Some \[([0-9; ]*)\]\))\)', body):
            kind, val, w = k.group(1), k.group(2), k.group(3)
            if val == "Some None":
                status, wit = "holds", None
            elif val == "None":
                status, wit = "out-of-fuel", None
            else:
                status, wit = "fails", [int(x) for x in w.replace(" ", "").split(";") if x]
            items.append((name, kind, status, wit))
    return items


def utf8_hex(runes):
    b = bytearray()
    for r in runes:
        try:
            b += chr(r).encode("utf8", "surrogatepass")
        except ValueError:
            b += b"\xef\xbf\xbd"
    return b.hex() or "-"


# ---------------------------------------------------------------------------------------------
@check("C19")
def c19(res):
    pid = "C19"
    st = V.prepare(res)
    broken_tooling(res, st, "the regexp literals of helpers.go")
    thorough = res.tier == "thorough"
    ok, out = (False, "") if not st["gen"] else V.prove(res, "Properties/C19.v")
    # tie: Regex.v's matcher against Go's regexp engine on every regexp literal of the tree
    rx = V.harness(["rxcheck", "-regexps", os.path.join(V.GEN_OUT, "regexps.tsv"), "-driver", V.DRIVER,
                    "-seed", str(res.seed), "-maxlen", "3" if not thorough else "4", "-n", "400" if not thorough else "4000"]) if st["driver"] else None
    # implementation-side oracle (independent restatement of the documented alphabets)
    orc = V.harness(["c19oracle", "-maxlen", "3" if not thorough else "4"])
    cov = res.coverage
    cov["evaluations"] = (rx["evaluations"] if rx else 0) + orc["evaluations"]
    cov["distinct_nontrivial"] = (rx["distinct_nontrivial"] if rx else 0) + orc["distinct_nontrivial"]
    cov["rule"] = ("theorems: reflection (verified derivative emptiness procedure) on the regenerated regexp ASTs, all string lengths; "
                   "tie: every regexp.MustCompile literal of the tree run by Go's regexp and by the extracted matcher on all strings "
                   "of length <= %s over the pattern's own characters plus HTML-significant ones, single/double substitutions of the "
                   "documented examples, and random mutations; non-trivial = distinct (regexp, string) pairs that are accepted" % (4 if thorough else 3))
    cov["samples"] = (rx["samples"] if rx else []) + [{"obligation": "C19_alphabet bm_ISO8601", "query": "is_empty (And (wrap X) (contains_cls true A))"}]
    cov["input_distribution"] = {"rxcheck": rx["distribution"] if rx else None, "oracle": orc["distribution"]}
    if rx and rx["mismatches"]:
        for m in rx["mismatches"][:3]:
            report_case(res, pid, dict(m, kind="regexp-engine-correspondence",
                                       broken="Regex.search (Coq) disagrees with Go regexp.MatchString"), found=False)
    for f in (orc["oracle_failures"] or [])[:3]:
        report_case(res, pid, dict(f, kind="matcher-" + f["clause"], replay_cmd="harness rxeval -matcher %s -input %s" % (f["matcher"], f["input_hex"])))
    if st["gen"] and not ok:
        rc, rep, _ = V.run([V.DRIVER], input="REPORT C19\nF\n", timeout=900)
        failing = []
        for line in rep.splitlines():
            t = line.split()
            if len(t) == 5 and t[0] == "R" and t[3] != "holds":
                failing.append((t[1], t[2], t[3], None if t[4] == "-" and t[3] != "fails" else [int(x) for x in t[4].split(",") if x != "-"]))
        if not failing:
            res.violation({"kind": "proof-obligation-failed", "broken": "Properties/C19.v no longer compiles", "detail": out[-2500:]}, found=False)
        confirmed = False
        for name, kind, status, wit in failing:
            case = {"kind": "matcher-" + kind, "matcher": name, "obligation": "C19 %s (%s)" % (kind, status),
                    "broken": "Properties/C19.v: c19_all_%s" % kind.split("_")[0]}
            if wit is not None:
                hx = utf8_hex(wit)
                ev = V.harness(["rxeval", "-matcher", name, "-input", hx])
                case.update(input_hex=hx, witness_runes=wit, impl=ev["extra"])
                acc = ev["extra"].get("accepted")
                # the witness is a concrete failing input if the real matcher behaves as the model says
                found = (acc is True) if kind in ("whole", "alphabet", "exact_sub") else (acc is False)
                if found:
                    confirmed = True
                    report_case(res, pid, case)
                    continue
            if not confirmed and not (orc["oracle_failures"] or []):
                report_case(res, pid, case, found=False)
    if thorough and ok:
        V.coqchk(res, "Properties/C19.v")
    return res.finish("proof")


def replay(path):
    rep = json.load(open(path))
    pid = rep.get("property")
    kind = rep.get("kind", "")
    V.build_go()
    if kind.startswith("matcher-") and "input_hex" in rep:
        ev = V.harness(["rxeval", "-matcher", rep["matcher"], "-input", rep["input_hex"]])
        print(json.dumps(ev["extra"]))
        bad = ev["extra"].get("accepted") and ev["extra"].get("outside_alphabet")
        print("REPRODUCED" if bad else "NOT-REPRODUCED")
        return 1 if bad else 0
    case = rep.get("case", rep)
    if pid and "input_hex" in case and "policy" in case and kind != "harness-stalled":
        # a document and a policy: run the property's oracle on exactly this case against the current tree
        ev = V.harness(["oracle", "-prop", pid, "-input", case["input_hex"], "-policy", json.dumps(case["policy"])])
        fails = ev.get("oracle_failures") or []
        for f in fails[:3]:
            print(json.dumps({k: f.get(k) for k in ("clause", "input_text", "output") if k in f})[:600])
        print("REPRODUCED" if fails else "NOT-REPRODUCED (the oracle accepts this case on the current tree)")
        return 1 if fails else 0
    print("replay: nothing executable recorded for kind", kind, "- see the 'broken' field:", rep.get("broken"))
    return 1


# ---------------------------------------------------------------------------------------------
# the generic check: theorems + the correspondence modes that tie the modelled code the
# property rests on + the independent implementation-side oracle (= failing-input search)

def hrun(res, args, seed=True):
    a = list(args) + ["-driver", V.DRIVER]
    if seed:
        a += ["-seed", str(res.seed)]
    return V.harness(a)


def orun(res, prop, thorough, extra=()):
    return V.harness(["oracle", "-prop", prop, "-seed", str(res.seed), "-policies", "150" if thorough else "40",
                      "-docs", "120" if thorough else "50"] + list(extra))


def merge_cov(res, s, label):
    cov = res.coverage
    cov["evaluations"] += s["evaluations"]
    cov["distinct_nontrivial"] += s["distinct_nontrivial"]
    cov.setdefault("input_distribution", {})[label] = dict(s.get("distribution") or {}, evaluations=s["evaluations"],
                                                           distinct_nontrivial=s["distinct_nontrivial"], **(s.get("extra") or {}))
    for x in (s.get("samples") or [])[:2]:
        if len(cov["samples"]) < 8:
            cov["samples"].append(dict(x, run=label) if isinstance(x, dict) else x)


def trim_case(c):
    out = {}
    for k, v in c.items():
        if isinstance(v, str) and len(v) > 4000:
            v = v[:4000] + "...[truncated]"
        out[k] = v
    return out


def generic(res, pid, prop_v, corr_runs, oracle_prop, what_for, rule, thorough_runs=None, extra_oracles=(), hyp_keys=("url_hypothesis_failures",)):
    thorough = res.tier == "thorough"
    st = V.prepare(res)
    broken_tooling(res, st, what_for)
    ok, out = (False, "") if not st["gen"] else V.prove(res, prop_v)
    res.coverage["rule"] = rule
    mismatches, oracle_fails = [], []
    if st["driver"]:
        for label, args in (thorough_runs if (thorough and thorough_runs) else corr_runs):
            try:
                s = hrun(res, args, seed=(args[0] not in ("loop", "forest")))
            except V.Stalled as e:
                # the run that ties the model to the code does not terminate on this tree: the implementation stalls on
                # one of its inputs (or has become far slower); the property is no longer shown to hold
                mismatches.append({"kind": "harness-stalled", "run": label, "detail": str(e)})
                continue
            merge_cov(res, s, label)
            for m in (s.get("mismatches") or []):
                mismatches.append(dict(m, run=label))
            for f in (s.get("oracle_failures") or []):
                oracle_fails.append(dict(f, run=label))
            for hk in hyp_keys:
                for hf in ((s.get("extra") or {}).get(hk) or []):
                    res.assumptions.append("oracle hypothesis violated (%s): %s" % (label, hf))
                    oracle_fails.append({"kind": "oracle-hypothesis", "clause": hf, "run": label})
    if oracle_prop:
        try:
            s = orun(res, oracle_prop, thorough)
            merge_cov(res, s, "oracle-" + oracle_prop)
            for f in (s.get("oracle_failures") or []):
                oracle_fails.append(dict(f, run="oracle"))
        except V.Stalled as e:
            mismatches.append({"kind": "harness-stalled", "run": "oracle-" + oracle_prop, "detail": str(e)})
    for name, args in extra_oracles:
        try:
            s = V.harness(list(args) + ["-seed", str(res.seed)])
        except V.Stalled as e:
            mismatches.append({"kind": "harness-stalled", "run": name, "detail": str(e)})
            continue
        merge_cov(res, s, name)
        for f in (s.get("oracle_failures") or []):
            oracle_fails.append(dict(f, run=name))
    # concrete property failures on the implementation
    seen = set()
    for f in oracle_fails:
        # one report per listed finding and one per clause among the cases no listed finding covers (a new failure of a
        # clause that a known finding also fails must not hide behind it)
        kf = known_match(pid, trim_case(f))
        key = "known:" + kf["id"] if kf else (f.get("clause") or f.get("kind") or "")[:50]
        if key in seen:
            continue
        seen.add(key)
        report_case(res, pid, trim_case(f), found=True)
    # a broken correspondence: search for a property failure on the disagreeing inputs first
    if mismatches:
        found_any = len(res.violations) > 0
        if oracle_prop and not found_any:
            # a few from every run (the exhaustive token sequences come first and are rarely well nested; the forest and
            # document runs disagree on inputs the property speaks about)
            by_run = {}
            for m in mismatches:
                by_run.setdefault(m.get("run"), []).append(m)
            cand = [m for ms in by_run.values() for m in ms[:1]] + [m for ms in by_run.values() for m in ms[1:6]]
            for m in cand[:18]:
                if "input_hex" not in m and "element" in m and isinstance(m.get("attrs"), list) and "policy" in m:
                    # an attribute-level disagreement: the same tag as a one-tag document
                    esc = lambda v: v.replace("&", "&amp;").replace('"', "&quot;")
                    doc = "<" + m["element"] + "".join(' %s="%s"' % (a.get("Key", ""), esc(a.get("Val", ""))) for a in m["attrs"]) + ">t"
                    m = dict(m, input_hex=doc.encode("utf-8", "surrogateescape").hex())
                if "input_hex" in m and "policy" in m:
                    s = V.harness(["oracle", "-prop", oracle_prop, "-input", m["input_hex"], "-policy", json.dumps(m["policy"])])
                    for f in (s.get("oracle_failures") or []):
                        found_any = True
                        report_case(res, pid, trim_case(dict(f, broken="correspondence " + m.get("kind", ""), model=m.get("model"), go=m.get("go"))), found=True)
                        break
                if found_any:
                    break
        if not found_any:
            m = mismatches[0]
            report_case(res, pid, trim_case(dict(m, broken="correspondence %s: the implementation no longer behaves as the Coq model (%s); "
                                                 "the property is no longer shown to hold" % (m.get("kind", ""), what_for))), found=False)
    if st["gen"] and not ok and not res.violations:
        res.violation({"kind": "proof-obligation-failed", "broken": prop_v + " no longer compiles", "detail": out[-2500:]}, found=False)
    if thorough and ok:
        V.coqchk(res, prop_v)
    return res.finish("proof")


SAN = lambda n, d: ("corr-san", ["corr", "-mode", "san", "-policies", str(n), "-docs", str(d)])
TOK = lambda n, d: ("corr-tok", ["corr", "-mode", "tok", "-policies", str(n), "-docs", str(d)])
LOOP = ("corr-loop", ["loop"])
LOOP_T = ("corr-loop", ["loop", "-maxlen", "4", "-corelen", "5"])
FOREST = ("corr-forest", ["forest"])
FOREST_T = ("corr-forest", ["forest", "-nodes", "5", "-corenodes", "6"])
RULE_FOREST = ("; (c) every well-formed forest of <=4 element nodes over 7 element kinds (dropped for lack of attributes, kept, skip-content, "
               "disallowed, pattern-matched, void) and of <=5 over 4 core kinds, a text token after every tag, for 3 policies (exhaustive)")
ATTRS = lambda g: ("corr-attrs-" + g, ["attrs", "-gen", g])
ATTRS_T = lambda g: ("corr-attrs-" + g, ["attrs", "-gen", g, "-full"])
FN = ("corr-fn", ["fn"])

RULE_LOOP = ("theorems over the Coq model of the token loop (all token lists, all policies); tie: write-chunk sequences of the implementation vs the "
             "extracted model on (a) every sequence of <=3 tokens over 28 archetypes and <=4 over 12 core archetypes for 6 policies (exhaustive), "
             "(b) random/hand policies x generated documents (trees, tag soup, byte mutations); oracle: independent check of the property on the "
             "real output. non-trivial = distinct observed outputs / cases that reach the property's mechanism")


@check("C01")
def c01(res):
    return generic(res, "C01", "Properties/C01.v", [LOOP, SAN(50, 50), TOK(10, 80)], "C01",
                   "the token loop and the tokenizer/escape model", RULE_LOOP,
                   thorough_runs=[LOOP_T, SAN(300, 100), TOK(40, 200)])


@check("C05")
def c05(res):
    return generic(res, "C05", "Properties/C05.v", [LOOP, SAN(50, 50), FN], "C05",
                   "the script/style gate of the token loop and normaliseElementName", RULE_LOOP,
                   thorough_runs=[LOOP_T, SAN(300, 100), FN])


@check("C08")
def c08(res):
    return generic(res, "C08", "Properties/C08.v", [LOOP, FOREST, SAN(50, 50)], "C08",
                   "the content-skipping state of the token loop", RULE_LOOP + RULE_FOREST, thorough_runs=[LOOP_T, FOREST_T, SAN(300, 100)])


@check("C15")
def c15(res):
    cmdbin = os.path.join(V.BUILD, "cmdbin")
    os.makedirs(cmdbin, exist_ok=True)
    for c in ("sanitise_ugc", "sanitise_html_email"):
        V.run(["go", "build", "-o", os.path.join(cmdbin, c), "./cmd/" + c], cwd=V.REPO, env=V.GOENV, check=True)
    ent = ["entry", "-cmd-ugc", os.path.join(cmdbin, "sanitise_ugc"), "-cmd-email", os.path.join(cmdbin, "sanitise_html_email")]
    return generic(res, "C15", "Properties/C15.v", [("corr-entry", ent)], None,
                   "the four entry points and the cmd tools",
                   "theorems over Entry.v (funnelling of the four entry points, blank short-circuit); tie/oracle: all four entry points x both writer "
                   "kinds x chunkings (nil, one byte at a time, every split point for inputs <=48 bytes, random with zero-length reads, data+EOF), "
                   "argument buffer unmodified, both cmd binaries built from the working tree vs their documented policy; non-trivial = distinct outputs",
                   thorough_runs=[("corr-entry", ent + ["-policies", "60", "-docs", "80"])])


@check("C16")
def c16(res):
    return generic(res, "C16", "Properties/C16.v", [("corr-rw", ["rw"])], None,
                   "the write sites of the token loop and the error plumbing of the entry points",
                   "theorems over Entry.sanitize_rw for every fault schedule; tie/oracle: a fault injected at every index k of each case's write "
                   "sequence (transient and permanent, io.Writer with and without WriteString) and a failing reader at offsets 0,1,n/2,n-1,n with "
                   "several error values; compared with the model's accepted chunks / call count / error; non-trivial = distinct (k, length, kind)",
                   thorough_runs=[("corr-rw", ["rw", "-policies", "40", "-docs", "50"])])


RULE_ATTRS = ("theorems over the Coq model of sanitizeAttrs (all attribute lists, all policies, all matcher interpretations); tie: "
              "VerifSanitizeAttrs (hook) vs the extracted model on generated (policy, element, attribute list) triples; oracle: the "
              "property's post-condition evaluated on re-tokenised real output. non-trivial = cases whose attribute list is changed")


@check("C11")
def c11(res):
    return generic(res, "C11", "Properties/C11.v", [ATTRS("link")], "C11",
                   "the link-hardening block of sanitizeAttrs", RULE_ATTRS + "; generator: a/area/link/base elements, all 32 option combinations, "
                   "1-4 attributes drawn from href (external, relative, invalid), rel (required words, words containing them, upper case, empty), target, id",
                   thorough_runs=[ATTRS_T("link")])


@check("C12")
def c12(res):
    return generic(res, "C12", "Properties/C12.v", [ATTRS("forced")], "C12",
                   "the crossorigin and sandbox passes of sanitizeAttrs and RequireSandboxOnIFrame", RULE_ATTRS +
                   "; generator: media/iframe elements, sandbox subsets (empty, full, the 14 singletons, random), repeated attributes, unknown tokens, mixed white space",
                   thorough_runs=[ATTRS_T("forced")])


@check("C02")
def c02(res):
    return generic(res, "C02", "Properties/C02.v", [ATTRS("general"), LOOP, SAN(40, 40), FN], "C02",
                   "the attribute filter of sanitizeAttrs, isDataAttribute and the bare-element rule of the token loop",
                   RULE_ATTRS + "; generator: random policies (element / pattern / global rules, overlapping patterns, data attributes, style rules) x attribute lists from the policy's own vocabulary",
                   thorough_runs=[ATTRS_T("general"), LOOP_T, SAN(200, 80), FN])


@check("C03")
def c03(res):
    return generic(res, "C03", "Properties/C03.v", [("corr-url", ["url"]), ATTRS("url"), ATTRS("general"), ("corr-dump", ["dump", "-n", "40"])], "C03",
                   "validURL, the URL switch of sanitizeAttrs, linkable() and the builder options that imply URL checking",
                   "theorems over the model of validURL / the URL pass with net/url as an oracle; generated position tables re-checked; tie: VerifValidURL vs the "
                   "extracted model on a URL corpus (obfuscated schemes, leading C0/space, embedded TAB/LF, backslashes, opaque, scheme-relative, percent escapes, userinfo, IPv6) "
                   "x 9 scheme/relative/custom-policy configurations, sanitizeAttrs on every URL fragment at every URL position under 6 rewriter / scheme / relative configurations (exhaustive grid) and on random policies, builder dumps; oracle: WHATWG scheme extraction on the real output at the 15 positions; "
                   "the net/url hypotheses are monitored on every parse. non-trivial = accepted URLs / changed attribute lists",
                   thorough_runs=[("corr-url", ["url", "-n", "5000"]), ATTRS("url"), ATTRS_T("general"), ("corr-dump", ["dump", "-n", "300"])])


@check("C10")
def c10(res):
    return generic(res, "C10", "Properties/C10.v", [("corr-style", ["style"]), FN, ATTRS("general")], "C10",
                   "sanitizeStyles, removeUnicode and the style routing of sanitizeAttrs",
                   "theorems over the model of sanitizeStyles with douceur as an oracle; tie: VerifSanitizeStyles / VerifRemoveUnicode vs the extracted model on style strings "
                   "(mixed allowed/disallowed declarations, vendor prefixes incl. stacked, upper case, numeric and character escapes, !important, comments, malformed tails) x rule sets in "
                   "all three scopes with handler / enum / regexp / default matchers; oracle: the style attribute of single-tag documents judged against the harness's own reading of the "
                   "rule set (declarations split by douceur, escaped values not judged), elements allowed by explicit entry / pattern / both; non-trivial = style strings of which something is kept",
                   thorough_runs=[("corr-style", ["style", "-n", "3000"]), FN, ATTRS_T("general")])


@check("C06")
def c06(res):
    return generic(res, "C06", "Properties/C06.v", [TOK(10, 80), SAN(50, 50), LOOP, FN], "C06",
                   "the text branch of the token loop, html escape/unescape and the tokenizer model", RULE_LOOP +
                   "; text-heavy fragments: named and numeric references incl. the Windows-1252 range, surrogates and int32 overflow, bare & and <, CR/LF forms, NUL, non-BMP, invalid UTF-8, RCDATA/RAWTEXT bodies",
                   thorough_runs=[TOK(60, 300), SAN(300, 100), LOOP_T, FN])


@check("C07")
def c07(res):
    return generic(res, "C07", "Properties/C07.v", [ATTRS("general"), SAN(40, 40), LOOP, ("corr-style", ["style"])], "C07",
                   "the rule lookups of sanitizeAttrs and the write-back of kept tokens", RULE_ATTRS +
                   "; oracle: canonical serialisations of random trees in the policy's own vocabulary must come back byte for byte, also after further rule-adding builder calls",
                   thorough_runs=[ATTRS_T("general"), SAN(200, 80), LOOP_T])


@check("C09")
def c09(res):
    return generic(res, "C09", "Properties/C09.v", [LOOP, FOREST, SAN(50, 50)], "C09",
                   "the closing-tag stack of the token loop", RULE_LOOP + RULE_FOREST + "; oracle: stack balance of the re-tokenised output on generated well-nested trees "
                   "(void elements, same-name nesting of kept and dropped elements, elements dropped for lack of attributes, skipped regions)",
                   thorough_runs=[LOOP_T, FOREST_T, SAN(300, 100)])


@check("C20")
def c20(res):
    return generic(res, "C20", "Properties/C20.v", [SAN(50, 50), ATTRS("link"), TOK(10, 60), ("corr-style", ["style"])], "C20",
                   "escape/unescape, the rel additions and the URL normal form", RULE_LOOP + "; oracle: Sanitize(Sanitize(x)) = Sanitize(x) on every generated case of the stated policy class",
                   thorough_runs=[SAN(300, 100), ATTRS_T("link"), TOK(40, 200), ("corr-style", ["style", "-n", "3000"])],
                   hyp_keys=("url_hypothesis_failures", "style_stability_failures"))


@check("C17")
def c17(res):
    return generic(res, "C17", "Properties/C17.v", [("corr-dump", ["dump", "-n", "60"])], None,
                   "the builder methods of policy.go and helpers.go",
                   "theorems over Builder.apply (rules accumulate, switches take their last setting); tie: interleaved builder histories on 2-3 policies with every table of every "
                   "policy compared with the model after every call (VerifDumpPolicy); oracle: outputs of a policy, of the same history with the rule-adding calls shuffled, and with "
                   "all names upper-cased must agree, shipped constructors return independent values; non-trivial = distinct policy states / outputs",
                   thorough_runs=[("corr-dump", ["dump", "-n", "400"])],
                   extra_oracles=[("oracle-c17", ["c17"])])


@check("C14")
def c14(res):
    return generic(res, "C14", "Properties/C14.v", [LOOP, SAN(40, 40), ("corr-reccheck", ["reccheck"])], None,
                   "the closing-tag stack indexing, isDataAttribute, removeUnicode and recursiveCheck",
                   "theorems: no panic state reachable, all model functions total, recursiveCheck quadratic in sub-handler calls and correct; tie: every correspondence case runs the implementation under recover(); "
                   "recursiveCheck (css.VerifRecursiveCheck) vs the extracted model on result and number of sub-handler calls (every value of <=4 components over 3 strings under 5 families of sub-handlers, random "
                   "values and sub-handler sets, adversarial all-prefixes-accepted values up to 64 components) with a brute-force oracle for the result and the proved bound on the calls; oracle: size-parameterised "
                   "adversarial families (n = 8..48 repetitions of 14 tokens in 28 shorthand CSS properties, 20000-deep nesting, 20000 attributes, long escape chains) under a wall-clock "
                   "budget of 3 s per short input, and panic hunting over mutated documents on all entry points",
                   thorough_runs=[LOOP_T, SAN(300, 100), ("corr-reccheck", ["reccheck", "-n", "20000"])],
                   extra_oracles=[("oracle-c14", ["c14"])])


@check("C13")
def c13(res):
    # the stress run is built with the race detector; a race report makes the process exit non-zero
    race = os.path.join(V.BIN, "harness_race")
    rc, out, _ = V.run(["go", "build", "-race", "-tags", "verif", "-o", race, "./cmd/harness"], cwd=os.path.join(V.ROOT, "go"), env=V.GOENV, timeout=900)
    if rc != 0:
        raise Broken("cannot build the race-detector harness:\n" + out[-2000:])
    st = V.prepare(res, need_driver=False)
    broken_tooling(res, st, "nothing generated")
    ok, out = V.prove(res, "Properties/C13.v")
    thorough = res.tier == "thorough"
    rc, out2, dt = V.run([race, "c13", "-seed", str(res.seed)] + (["-policies", "60", "-docs", "120"] if thorough else []), env=dict(V.GOENV, GORACE="halt_on_error=1 exitcode=66", GOMEMLIMIT="3GiB"), timeout=1500 if thorough else 240)
    lines = [l for l in out2.split("\n") if l.startswith("{")]
    res.coverage["rule"] = ("theorems: rule order irrelevant, no dependence on earlier calls (the model is a function); validation (not proof): race-detector build, 16 goroutines sharing each "
                            "finished policy over generated documents compared with sequential results, repeated sequential passes, freshly built equal policies (map order), policy dump before/after")
    if "DATA RACE" in out2 or rc == 66:
        res.violation({"kind": "data-race", "clause": "the race detector reported a data race while goroutines shared a finished policy", "race_log": out2[-6000:]}, found=True)
    elif rc != 0 or not lines:
        # a crash (e.g. fatal error: concurrent map writes), a kill for memory or a stall of the stress run
        res.violation({"kind": "stress-run-crashed", "clause": "the concurrent stress run on a shared finished policy crashed, was killed or did not finish (rc=%s)" % rc,
                       "log": out2[-6000:]}, found=True)
    if lines:
        s = json.loads(lines[-1])
        merge_cov(res, s, "race-stress")
        seen = set()
        for f in (s.get("oracle_failures") or []):
            k = f.get("clause", "")[:40]
            if k not in seen:
                seen.add(k)
                report_case(res, "C13", trim_case(f), found=True)
    if not ok and not res.violations:
        res.violation({"kind": "proof-obligation-failed", "broken": "Properties/C13.v no longer compiles", "detail": out[-2000:]}, found=False)
    if thorough and ok:
        V.coqchk(res, "Properties/C13.v")
    return res.finish("proof")


@check("C18")
def c18(res):
    kwh = ["kwh", "-table", os.path.join(V.GEN_OUT, "css_table.tsv"), "-kwhandlers", os.path.join(V.GEN_OUT, "css_kw_handlers.tsv"), "-keywords", os.path.join(V.GEN_OUT, "css_keywords.tsv")]
    return generic(res, "C18", "Properties/C18.v", [("corr-regexps", ["rxcheck", "-regexps", os.path.join(V.GEN_OUT, "regexps.tsv"), "-only", "css_", "-n", "600"]), ("corr-kwhandlers", kwh)], None,
                   "the regexps, keyword lists and default handler table of css/handlers.go",
                   "theorems: reflection (verified emptiness procedure) on the regenerated css regexps: whole-value and hostile-free for all string lengths, keyword lists, table lookup shape; "
                   "whole handlers that are disjunctions of conditions (141 functions, 180 table entries) proved to accept no hostile value; recursiveCheck composes; "
                   "tie: every css regexp run by Go's engine and by the extracted matcher; every such handler vs its model (own keywords and generic values, joined, padded with "
                   "ASCII and multi-byte white space, upper-cased, mutated, with hostile fragments); oracle (the property's own bounded-exhaustive quantifier): for all 213 table entries, values from the "
                   "handler's vocabulary with 18 hostile fragments glued / appended / prepended / inserted at every byte position and token boundary; unknown properties reject everything. "
                   "non-trivial = accepted mutated values",
                   extra_oracles=[("oracle-c18", ["c18", "-table", os.path.join(V.GEN_OUT, "css_table.tsv"), "-keywords", os.path.join(V.GEN_OUT, "css_keywords.tsv")])],
                   thorough_runs=[("corr-regexps", ["rxcheck", "-regexps", os.path.join(V.GEN_OUT, "regexps.tsv"), "-only", "css_", "-n", "6000"]), ("corr-kwhandlers", kwh + ["-n", "2500"])])


@check("C04")
def c04(res):
    return generic(res, "C04", "Properties/C04.v", [("corr-shipped", ["shipped", "-regexps", os.path.join(V.GEN_OUT, "regexps.tsv")]), LOOP, SAN(30, 40), ATTRS("general")], None,
                   "UGCPolicy / StrictPolicy and the Allow* helpers (builder scripts), the token loop and sanitizeAttrs",
                   "theorems over the model's build of the regenerated builder scripts (tables = documented vocabulary, Strict emits only text, UGC tags in the vocabulary); tie: every table of the real "
                   "UGCPolicy()/StrictPolicy() vs the model's build of the translated scripts, plus the loop / attrs correspondences; oracle: XSS families and generated documents through both policies, "
                   "output re-tokenised and parsed with html.ParseFragment in ten containers against an independently restated vocabulary, URL schemes, pass-through of vocabulary documents",
                   thorough_runs=[("corr-shipped", ["shipped", "-regexps", os.path.join(V.GEN_OUT, "regexps.tsv"), "-docs", "20000"]), LOOP_T, SAN(200, 80), ATTRS_T("general")])
