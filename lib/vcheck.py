"""Infrastructure of ./check: builds, Coq obligations, harness runs, evidence, violations."""
import fcntl, hashlib, json, os, re, shutil, subprocess, sys, time

ROOT = os.path.dirname(os.path.dirname(os.path.abspath(__file__)))
REPO = os.environ.get("VERIF_REPO", "/repo")
COQ = os.path.join(ROOT, "coq")
BUILD = os.path.join(ROOT, ".build")
BIN = os.path.join(BUILD, "bin")
GEN_OUT = os.path.join(COQ, "Generated")
EVID = os.path.join(ROOT, "evidence")
REPLAYS = os.path.join(ROOT, "replays")
GOENV = dict(os.environ, GOFLAGS="-mod=mod", GOPROXY="off", GOSUMDB="off", GOTOOLCHAIN="local",
             GOCACHE=os.path.join(BUILD, "gocache"))

TRUSTED_BASE = [
    "Coq 8.16.1 kernel and coqc (vm_compute used for reflection; native_compute not used)",
    "no axioms: Print Assumptions reports 'Closed under the global context' for every property theorem (recorded per run under coverage.assumptions)",
    "translator /verif/go/cmd/gen (go/parser, go/ast, regexp/syntax): emits coq/Generated/*.v from /repo's working tree on every run",
    "extraction: ExtrOcamlBasic only, no Extract Constant / Extract Inductive of our own; N, Z, positive, nat stay inductive; OCaml 4.13.1 ocamlfind ocamlopt",
    "correspondence harness /verif/go/cmd/harness and OCaml driver /verif/driver/driver.ml (differential testing of model vs implementation)",
    "Go regexp engine == Regex.search on the regexp/syntax AST (validated by rxcheck on every run)",
    "x/net/html v0.26.0 tokenizer and escaping as modelled (validated on every input of every run); net/url and douceur are oracles with monitored hypotheses",
]


class Broken(Exception):
    """the machinery is broken (exit 2)"""


def log(*a):
    print(*a, file=sys.stderr, flush=True)


def run(cmd, cwd=None, timeout=1800, env=None, check=False, input=None):
    t0 = time.time()
    try:
        p = subprocess.run(cmd, cwd=cwd, env=env, input=input, stdout=subprocess.PIPE, stderr=subprocess.STDOUT,
                           timeout=timeout, text=True, errors="replace")
        out, rc = p.stdout, p.returncode
    except subprocess.TimeoutExpired as e:
        out = (e.stdout or "") if isinstance(e.stdout, str) else (e.stdout or b"").decode("utf8", "replace")
        out += "\n[timeout after %ss]" % timeout
        rc = 124
    if check and rc != 0:
        raise Broken("command failed (%s): %s\n%s" % (rc, " ".join(cmd), out[-4000:]))
    return rc, out, time.time() - t0


class Lock:
    def __enter__(self):
        os.makedirs(BUILD, exist_ok=True)
        self.f = open(os.path.join(BUILD, "lock"), "w")
        fcntl.flock(self.f, fcntl.LOCK_EX)
        return self

    def __exit__(self, *a):
        fcntl.flock(self.f, fcntl.LOCK_UN)
        self.f.close()


# ---------------------------------------------------------------------------------------------
# builds

def sha_files(paths):
    h = hashlib.sha256()
    for p in sorted(paths):
        h.update(p.encode())
        with open(p, "rb") as f:
            h.update(f.read())
    return h.hexdigest()


def build_go():
    os.makedirs(BIN, exist_ok=True)
    gosum = os.path.join(ROOT, "go", "go.sum")
    if os.path.exists(os.path.join(REPO, "go.sum")):
        shutil.copyfile(os.path.join(REPO, "go.sum"), gosum)
    run(["go", "build", "-o", os.path.join(BIN, "gen"), "./cmd/gen"], cwd=os.path.join(ROOT, "go"), env=GOENV, check=True)
    rc, out, _ = run(["go", "build", "-tags", "verif", "-o", os.path.join(BIN, "harness"), "./cmd/harness"],
                     cwd=os.path.join(ROOT, "go"), env=GOENV)
    return rc, out


def run_gen():
    """regenerate coq/Generated from /repo. returns (ok, output)"""
    rc, out, _ = run([os.path.join(BIN, "gen"), "-repo", REPO, "-out", GEN_OUT], timeout=120)
    return rc == 0, out


def coq_makefile():
    mk = os.path.join(COQ, "Makefile")
    cp = os.path.join(COQ, "_CoqProject")
    if not os.path.exists(mk) or os.path.getmtime(mk) < os.path.getmtime(cp):
        run(["coq_makefile", "-f", "_CoqProject", "-o", "Makefile"], cwd=COQ, check=True)


def coq_make(targets, timeout=1500):
    """full .vo build of the targets. returns (ok, output)"""
    coq_makefile()
    rc, out, dt = run(["make", "-j16", "-k"] + targets, cwd=COQ, timeout=timeout)
    return rc == 0, out


def coq_eval(body, timeout=600):
    """compile a scratch file against the project, return coqc's output"""
    d = os.path.join(BUILD, "scratch")
    os.makedirs(d, exist_ok=True)
    name = "S%s" % hashlib.sha1(body.encode()).hexdigest()[:12]
    p = os.path.join(d, name + ".v")
    with open(p, "w") as f:
        f.write(body)
    args = []
    for line in open(os.path.join(COQ, "_CoqProject")):
        m = re.match(r"-Q (\S+) (\S+)", line)
        if m:
            args += ["-Q", os.path.join(COQ, m.group(1)), m.group(2)]
    rc, out, _ = run(["coqc"] + args + [p], cwd=d, timeout=timeout)
    for ext in (".vo", ".vok", ".vos", ".glob", ".v"):
        try:
            os.remove(os.path.join(d, name + ext))
        except OSError:
            pass
    return rc, out


def model_sources():
    out = []
    for line in open(os.path.join(COQ, "_CoqProject")):
        line = line.strip()
        if line.endswith(".v") and not line.startswith(("Properties/", "Proofs/")):
            out.append(os.path.join(COQ, line))
    out.append(os.path.join(COQ, "Extract", "Extract.v"))
    out.append(os.path.join(ROOT, "driver", "driver.ml"))
    return [p for p in out if os.path.exists(p)]


def build_driver():
    """extract the model and build the OCaml driver (cached on the hash of its sources)"""
    d = os.path.join(BUILD, "driver")
    os.makedirs(d, exist_ok=True)
    key = sha_files(model_sources())
    stamp = os.path.join(d, "stamp")
    if os.path.exists(stamp) and open(stamp).read() == key and os.path.exists(os.path.join(d, "driver")):
        return True, ""
    # the .vo files the extraction needs
    deps = []
    for line in open(os.path.join(COQ, "Extract", "Extract.v")):
        m = re.match(r"From BM Require Import (.*)\.", line.strip())
        if m:
            deps += m.group(1).split()
    vos = []
    for line in open(os.path.join(COQ, "_CoqProject")):
        line = line.strip()
        if line.endswith(".v") and os.path.basename(line)[:-2] in deps:
            vos.append(line[:-2] + ".vo")
    ok, out = coq_make(vos)
    if not ok:
        return False, out
    shutil.copyfile(os.path.join(COQ, "Extract", "Extract.v"), os.path.join(d, "Extract.v"))
    args = []
    for line in open(os.path.join(COQ, "_CoqProject")):
        m = re.match(r"-Q (\S+) (\S+)", line)
        if m:
            args += ["-Q", os.path.join(COQ, m.group(1)), m.group(2)]
    rc, out, _ = run(["coqc"] + args + ["Extract.v"], cwd=d, timeout=600)
    if rc != 0:
        return False, out
    shutil.copyfile(os.path.join(ROOT, "driver", "driver.ml"), os.path.join(d, "driver.ml"))
    rc, out2, _ = run(["ocamlfind", "ocamlopt", "-O3", "-w", "-a", "model.mli", "model.ml", "driver.ml", "-o", "driver"],
                      cwd=d, timeout=600)
    if rc != 0:
        return False, out + out2
    with open(stamp, "w") as f:
        f.write(key)
    return True, out


class Stalled(Exception):
    pass


def harness(args, timeout=900):
    """run a harness subcommand, parse its JSON summary"""
    rc, out, dt = run([os.path.join(BIN, "harness")] + args, timeout=timeout, env=GOENV)
    if rc == 124:
        raise Stalled("harness %s did not finish within %ss" % (" ".join(args[:3]), timeout))
    if rc < 0:
        raise Stalled("harness %s was killed by signal %s (out of memory?)" % (" ".join(args[:3]), -rc))
    lines = [l for l in out.split("\n") if l.startswith("{")]
    if rc == 2 and not lines:
        # the Go runtime gave up inside the harness process: implementation calls run under recover(), so what is left is a
        # fatal error (stack overflow, concurrent map access, out of memory), which no recover() catches
        fatal = [l for l in out.split("\n") if l.startswith("fatal error:") or l.startswith("runtime: goroutine stack exceeds")]
        if fatal:
            raise Stalled("harness %s died of a fatal runtime error while running the implementation: %s" % (" ".join(args[:3]), " / ".join(fatal[:2])))
    if rc != 0 or not lines:
        raise Broken("harness %s failed (rc=%s):\n%s" % (args[0], rc, out[-3000:]))
    return json.loads(lines[-1])


DRIVER = os.path.join(BUILD, "driver", "driver")

# ---------------------------------------------------------------------------------------------
# hygiene: no axioms, no admits, no disabled checks anywhere in the development

FORBIDDEN = re.compile(r"\b(Admitted|admit|Axiom|Axioms|Parameter|Parameters|Conjecture|Conjectures|Admit Obligations|"
                       r"Unset Guard Checking|Unset Positivity Checking|Unset Universe Checking|bypass_check|"
                       r"native_compute)\b|-type-in-type|-impredicative-set")


def strip_comments(src):
    out, depth, i = [], 0, 0
    while i < len(src):
        if src.startswith("(*", i):
            depth += 1
            i += 2
        elif src.startswith("*)", i) and depth:
            depth -= 1
            i += 2
        else:
            if depth == 0:
                out.append(src[i])
            i += 1
    return "".join(out)


def hygiene():
    bad = []
    for dp, dn, fn in os.walk(COQ):
        for f in fn:
            if f.endswith(".v") or f == "_CoqProject":
                p = os.path.join(dp, f)
                src = strip_comments(open(p, errors="replace").read())
                # string literals may legitimately contain the words
                src = re.sub(r'"[^"]*"', '""', src)
                for m in FORBIDDEN.finditer(src):
                    bad.append("%s: %s" % (os.path.relpath(p, ROOT), m.group(0)))
    if bad:
        raise Broken("forbidden constructs in the Coq development:\n" + "\n".join(bad))


def parse_assumptions(out):
    """Print Assumptions blocks in coqc output -> list of strings"""
    res = []
    for m in re.finditer(r"(Closed under the global context|Axioms:\n(?:.+\n?)+?)(?=\n\S|\Z)", out):
        res.append(m.group(1).strip())
    return res


def count_obligations(prop_file):
    """Theorem/Lemma/Example/Corollary statements in the dependency closure (inside coq/) of a Properties file"""
    coq_makefile()
    deps_file = os.path.join(COQ, ".Makefile.d")
    if not os.path.exists(deps_file):
        run(["make", ".Makefile.d"], cwd=COQ)
    graph = {}
    if os.path.exists(deps_file):
        for line in open(deps_file):
            if ":" not in line:
                continue
            lhs, rhs = line.split(":", 1)
            tg = [t for t in lhs.split() if t.endswith(".vo")]
            ds = [t for t in rhs.split() if t.endswith(".vo") and not t.startswith("/")]
            for t in tg:
                graph.setdefault(t, set()).update(ds)
    seen, todo = set(), [prop_file[:-2] + ".vo"]
    while todo:
        x = todo.pop()
        if x in seen:
            continue
        seen.add(x)
        todo += list(graph.get(x, ()))
    n, files = 0, []
    for vo in sorted(seen):
        v = os.path.join(COQ, vo[:-3] + ".v")
        if os.path.exists(v):
            src = strip_comments(open(v, errors="replace").read())
            k = len(re.findall(r"^\s*(?:Theorem|Lemma|Corollary|Example|Fact|Remark)\s", src, re.M))
            n += k
            files.append(os.path.relpath(v, COQ))
    return n, files


# ---------------------------------------------------------------------------------------------
# findings, evidence, violations

def load_known():
    p = os.path.join(ROOT, "known_findings.json")
    if not os.path.exists(p):
        return []
    return json.load(open(p)).get("findings", [])


class Result:
    def __init__(self, pid, tier, seed):
        self.pid, self.tier, self.seed = pid, tier, seed
        self.t0 = time.time()
        self.violations = []   # (replay dict, found_input: bool)
        self.known = []        # strings
        self.coverage = {"evaluations": 0, "distinct_nontrivial": 0, "rule": "", "samples": [],
                         "obligations": 0, "discharged": 0, "checker_cmd": "", "trusted_base": list(TRUSTED_BASE)}
        self.assumptions = []

    def violation(self, replay, found=True):
        self.violations.append((replay, found))

    def known_finding(self, text):
        if text not in self.known:
            self.known.append(text)

    def finish(self, level="proof"):
        os.makedirs(EVID, exist_ok=True)
        os.makedirs(REPLAYS, exist_ok=True)
        ev = {"property_id": self.pid, "tier": self.tier, "seed": self.seed, "level": level,
              "coverage": self.coverage, "assumptions": self.assumptions, "wall_s": round(time.time() - self.t0, 2),
              "violations": len(self.violations), "known_findings": self.known}
        with open(os.path.join(EVID, self.pid + ".json"), "w") as f:
            json.dump(ev, f, indent=1, ensure_ascii=False, default=str)
        for k in self.known:
            print("KNOWN-FINDING: property=%s %s" % (self.pid, k))
        # replay files of earlier runs of this property describe another tree: remove them
        import glob
        for old in glob.glob(os.path.join(REPLAYS, self.pid + "-*.json")):
            try:
                os.remove(old)
            except OSError:
                pass
        if not self.violations:
            print("OK property=%s tier=%s evaluations=%s obligations=%s/%s wall=%.1fs" % (
                self.pid, self.tier, self.coverage.get("evaluations"), self.coverage.get("discharged"),
                self.coverage.get("obligations"), time.time() - self.t0))
            return 0
        for i, (rep, found) in enumerate(self.violations[:5]):
            path = os.path.join(REPLAYS, "%s-%d.json" % (self.pid, i))
            rep = dict(rep, property=self.pid)
            with open(path, "w") as f:
                json.dump(rep, f, indent=1, ensure_ascii=False, default=str)
            print("VIOLATION property=%s replay=%s%s" % (self.pid, path, "" if found else " no-failing-input-found"))
        return 1


def prepare(res, need_driver=True):
    """common build steps. Returns dict with flags about what broke (nothing broken = all True)."""
    st = {"gen": True, "gen_out": "", "harness": True, "harness_out": "", "driver": True, "driver_out": ""}
    hygiene()
    rc, out = build_go()
    if rc != 0:
        st["harness"], st["harness_out"] = False, out
    ok, out = run_gen()
    if not ok:
        st["gen"], st["gen_out"] = False, out
    if need_driver:
        ok, out = build_driver()
        if not ok:
            st["driver"], st["driver_out"] = False, out
    return st


def prove(res, prop_v, extra_targets=()):
    """build Properties/<prop>.vo; fill obligations/discharged/assumptions. returns (ok, output)"""
    target = prop_v[:-2] + ".vo"
    # force re-check of the property file itself so that Print Assumptions is re-printed
    try:
        os.remove(os.path.join(COQ, target))
    except OSError:
        pass
    ok, out = coq_make([target] + list(extra_targets))
    n, files = count_obligations(prop_v)
    res.coverage["obligations"] = n
    res.coverage["discharged"] = n if ok else 0
    res.coverage["checker_cmd"] = "cd /verif/coq && coq_makefile -f _CoqProject -o Makefile && make -j16 %s  (full .vo build; thorough tier adds coqchk -silent -o)" % target
    res.coverage["proof_files"] = files
    asm = parse_assumptions(out)
    res.coverage["print_assumptions"] = asm
    bad = [a for a in asm if not a.startswith("Closed under")]
    if bad:
        res.assumptions.append("Print Assumptions reported: " + "; ".join(bad))
    return ok, out


def coqchk(res, prop_v):
    """thorough tier: independent re-check of the compiled property and its dependencies"""
    mod = "BM." + os.path.basename(prop_v)[:-2]
    args = []
    for line in open(os.path.join(COQ, "_CoqProject")):
        m = re.match(r"-Q (\S+) (\S+)", line)
        if m:
            args += ["-Q", os.path.join(COQ, m.group(1)), m.group(2)]
    rc, out, dt = run(["coqchk", "-silent", "-o"] + args + [mod], cwd=COQ, timeout=3000)
    res.coverage["coqchk"] = {"rc": rc, "wall_s": round(dt, 1), "tail": out[-1500:]}
    return rc == 0


# ---------------------------------------------------------------------------------------------

def main(argv):
    if not argv:
        print(__doc__)
        return 2
    import props
    cmd = argv[0]
    tier = os.environ.get("VERIF_TIER", "quick")
    if "--tier" in argv:
        tier = argv[argv.index("--tier") + 1]
    try:
        seed = int(os.environ.get("VERIF_SEED", "1"))
    except ValueError:
        seed = 1
    try:
        with Lock():
            if cmd == "setup":
                return props.setup()
            if cmd == "replay":
                return props.replay(argv[1])
            if cmd in props.CHECKS:
                res = Result(cmd, tier, seed)
                return props.CHECKS[cmd](res)
            print("unknown property or command:", cmd)
            return 2
    except Broken as e:
        log("BROKEN:", e)
        return 2
