#!/usr/bin/env python3
"""Writes MANIFEST.json from the table below (kept next to the checks so that it stays in step)."""
import json, os
ROOT = os.path.dirname(os.path.dirname(os.path.abspath(__file__)))

NOTE_COMMON = ("Trusted: Coq 8.16.1 kernel (vm_compute for reflection, no native_compute), no axioms "
               "(Print Assumptions: closed under the global context, re-printed on every run into the evidence), "
               "the translator go/cmd/gen, extraction via ExtrOcamlBasic only, the correspondence harness and driver. ")

CLAIMED = {
 "C19": dict(
   category="proof",
   text="Theorems C19_whole_value / C19_alphabet / C19_exact / C19_examples (Properties/C19.v) hold for strings of every length: "
        "they are closed by a verified derivative-based emptiness procedure (Regex/RegexSound.v) run by vm_compute on the regexp ASTs "
        "that the translator regenerates from helpers.go on every run, so an edited literal is re-proved or refuted with a witness string "
        "that is then confirmed on the real exported matcher. Unit tests can only sample strings.",
   design_ref="DESIGN.md section 5 C19, section 3.6",
   note=NOTE_COMMON + "Go's regexp engine is assumed to implement Regex.search on the regexp/syntax AST; this is validated on every run (rxcheck: every "
        "regexp literal of the tree, exhaustive short strings + substitutions of documented examples). Documented alphabets/forms in Spec/Matchers.v are my reading of helpers.go's doc comments.",
   technique="Coq proof by reflection: verified regexp emptiness/inclusion decision procedure on translator-regenerated ASTs; differential validation of the matcher against Go regexp"),
}

NOT_YET = {}

def main():
    props = [json.loads(l) for l in open(os.path.join(ROOT, "properties.jsonl"))]
    checks, na = [], []
    for p in props:
        pid = p["id"]
        if pid in CLAIMED:
            c = CLAIMED[pid]
            checks.append({
                "property_id": pid,
                "quick_cmd": "./check %s --tier quick" % pid,
                "thorough_cmd": "./check %s --tier thorough" % pid,
                "evidence_file": "/verif/evidence/%s.json" % pid,
                "replay_cmd_template": "./check replay {path}",
                "engine": "coq-model+correspondence",
                "level_claimed": {"category": c["category"], "text": c["text"], "design_ref": c["design_ref"]},
                "level_note": c["note"],
                "technique": c["technique"],
            })
        else:
            na.append({"property_id": pid, "reason": NOT_YET.get(pid, "check not built yet in this round (planned: see DESIGN.md section 5); not claimed until its theorem and correspondence run")})
    m = {
        "version": 1,
        "setup_cmd": "./check setup",
        "hooks": {
            "guard": "verif",
            "enable": "go build -tags verif (files verif_hooks.go / css/verif_hooks.go carry //go:build verif)",
            "baseline_off_cmd": "cd /repo && GOFLAGS=-mod=mod GOPROXY=off GOSUMDB=off GOTOOLCHAIN=local go test -vet=off -count=1 ./...",
            "source_commits": [l.strip() for l in open(os.path.join(ROOT, "MANIFEST.hooks")) if l.strip() and not l.startswith("#")],
            "add_only": True,
        },
        "engines": [{"name": "coq-model+correspondence", "path": "/verif/check",
                     "serves_properties": sorted(CLAIMED),
                     "kind_free_text": "Coq 8.16 model and theorems (coq/), Go translator + harness (go/), OCaml driver running the extracted model (driver/)"}],
        "checks": checks,
        "not_applicable": na,
        "notes": "All checks go through ./check <id>; they regenerate coq/Generated from /repo's working tree, rebuild the proofs that depend on it, rebuild the harness with -tags verif and rerun the correspondence. known_findings.json lists recorded/fixed defects.",
    }
    with open(os.path.join(ROOT, "MANIFEST.json"), "w") as f:
        json.dump(m, f, indent=1)
    print("MANIFEST.json: %d checks, %d not claimed" % (len(checks), len(na)))

if __name__ == "__main__":
    main()
