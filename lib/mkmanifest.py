#!/usr/bin/env python3
"""Writes MANIFEST.json from the table below (kept next to the checks so that it stays in step)."""
import json, os
ROOT = os.path.dirname(os.path.dirname(os.path.abspath(__file__)))

NOTE_COMMON = ("Trusted: Coq 8.16.1 kernel (vm_compute for reflection, no native_compute), no axioms "
               "(Print Assumptions: closed under the global context, re-printed on every run into the evidence), "
               "the translator go/cmd/gen, extraction via ExtrOcamlBasic only, the correspondence harness and driver. ")

CLAIMED = {
 "C19": dict(
   category="proof",
   text="Theorems C19_whole_value / C19_alphabet / C19_exact / C19_examples (Properties/C19.v) hold for strings of every length: "
        "they are closed by a verified derivative-based emptiness procedure (Regex/RegexSound.v) run by vm_compute on the regexp ASTs "
        "that the translator regenerates from helpers.go on every run, so an edited literal is re-proved or refuted with a witness string "
        "that is then confirmed on the real exported matcher. Unit tests can only sample strings.",
   design_ref="DESIGN.md section 5 C19, section 3.6",
   note=NOTE_COMMON + "Go's regexp engine is assumed to implement Regex.search on the regexp/syntax AST; this is validated on every run (rxcheck: every "
        "regexp literal of the tree, exhaustive short strings + substitutions of documented examples). Documented alphabets/forms in Spec/Matchers.v are my reading of helpers.go's doc comments.",
   technique="Coq proof by reflection: verified regexp emptiness/inclusion decision procedure on translator-regenerated ASTs; differential validation of the matcher against Go regexp"),
}


def _c(category, text, design_ref, note, technique):
    return dict(category=category, text=text, design_ref=design_ref, note=NOTE_COMMON + note, technique=technique)

TIE_NOTE = ("The hand-written model is tied to sanitize.go by differential runs of the implementation (built with -tags verif) against the extracted model; "
            "its strength is bounded by the generators (distribution recorded in the evidence). x/net/html, net/url and douceur are modelled / oracles. ")

CLAIMED.update({
 "C01": _c("proof", "Theorem C01_items_partial (all token lists, all policies without AllowUnsafe): every tag the loop emits names an allowed element, comments only when allowed, "
           "no doctype, everything else escaped input text or the AddSpace blank. Theorem C01_output_tokens (all input byte strings, every policy without AllowUnsafe and raw-text elements; comments may be kept): the tokens the tokenizer model reads "
           "from the sanitized bytes are text or tags of allowed elements, never comment or doctype (round-trip theorem retokenize_sanitize). Partial: byte level for raw-text policies and the tree-builder clause are checked by the "
           "implementation-side oracle (html.Tokenizer and html.ParseFragment in ten containers) on every generated case.", "DESIGN.md section 5 C01",
           TIE_NOTE + "Tree-builder clause argued, not proved.", "Coq proof over an executable model of the token loop + differential correspondence (bounded-exhaustive token sequences) + re-parse oracle"),
 "C05": _c("proof", "Theorems C05_tags / C05_literal_names / C05_body: for every policy value without AllowUnsafe (tables naming script/style, patterns matching them, modified skip sets included) "
           "and every token list no script/style tag is emitted, nothing is written unescaped, and the raw-text body token after a script/style start or self-closing tag yields nothing; C05_output_tokens states the same of the tokens read back from the output bytes (policies without other raw-text elements).",
           "DESIGN.md section 5 C05", TIE_NOTE, "Coq proof over the loop model + bounded-exhaustive correspondence + marker oracle"),
 "C08": _c("proof", "Theorem C08_skipping_emits_nothing_partial: in the content-skipping state the loop emits nothing but the AddSpace blank (all token lists). C08_tree_semantics (induction over trees, Proofs/TreeSem.v): for every well-formed forest without script/style, every policy and matcher interpretation, the loop emits exactly the denotation out_node: a disallowed skip-content element leaves only AddSpace blanks (C08_skipped_content_absent, nesting included), everything else keeps its place; C08_texts: the output texts are exactly the texts outside such elements. Partial: the parse of arbitrary bytes into a forest (tree construction not modelled) "
           "is carried by the bounded-exhaustive loop correspondence and the marker oracle.", "DESIGN.md section 5 C08", TIE_NOTE,
           "Coq invariant proof over the loop model + bounded-exhaustive correspondence + text-outside-hidden-elements oracle"),
 "C15": _c("proof", "Theorems C15_agree / C15_written_bytes / C15_blank over Entry.v: the four entry points compute the same bytes for non-blank input for every well-behaved writer; blank input is returned unchanged. "
           "Partial: independence of reader chunking holds in the model by construction (the tokenizer sees the concatenation); it is exercised on the implementation by exhaustive chunkings.",
           "DESIGN.md section 5 C15", TIE_NOTE, "Coq proof over the entry-point model + exhaustive chunking / writer-kind differential runs + cmd binaries"),
 "C16": _c("proof", "Theorems C16_write_failure / C16_clean_prefix / C16_read_failure / C16_read_failure_buffer for every input, policy, write index k and sink behaviour after k.",
           "DESIGN.md section 5 C16", TIE_NOTE, "Coq proof over the write-sequence model + fault injection at every write index and reader offset"),
 "C11": _c("proof", "Theorems C11_first_loop_partial / C11_noopener_loop_partial / C11_noopener_keeps_tokens / C11_no_duplicate / C11_tokens_kept / C11_elements: the per-loop post-conditions of the link-hardening block for every attribute list and option combination "
           "(tokens really present as white-space separated tokens, flags, first target, no duplication, nothing removed). C11_attrs composes them through link_pass and sanitizeAttrs: for every policy with one of the five options on, every a/area/link/base and every attribute list, if the returned list carries an href then rel exists and every rel has nofollow / noreferrer as required (fully-qualified variants when some href has a host), for a with a host-qualified href and AddTargetBlank the first target exists and is _blank, for a with some target _blank every rel has noopener, and existing rel tokens are kept. C11_output_tokens: the same for the tags read from the output bytes (policies without raw-text elements). Partial: byte level for raw-text policies; link correspondence (32 option combinations) and output oracle.",
           "DESIGN.md section 5 C11", TIE_NOTE, "Coq proofs by list induction over the model of the rel/target loops + differential correspondence on sanitizeAttrs + output oracle"),
 "C12": _c("proof", "Theorems C12_crossorigin / C12_sandbox / C12_sandbox_names for every element, attribute list, policy and matcher interpretation; the element table and the SandboxValue->token map are regenerated from the source and re-checked by computation.",
           "DESIGN.md section 5 C12", TIE_NOTE, "Coq proof by list induction over the model of sanitizeAttrs + generated-table instance facts + differential correspondence"),
 "C02": _c("proof", "Theorems C02_filter_sound_partial / C02_rule_accepts / C02_not_bare: every attribute surviving the filtering loop is justified by a rule of the element (explicit entry else merged pattern entries) or a global rule accepting the decoded value, "
           "a well-formed data-* attribute, or the style filter; an element is never emitted bare unless allowed without attributes (all inputs, all policies). C02_final_list: every attribute of the list sanitizeAttrs returns is forced (rel/target/crossorigin/sandbox), justified and unchanged, or justified and replaced by validURL's result. C02_output_tokens: the same for every attribute a tokenizer reads from the output bytes (policies without raw-text elements). Partial: byte level for raw-text policies; covered by the attrs correspondence and the oracle.",
           "DESIGN.md section 5 C02", TIE_NOTE, "Coq proof over the model of sanitizeAttrs and the token loop + differential correspondence on sanitizeAttrs"),
 "C03": _c("proof", "Theorems C03_gate_partial / C03_url_pass / C03_positions: a value accepted by validURL is the re-serialisation of a successful parse whose scheme is allowlisted (custom checks, scheme patterns) or which is scheme-less with relative URLs allowed; white space survives only in data: values; at URL positions only that value is kept (C03_final_list: also in the list sanitizeAttrs finally returns, with the rewriter's result for src); "
           "the fifteen positions are covered by linkable() and the URL switch (regenerated tables). Partial: the link between Go's parser and browser scheme extraction is an oracle hypothesis (monitored) and an output oracle.",
           "DESIGN.md section 5 C03, 3.5", TIE_NOTE, "Coq proof over the model of validURL with net/url as oracle + generated-table instance facts + differential correspondence + WHATWG output oracle"),
 "C10": _c("proof", "Theorems C10_filter / C10_no_rule_no_keep / C10_empty_dropped: the exact characterisation of the rebuilt style value (declarations kept in order iff a rule of the element or a global rule accepts the lower-cased, escape-stripped value for the lower-cased, prefix-stripped property). Partial: browser-equivalence of removeUnicode and of douceur's tokenisation is not claimed.",
           "DESIGN.md section 5 C10", TIE_NOTE, "Coq characterisation of the model of sanitizeStyles with douceur as oracle + differential correspondence on sanitizeStyles / removeUnicode"),
 "C06": _c("proof", "Theorems C06_text_emitted_once_partial / C06_read_back / C06_inert / C06_never_raw: a text token outside skipped and script/style regions is emitted exactly once, escaped; unescape(escape d) = d for every byte string; the escaped bytes contain no markup-significant character; nothing is written raw without AllowUnsafe. "
           "C06_output_text / C06_output_text_equal (whole documents, policies without raw-text elements, inputs without script/style/skip-content tags): the text read from the output bytes equals the text read from the input, plus exactly one blank per removed tag under AddSpaceWhenStrippingTag. Partial: policies allowing raw-text elements; the text-equality oracle checks it on every case.", "DESIGN.md section 5 C06", TIE_NOTE,
           "Coq proof (induction over bytes for unescape-escape; loop case analysis) + token-stream and chunk correspondence + text equality oracle"),
 "C07": _c("proof", "Theorems C07_any_rule_suffices_partial / C07_additive / C07_accepted_attr_unchanged: a value accepted by any one of the rules covering an attribute is kept, adding a rule never rejects what was accepted, an accepted attribute passes the filter unchanged. "
           "C07_pass_through: a document that is the canonical serialisation of items the policy leaves alone is returned byte for byte (every policy, every such document; instance C04_sample_doc_unchanged). Partial: documents with comments or raw-text elements (pass-through oracle); explicit entries shadow pattern rules (finding F11).", "DESIGN.md section 5 C07", TIE_NOTE,
           "Coq proof over association-list rule tables + differential correspondence + pass-through oracle on generated conforming documents"),
 "C09": _c("proof", "Theorems C09_stack_invariant / C09_dropped_pair_partial: the closing-tag stack is consulted safely on every token list; a non-void element dropped for lack of attributes is popped by exactly its own end tag, restoring stack, flag and skipping state. "
           "C09_output_balanced (induction over trees): for every forest in which every non-void element is opened and closed (script/style, void and self-closing tags included), every policy, the emitted items are well nested; C09_state_restored / C09_bracket: the loop state after a well-formed subtree is the state before it, so a removed start tag takes exactly its own end tag with it and a kept one keeps it. Partial: the parse of arbitrary bytes into a forest (tree construction not modelled): bounded-exhaustive loop correspondence and balance oracle.", "DESIGN.md section 5 C09", TIE_NOTE,
           "Coq invariant proof over the loop model + bounded-exhaustive correspondence + stack-balance oracle on generated trees"),
 "C13": _c("proof", "Theorems C13_rule_order_irrelevant_partial / C13_no_dependence_on_earlier_calls: in the model sanitising is a function of the policy value and the input, and the order in which pattern rules are merged is irrelevant. C13_same_rules_same_bytes: policy values whose tables hold the same rules in any order and multiplicity (all that map iteration order can change) sanitize every input to the same bytes. "
           "Partial: data-race freedom and concurrent = sequential are runtime facts, validated by a race-detector stress run (16 goroutines per shared policy), not proved.", "DESIGN.md section 5 C13", TIE_NOTE,
           "Coq proof of order-independence over the model + Go race detector stress run comparing concurrent with sequential results"),
 "C14": _c("proof", "Theorems C14_no_panic / C14_entry_points_no_panic: the only panicking operation of the token loop is unreachable for every token list and policy; every model function is total. "
           "C14_escape_loop_progress / C14_escape_loop_ends / C14_fuel_irrelevant: the escape-decoding loop of removeUnicode strictly shortens the value on every iteration, so it terminates on every input and the fuel of the model is never exhausted. C14_recursive_check_quadratic / C14_recursive_check_correct: the memoised search of css recursiveCheck makes at most |sub-handlers|*n*n sub-handler calls for n components and returns true exactly when a cut into accepted groups exists (model tied to the code on result and exact call count through the hook css.VerifRecursiveCheck). Partial: time is measured (adversarial size-parameterised families under a wall-clock budget, every call under a deadline), not proved.", "DESIGN.md section 5 C14", TIE_NOTE,
           "Coq invariant proof (no panic), termination and amortised cost proofs + differential correspondence + adversarial complexity sweep and panic hunting on the implementation"),
 "C17": _c("proof", "Theorems C17_rules_accumulate_partial / C17_rule_lists / C17_switch_last_setting / C17_skip_set_last_setting over Builder.apply. "
           "C17_order_of_rule_calls: two builder histories with the same switch-like calls in the same order and the same rule-adding calls (AllowAttrs/AllowStyles with any scope, AllowElements, AllowElementsMatching) in any order and interleaving build policies that sanitize every input to the same bytes (decomposition into primitive table updates, their commutation up to rule-set equality, and PolicyEquiv.peq_sanitize). C17_letter_case: calls whose names agree after strings.ToLower have exactly the same effect. Independence of policy values holds by construction in the functional model; that the code allocates per instance is checked by the policy-dump correspondence (every table after every call on interleaved policies) and the behaviour oracle.", "DESIGN.md section 5 C17", TIE_NOTE,
           "Coq proof over the builder model + policy-state correspondence after every builder call + behavioural equivalence oracle"),
 "C20": _c("proof", "Theorems C20_escaping_not_applied_twice_partial / C20_rel_tokens_not_repeated: the three mechanisms the property names. C20_idempotent_if_attrs_stable: Sanitize(Sanitize(x)) = Sanitize(x) for every x and every policy without comments/raw-text elements whose attribute filter is idempotent on its own output; C20_strict (StrictPolicy) and C20_idempotent_plain_elements (policies whose elements carry no rewritten attribute) discharge that premise. C20_attrs_stable_forced_rejected / C20_idempotent_stable_elements / C20_ugc: the premise holds, under the net/url stability hypothesis U5, for link / URL elements on which the policy allows none of the forced attributes (UGCPolicy for every input without area/del/ins tags). C20_link_passes_idempotent / C20_attrs_stable_forced_accepted_or_rejected / C20_idempotent_stable_elements2: the link and crossorigin passes are idempotent, hence the premise also holds for elements on which the policy allows, unpatterned, every attribute a pass can force on them. C20_refuted_forced_attr_order / C20_refuted_forced_attr_order_crossorigin: the property as stated is false on the current tree (known findings F15, F17: a policy allowing a later-appended forced attribute (target on a, crossorigin on link) but not rel reorders them on the second pass); the witnesses are computed on the model and replayed. C20_idempotent_stable_elements3 / C20_condition_separates: every other combination of unpatterned-allowed / not-allowed forced attributes is proved stable (none of the attributes forced on the element allowed; link with rel but not crossorigin), so within that class the statement is proved or refuted in every case. C20_ugc_no_surviving_url: UGCPolicy is idempotent on every input provided no del/ins cite and no area href survives the first pass (the property's proviso, plus area). C20_class_decided: on every element where no value pattern decides about a rewritten attribute the proved condition holds or the element has the F15 / F17 shape, so the property's class is decided completely (under U5 and style_stable). C20_idempotent_with_styles: elements with style rules are covered as well, under the monitored hypothesis that the style filter returns a value it produced unchanged (derived from a parse-stability statement about douceur). C20_ugc_every_input: with the matchers read as the regexps they were translated from, UGCPolicy is idempotent on every input under that proviso alone (area's patterned rel is closed under the link pass: verified residual exploration). Partial: policies outside the proved combinations are checked by the idempotence oracle on every case of the policy class, link grid (with crossorigin variants) included.",
           "DESIGN.md section 5 C20", TIE_NOTE, "Coq proof of the component idempotence lemmas + differential correspondence + idempotence oracle"),
 "C18": _c("proof", "Theorems C18_regexps_inert / C18_regexps_whole_value / C18_strippers_anchored / C18_keywords_inert / C18_unknown_property: every regexp of css/handlers.go used as a value acceptor matches the whole value and accepts no hostile string (all lengths, by reflection on the regenerated ASTs); "
           "function-name strippers are anchored; keyword lists contain none of the six characters of which every hostile value needs one (C18_hostile_needs_danger, proved by reflection); the lookup falls back to reject-all. C18_handlers_whole: for 141 handler functions whose body is a disjunction of conditions on the value (regexp acceptors, calls of other such handlers, keyword membership after splitValues or Split, recursiveCheck over sub-handlers that accept only values free of the six characters; 180 of the 213 table entries; shape and helper functions recognised by the translator, models tied to the real handlers by a correspondence run) the whole handler accepts no hostile value of any length. C18_recursive_check_composes: the recursiveCheck block composes (sub-handlers that accept only values free of the six characters give a value free of them, hence not hostile). Partial: the other 37 handler functions are covered by the bounded-exhaustive search the property text describes (all 213 entries, hostile fragments at every position).",
           "DESIGN.md section 5 C18", "The translator classifies regexps by use (MatchString vs ReplaceAll/FindString) and recognises the GetDefaultHandler/BaseHandler shapes; the hostile language in Spec/CssInert.v is my reading of the property text. ",
           "Coq proof by reflection (verified regexp emptiness procedure) on translator-regenerated CSS regexps and keyword lists + bounded-exhaustive hostile-fragment search over all default handlers"),
 "C04": _c("proof", "Theorems C04_strict_text_only / C04_ugc_tags / C04_ugc_tables / C04_strict_no_markup / C04_strict_idempotent / C04_ugc_output_tokens / C04_ugc_pass_through over the model's build of the builder scripts regenerated from policies.go and helpers.go: StrictPolicy emits only escaped text; every tag UGCPolicy emits is in the documented vocabulary and not a forbidden element; "
           "the tables (attribute names per element, global attributes, schemes exactly mailto/http/https, nofollow, no styles/data attributes/comments/rewriter) equal the documented ones, for every token list. On the bytes of the output, for every input: StrictPolicy's output has no angle bracket, reads back as text only and is a fixpoint; every tag read back from UGCPolicy's output is documented and not forbidden, every attribute forced or documented and no event-handler/style attribute, URL attribute values are u.String() of a parse with empty, mailto, http or https scheme; canonical documents in the vocabulary pass through byte for byte; C04_ugc_documented_values: 515 documented (element, attribute, value) samples are accepted by the regenerated rules (reflection with the verified matcher). Partial: the DOM clause is exercised by the oracle (ParseFragment in ten containers).",
           "DESIGN.md section 4 C04", TIE_NOTE + "The UGC vocabulary in Spec/UGCSpec.v is my reading of policies.go's comments. ",
           "Coq proof over translator-regenerated builder scripts (instance facts by computation) + policy-table correspondence of the shipped constructors + re-parse oracle"),
})

NOT_YET = {}

def main():
    props = [json.loads(l) for l in open(os.path.join(ROOT, "properties.jsonl"))]
    checks, na = [], []
    for p in props:
        pid = p["id"]
        if pid in CLAIMED:
            c = CLAIMED[pid]
            checks.append({
                "property_id": pid,
                "quick_cmd": "./check %s --tier quick" % pid,
                "thorough_cmd": "./check %s --tier thorough" % pid,
                "evidence_file": "/verif/evidence/%s.json" % pid,
                "replay_cmd_template": "./check replay {path}",
                "engine": "coq-model+correspondence",
                "level_claimed": {"category": c["category"], "text": c["text"], "design_ref": c["design_ref"]},
                "level_note": c["note"],
                "technique": c["technique"],
            })
        else:
            na.append({"property_id": pid, "reason": NOT_YET.get(pid, "check not built yet in this round (planned: see DESIGN.md section 5); not claimed until its theorem and correspondence run")})
    m = {
        "version": 1,
        "setup_cmd": "./check setup",
        "hooks": {
            "guard": "verif",
            "enable": "go build -tags verif (files verif_hooks.go / css/verif_hooks.go carry //go:build verif)",
            "baseline_off_cmd": "cd /repo && GOFLAGS=-mod=mod GOPROXY=off GOSUMDB=off GOTOOLCHAIN=local go test -vet=off -count=1 ./...",
            "source_commits": [l.strip() for l in open(os.path.join(ROOT, "MANIFEST.hooks")) if l.strip() and not l.startswith("#")],
            "add_only": True,
        },
        "engines": [{"name": "coq-model+correspondence", "path": "/verif/check",
                     "serves_properties": sorted(CLAIMED),
                     "kind_free_text": "Coq 8.16 model and theorems (coq/), Go translator + harness (go/), OCaml driver running the extracted model (driver/)"}],
        "checks": checks,
        "not_applicable": na,
        "notes": "All checks go through ./check <id>; they regenerate coq/Generated from /repo's working tree, rebuild the proofs that depend on it, rebuild the harness with -tags verif and rerun the correspondence. known_findings.json lists recorded/fixed defects.",
    }
    with open(os.path.join(ROOT, "MANIFEST.json"), "w") as f:
        json.dump(m, f, indent=1)
    print("MANIFEST.json: %d checks, %d not claimed" % (len(checks), len(na)))

if __name__ == "__main__":
    main()
