#!/usr/bin/env python3
"""Writes MANIFEST.json from the table below (kept next to the checks so that it stays in step)."""
import json, os
ROOT = os.path.dirname(os.path.dirname(os.path.abspath(__file__)))

NOTE_COMMON = ("Trusted: Coq 8.16.1 kernel (vm_compute for reflection, no native_compute), no axioms "
               "(Print Assumptions: closed under the global context, re-printed on every run into the evidence), "
               "the translator go/cmd/gen, extraction via ExtrOcamlBasic only, the correspondence harness and driver. ")

CLAIMED = {
 "C19": dict(
   category="proof",
   text="Theorems C19_whole_value / C19_alphabet / C19_exact / C19_examples (Properties/C19.v) hold for strings of every length: "
        "they are closed by a verified derivative-based emptiness procedure (Regex/RegexSound.v) run by vm_compute on the regexp ASTs "
        "that the translator regenerates from helpers.go on every run, so an edited literal is re-proved or refuted with a witness string "
        "that is then confirmed on the real exported matcher. Unit tests can only sample strings.",
   design_ref="DESIGN.md section 5 C19, section 3.6",
   note=NOTE_COMMON + "Go's regexp engine is assumed to implement Regex.search on the regexp/syntax AST; this is validated on every run (rxcheck: every "
        "regexp literal of the tree, exhaustive short strings + substitutions of documented examples). Documented alphabets/forms in Spec/Matchers.v are my reading of helpers.go's doc comments.",
   technique="Coq proof by reflection: verified regexp emptiness/inclusion decision procedure on translator-regenerated ASTs; differential validation of the matcher against Go regexp"),
}


def _c(category, text, design_ref, note, technique):
    return dict(category=category, text=text, design_ref=design_ref, note=NOTE_COMMON + note, technique=technique)

TIE_NOTE = ("The hand-written model is tied to sanitize.go by differential runs of the implementation (built with -tags verif) against the extracted model; "
            "its strength is bounded by the generators (distribution recorded in the evidence). x/net/html, net/url and douceur are modelled / oracles. ")

CLAIMED.update({
 "C01": _c("proof", "Theorem C01_items_partial (all token lists, all policies without AllowUnsafe): every tag the loop emits names an allowed element, comments only when allowed, "
           "no doctype, everything else escaped input text or the AddSpace blank. Partial: the re-tokenisation of the rendered bytes is not yet a theorem; it is checked by the "
           "implementation-side oracle (html.Tokenizer and html.ParseFragment in ten containers) on every generated case.", "DESIGN.md section 5 C01",
           TIE_NOTE + "Tree-builder clause argued, not proved.", "Coq proof over an executable model of the token loop + differential correspondence (bounded-exhaustive token sequences) + re-parse oracle"),
 "C05": _c("proof", "Theorems C05_tags / C05_literal_names / C05_body: for every policy value without AllowUnsafe (tables naming script/style, patterns matching them, modified skip sets included) "
           "and every token list no script/style tag is emitted, nothing is written unescaped, and the raw-text body token after a script/style start or self-closing tag yields nothing.",
           "DESIGN.md section 5 C05", TIE_NOTE, "Coq proof over the loop model + bounded-exhaustive correspondence + marker oracle"),
 "C08": _c("proof", "Theorem C08_skipping_emits_nothing_partial: in the content-skipping state the loop emits nothing but the AddSpace blank (all token lists). Partial: the characterisation of "
           "that state on well-nested documents is carried by the bounded-exhaustive loop correspondence and the marker oracle.", "DESIGN.md section 5 C08", TIE_NOTE,
           "Coq invariant proof over the loop model + bounded-exhaustive correspondence + text-outside-hidden-elements oracle"),
 "C15": _c("proof", "Theorems C15_agree / C15_written_bytes / C15_blank over Entry.v: the four entry points compute the same bytes for non-blank input for every well-behaved writer; blank input is returned unchanged. "
           "Partial: independence of reader chunking holds in the model by construction (the tokenizer sees the concatenation); it is exercised on the implementation by exhaustive chunkings.",
           "DESIGN.md section 5 C15", TIE_NOTE, "Coq proof over the entry-point model + exhaustive chunking / writer-kind differential runs + cmd binaries"),
 "C16": _c("proof", "Theorems C16_write_failure / C16_clean_prefix / C16_read_failure / C16_read_failure_buffer for every input, policy, write index k and sink behaviour after k.",
           "DESIGN.md section 5 C16", TIE_NOTE, "Coq proof over the write-sequence model + fault injection at every write index and reader offset"),
 "C11": _c("proof", "Theorems C11_first_loop_partial / C11_noopener_loop_partial / C11_noopener_keeps_tokens / C11_no_duplicate / C11_tokens_kept / C11_elements: the per-loop post-conditions of the link-hardening block for every attribute list and option combination "
           "(tokens really present as white-space separated tokens, flags, first target, no duplication, nothing removed). Partial: the composition through link_pass's flag plumbing is covered by the link correspondence (32 option combinations) and the output oracle.",
           "DESIGN.md section 5 C11", TIE_NOTE, "Coq proofs by list induction over the model of the rel/target loops + differential correspondence on sanitizeAttrs + output oracle"),
 "C12": _c("proof", "Theorems C12_crossorigin / C12_sandbox / C12_sandbox_names for every element, attribute list, policy and matcher interpretation; the element table and the SandboxValue->token map are regenerated from the source and re-checked by computation.",
           "DESIGN.md section 5 C12", TIE_NOTE, "Coq proof by list induction over the model of sanitizeAttrs + generated-table instance facts + differential correspondence"),
 "C02": _c("proof", "Theorems C02_filter_sound_partial / C02_rule_accepts / C02_not_bare: every attribute surviving the filtering loop is justified by a rule of the element (explicit entry else merged pattern entries) or a global rule accepting the decoded value, "
           "a well-formed data-* attribute, or the style filter; an element is never emitted bare unless allowed without attributes (all inputs, all policies). Partial: one provenance theorem through the rewriting passes and the re-tokenisation are not yet proved; covered by the attrs correspondence and the oracle.",
           "DESIGN.md section 5 C02", TIE_NOTE, "Coq proof over the model of sanitizeAttrs and the token loop + differential correspondence on sanitizeAttrs"),
 "C03": _c("proof", "Theorems C03_gate_partial / C03_url_pass / C03_positions: a value accepted by validURL is the re-serialisation of a successful parse whose scheme is allowlisted (custom checks, scheme patterns) or which is scheme-less with relative URLs allowed; white space survives only in data: values; at URL positions only that value is kept; "
           "the fifteen positions are covered by linkable() and the URL switch (regenerated tables). Partial: the link between Go's parser and browser scheme extraction is an oracle hypothesis (monitored) and an output oracle.",
           "DESIGN.md section 5 C03, 3.5", TIE_NOTE, "Coq proof over the model of validURL with net/url as oracle + generated-table instance facts + differential correspondence + WHATWG output oracle"),
 "C10": _c("proof", "Theorems C10_filter / C10_no_rule_no_keep / C10_empty_dropped: the exact characterisation of the rebuilt style value (declarations kept in order iff a rule of the element or a global rule accepts the lower-cased, escape-stripped value for the lower-cased, prefix-stripped property). Partial: browser-equivalence of removeUnicode and of douceur's tokenisation is not claimed.",
           "DESIGN.md section 5 C10", TIE_NOTE, "Coq characterisation of the model of sanitizeStyles with douceur as oracle + differential correspondence on sanitizeStyles / removeUnicode"),
})

NOT_YET = {}

def main():
    props = [json.loads(l) for l in open(os.path.join(ROOT, "properties.jsonl"))]
    checks, na = [], []
    for p in props:
        pid = p["id"]
        if pid in CLAIMED:
            c = CLAIMED[pid]
            checks.append({
                "property_id": pid,
                "quick_cmd": "./check %s --tier quick" % pid,
                "thorough_cmd": "./check %s --tier thorough" % pid,
                "evidence_file": "/verif/evidence/%s.json" % pid,
                "replay_cmd_template": "./check replay {path}",
                "engine": "coq-model+correspondence",
                "level_claimed": {"category": c["category"], "text": c["text"], "design_ref": c["design_ref"]},
                "level_note": c["note"],
                "technique": c["technique"],
            })
        else:
            na.append({"property_id": pid, "reason": NOT_YET.get(pid, "check not built yet in this round (planned: see DESIGN.md section 5); not claimed until its theorem and correspondence run")})
    m = {
        "version": 1,
        "setup_cmd": "./check setup",
        "hooks": {
            "guard": "verif",
            "enable": "go build -tags verif (files verif_hooks.go / css/verif_hooks.go carry //go:build verif)",
            "baseline_off_cmd": "cd /repo && GOFLAGS=-mod=mod GOPROXY=off GOSUMDB=off GOTOOLCHAIN=local go test -vet=off -count=1 ./...",
            "source_commits": [l.strip() for l in open(os.path.join(ROOT, "MANIFEST.hooks")) if l.strip() and not l.startswith("#")],
            "add_only": True,
        },
        "engines": [{"name": "coq-model+correspondence", "path": "/verif/check",
                     "serves_properties": sorted(CLAIMED),
                     "kind_free_text": "Coq 8.16 model and theorems (coq/), Go translator + harness (go/), OCaml driver running the extracted model (driver/)"}],
        "checks": checks,
        "not_applicable": na,
        "notes": "All checks go through ./check <id>; they regenerate coq/Generated from /repo's working tree, rebuild the proofs that depend on it, rebuild the harness with -tags verif and rerun the correspondence. known_findings.json lists recorded/fixed defects.",
    }
    with open(os.path.join(ROOT, "MANIFEST.json"), "w") as f:
        json.dump(m, f, indent=1)
    print("MANIFEST.json: %d checks, %d not claimed" % (len(checks), len(na)))

if __name__ == "__main__":
    main()
