module verif

go 1.19

require (
	github.com/aymerick/douceur v0.2.0
	github.com/microcosm-cc/bluemonday v0.0.0
	golang.org/x/net v0.26.0
)

require github.com/gorilla/css v1.0.1 // indirect

replace github.com/microcosm-cc/bluemonday => /repo
