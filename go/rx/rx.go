// Package rx turns a Go regexp source string into the AST used by the Coq model
// (BM.Regex.re): it parses with regexp/syntax exactly as regexp.MustCompile does
// (Perl flags), simplifies, and expands case folding into rune classes.
package rx

import (
	"fmt"
	"regexp/syntax"
	"strings"
	"unicode"
)

// Node is the model's regexp AST.
type Node struct {
	Op   string // emp eps chr bot eot cat alt star
	Neg  bool
	Cls  [][2]rune
	Subs []*Node
}

func Parse(pattern string) (*Node, error) {
	re, err := syntax.Parse(pattern, syntax.Perl)
	if err != nil {
		return nil, err
	}
	return conv(re.Simplify())
}

func foldOrbit(r rune) [][2]rune {
	seen := map[rune]bool{r: true}
	out := []rune{r}
	for f := unicode.SimpleFold(r); f != r; f = unicode.SimpleFold(f) {
		if !seen[f] {
			seen[f] = true
			out = append(out, f)
		}
	}
	// sort
	for i := range out {
		for j := i + 1; j < len(out); j++ {
			if out[j] < out[i] {
				out[i], out[j] = out[j], out[i]
			}
		}
	}
	var cls [][2]rune
	for _, x := range out {
		cls = append(cls, [2]rune{x, x})
	}
	return cls
}

func catList(ns []*Node) *Node {
	if len(ns) == 0 {
		return &Node{Op: "eps"}
	}
	if len(ns) == 1 {
		return ns[0]
	}
	return &Node{Op: "cat", Subs: []*Node{ns[0], catList(ns[1:])}}
}

func altList(ns []*Node) *Node {
	if len(ns) == 0 {
		return &Node{Op: "emp"}
	}
	if len(ns) == 1 {
		return ns[0]
	}
	return &Node{Op: "alt", Subs: []*Node{ns[0], altList(ns[1:])}}
}

func conv(re *syntax.Regexp) (*Node, error) {
	switch re.Op {
	case syntax.OpNoMatch:
		return &Node{Op: "emp"}, nil
	case syntax.OpEmptyMatch:
		return &Node{Op: "eps"}, nil
	case syntax.OpLiteral:
		var ns []*Node
		for _, r := range re.Rune {
			if re.Flags&syntax.FoldCase != 0 {
				ns = append(ns, &Node{Op: "chr", Cls: foldOrbit(r)})
			} else {
				ns = append(ns, &Node{Op: "chr", Cls: [][2]rune{{r, r}}})
			}
		}
		return catList(ns), nil
	case syntax.OpCharClass:
		var cls [][2]rune
		for i := 0; i+1 < len(re.Rune); i += 2 {
			cls = append(cls, [2]rune{re.Rune[i], re.Rune[i+1]})
		}
		return &Node{Op: "chr", Cls: cls}, nil
	case syntax.OpAnyCharNotNL:
		return &Node{Op: "chr", Neg: true, Cls: [][2]rune{{'\n', '\n'}}}, nil
	case syntax.OpAnyChar:
		return &Node{Op: "chr", Neg: true}, nil
	case syntax.OpBeginText:
		return &Node{Op: "bot"}, nil
	case syntax.OpEndText:
		return &Node{Op: "eot"}, nil
	case syntax.OpCapture:
		return conv(re.Sub[0])
	case syntax.OpStar, syntax.OpPlus, syntax.OpQuest:
		s, err := conv(re.Sub[0])
		if err != nil {
			return nil, err
		}
		switch re.Op {
		case syntax.OpStar:
			return &Node{Op: "star", Subs: []*Node{s}}, nil
		case syntax.OpPlus:
			return &Node{Op: "cat", Subs: []*Node{s, {Op: "star", Subs: []*Node{s}}}}, nil
		default:
			return &Node{Op: "alt", Subs: []*Node{s, {Op: "eps"}}}, nil
		}
	case syntax.OpConcat, syntax.OpAlternate:
		var ns []*Node
		for _, sub := range re.Sub {
			s, err := conv(sub)
			if err != nil {
				return nil, err
			}
			ns = append(ns, s)
		}
		if re.Op == syntax.OpConcat {
			return catList(ns), nil
		}
		return altList(ns), nil
	}
	return nil, fmt.Errorf("unsupported regexp operator %v in %q (the Coq model has no begin/end-line or word-boundary assertions)", re.Op, re.String())
}

// Coq renders the node as a Gallina term of type BM.Regex.re (N scope open).
func (n *Node) Coq() string {
	var b strings.Builder
	n.coq(&b)
	return b.String()
}

func clsStr(cls [][2]rune, open, close, sep string) string {
	var parts []string
	for _, p := range cls {
		parts = append(parts, fmt.Sprintf("(%d,%d)", p[0], p[1]))
	}
	return open + strings.Join(parts, sep) + close
}

func (n *Node) coq(b *strings.Builder) {
	switch n.Op {
	case "emp":
		b.WriteString("Emp")
	case "eps":
		b.WriteString("Eps")
	case "bot":
		b.WriteString("Bot")
	case "eot":
		b.WriteString("Eot")
	case "chr":
		fmt.Fprintf(b, "(Chr %v %s)", n.Neg, clsStr(n.Cls, "[", "]", ";"))
	case "cat", "alt":
		name := map[string]string{"cat": "Cat", "alt": "Alt"}[n.Op]
		fmt.Fprintf(b, "(%s ", name)
		n.Subs[0].coq(b)
		b.WriteString(" ")
		n.Subs[1].coq(b)
		b.WriteString(")")
	case "star":
		b.WriteString("(Star ")
		n.Subs[0].coq(b)
		b.WriteString(")")
	}
}

// Wire renders the node in the prefix text format read by the OCaml driver:
//   E | e | B | Z | C neg n lo hi ... | . a b | | a b | * a        (space separated)
func (n *Node) Wire() string {
	var b strings.Builder
	n.wire(&b)
	return strings.TrimSpace(b.String())
}

func (n *Node) wire(b *strings.Builder) {
	switch n.Op {
	case "emp":
		b.WriteString("E ")
	case "eps":
		b.WriteString("e ")
	case "bot":
		b.WriteString("B ")
	case "eot":
		b.WriteString("Z ")
	case "chr":
		neg := 0
		if n.Neg {
			neg = 1
		}
		fmt.Fprintf(b, "C %d %d ", neg, len(n.Cls))
		for _, p := range n.Cls {
			fmt.Fprintf(b, "%d %d ", p[0], p[1])
		}
	case "cat":
		b.WriteString(". ")
		n.Subs[0].wire(b)
		n.Subs[1].wire(b)
	case "alt":
		b.WriteString("| ")
		n.Subs[0].wire(b)
		n.Subs[1].wire(b)
	case "star":
		b.WriteString("* ")
		n.Subs[0].wire(b)
	}
}
