package main

// recursiveCheck (css/handlers.go): the implementation against the Coq model (Model/RecCheck.v), on the
// result AND on the number of sub-handler calls; an independent brute-force oracle for the result and the
// proved bound on the calls (|funcs| * n * n).

import (
	"flag"
	"fmt"
	"math/rand"
	"strings"

	"github.com/microcosm-cc/bluemonday/css"
)

// bruteCut: can value[start:] be cut into consecutive groups each accepted by some function? (exponential, small n only)
func bruteCut(value []string, sets []map[string]bool, start int) bool {
	for i := start; i < len(value); i++ {
		tv := strings.Join(value[start:i+1], " ")
		ok := false
		for _, s := range sets {
			if s[tv] {
				ok = true
			}
		}
		if !ok {
			continue
		}
		if i+1 == len(value) || bruteCut(value, sets, i+1) {
			return true
		}
	}
	return false
}

func recCheckMode(args []string) {
	fs := flag.NewFlagSet("reccheck", flag.ExitOnError)
	drv := fs.String("driver", "", "driver binary")
	seed := fs.Int64("seed", 1, "seed")
	nRand := fs.Int("n", 1500, "random cases")
	fs.Parse(args)
	rng := rand.New(rand.NewSource(*seed))
	sum := newSummary("corr-reccheck")
	d := startDriver(*drv)
	defer d.close()
	distinct := map[string]bool{}
	run := func(value []string, sets [][]string, useDriver bool) {
		ms := make([]map[string]bool, len(sets))
		calls := 0
		var funcs []func(string) bool
		for k, s := range sets {
			ms[k] = map[string]bool{}
			for _, x := range s {
				ms[k][x] = true
			}
			m := ms[k]
			funcs = append(funcs, func(v string) bool { calls++; return m[v] })
		}
		var got bool
		pv, stalled := guarded(10e9, func() { got = css.VerifRecursiveCheck(value, funcs) })
		sum.Evaluations++
		n := len(value)
		if pv != nil || stalled {
			sum.OracleFails = append(sum.OracleFails, map[string]any{"kind": "reccheck-panic-or-stall", "clause": fmt.Sprint("recursiveCheck panicked or did not finish: ", pv), "value": value, "sets": sets})
			return
		}
		if calls > len(funcs)*n*n && len(sum.OracleFails) < 10 {
			sum.OracleFails = append(sum.OracleFails, map[string]any{"kind": "reccheck-cost", "clause": fmt.Sprintf("recursiveCheck made %d sub-handler calls for %d components and %d sub-handlers (proved bound %d)", calls, n, len(funcs), len(funcs)*n*n),
				"value": value, "sets": sets})
		}
		if n <= 12 {
			if want := bruteCut(value, ms, 0); want != got && len(sum.OracleFails) < 10 {
				sum.OracleFails = append(sum.OracleFails, map[string]any{"kind": "reccheck-result", "clause": "recursiveCheck disagrees with the exhaustive search for a cut", "value": value, "sets": sets, "got": got, "want": want})
			}
		}
		if got {
			sum.Distribution["accepted"]++
		} else {
			sum.Distribution["rejected"]++
		}
		distinct[fmt.Sprint(got, calls, n, len(sets))] = true
		if !useDriver {
			return
		}
		hl := func(ss []string) string { // "e" = the empty string, "_" = no element
			if len(ss) == 0 {
				return "_"
			}
			var p []string
			for _, s := range ss {
				if s == "" {
					p = append(p, "e")
				} else {
					p = append(p, hexOf(s))
				}
			}
			return strings.Join(p, ",")
		}
		var sp []string
		for _, s := range sets {
			if len(s) == 0 {
				sp = append(sp, "-")
			} else {
				sp = append(sp, hl(s))
			}
		}
		if len(sp) == 0 {
			return // the driver cannot tell "no sets" from "one empty set"; recursiveCheck is never called without sub-handlers
		}
		goS := fmt.Sprintf("V %s %d", b01(got), calls)
		m := d.ask("RC " + hl(value) + " " + strings.Join(sp, ";"))
		if m != goS {
			sum.Mismatches = append(sum.Mismatches, map[string]any{"kind": "correspondence-reccheck", "value": value, "sets": sets, "go": goS, "model": m})
		}
	}
	comps := []string{"a", "b", "c", "", "a b"}
	// every value of at most 4 components over 3 component strings, under a few set families
	fam := [][][]string{
		{{"a"}, {"b"}},
		{{"a", "a b", "a b c"}, {"b", "c", "b c"}},
		{{"a a", "a"}, {"a a a"}},
		{{"a", "b", "c", "a b", "b c", "a b c"}},
		{{}, {"a"}, {"a", ""}},
	}
	var rec func(prefix []string, k int)
	rec = func(prefix []string, k int) {
		if len(prefix) > 0 {
			for _, sets := range fam {
				run(append([]string{}, prefix...), sets, true)
			}
		}
		if k == 0 {
			return
		}
		for _, c := range comps[:3] {
			rec(append(prefix, c), k-1)
		}
	}
	rec(nil, 4)
	sum.Distribution["exhaustive-small"] = sum.Evaluations
	// random
	for i := 0; i < *nRand && len(sum.Mismatches) < 8; i++ {
		n := 1 + rng.Intn(7)
		var value []string
		for k := 0; k < n; k++ {
			value = append(value, pick(rng, comps))
		}
		var sets [][]string
		for k := 0; k < 1+rng.Intn(3); k++ {
			var s []string
			for x := 0; x < rng.Intn(5); x++ {
				a := rng.Intn(n)
				b := a + 1 + rng.Intn(3)
				if b > n {
					b = n
				}
				if rng.Intn(4) == 0 {
					s = append(s, strings.Join(pickN(rng, comps, 1+rng.Intn(2)), " "))
				} else {
					s = append(s, strings.Join(value[a:b], " "))
				}
			}
			sets = append(sets, s)
		}
		run(value, sets, true)
	}
	// adversarial: every prefix group is accepted, the last component never: without the memo table the search is exponential
	for _, n := range []int{8, 16, 24, 32, 48, 64} {
		var value []string
		for k := 0; k < n-1; k++ {
			value = append(value, "a")
		}
		value = append(value, "!")
		var s1, s2 []string
		for k := 1; k <= n; k++ {
			s1 = append(s1, strings.TrimSpace(strings.Repeat("a ", k)))
		}
		s2 = append(s2, "a", "a a")
		run(value, [][]string{s1, s2}, n <= 24)
		sum.Distribution["adversarial"]++
	}
	sum.Nontrivial = len(distinct)
	sum.Samples = append(sum.Samples, map[string]any{"value": []string{"a", "b", "c"}, "sets": fam[1]})
	sum.emit()
}
