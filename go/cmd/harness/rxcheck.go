package main

import (
	"bufio"
	"encoding/hex"
	"flag"
	"fmt"
	"math/rand"
	"os"
	"regexp"
	"regexp/syntax"
	"sort"
	"strings"

	"verif/rx"
)

// rxcheck validates the regexp part of the model against Go's engine: every regexp literal
// of the source (as listed by gen) is run by regexp.MatchString and by the extracted
// derivative matcher on the same strings.  Exported matchers get the exhaustive treatment
// the property text asks for.
func rxcheck(args []string) {
	fs := flag.NewFlagSet("rxcheck", flag.ExitOnError)
	tsv := fs.String("regexps", "", "regexps.tsv written by gen")
	drv := fs.String("driver", "", "driver binary")
	seed := fs.Int64("seed", 1, "seed")
	maxLen := fs.Int("maxlen", 3, "exhaustive length bound for exported matchers")
	only := fs.String("only", "", "name prefix filter")
	perRx := fs.Int("n", 400, "random strings per regexp")
	fs.Parse(args)
	rng := rand.New(rand.NewSource(*seed))
	sum := newSummary("rxcheck")

	f, err := os.Open(*tsv)
	if err != nil {
		fmt.Fprintln(os.Stderr, err)
		os.Exit(2)
	}
	defer f.Close()
	d := startDriver(*drv)
	defer d.close()
	exported := map[string]bool{}
	for _, n := range []string{"CellAlign", "CellVerticalAlign", "Direction", "ImageAlign", "Integer", "ISO8601", "ListType", "SpaceSeparatedTokens", "Number", "NumberOrPercent", "Paragraph"} {
		exported["bm_"+n] = true
	}
	sc := bufio.NewScanner(f)
	sc.Buffer(make([]byte, 1<<20), 1<<24)
	distinct := map[string]bool{}
	for sc.Scan() {
		parts := strings.Split(sc.Text(), "\t")
		name := parts[0]
		if *only != "" && !strings.HasPrefix(name, *only) {
			continue
		}
		pb, _ := hex.DecodeString(parts[1])
		pat := string(pb)
		re := regexp.MustCompile(pat)
		node, err := rx.Parse(pat)
		if err != nil {
			sum.Mismatches = append(sum.Mismatches, map[string]any{"regexp": name, "error": err.Error()})
			continue
		}
		d.send("RX " + name + " " + node.Wire())
		var strs []string
		alpha := alphabetOf(pat)
		if exported[name] {
			strs = append(strs, allStrings(alpha, *maxLen)...)
			for _, e := range examplesFor(name) {
				strs = append(strs, e)
				strs = append(strs, substitutions(e, alpha, 1)...)
				if len(e) <= 12 {
					strs = append(strs, substitutions(e, alpha, 2)...)
				}
			}
		}
		strs = append(strs, randomStrings(rng, re, alpha, *perRx)...)
		qs := make([]string, len(strs))
		for i, s := range strs {
			qs[i] = "M " + name + " " + hexOf(s)
		}
		answers := d.askMany(qs)
		for i, s := range strs {
			want := re.MatchString(s)
			got := answers[i] == "1"
			sum.Evaluations++
			if want {
				sum.Distribution["accepted"]++
				distinct[name+"\x00"+s] = true
			} else {
				sum.Distribution["rejected"]++
			}
			if want != got {
				sum.Mismatches = append(sum.Mismatches, map[string]any{"regexp": name, "pattern": pat, "input_hex": hexOf(s), "go": want, "model": got})
				if len(sum.Mismatches) > 20 {
					sum.emit()
					return
				}
			}
		}
		if len(sum.Samples) < 6 && len(strs) > 0 {
			sum.Samples = append(sum.Samples, map[string]any{"regexp": name, "input": strs[len(strs)/2], "go": re.MatchString(strs[len(strs)/2])})
		}
		sum.Distribution["regexps"]++
	}
	sum.Nontrivial = len(distinct)
	sum.emit()
}

// alphabetOf: the literal runes and class boundaries of the pattern, HTML-significant
// characters, a control character, a non-ASCII letter, an invalid UTF-8 byte.
func alphabetOf(pat string) []string {
	set := map[string]bool{}
	for _, s := range []string{"<", ">", "\"", "=", "`", "&", "\x00", "\n", " ", "é", "\xff", "ſ", "A", "z", "0", "-"} {
		set[s] = true
	}
	re, err := syntax.Parse(pat, syntax.Perl)
	if err == nil {
		var walk func(r *syntax.Regexp)
		walk = func(r *syntax.Regexp) {
			switch r.Op {
			case syntax.OpLiteral:
				for _, c := range r.Rune {
					set[string(c)] = true
				}
			case syntax.OpCharClass:
				for i := 0; i+1 < len(r.Rune) && i < 16; i += 2 {
					set[string(r.Rune[i])] = true
					set[string(r.Rune[i+1])] = true
				}
			}
			for _, s := range r.Sub {
				walk(s)
			}
		}
		walk(re)
	}
	var out []string
	for s := range set {
		out = append(out, s)
	}
	sort.Strings(out)
	if len(out) > 26 {
		out = out[:26]
	}
	return out
}

func allStrings(alpha []string, maxLen int) []string {
	out := []string{""}
	prev := []string{""}
	for l := 1; l <= maxLen; l++ {
		var cur []string
		for _, p := range prev {
			for _, a := range alpha {
				cur = append(cur, p+a)
			}
		}
		out = append(out, cur...)
		prev = cur
	}
	return out
}

func substitutions(e string, alpha []string, k int) []string {
	var out []string
	rs := []rune(e)
	for i := range rs {
		for _, a := range alpha {
			t := string(rs[:i]) + a + string(rs[i+1:])
			out = append(out, t)
			if k == 2 {
				for j := i + 1; j < len(rs); j++ {
					for _, b := range alpha[:len(alpha)/2] {
						out = append(out, string(rs[:i])+a+string(rs[i+1:j])+b+string(rs[j+1:]))
					}
				}
			}
		}
		// insertion and deletion too
		out = append(out, string(rs[:i])+string(rs[i+1:]))
		out = append(out, string(rs[:i])+"<"+string(rs[i:]))
	}
	out = append(out, e+"<", "<"+e, e+"\n", "\n"+e, e+e)
	return out
}

func examplesFor(name string) []string {
	switch name {
	case "bm_CellAlign":
		return []string{"center", "justify", "left", "right", "char"}
	case "bm_CellVerticalAlign":
		return []string{"baseline", "bottom", "middle", "top"}
	case "bm_Direction":
		return []string{"rtl", "ltr"}
	case "bm_ImageAlign":
		return []string{"left", "right", "top", "texttop", "middle", "absmiddle", "baseline", "bottom", "absbottom"}
	case "bm_Integer":
		return []string{"0", "42", "007"}
	case "bm_ISO8601":
		return []string{"1997", "1997-07", "1997-07-16", "1997-07-16T19:20+01:00", "1997-07-16T19:20:30+01:00", "1997-07-16T19:20:30.45+01:00"}
	case "bm_ListType":
		return []string{"circle", "disc", "square", "a", "A", "i", "I", "1"}
	case "bm_SpaceSeparatedTokens":
		return []string{"nofollow", "nofollow noopener", "a-b c_d"}
	case "bm_Number":
		return []string{"0", "1.5", "-1", "+.5", "1e10", "6.02E-23"}
	case "bm_NumberOrPercent":
		return []string{"0", "100", "50%"}
	case "bm_Paragraph":
		return []string{"", "Hello, world!", "it's [ok] (really) a/b\\c"}
	}
	return nil
}

// randomStrings: random walks over the alphabet, biased to strings the regexp accepts
// (found by mutation of accepted strings).
func randomStrings(rng *rand.Rand, re *regexp.Regexp, alpha []string, n int) []string {
	var out, acc []string
	for i := 0; i < n; i++ {
		var s string
		if len(acc) > 0 && rng.Intn(2) == 0 {
			base := []rune(acc[rng.Intn(len(acc))])
			pos := 0
			if len(base) > 0 {
				pos = rng.Intn(len(base) + 1)
			}
			switch rng.Intn(3) {
			case 0:
				s = string(base[:pos]) + alpha[rng.Intn(len(alpha))] + string(base[pos:])
			case 1:
				if pos < len(base) {
					s = string(base[:pos]) + string(base[pos+1:])
				} else {
					s = string(base)
				}
			default:
				if pos < len(base) {
					s = string(base[:pos]) + alpha[rng.Intn(len(alpha))] + string(base[pos+1:])
				} else {
					s = string(base) + alpha[rng.Intn(len(alpha))]
				}
			}
		} else {
			l := rng.Intn(8)
			for j := 0; j < l; j++ {
				s += alpha[rng.Intn(len(alpha))]
			}
		}
		if re.MatchString(s) && len(acc) < 64 && len(s) < 40 {
			acc = append(acc, s)
		}
		out = append(out, s)
	}
	return out
}
