package main

import (
	"fmt"
	"math/rand"
	"strings"
)

// ---- vocabulary -----------------------------------------------------------------------------------

var elemVocab = []string{"a", "b", "i", "p", "div", "span", "img", "iframe", "table", "td", "tr", "object", "custom-x", "custom-y",
	"svg", "math", "script", "style", "textarea", "title", "br", "hr", "video", "audio", "link", "area", "base", "blockquote", "q",
	"del", "ins", "input", "source", "embed", "track", "xmp", "noscript", "plaintext", "frame", "frameset", "select", "option", "font", "mark", "kbd",
	"noembed", "noframes", "nostyle", "bdo", "time", "ul", "li", "form", "meta", "image", "x-y"}
var voidElems = map[string]bool{"area": true, "base": true, "br": true, "col": true, "embed": true, "hr": true, "img": true, "input": true,
	"link": true, "meta": true, "param": true, "source": true, "track": true, "wbr": true, "frame": true}
var rawTextElems = map[string]bool{"iframe": true, "noembed": true, "noframes": true, "noscript": true, "plaintext": true, "script": true,
	"style": true, "textarea": true, "title": true, "xmp": true}
var attrVocab = []string{"href", "src", "cite", "rel", "target", "id", "class", "title", "style", "sandbox", "crossorigin", "width", "alt",
	"type", "onclick", "dir", "lang", "name", "value", "datetime", "align", "data-x", "xml:lang", "open"}
var rxVocab = []string{`^custom-`, `^[a-z]+-x$`, `^(b|i)$`, `^[0-9]+$`, `^https?$`, `(?i)^on`, `^(|open)$`, `[a-zA-Z]{2,20}`,
	`^([\s\p{L}\p{N}_-]+)$`, `^[0-9]+[%]?$`, `(?i)^(rtl|ltr)$`, `^x`, `.`, `^$`, `^[a-z]*$`, `^(s|t)`, `^s(cript|tyle)$`, `nofollow`, `^_blank$`}
var propVocab = []string{"color", "background-color", "width", "text-align", "font-family", "opacity", "background", "text-decoration",
	"border", "margin", "display", "float", "z-index", "unknown-prop", "font-size", "background-image"}
var schemeVocab = []string{"http", "https", "mailto", "ftp", "data", "javascript", "tel", "HTTP"}

func pick(rng *rand.Rand, l []string) string { return l[rng.Intn(len(l))] }
func pickN(rng *rand.Rand, l []string, n int) []string {
	var out []string
	for i := 0; i < n; i++ {
		out = append(out, pick(rng, l))
	}
	return out
}
func recase(rng *rand.Rand, s string) string {
	if rng.Intn(6) != 0 {
		return s
	}
	b := []byte(s)
	for i := range b {
		if rng.Intn(2) == 0 && b[i] >= 'a' && b[i] <= 'z' {
			b[i] -= 32
		}
	}
	return string(b)
}

// ---- random policies ----------------------------------------------------------------------------

func randScope(rng *rand.Rand, o *Op) {
	switch rng.Intn(5) {
	case 0:
		o.Scope = "G"
	case 1:
		o.Scope = "M"
		o.ScopeRe = pick(rng, rxVocab[:3])
	default:
		o.Scope = "E"
		n := 1 + rng.Intn(3)
		for i := 0; i < n; i++ {
			o.ScopeEls = append(o.ScopeEls, recase(rng, pick(rng, elemVocab)))
		}
	}
}

func randOp(rng *rand.Rand) Op {
	switch k := rng.Intn(40); {
	case k < 12:
		o := Op{Kind: "attrs"}
		n := rng.Intn(3)
		if n == 0 && rng.Intn(2) == 0 {
			o.NoAttrs = true // AllowNoAttrs().<scope>
		} else {
			if n == 0 {
				n = 1
			}
			for i := 0; i < n; i++ {
				o.Names = append(o.Names, recase(rng, pick(rng, attrVocab)))
			}
			o.NoAttrs = rng.Intn(4) == 0
		}
		if rng.Intn(2) == 0 {
			o.Re = pick(rng, rxVocab)
		}
		randScope(rng, &o)
		return o
	case k < 17:
		o := Op{Kind: "styles", Names: pickN(rng, propVocab, 1+rng.Intn(3))}
		switch rng.Intn(5) {
		case 0:
			o.Re = pick(rng, []string{`^[a-z]+$`, `^[0-9]+px$`, `red`, `.`})
		case 1:
			o.Enum = pickN(rng, []string{"red", "Blue", "left", "1px", "none"}, 1+rng.Intn(3))
		case 2:
			o.Handler = pick(rng, []string{"short", "hasred"})
		}
		randScope(rng, &o)
		return o
	case k < 21:
		return Op{Kind: "elements", Names: func() []string {
			var l []string
			for i := 0; i < 1+rng.Intn(4); i++ {
				l = append(l, recase(rng, pick(rng, elemVocab)))
			}
			return l
		}()}
	case k < 23:
		return Op{Kind: "elementsmatching", Re: pick(rng, rxVocab[:3])}
	case k < 24:
		return Op{Kind: "data"}
	case k < 25:
		return Op{Kind: "comments"}
	case k < 28:
		return Op{Kind: "schemes", Names: pickN(rng, schemeVocab, 1+rng.Intn(3))}
	case k < 29:
		if rng.Intn(2) == 0 {
			return Op{Kind: "schemecustom", Scheme: "data", CB: "data"}
		}
		return Op{Kind: "schemecustom", Scheme: pick(rng, schemeVocab), CB: pick(rng, []string{"always", "never", "hostex", "noquery"})}
	case k < 30:
		return Op{Kind: "schemesmatching", Re: pick(rng, []string{`^https?$`, `^(s|t)`, `.`})}
	case k < 31:
		return Op{Kind: "rewritesrc", CB: pick(rng, []string{"proxy", "id"})}
	case k < 36:
		return Op{Kind: pick(rng, []string{"nofollow", "nofollowfq", "noreferrer", "noreferrerfq", "crossorigin", "targetblank", "parseable", "relative", "addspaces"}), B: rng.Intn(4) != 0}
	case k < 37:
		var vs []int
		for i := 0; i < rng.Intn(5); i++ {
			vs = append(vs, rng.Intn(15))
		}
		return Op{Kind: "sandbox", Vals: vs}
	case k < 38:
		return Op{Kind: "skip", Names: pickN(rng, elemVocab, 1+rng.Intn(2))}
	case k < 39:
		return Op{Kind: "keep", Names: pickN(rng, []string{"script", "style", "object", "iframe", "title", "noscript", "frame"}, 1+rng.Intn(2))}
	default:
		return Op{Kind: "relative", B: true}
	}
}

func randPolicy(rng *rand.Rand, allowUnsafe bool) *PolicySpec {
	ps := &PolicySpec{}
	switch rng.Intn(3) {
	case 0:
		// rich base: many elements, many global attributes, URL handling on
		ps.Ops = append(ps.Ops, Op{Kind: "elements", Names: pickN(rng, elemVocab, 12+rng.Intn(20))},
			Op{Kind: "attrs", Names: pickN(rng, attrVocab, 6+rng.Intn(10)), Scope: "G"},
			Op{Kind: "schemes", Names: []string{"http", "https", "mailto"}}, Op{Kind: "relative", B: rng.Intn(3) != 0})
		if rng.Intn(2) == 0 {
			ps.Ops = append(ps.Ops, Op{Kind: "attrs", Names: []string{"href", "src", "cite", "rel", "target"}, Scope: "G"})
		}
	case 1:
		hp := handPolicies()
		ps.Ops = append(ps.Ops, hp[1+rng.Intn(len(hp)-1)].Ops...)
	}
	n := 3 + rng.Intn(14)
	for i := 0; i < n; i++ {
		ps.Ops = append(ps.Ops, randOp(rng))
	}
	if rng.Intn(5) == 0 {
		ps.Ops = append(ps.Ops, Op{Kind: "comments"})
	}
	if allowUnsafe && rng.Intn(8) == 0 {
		ps.Ops = append(ps.Ops, Op{Kind: "unsafe", B: true})
	}
	return ps
}

// the shipped policies as explicit op lists are produced by the translator (GenScripts); here
// a few hand-picked "worst" policies used by several checks
func handPolicies() []*PolicySpec {
	all := append([]string{}, elemVocab...)
	return []*PolicySpec{
		{Name: "strict"},
		{Name: "everything", Ops: []Op{{Kind: "elements", Names: all}, {Kind: "attrs", Names: attrVocab, Scope: "G"}, {Kind: "comments"}, {Kind: "data"}}},
		{Name: "everything-urls", Ops: []Op{{Kind: "elements", Names: all}, {Kind: "attrs", Names: attrVocab, Scope: "G"},
			{Kind: "schemes", Names: []string{"http", "https", "mailto"}}, {Kind: "relative", B: true}, {Kind: "nofollow", B: true},
			{Kind: "targetblank", B: true}, {Kind: "crossorigin", B: true}, {Kind: "sandbox", Vals: []int{2, 10}}}},
		{Name: "patterns", Ops: []Op{{Kind: "elementsmatching", Re: `^custom-`}, {Kind: "attrs", Names: []string{"id"}, Scope: "M", ScopeRe: `^custom-`},
			{Kind: "attrs", NoAttrs: true, Scope: "M", ScopeRe: `^[a-z]+-x$`}, {Kind: "attrs", Names: []string{"class"}, Scope: "E", ScopeEls: []string{"custom-y", "b"}},
			{Kind: "addspaces", B: true}}},
		// overlapping element patterns with different attributes: custom-x matches both, custom-y and a-x one each
		{Name: "two-patterns", Ops: []Op{{Kind: "attrs", Names: []string{"id", "lang"}, Scope: "M", ScopeRe: `^custom-`},
			{Kind: "attrs", Names: []string{"title", "class"}, Scope: "M", ScopeRe: `^[a-z]+-x$`}, {Kind: "attrs", Names: []string{"dir"}, Scope: "M", ScopeRe: `^(b|i)$`},
			{Kind: "elements", Names: []string{"p"}}}},
		{Name: "styles", Ops: []Op{{Kind: "elements", Names: []string{"p", "span", "div", "b"}}, {Kind: "styles", Names: []string{"color", "width", "text-align", "background"}, Scope: "G"},
			{Kind: "styles", Names: []string{"font-family"}, Scope: "E", ScopeEls: []string{"p"}}, {Kind: "styles", Names: []string{"float"}, Enum: []string{"left", "right"}, Scope: "M", ScopeRe: `^(b|i)$`}}},
		{Name: "rawtext", Ops: []Op{{Kind: "elements", Names: []string{"iframe", "noscript", "xmp", "textarea", "title", "plaintext", "b"}}, {Kind: "comments"}}},
		{Name: "rewrite-src", Ops: []Op{{Kind: "elements", Names: []string{"img", "iframe", "video", "audio", "source", "script", "embed", "track", "input", "b"}},
			{Kind: "attrs", Names: []string{"src", "alt", "id"}, Scope: "G"}, {Kind: "schemes", Names: []string{"http", "https"}}, {Kind: "schemecustom", Scheme: "data", CB: "data"},
			{Kind: "relative", B: true}, {Kind: "rewritesrc", CB: "proxy"}}},
		{Name: "unsafe-script", Ops: []Op{{Kind: "elements", Names: []string{"script", "style", "b", "p"}}, {Kind: "unsafe", B: true}, {Kind: "comments"},
			{Kind: "attrs", Names: []string{"type", "src"}, Scope: "E", ScopeEls: []string{"script", "style"}}}},
		{Name: "unskip", Ops: []Op{{Kind: "elements", Names: []string{"script", "style", "b"}}, {Kind: "keep", Names: []string{"script", "style", "object"}}, {Kind: "elementsmatching", Re: `^s(cript|tyle)$`}}},
	}
}

// ---- documents ------------------------------------------------------------------------------------

var textFrags = []string{"hello", " ", "a&amp;b", "&lt;script&gt;", "x < y", "1 > 0", "\"q\"", "it's", "&", "&#60;", "&#x3c;b&#x3e;", "&notit;", "&amp", "&#0;",
	"&#128;", "&#xD800;", "café", "\U0001F600", "\xff\xfe", "\x00", "a\r\nb", "c\rd", "&#13;", "&Aacute", "&lt", "<", "</", "<!", "&#4294967361;",
	"&#1x", "&#x;", "&AMP;c", "MARK1", "MARK2", "javascript:alert(1)", "\t", "&nbsp;x", "&#x10FFFF;", "&#1114112;", "&gt;", "--&gt;", "]]>"}
var urlFrags = []string{"a b", "a\tb", "ab c", "a b:", " a\nb ", "d: a", "http://example.org/a?b=c#d", "https://x.test/", "/rel/path", "rel", "#frag", "?q=1", "//host/p", "mailto:a@b.c", "javascript:alert(1)",
	"JaVaScRiPt:alert(1)", " javascript:alert(1)", "java\tscript:alert(1)", "java&#10;script:alert(1)", "&#106;avascript:alert(1)", "data:text/html,<b>", "data:image/png;base64,iVBORw0KGgo=",
	"data:image/png;base64,iVBO\nRw0K Ggo=", "ftp://f/", "http://a b/", "http://[::1]/", "http://%41/", "tel:+1", "x:y", ":x", "http:", "http://example.org", "HTTP://EXAMPLE.ORG/",
	"\x01http://x/", "http://x/\x7f", "vbscript:x", "http://user:pw@h/", "http://h/%zz", " http://x/", "a:b:c", "//", "", "  ", "http://h/a;b?c=d&e=f;g", "./a:b",
	// opaque URLs with an allowlisted scheme (no "//"): browsers resolve them like hierarchical ones
	"https:evil.example/x.png", "http:x.png", "mailto:x", "HTTPS:host/p?q",
	// a scheme followed by a rooted path and no authority (net/url: Scheme set, Host and Opaque empty), bare schemes
	"javascript:/**/alert(1)", "data:/x", "vbscript:///x", "JAVASCRIPT:/x", "javascript:", "ftp:/etc/passwd", "http:/p", "https:///p",
	// values net/url cannot parse
	"%zz", "http://[::1", ":", "http://h:port/", "ht\x7ftp://x"}
var styleFrags = []string{"color: red", "color: RED", "color:#fff", "width: 10px", "text-align: center", "background: url(http://x/y.png)", "background: url(javascript:alert(1))",
	"color: expression(alert(1))", "-webkit-color: red", "-moz--webkit-color: red", "COLOR: blue", "color: r\\65 d", "color: \\72 ed", "width: 1\\30 px", "font-family: 'a b', serif",
	"float: left", "float: LEFT", "unknown-prop: x", "color: red !important", "/* c */ color: red", "color: red; width: 5px", "color", ": red", "color: ;", "{}", "color: red;;width:1px",
	"text-decoration: underline overline", "z-index: 5", "opacity: 0.5", "color: \\0", "color: \\d800", "color: \\110000", "color: \\000072ed", "margin: 1px 2px", "display: none", "color: red\\", "font-size: 12px",
	"color: #fff", "color: #FFF", "width: 2px", "width: auto", "background: RED", "background: \\72 ed", "background: Green", "color: gree\\6E", "color: \\52 ed", "background: ur\\6C(http://x/y)", "color: blue", "color: \\000062lue", "width: \\32 px",
	// an undecodable escape empties the value the matchers see (F16): the declaration must go, whatever follows
	"font-family: \\110000 expression(alert(1))", "font: \\d800 url(javascript:alert(1))", "font-family: \\110000", "font-family: serif"}
var relFrags = []string{"nofollow", "noopener", "noreferrer", "xnofollowx", "nonoopener", "NOFOLLOW", "a b", "nofollow noopener noreferrer", "", "me"}

// attrValue: a value for the attribute; one time in six padded with white space (value patterns
// are judged on the value as it is, not on a trimmed copy)
func attrValue(rng *rand.Rand, key string) string {
	v := attrValue0(rng, key)
	if rng.Intn(6) == 0 {
		ws := []string{" ", "\n", "\t", "\u00a0", "\r", "  ", "\u2003"}
		switch rng.Intn(3) {
		case 0:
			v = pick(rng, ws) + v
		case 1:
			v = v + pick(rng, ws)
		default:
			v = pick(rng, ws) + v + pick(rng, ws)
		}
	}
	return v
}

func attrValue0(rng *rand.Rand, key string) string {
	switch key {
	case "href", "src", "cite":
		return pick(rng, urlFrags)
	case "style":
		n := 1 + rng.Intn(3)
		return strings.Join(pickN(rng, styleFrags, n), pick(rng, []string{"; ", ";", " ; "})) + pick(rng, []string{"", ";", " "})
	case "rel":
		return pick(rng, relFrags)
	case "target":
		return pick(rng, []string{"_blank", "_self", "x", ""})
	case "sandbox":
		return strings.Join(pickN(rng, []string{"allow-forms", "allow-scripts", "allow-same-origin", "bogus", "allow-forms", "ALLOW-FORMS", "allow-modals"}, rng.Intn(4)), pick(rng, []string{" ", "  ", "\t", " "}))
	case "crossorigin":
		return pick(rng, []string{"anonymous", "use-credentials", "", "x"})
	case "dir":
		return pick(rng, []string{"rtl", "LTR", "x"})
	case "width", "value":
		return pick(rng, []string{"10", "10%", "x", "-1", ""})
	case "open":
		return pick(rng, []string{"", "open", "x"})
	}
	return pick(rng, []string{"x", "", "a b", "1", pick(rng, textFrags), "on", "custom-"})
}

func renderAttr(rng *rand.Rand, k, v string) string {
	k = recase(rng, k)
	switch rng.Intn(8) {
	case 0:
		return k
	case 1:
		if v != "" && !strings.ContainsAny(v, " \t\n\r\f>\"'=<`") {
			return k + "=" + v
		}
	case 2:
		if !strings.Contains(v, "'") {
			return k + "='" + v + "'"
		}
	case 3:
		return k + " = \"" + strings.ReplaceAll(v, "\"", "&quot;") + "\""
	}
	return k + "=\"" + strings.ReplaceAll(v, "\"", "&#34;") + "\""
}

type docGen struct {
	rng   *rand.Rand
	elems []string // weighted element vocabulary (policy's own first)
	attrs []string
}

func newDocGen(rng *rand.Rand, ps *PolicySpec) *docGen {
	g := &docGen{rng: rng}
	for _, o := range ps.Ops {
		switch o.Kind {
		case "elements", "skip", "keep":
			g.elems = append(g.elems, o.Names...)
		case "attrs":
			g.attrs = append(g.attrs, o.Names...)
			g.elems = append(g.elems, o.ScopeEls...)
		case "styles":
			g.elems = append(g.elems, o.ScopeEls...)
			g.attrs = append(g.attrs, "style")
		case "elementsmatching":
			g.elems = append(g.elems, "custom-x", "custom-y", "b", "x-x")
		}
		if o.Scope == "M" {
			g.elems = append(g.elems, "custom-x", "custom-y", "b", "i", "a-x")
		}
	}
	for i := range g.elems {
		g.elems[i] = strings.ToLower(g.elems[i])
	}
	for i := range g.attrs {
		g.attrs[i] = strings.ToLower(g.attrs[i])
	}
	// twice the policy's vocabulary, once the general one
	g.elems = append(append(g.elems, g.elems...), elemVocab...)
	g.attrs = append(append(g.attrs, g.attrs...), attrVocab...)
	return g
}

// lookalike replaces an ASCII letter by a non-ASCII one that Unicode case mapping folds onto it
func lookalike(rng *rand.Rand, name string) string {
	if rng.Intn(25) != 0 {
		return name
	}
	switch {
	case strings.Contains(name, "k"):
		return strings.Replace(name, "k", "\u212a", 1)
	case strings.Contains(name, "i"):
		return strings.Replace(name, "i", "\u0130", 1)
	case strings.Contains(name, "s"):
		return strings.Replace(name, "s", "\u017f", 1)
	}
	return name
}

func (g *docGen) startTag(name string, selfClose bool) string {
	rng := g.rng
	var b strings.Builder
	name = lookalike(rng, name)
	b.WriteString("<" + recase(rng, name))
	n := rng.Intn(4)
	if rng.Intn(3) == 0 {
		n = 0
	}
	for i := 0; i < n; i++ {
		k := pick(rng, g.attrs)
		if rng.Intn(12) == 0 {
			k = pick(rng, []string{"data-a-data-;x", "data-xmlfoo", "data-Up", "data-", "=x", "a\"b", "a<b", "data-ok", "o'q"})
		}
		b.WriteString(pick(rng, []string{" ", " ", "\n", "/", "\t "}) + renderAttr(rng, k, attrValue(rng, k)))
	}
	if selfClose {
		b.WriteString(pick(rng, []string{"/", " /"}))
	}
	b.WriteString(">")
	return b.String()
}

// tree generates a well-nested fragment
func (g *docGen) tree(depth int) string {
	rng := g.rng
	var b strings.Builder
	n := 1 + rng.Intn(3)
	for i := 0; i < n; i++ {
		switch k := rng.Intn(10); {
		case k < 3:
			b.WriteString(pick(rng, textFrags))
		case k < 4 && depth > 0:
			b.WriteString(pick(rng, []string{"<!-- c -->", "<!--x-->", "<!---->", "<!-->", "<!DOCTYPE html>", "<![CDATA[x]]>", "<?pi?>", "<!-- a --!> b -->", "<!--&gt;-->", "<!-- -- > -->"}))
		default:
			name := pick(rng, g.elems)
			switch {
			case voidElems[name]:
				b.WriteString(g.startTag(name, rng.Intn(3) == 0))
			case rawTextElems[name]:
				b.WriteString(g.startTag(name, false))
				if name == "plaintext" {
					b.WriteString(pick(rng, textFrags))
					return b.String()
				}
				b.WriteString(pick(rng, []string{"", "raw MARK3", "a<b>c</b>", "<!-- x -->", "</scrip", "&amp;", "<script>", "x</" + name + "x>y"}))
				b.WriteString("</" + recase(rng, name) + ">")
			case rng.Intn(10) == 0:
				b.WriteString(g.startTag(name, true))
			default:
				b.WriteString(g.startTag(name, false))
				if depth < 4 {
					b.WriteString(g.tree(depth + 1))
				}
				b.WriteString("</" + recase(rng, name) + pick(rng, []string{"", "", " ", " x=y"}) + ">")
			}
		}
	}
	return b.String()
}

// soup generates an arbitrary (not necessarily nested) token sequence
func (g *docGen) soup() string {
	rng := g.rng
	var b strings.Builder
	n := 1 + rng.Intn(8)
	for i := 0; i < n; i++ {
		switch k := rng.Intn(12); {
		case k < 3:
			b.WriteString(pick(rng, textFrags))
		case k < 7:
			b.WriteString(g.startTag(pick(rng, g.elems), rng.Intn(6) == 0))
		case k < 10:
			b.WriteString("</" + recase(rng, lookalike(rng, pick(rng, g.elems))) + ">")
		case k < 11:
			b.WriteString(pick(rng, []string{"<!-- c -->", "<!DOCTYPE html>", "<![CDATA[x]]>", "<?pi?>", "</>", "</ x>", "<!x>", "<!--", "<!-", "<a", "<a href=", "<a href=\"x", "</a", "<", "<!DOC", "<scr\x00ipt>", "<scrİpt>", "<ſcript>", "<script/>alert(1)</script>", "<style/>x</style>"}))
		default:
			b.WriteString(pick(rng, urlFrags))
		}
	}
	return b.String()
}

func mutate(rng *rand.Rand, s string) string {
	if len(s) == 0 {
		return s
	}
	b := []byte(s)
	switch rng.Intn(6) {
	case 0:
		return string(b[:rng.Intn(len(b)+1)])
	case 1:
		i := rng.Intn(len(b))
		b[i] = byte(rng.Intn(256))
		return string(b)
	case 2:
		i := rng.Intn(len(b) + 1)
		return string(b[:i]) + pick(rng, []string{"<", ">", "\"", "'", "&", "\x00", "/", "=", "<!--", "-->", "</"}) + string(b[i:])
	case 3:
		i, j := rng.Intn(len(b)+1), rng.Intn(len(b)+1)
		if i > j {
			i, j = j, i
		}
		return string(b[:i]) + string(b[j:])
	case 4:
		i := rng.Intn(len(b) + 1)
		return string(b[:i]) + s
	}
	return s
}

func (g *docGen) document() (string, string) {
	switch k := g.rng.Intn(10); {
	case k < 5:
		return g.tree(0), "tree"
	case k < 8:
		return g.soup(), "soup"
	default:
		d := g.tree(0)
		for i := 0; i < 1+g.rng.Intn(3); i++ {
			d = mutate(g.rng, d)
		}
		return d, "mutated"
	}
}

func describeOps(ps *PolicySpec) string {
	var p []string
	for _, o := range ps.Ops {
		p = append(p, fmt.Sprintf("%s%v", o.Kind, o.Names))
	}
	return strings.Join(p, " ")
}

// shortURLs: every string of at most 4 bytes over a small alphabet (white space inside very short values,
// a colon or slash at every position): the values on which prefix tests and slicing go wrong
func shortURLs() []string {
	alpha := []string{"a", " ", ":", "/", "\t", "d", "#"}
	out := []string{""}
	level := []string{""}
	for n := 0; n < 4; n++ {
		var next []string
		for _, p := range level {
			for _, c := range alpha {
				next = append(next, p+c)
			}
		}
		out = append(out, next...)
		level = next
	}
	return out
}
