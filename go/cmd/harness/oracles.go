package main

import (
	"flag"
	"fmt"
	"math/rand"
	"net/url"
	"regexp"
	"sort"
	"strings"

	"github.com/microcosm-cc/bluemonday"
	"golang.org/x/net/html"
	"golang.org/x/net/html/atom"
)

// Independent property oracles: they look only at the builder calls that were made (the
// PolicySpec), the input and the real output of the implementation.  They never consult the
// policy's internal tables or the Coq model.

// ---- what a spec allows (independent reading of the builder API documentation) ----------------------

type specView struct {
	ps          *PolicySpec
	elems       map[string]bool
	elemPats    []*regexp.Regexp
	comments    bool
	unsafe      bool
	addSpaces   bool
	skip        map[string]bool
	noAttrs     map[string]bool
	noAttrsPats []*regexp.Regexp
	dataAttrs   bool
}

var defaultNoAttrs = strings.Fields(`abbr acronym address article aside audio b bdi blockquote body br button canvas caption center cite code col colgroup datalist dd del details dfn div dl dt em fieldset figcaption figure footer h1 h2 h3 h4 h5 h6 head header hgroup hr html i ins kbd li mark marquee nav ol optgroup option p picture pre q rp rt ruby s samp script section select small span strike strong style sub summary sup svg table tbody td textarea tfoot th thead title time tr tt u ul var video wbr`)

// the skip-content defaults as the property text lists them
var defaultSkip = strings.Fields(`script style iframe object title noscript noembed noframes frameset nostyle`)

func viewOf(ps *PolicySpec) *specView {
	v := &specView{ps: ps, elems: map[string]bool{}, skip: map[string]bool{}, noAttrs: map[string]bool{}}
	for _, e := range defaultNoAttrs {
		v.noAttrs[e] = true
	}
	for _, e := range defaultSkip {
		v.skip[e] = true
	}
	for _, o := range ps.Ops {
		switch o.Kind {
		case "elements":
			for _, n := range o.Names {
				v.elems[strings.ToLower(n)] = true
			}
		case "elementsmatching":
			v.elemPats = append(v.elemPats, getRx(o.Re).re)
		case "attrs":
			if len(o.Names) == 0 && !o.NoAttrs {
				continue
			}
			switch o.Scope {
			case "E":
				for _, n := range o.ScopeEls {
					v.elems[strings.ToLower(n)] = true
					if o.NoAttrs {
						v.noAttrs[strings.ToLower(n)] = true
					}
				}
			case "M":
				v.elemPats = append(v.elemPats, getRx(o.ScopeRe).re)
				if o.NoAttrs {
					v.noAttrsPats = append(v.noAttrsPats, getRx(o.ScopeRe).re)
				}
			}
		case "comments":
			v.comments = true
		case "unsafe":
			v.unsafe = o.B
		case "addspaces":
			v.addSpaces = o.B
		case "data":
			v.dataAttrs = true
		case "skip":
			for _, n := range o.Names {
				v.skip[strings.ToLower(n)] = true
			}
		case "keep":
			for _, n := range o.Names {
				delete(v.skip, strings.ToLower(n))
			}
		}
	}
	return v
}

func (v *specView) elemAllowed(n string) bool {
	if v.elems[n] {
		return true
	}
	for _, r := range v.elemPats {
		if r.MatchString(n) {
			return true
		}
	}
	return false
}

func (v *specView) bareAllowed(n string) bool {
	if v.noAttrs[n] {
		return true
	}
	for _, r := range v.noAttrsPats {
		if r.MatchString(n) {
			return true
		}
	}
	return false
}

func (v *specView) hidden(n string) bool {
	return n == "script" || n == "style" || (v.skip[n] && !v.elemAllowed(n))
}

func (v *specView) flag(kind string) (val, set bool) {
	for _, o := range v.ps.Ops {
		if o.Kind == kind {
			val, set = o.B, true
		}
	}
	return
}

func isTag(t html.Token) bool {
	return t.Type == html.StartTagToken || t.Type == html.EndTagToken || t.Type == html.SelfClosingTagToken
}

func textOf(ts []html.Token) string {
	var b strings.Builder
	for _, t := range ts {
		if t.Type == html.TextToken {
			b.WriteString(t.Data)
		}
	}
	return b.String()
}

// ---- case generation shared by the oracles -------------------------------------------------------------

type oracleCase struct {
	ps  *PolicySpec
	gp  *bluemonday.Policy
	doc string
}

func oraclePolicies(rng *rand.Rand, n int, unsafeOK bool) []*PolicySpec {
	pols := handPolicies()
	for i := 0; i < n; i++ {
		pols = append(pols, randPolicy(rng, unsafeOK))
	}
	return pols
}

var implied = map[string]bool{"html": true, "head": true, "body": true, "tbody": true, "tr": true, "colgroup": true}

var fragmentContexts = []atom.Atom{atom.Body, atom.Div, atom.P, atom.Td, atom.Li, atom.Span, atom.Table, atom.Select, atom.Svg, atom.Math}

func walk(n *html.Node, f func(*html.Node)) {
	f(n)
	for c := n.FirstChild; c != nil; c = c.NextSibling {
		walk(c, f)
	}
}

// ---- the oracle subcommand -----------------------------------------------------------------------------

// sortedAttrs re-serialises the token stream with the attributes of every tag sorted by key
func sortedAttrs(doc string) string {
	z := html.NewTokenizer(strings.NewReader(doc))
	var b strings.Builder
	for {
		tt := z.Next()
		if tt == html.ErrorToken {
			return b.String()
		}
		t := z.Token()
		sort.SliceStable(t.Attr, func(i, j int) bool { return t.Attr[i].Key < t.Attr[j].Key })
		b.WriteString(t.String())
	}
}

func oracleMode(args []string) {
	fs := flag.NewFlagSet("oracle", flag.ExitOnError)
	prop := fs.String("prop", "", "property id")
	seed := fs.Int64("seed", 1, "seed")
	nPol := fs.Int("policies", 40, "random policies")
	nDoc := fs.Int("docs", 50, "documents per policy")
	one := fs.String("input", "", "hex input: evaluate only this document (replay)")
	onePol := fs.String("policy", "", "JSON policy spec for -input")
	fs.Parse(args)
	rng := rand.New(rand.NewSource(*seed))
	sum := newSummary("oracle-" + *prop)
	distinct := map[string]bool{}
	perShape := map[string]int{}
	fail := func(c oracleCase, clause string, extra map[string]any) {
		// a few cases per shape (clause, first tag of the output and its attribute names), so that many instances of one
		// failure do not crowd out a different one
		out := c.gp.Sanitize(c.doc)
		shape := clause
		for _, t := range goTokens(out) {
			if isTag(t) {
				var ks []string
				for _, a := range t.Attr {
					ks = append(ks, a.Key)
				}
				sort.Strings(ks)
				shape += "|" + t.Data + "|" + strings.Join(ks, ",")
				break
			}
		}
		if perShape[shape] >= 4 || len(sum.OracleFails) >= 160 {
			return
		}
		perShape[shape]++
		m := map[string]any{"kind": "property-oracle", "clause": clause, "input_hex": hexOf(c.doc), "input_text": c.doc, "policy": c.ps, "output": out}
		for k, v := range extra {
			m[k] = v
		}
		sum.OracleFails = append(sum.OracleFails, m)
	}
	check := oracleFor(*prop, fail, sum)
	if check == nil {
		fmt.Println("unknown property", *prop)
		return
	}
	if *one != "" {
		ps := parseSpec(*onePol)
		c := oracleCase{ps, ps.buildGo(), unhex(*one)}
		check(c, viewOf(ps))
		sum.Evaluations = 1
		sum.emit()
		return
	}
	if *prop == "C11" || *prop == "C12" || *prop == "C20" {
		// the grids of the attribute-level correspondence, rendered as documents
		cases := linkGrid(rng, *nPol > 100)
		if *prop == "C12" {
			cases = forcedGrid(rng, *nPol > 100)
		}
		built := map[*PolicySpec]*bluemonday.Policy{}
		views := map[*PolicySpec]*specView{}
		for _, ac := range cases {
			if built[ac.ps] == nil {
				built[ac.ps] = ac.ps.buildGo()
				views[ac.ps] = viewOf(ac.ps)
			}
			var b strings.Builder
			b.WriteString("<" + ac.elem)
			for _, a := range ac.attrs {
				b.WriteString(" " + a.Key + "=\"" + html.EscapeString(a.Val) + "\"")
			}
			b.WriteString(">t")
			c := oracleCase{ac.ps, built[ac.ps], b.String()}
			sum.Evaluations++
			if check(c, views[ac.ps]) {
				distinct[c.doc+ac.ps.Name] = true
			}
		}
		if *prop != "C20" {
			sum.Nontrivial = len(distinct)
			sum.emit()
			return
		}
	}
	unsafeOK := false
	for _, ps := range oraclePoliciesFor(*prop, rng, *nPol, unsafeOK) {
		gp := ps.buildGo()
		v := viewOf(ps)
		g := newDocGen(rng, ps)
		for j := 0; j < *nDoc; j++ {
			doc := docFor(*prop, g, rng, ps)
			c := oracleCase{ps, gp, doc}
			sum.Evaluations++
			if nt := check(c, v); nt {
				distinct[doc+"\x00"+ps.Name+fmt.Sprint(len(ps.Ops))] = true
			}
		}
	}
	sum.Nontrivial = len(distinct)
	sum.emit()
}

func oraclePoliciesFor(prop string, rng *rand.Rand, n int, unsafeOK bool) []*PolicySpec {
	switch prop {
	case "C04":
		return []*PolicySpec{{Name: "__strict"}, {Name: "__ugc"}}
	case "C07":
		var out []*PolicySpec
		for i := 0; i < n; i++ {
			ps := &PolicySpec{Name: "conforming", Ops: []Op{{Kind: "elements", Names: []string{"b", "i", "p", "div", "span", "ul", "li", "em", "strong", "br", "hr"}},
				{Kind: "attrs", Names: []string{"id", "title", "class"}, Scope: "G"}}}
			// further rules may only add: the conforming documents must still pass unchanged
			for j := 0; j < rng.Intn(6); j++ {
				o := randOp(rng)
				if isRuleOp(o) {
					ps.Ops = append(ps.Ops, o)
				}
			}
			out = append(out, ps)
		}
		return out
	case "C03":
		var out []*PolicySpec
		els := []string{"a", "area", "base", "link", "blockquote", "del", "ins", "q", "audio", "embed", "iframe", "img", "input", "script", "source", "track", "video", "b"}
		for i := 0; i < n; i++ {
			ps := &PolicySpec{Ops: []Op{{Kind: "elements", Names: els}, {Kind: "attrs", Names: []string{"href", "src", "cite", "id"}, Scope: "G"}}}
			for j := 0; j < 1+rng.Intn(5); j++ {
				switch rng.Intn(7) {
				case 0:
					ps.Ops = append(ps.Ops, Op{Kind: "schemes", Names: pickN(rng, schemeVocab, 1+rng.Intn(3))})
				case 1:
					ps.Ops = append(ps.Ops, Op{Kind: "relative", B: rng.Intn(3) != 0})
				case 2:
					ps.Ops = append(ps.Ops, Op{Kind: pick(rng, []string{"nofollow", "nofollowfq", "noreferrer", "noreferrerfq", "targetblank"}), B: rng.Intn(2) == 0})
				case 3:
					ps.Ops = append(ps.Ops, Op{Kind: "parseable", B: rng.Intn(3) != 0})
				case 4:
					ps.Ops = append(ps.Ops, Op{Kind: "schemecustom", Scheme: pick(rng, []string{"http", "data"}), CB: pick(rng, []string{"always", "never", "hostex"})})
				case 5:
					ps.Ops = append(ps.Ops, Op{Kind: "schemesmatching", Re: pick(rng, []string{`^https?$`, `^(s|t)`})})
				default:
					ps.Ops = append(ps.Ops, Op{Kind: "schemes", Names: []string{"http", "https", "mailto"}})
				}
			}
			out = append(out, ps)
		}
		return out
	case "C10":
		return c10Policies(rng, n)
	case "C11":
		var out []*PolicySpec
		for _, c := range linkGrid(rng, false) {
			if len(out) == 0 || out[len(out)-1] != c.ps {
				out = append(out, c.ps)
			}
		}
		return out
	}
	return oraclePolicies(rng, n, unsafeOK)
}

func docFor(prop string, g *docGen, rng *rand.Rand, ps *PolicySpec) string {
	switch prop {
	case "C08", "C09":
		return g.tree(0)
	case "C10":
		return c10Doc(rng)
	case "C05":
		d, _ := g.document()
		return d + pick(rng, []string{"", "<script>MARKS</script>", "<SCRIPT x=y>MARKS</SCRIPT>", "<style>MARKS</style>", "<svg><script>MARKS</script></svg>", "<script/>MARKS</script>", "<style/>MARKS</style>", "<script>MARKS", "<math><style>MARKS</style>", "<scrİpt>x</script>"})
	case "C07":
		// a canonical serialisation of a random well-formed tree in the policy's own vocabulary
		var gen func(depth int) string
		texts := []string{"hello", "a &amp; b", "1 &lt; 2", "x&gt;y", "&#34;q&#34;", "it&#39;s", "caf\u00e9", " ", "MARK"}
		gen = func(depth int) string {
			var b strings.Builder
			for i := 0; i < 1+rng.Intn(3); i++ {
				switch k := rng.Intn(6); {
				case k < 2:
					b.WriteString(pick(rng, texts))
				case k < 3:
					b.WriteString("<" + pick(rng, []string{"br", "hr"}) + ">")
				default:
					el := pick(rng, []string{"b", "i", "p", "div", "span", "ul", "li", "em", "strong"})
					b.WriteString("<" + el)
					for _, k := range []string{"id", "title", "class"} {
						if rng.Intn(3) == 0 {
							b.WriteString(" " + k + "=\"" + pick(rng, []string{"x", "a b", "", "n-1", "it&#39;s", "a&amp;b"}) + "\"")
						}
					}
					b.WriteString(">")
					if depth < 3 {
						b.WriteString(gen(depth + 1))
					}
					b.WriteString("</" + el + ">")
				}
			}
			return b.String()
		}
		d := gen(0)
		// adjacent text runs are one token: merge happens naturally in the string
		return d
	case "C03":
		var b strings.Builder
		corpus := urlCorpus(rng, 3)
		for i := 0; i < 1+rng.Intn(3); i++ {
			el := pick(rng, []string{"a", "area", "base", "link", "blockquote", "del", "ins", "q", "audio", "embed", "iframe", "img", "input", "script", "source", "track", "video"})
			key := "src"
			switch el {
			case "a", "area", "base", "link":
				key = "href"
			case "blockquote", "del", "ins", "q":
				key = "cite"
			}
			b.WriteString("<" + el + " " + key + "=\"" + html.EscapeString(pick(rng, corpus)) + "\" id=\"i\">")
		}
		return b.String()
	case "C11":
		var b strings.Builder
		for i := 0; i < 1+rng.Intn(3); i++ {
			b.WriteString(g.startTag(pick(rng, []string{"a", "a", "area", "link", "base"}), false) + "t")
		}
		return b.String()
	}
	d, _ := g.document()
	return d
}

// oracleFor returns the check for one property; the check returns whether the case was non-trivial
func oracleFor(prop string, fail func(oracleCase, string, map[string]any), sum *summary) func(oracleCase, *specView) bool {
	switch prop {
	case "C10":
		return oracleC10(fail)
	case "C01":
		return func(c oracleCase, v *specView) bool {
			if v.unsafe {
				return false
			}
			out := c.gp.Sanitize(c.doc)
			nt := false
			for _, t := range goTokens(out) {
				switch {
				case isTag(t):
					nt = true
					if !v.elemAllowed(t.Data) {
						fail(c, "tag of an element that is not allowed: "+t.Data, nil)
					}
				case t.Type == html.CommentToken:
					if !v.comments {
						fail(c, "comment in the output although comments are not allowed", nil)
					}
				case t.Type == html.DoctypeToken:
					fail(c, "doctype in the output", nil)
				}
			}
			// the DOM in several container contexts
			for _, ctx := range fragmentContexts {
				nodes, err := html.ParseFragment(strings.NewReader(out), &html.Node{Type: html.ElementNode, Data: ctx.String(), DataAtom: ctx})
				if err != nil {
					continue
				}
				for _, n := range nodes {
					walk(n, func(x *html.Node) {
						if x.Type == html.ElementNode {
							name := strings.ToLower(x.Data)
							if !v.elemAllowed(name) && !implied[name] && !(name == "img" && v.elemAllowed("image")) {
								fail(c, fmt.Sprintf("DOM element %q (context %s) is not allowed", name, ctx), nil)
							}
						}
						if x.Type == html.CommentNode && !v.comments {
							fail(c, fmt.Sprintf("DOM comment (context %s) although comments are not allowed", ctx), nil)
						}
						if x.Type == html.DoctypeNode {
							fail(c, "DOM doctype", nil)
						}
					})
				}
			}
			return nt
		}
	case "C05":
		return func(c oracleCase, v *specView) bool {
			if v.unsafe {
				return false
			}
			out := c.gp.Sanitize(c.doc)
			for _, t := range goTokens(out) {
				if isTag(t) && (strings.EqualFold(t.Data, "script") || strings.EqualFold(t.Data, "style")) {
					fail(c, "script/style tag in the output", nil)
				}
			}
			// the body of a script/style element is the text token that directly follows its start tag
			in := goTokens(c.doc)
			nt := false
			for i, t := range in {
				if (t.Type == html.StartTagToken || t.Type == html.SelfClosingTagToken) && (t.Data == "script" || t.Data == "style") &&
					i+1 < len(in) && in[i+1].Type == html.TextToken && strings.Contains(in[i+1].Data, "MARKS") {
					nt = true
					if strings.Contains(out, "MARKS") {
						fail(c, "text from inside a script/style element in the output", nil)
					}
				}
			}
			return nt
		}
	case "C06":
		return func(c oracleCase, v *specView) bool {
			if v.unsafe {
				return false
			}
			for _, n := range []string{"iframe", "noembed", "noframes", "noscript", "plaintext", "xmp"} {
				if v.elemAllowed(n) {
					return false
				}
			}
			in := goTokens(c.doc)
			for _, t := range in {
				if isTag(t) && (t.Data == "script" || t.Data == "style" || v.skip[t.Data]) {
					return false
				}
			}
			out := goTokens(c.gp.Sanitize(c.doc))
			if !v.addSpaces {
				if textOf(out) != textOf(in) {
					fail(c, "text read from the output differs from the text read from the input", map[string]any{"text_in": textOf(in), "text_out": textOf(out)})
				}
				return true
			}
			// with AddSpaceWhenStrippingTag: exactly one blank per removed tag
			removed := 0
			for _, t := range in {
				if isTag(t) {
					removed++
				}
			}
			for _, t := range out {
				if isTag(t) {
					removed--
				}
			}
			if len(textOf(out)) != len(textOf(in))+removed || strings.ReplaceAll(textOf(out), " ", "") != strings.ReplaceAll(textOf(in), " ", "") {
				fail(c, "with space insertion the output text is not the input text plus one blank per removed tag", map[string]any{"text_in": textOf(in), "text_out": textOf(out), "removed_tags": removed})
			}
			return true
		}
	case "C08":
		return func(c oracleCase, v *specView) bool {
			if v.unsafe {
				return false
			}
			// kept raw-text elements re-escape their content (the C06 class restriction applies here too)
			for _, n := range []string{"iframe", "noembed", "noframes", "noscript", "plaintext", "xmp"} {
				if v.elemAllowed(n) {
					return false
				}
			}
			// the text outside hidden elements (tracked on the well-nested input) must equal the output's text
			in := goTokens(c.doc)
			depth := 0
			var visible strings.Builder
			var stack []string
			nt := false
			for _, t := range in {
				switch t.Type {
				case html.StartTagToken:
					if voidElems[t.Data] {
						continue
					}
					stack = append(stack, t.Data)
					if v.hidden(t.Data) {
						depth++
						nt = true
					}
				case html.EndTagToken:
					if voidElems[t.Data] {
						continue
					}
					if len(stack) == 0 || stack[len(stack)-1] != t.Data {
						return false // a stray or crossing end tag: the input is not well nested
					}
					stack = stack[:len(stack)-1]
					if v.hidden(t.Data) {
						depth--
					}
				case html.TextToken:
					if depth == 0 {
						visible.WriteString(t.Data)
					}
				}
			}
			if len(stack) != 0 {
				return false // the generator produced something the tokenizer does not see as well nested (raw text)
			}
			got := textOf(goTokens(c.gp.Sanitize(c.doc)))
			want := visible.String()
			if v.addSpaces {
				got, want = strings.ReplaceAll(got, " ", ""), strings.ReplaceAll(want, " ", "")
			}
			if got != want {
				fail(c, "text of the output is not the text outside skipped elements", map[string]any{"want_text": want, "got_text": got})
			}
			return nt
		}
	case "C09":
		return func(c oracleCase, v *specView) bool {
			if v.unsafe {
				return false
			}
			balanced := func(ts []html.Token) (bool, string) {
				var st []string
				for _, t := range ts {
					switch t.Type {
					case html.StartTagToken:
						if !voidElems[t.Data] {
							st = append(st, t.Data)
						}
					case html.EndTagToken:
						if voidElems[t.Data] {
							continue
						}
						if len(st) == 0 || st[len(st)-1] != t.Data {
							return false, t.Data
						}
						st = st[:len(st)-1]
					}
				}
				if len(st) != 0 {
					return false, st[len(st)-1]
				}
				return true, ""
			}
			if ok, _ := balanced(goTokens(c.doc)); !ok {
				return false
			}
			out := c.gp.Sanitize(c.doc)
			if ok, at := balanced(goTokens(out)); !ok {
				fail(c, "well-nested input, output not well nested at "+at, nil)
			}
			return true
		}
	case "C20":
		return func(c oracleCase, v *specView) bool {
			if v.unsafe || v.comments {
				return false
			}
			for _, n := range []string{"iframe", "noembed", "noframes", "noscript", "plaintext", "xmp"} {
				if v.elemAllowed(n) {
					return false
				}
			}
			for _, o := range c.ps.Ops {
				if o.Kind == "rewritesrc" {
					return false
				}
				if o.Kind == "attrs" && o.Re != "" {
					for _, n := range o.Names {
						switch strings.ToLower(n) {
						case "href", "cite", "src", "rel", "target", "crossorigin", "sandbox":
							return false
						}
					}
				}
			}
			once := c.gp.Sanitize(c.doc)
			twice := c.gp.Sanitize(once)
			if once != twice {
				if sortedAttrs(once) == sortedAttrs(twice) {
					// which tag, and which of the attributes the passes can force on that element the policy itself allows
					t1, t2 := goTokens(once), goTokens(twice)
					elem, allowed := "", ""
					for i := range t1 {
						if i < len(t2) && isTag(t1[i]) && t1[i].String() != t2[i].String() {
							elem = t1[i].Data
							break
						}
					}
					relevant := map[string][]string{"a": {"rel", "target"}, "area": {"rel"}, "base": {"rel"}, "link": {"crossorigin", "rel"},
						"audio": {"crossorigin"}, "img": {"crossorigin"}, "script": {"crossorigin"}, "video": {"crossorigin"}}[elem]
					var al []string
					for _, k := range relevant {
						if specAllowsAttr(c.ps, elem, k) {
							al = append(al, k)
						}
					}
					allowed = strings.Join(al, ",")
					fail(c, "sanitising the output again changes only the order of the attributes of a tag", map[string]any{"once": once, "twice": twice,
						"reordered_elem": elem, "forced_allowed": allowed})
				} else {
					fail(c, "sanitising the output again changes it", map[string]any{"once": once, "twice": twice})
				}
			}
			return once != "" && once != c.doc
		}
	case "C11":
		return func(c oracleCase, v *specView) bool {
			nf, _ := v.flag("nofollow")
			nffq, _ := v.flag("nofollowfq")
			nr, _ := v.flag("noreferrer")
			nrfq, _ := v.flag("noreferrerfq")
			tb, _ := v.flag("targetblank")
			if !(nf || nffq || nr || nrfq || tb) {
				return false
			}
			nt := false
			for _, t := range goTokens(c.gp.Sanitize(c.doc)) {
				if t.Type != html.StartTagToken && t.Type != html.SelfClosingTagToken {
					continue
				}
				if t.Data != "a" && t.Data != "area" && t.Data != "link" {
					continue
				}
				var href, rel, target *string
				ext := false
				for i := range t.Attr {
					a := &t.Attr[i]
					switch a.Key {
					case "href":
						if href == nil {
							href = &a.Val
						}
						if u, err := url.Parse(a.Val); err == nil && u.Host != "" {
							ext = true
						}
					case "rel":
						if rel == nil {
							rel = &a.Val
						}
					case "target":
						if target == nil {
							target = &a.Val
						}
					}
				}
				if href == nil {
					continue
				}
				nt = true
				has := func(tok string) bool {
					if rel == nil {
						return false
					}
					for _, f := range strings.FieldsFunc(*rel, func(r rune) bool { return strings.ContainsRune(" \t\n\f\r", r) }) {
						if strings.EqualFold(f, tok) {
							return true
						}
					}
					return false
				}
				if (nf || (nffq && ext)) && !has("nofollow") {
					fail(c, "link with href lacks rel token nofollow", map[string]any{"tag": t.String()})
				}
				if (nr || (nrfq && ext)) && !has("noreferrer") {
					fail(c, "link with href lacks rel token noreferrer", map[string]any{"tag": t.String()})
				}
				if t.Data == "a" && tb && ext && (target == nil || *target != "_blank") {
					fail(c, "fully qualified link lacks target=_blank", map[string]any{"tag": t.String()})
				}
				if t.Data == "a" && target != nil && *target == "_blank" && !has("noopener") {
					fail(c, "target=_blank without rel token noopener", map[string]any{"tag": t.String()})
				}
				if rel != nil {
					seen := map[string]int{}
					for _, f := range strings.FieldsFunc(*rel, func(r rune) bool { return strings.ContainsRune(" \t\n\f\r", r) }) {
						seen[strings.ToLower(f)]++
					}
					for _, w := range []string{"nofollow", "noreferrer", "noopener"} {
						if seen[w] > 1 {
							// duplicates that were already in the input are not the sanitiser's doing
							if !strings.Contains(strings.ToLower(c.doc), w+" "+w) && strings.Count(strings.ToLower(c.doc), w) < 2 {
								fail(c, "required rel token duplicated: "+w, map[string]any{"tag": t.String()})
							}
						}
					}
				}
			}
			return nt
		}
	case "C12":
		return func(c oracleCase, v *specView) bool {
			co, _ := v.flag("crossorigin")
			var sandbox map[string]bool
			for _, o := range c.ps.Ops {
				if o.Kind == "sandbox" {
					sandbox = map[string]bool{}
					for _, x := range o.Vals {
						if x >= 0 && x < len(sandboxNames) {
							sandbox[sandboxNames[x]] = true
						}
					}
				}
			}
			if !co && sandbox == nil {
				return false
			}
			nt := false
			for _, t := range goTokens(c.gp.Sanitize(c.doc)) {
				if (t.Type != html.StartTagToken && t.Type != html.SelfClosingTagToken) || len(t.Attr) == 0 {
					continue
				}
				if co && (t.Data == "audio" || t.Data == "img" || t.Data == "link" || t.Data == "script" || t.Data == "video") {
					nt = true
					n := 0
					for _, a := range t.Attr {
						if a.Key == "crossorigin" {
							n++
							if a.Val != "anonymous" {
								fail(c, "crossorigin value other than anonymous", map[string]any{"tag": t.String()})
							}
						}
					}
					if n == 0 {
						fail(c, "media element emitted with attributes lacks crossorigin", map[string]any{"tag": t.String()})
					}
				}
				if sandbox != nil && t.Data == "iframe" {
					nt = true
					n := 0
					for _, a := range t.Attr {
						if a.Key == "sandbox" {
							n++
							seen := map[string]bool{}
							for _, f := range strings.Fields(a.Val) {
								if !sandbox[f] {
									fail(c, "sandbox token not listed by the policy: "+f, map[string]any{"tag": t.String()})
								}
								if seen[f] {
									fail(c, "sandbox token duplicated: "+f, map[string]any{"tag": t.String()})
								}
								seen[f] = true
							}
						}
					}
					if n == 0 {
						fail(c, "iframe emitted with attributes lacks sandbox", map[string]any{"tag": t.String()})
					}
				}
			}
			return nt
		}
	case "C07":
		return func(c oracleCase, v *specView) bool {
			out := c.gp.Sanitize(c.doc)
			if out != c.doc {
				fail(c, "a conforming document in canonical serialisation is not returned byte for byte", nil)
			}
			return strings.Contains(c.doc, "<")
		}
	case "C02":
		return func(c oracleCase, v *specView) bool {
			if v.unsafe {
				return false
			}
			anyLink := false
			for _, k := range []string{"nofollow", "nofollowfq", "noreferrer", "noreferrerfq", "targetblank"} {
				if b, _ := v.flag(k); b {
					anyLink = true
				}
			}
			tb, _ := v.flag("targetblank")
			co, _ := v.flag("crossorigin")
			hasSandbox := false
			for _, o := range c.ps.Ops {
				if o.Kind == "sandbox" {
					hasSandbox = true
				}
			}
			explicit := func(el string) bool { return v.elems[el] }
			nt := false
			for _, t := range goTokens(c.gp.Sanitize(c.doc)) {
				if t.Type != html.StartTagToken && t.Type != html.SelfClosingTagToken {
					continue
				}
				if len(t.Attr) == 0 {
					if !v.bareAllowed(t.Data) {
						fail(c, "element emitted bare although it is not allowed without attributes: "+t.Data, nil)
					}
					continue
				}
				for _, a := range t.Attr {
					nt = true
					switch {
					case a.Key == "rel" && anyLink, a.Key == "target" && tb, a.Key == "crossorigin" && co, a.Key == "sandbox" && hasSandbox && t.Data == "iframe":
						continue
					}
					if v.dataAttrs && strings.HasPrefix(a.Key, "data-") && len(a.Key) > 5 {
						rest := a.Key[5:]
						if !strings.HasPrefix(rest, "xml") && !strings.ContainsAny(rest, "ABCDEFGHIJKLMNOPQRSTUVWXYZ;") {
							continue
						}
					}
					justified := false
					for _, o := range c.ps.Ops {
						applies := false
						switch o.Scope {
						case "G":
							applies = true
						case "E":
							for _, e := range o.ScopeEls {
								if strings.ToLower(e) == t.Data {
									applies = true
								}
							}
						case "M":
							applies = !explicit(t.Data) && getRx(o.ScopeRe).re.MatchString(t.Data)
						}
						if !applies {
							continue
						}
						if o.Kind == "styles" && a.Key == "style" {
							justified = true
						}
						if o.Kind == "attrs" {
							for _, n := range o.Names {
								if strings.ToLower(n) != a.Key {
									continue
								}
								if o.Re == "" || urlPosition(t.Data, a.Key) || a.Key == "rel" || a.Key == "target" || a.Key == "crossorigin" || a.Key == "sandbox" {
									justified = true
								} else if getRx(o.Re).re.MatchString(a.Val) {
									justified = true
								}
							}
						}
					}
					if !justified {
						fail(c, fmt.Sprintf("attribute %s on %s is not justified by any rule (value %q)", a.Key, t.Data, a.Val), map[string]any{"tag": t.String()})
					}
				}
			}
			return nt
		}
	case "C03":
		return func(c oracleCase, v *specView) bool {
			parse, _ := v.flag("parseable")
			// options that imply URL checking; the last explicit RequireParseableURLs wins
			schemes := map[string]bool{}
			custom := map[string]bool{}
			var schemeRes []*regexp.Regexp
			rel := false
			rewr := false
			for _, o := range c.ps.Ops {
				switch o.Kind {
				case "schemes":
					parse = true
					for _, s := range o.Names {
						schemes[strings.ToLower(s)] = true
						delete(custom, strings.ToLower(s))
					}
				case "schemecustom":
					parse = true
					schemes[strings.ToLower(o.Scheme)] = true
					custom[strings.ToLower(o.Scheme)] = true
				case "schemesmatching":
					schemeRes = append(schemeRes, getRx(o.Re).re)
				case "relative":
					parse = true
					rel = o.B
				case "nofollow", "nofollowfq", "noreferrer", "noreferrerfq", "targetblank":
					parse = true
				case "parseable":
					parse = o.B
				case "rewritesrc":
					rewr = true
				}
			}
			if !parse || rewr {
				return false
			}
			nt := false
			for _, t := range goTokens(c.gp.Sanitize(c.doc)) {
				if t.Type != html.StartTagToken && t.Type != html.SelfClosingTagToken {
					continue
				}
				for _, a := range t.Attr {
					if !urlPosition(t.Data, a.Key) {
						continue
					}
					nt = true
					sc, has := whatwgScheme(a.Val)
					switch {
					case has:
						ok := schemes[sc]
						if !ok {
							for _, r := range schemeRes {
								if r.MatchString(sc) {
									ok = true
								}
							}
						}
						if !ok {
							fail(c, fmt.Sprintf("%s %s resolves to scheme %q which is not allowed", t.Data, a.Key, sc), map[string]any{"value": a.Val})
						}
					case !rel:
						fail(c, fmt.Sprintf("%s %s is a relative URL but relative URLs are not allowed", t.Data, a.Key), map[string]any{"value": a.Val})
					}
					for i := 0; i < len(a.Val); i++ {
						if a.Val[i] <= 0x20 || a.Val[i] == 0x7f {
							fail(c, fmt.Sprintf("%s %s contains white space or a control character", t.Data, a.Key), map[string]any{"value": a.Val})
							break
						}
					}
				}
			}
			return nt
		}
	}
	return nil
}

var sandboxNames = []string{"allow-downloads", "allow-downloads-without-user-activation", "allow-forms", "allow-modals", "allow-orientation-lock",
	"allow-pointer-lock", "allow-popups", "allow-popups-to-escape-sandbox", "allow-presentation", "allow-same-origin", "allow-scripts",
	"allow-storage-access-by-user-activation", "allow-top-navigation", "allow-top-navigation-by-user-activation"}

// the fifteen (element, attribute) URL positions of the property text
func urlPosition(el, key string) bool {
	switch key {
	case "href":
		return el == "a" || el == "area" || el == "base" || el == "link"
	case "cite":
		return el == "blockquote" || el == "del" || el == "ins" || el == "q"
	case "src":
		switch el {
		case "audio", "embed", "iframe", "img", "input", "script", "source", "track", "video":
			return true
		}
	}
	return false
}

// WHATWG URL scheme extraction: strip leading/trailing C0-or-space, remove TAB/LF/CR, then
// ASCII alpha followed by alphanumerics + - . up to ':'
func whatwgScheme(s string) (string, bool) {
	s = strings.TrimFunc(s, func(r rune) bool { return r <= 0x20 })
	s = strings.NewReplacer("\t", "", "\n", "", "\r", "").Replace(s)
	for i := 0; i < len(s); i++ {
		c := s[i]
		switch {
		case 'a' <= c && c <= 'z' || 'A' <= c && c <= 'Z':
		case ('0' <= c && c <= '9' || c == '+' || c == '-' || c == '.') && i > 0:
		case c == ':' && i > 0:
			return strings.ToLower(s[:i]), true
		default:
			return "", false
		}
	}
	return "", false
}

func parseSpec(js string) *PolicySpec {
	ps := &PolicySpec{}
	if js != "" {
		if err := jsonUnmarshal(js, ps); err != nil {
			panic(err)
		}
	}
	return ps
}

var _ = sort.Strings

// specAllowsAttr: does a builder call of the spec allow the attribute on the element (named element, matching pattern, or globally)?
func specAllowsAttr(ps *PolicySpec, elem, key string) bool {
	for _, o := range ps.Ops {
		if o.Kind != "attrs" {
			continue
		}
		has := false
		for _, n := range o.Names {
			has = has || strings.ToLower(n) == key
		}
		if !has {
			continue
		}
		switch o.Scope {
		case "E":
			for _, e := range o.ScopeEls {
				if strings.ToLower(e) == elem {
					return true
				}
			}
		case "M":
			if getRx(o.ScopeRe).re.MatchString(elem) {
				return true
			}
		default:
			return true
		}
	}
	return false
}
