package main

import (
	"flag"
	"fmt"
	"math/rand"
	"strings"

	"github.com/microcosm-cc/bluemonday"
	"golang.org/x/net/html"
)

func mkAttrs(kv ...string) []html.Attribute {
	var out []html.Attribute
	for i := 0; i+1 < len(kv); i += 2 {
		out = append(out, html.Attribute{Key: kv[i], Val: kv[i+1]})
	}
	return out
}

func goAttrs(p *bluemonday.Policy, elem string, attrs []html.Attribute) (res string) {
	defer func() {
		if r := recover(); r != nil {
			res = "A PANIC " + fmt.Sprint(r)
		}
	}()
	out, found := bluemonday.VerifSanitizeAttrs(p, elem, attrs)
	if !found {
		return "A 0 _"
	}
	return "A 1 " + attrsStr(out)
}

type attrCase struct {
	ps    *PolicySpec
	elem  string
	attrs []html.Attribute
}

// linkGrid: the C11 generator: link elements, every combination of the five options,
// all orders and multiplicities of href/rel/target
func linkGrid(rng *rand.Rand, full bool) []attrCase {
	var cases []attrCase
	hrefs := []string{"http://example.org/", "/local", "#f", "javascript:alert(1)", "//host/x", "mailto:a@b.c", "http://", "%zz", "http://[::1", ":"}
	rels := []string{"nofollow", "noopener", "noreferrer", "xnofollowx", "nonoopener", "NOFOLLOW", "me", "", "nofollow noreferrer noopener", "noreferrer nofollow", "a nofollowb",
		"tag\u00a0nofollow\u00a0noreferrer\u00a0noopener", "a\vnofollow", "x\u0085noopener", "nofollow\u2003noreferrer", "a\tnofollow\nnoopener\fnoreferrer", "NoOpener"}
	targets := []string{"_blank", "_self", ""}
	pool := [][2]string{}
	for _, h := range hrefs {
		pool = append(pool, [2]string{"href", h})
	}
	for _, r := range rels {
		pool = append(pool, [2]string{"rel", r})
	}
	for _, t := range targets {
		pool = append(pool, [2]string{"target", t})
	}
	pool = append(pool, [2]string{"id", "x"}, [2]string{"crossorigin", "use-credentials"})
	// which of the attributes the sanitiser forces are also allowed by the policy: both of rel/target, rel only, target only, neither;
	// then, with RequireCrossOriginAnonymous (link is both a link and a crossorigin element): crossorigin only, rel and crossorigin, neither
	allowed := [][]string{{"href", "rel", "target", "id"}, {"href", "rel", "id"}, {"href", "target", "id"}, {"href", "id"},
		{"href", "crossorigin", "id"}, {"href", "rel", "crossorigin", "target"}, {"href", "id"}}
	for variant, names0 := range allowed {
		for opts := 0; opts < 32; opts++ {
			ops := []Op{{Kind: "attrs", Names: names0, Scope: "E", ScopeEls: []string{"a", "area", "link", "base", "b"}},
				{Kind: "schemes", Names: []string{"http", "https", "mailto"}}, {Kind: "relative", B: true}}
			if variant >= 4 {
				ops = append(ops, Op{Kind: "crossorigin", B: true})
			}
			names := []string{"nofollow", "nofollowfq", "noreferrer", "noreferrerfq", "targetblank"}
			for i, n := range names {
				if opts&(1<<i) != 0 {
					ops = append(ops, Op{Kind: n, B: true})
				}
			}
			if opts%7 == 3 {
				ops = append(ops, Op{Kind: "parseable", B: false})
			}
			ps := &PolicySpec{Name: fmt.Sprintf("link-%02d-v%d", opts, variant), Ops: ops}
			n := 60
			if variant > 0 {
				n = 15
			}
			if full {
				n = 400
			}
			for i := 0; i < n; i++ {
				k := 1 + rng.Intn(4)
				var as []html.Attribute
				for j := 0; j < k; j++ {
					kv := pool[rng.Intn(len(pool))]
					as = append(as, html.Attribute{Key: kv[0], Val: kv[1]})
				}
				cases = append(cases, attrCase{ps, pick(rng, []string{"a", "a", "a", "area", "link", "base", "b"}), as})
			}
		}
	}
	return cases
}

// urlGrid: the C03 generator: every URL fragment at every URL position (the 15 element/attribute
// pairs and a few that are not URL positions) under policies with and without a src rewriter, custom
// scheme policies, scheme patterns, relative URLs on/off, URL checking off
func urlGrid() []attrCase {
	var cases []attrCase
	pos := [][2]string{{"a", "href"}, {"area", "href"}, {"base", "href"}, {"link", "href"}, {"blockquote", "cite"}, {"del", "cite"}, {"ins", "cite"}, {"q", "cite"},
		{"audio", "src"}, {"embed", "src"}, {"iframe", "src"}, {"img", "src"}, {"input", "src"}, {"script", "src"}, {"source", "src"}, {"track", "src"}, {"video", "src"},
		{"b", "src"}, {"img", "href"}, {"a", "src"}}
	var els []string
	for _, p := range pos {
		els = append(els, p[0])
	}
	base := []Op{{Kind: "elements", Names: els}, {Kind: "attrs", Names: []string{"href", "src", "cite", "id"}, Scope: "G"}}
	mk := func(name string, ops ...Op) *PolicySpec {
		return &PolicySpec{Name: name, Ops: append(append([]Op{}, base...), ops...)}
	}
	pols := []*PolicySpec{
		mk("ug-proxy", Op{Kind: "schemes", Names: []string{"http", "https", "mailto"}}, Op{Kind: "relative", B: true}, Op{Kind: "rewritesrc", CB: "proxy"}),
		mk("ug-proxy-data", Op{Kind: "schemes", Names: []string{"http", "https"}}, Op{Kind: "schemecustom", Scheme: "data", CB: "data"}, Op{Kind: "rewritesrc", CB: "proxy"}),
		mk("ug-id-norel", Op{Kind: "schemes", Names: []string{"https", "tel", "x"}}, Op{Kind: "rewritesrc", CB: "id"}),
		mk("ug-plain", Op{Kind: "schemes", Names: []string{"http", "https", "mailto"}}, Op{Kind: "relative", B: true}),
		mk("ug-regex", Op{Kind: "schemesmatching", Re: `^(ht|f)tps?$`}, Op{Kind: "relative", B: true}, Op{Kind: "rewritesrc", CB: "proxy"}),
		mk("ug-off", Op{Kind: "schemes", Names: []string{"http"}}, Op{Kind: "rewritesrc", CB: "proxy"}, Op{Kind: "parseable", B: false}),
	}
	for _, ps := range pols {
		for _, p := range pos {
			for _, u := range urlFrags {
				cases = append(cases, attrCase{ps, p[0], []html.Attribute{{Key: p[1], Val: u}, {Key: "id", Val: "i"}}})
			}
		}
	}
	return cases
}

// forcedGrid: the C12 generator: crossorigin and sandbox
func forcedGrid(rng *rand.Rand, full bool) []attrCase {
	var cases []attrCase
	toks := []string{"allow-forms", "allow-scripts", "allow-same-origin", "allow-modals", "allow-popups", "bogus", "ALLOW-FORMS", "allow-downloads", "allow-top-navigation", "allow-presentation",
		"Allow-Scripts", "allow-scripts", "ALLOW-SAME-ORIGIN", "Allow-Forms", "allow-forms", "Allow-Modals", "allow-Popups"}
	n := 12
	if full {
		n = 80
	}
	for i := 0; i < n; i++ {
		var vals []int
		for v := 0; v < 15; v++ {
			if rng.Intn(3) == 0 {
				vals = append(vals, v)
			}
		}
		if i == 0 {
			vals = nil
		}
		if i == 1 {
			vals = []int{0, 1, 2, 3, 4, 5, 6, 7, 8, 9, 10, 11, 12, 13}
		}
		if i >= 2 && i < 16 {
			vals = []int{i - 2}
		}
		ops := []Op{{Kind: "attrs", Names: []string{"sandbox", "crossorigin", "src", "id"}, Scope: "E", ScopeEls: []string{"iframe", "img", "audio", "video", "link", "script", "b"}},
			{Kind: "sandbox", Vals: vals}}
		if rng.Intn(2) == 0 {
			ops = append(ops, Op{Kind: "crossorigin", B: true})
		}
		if rng.Intn(3) == 0 {
			ops = append(ops, Op{Kind: "schemes", Names: []string{"https"}})
		}
		ps := &PolicySpec{Name: fmt.Sprintf("forced-%d", i), Ops: ops}
		for j := 0; j < 40; j++ {
			var as []html.Attribute
			for k := 0; k < rng.Intn(4); k++ {
				switch rng.Intn(4) {
				case 0:
					as = append(as, html.Attribute{Key: "sandbox", Val: strings.Join(pickN(rng, toks, rng.Intn(5)), pick(rng, []string{" ", "  ", "\t", "\n", " ", " "}))})
				case 1:
					as = append(as, html.Attribute{Key: "crossorigin", Val: pick(rng, []string{"anonymous", "use-credentials", "", "x"})})
				case 2:
					as = append(as, html.Attribute{Key: "src", Val: pick(rng, []string{"https://x/", "javascript:1", "/p"})})
				default:
					as = append(as, html.Attribute{Key: "id", Val: "i"})
				}
			}
			cases = append(cases, attrCase{ps, pick(rng, []string{"iframe", "iframe", "img", "audio", "video", "link", "script", "b"}), as})
		}
	}
	return cases
}

// generalAttrs: random policies, random elements and attribute lists (C02)
func generalAttrs(rng *rand.Rand, nPol, nCase int) []attrCase {
	var cases []attrCase
	for i := 0; i < nPol; i++ {
		ps := randPolicy(rng, false)
		g := newDocGen(rng, ps)
		for j := 0; j < nCase; j++ {
			var as []html.Attribute
			for k := 0; k < 1+rng.Intn(4); k++ {
				key := pick(rng, g.attrs)
				if rng.Intn(8) == 0 {
					key = pick(rng, []string{"data-a-data-;x", "data-xmlfoo", "data-Up", "data-", "data-ok", "data-x-y", "data-xml", "data-\n", "data-é"})
				}
				as = append(as, html.Attribute{Key: key, Val: attrValue(rng, key)})
			}
			cases = append(cases, attrCase{ps, pick(rng, g.elems), as})
		}
	}
	return cases
}

func attrsMode(args []string) {
	fs := flag.NewFlagSet("attrs", flag.ExitOnError)
	drv := fs.String("driver", "", "driver binary")
	seed := fs.Int64("seed", 1, "seed")
	which := fs.String("gen", "all", "link | forced | general | all")
	full := fs.Bool("full", false, "thorough sizes")
	fs.Parse(args)
	rng := rand.New(rand.NewSource(*seed))
	sum := newSummary("corr-attrs-" + *which)
	d := startDriver(*drv)
	defer d.close()
	var cases []attrCase
	if *which == "link" || *which == "all" {
		cases = append(cases, linkGrid(rng, *full)...)
	}
	if *which == "forced" || *which == "all" {
		cases = append(cases, forcedGrid(rng, *full)...)
	}
	if *which == "url" || *which == "all" {
		cases = append(cases, urlGrid()...)
	}
	if *which == "general" || *which == "all" {
		n := 40
		if *full {
			n = 300
		}
		cases = append(cases, generalAttrs(rng, n, 50)...)
	}
	defined := map[*PolicySpec]string{}
	built := map[*PolicySpec]*bluemonday.Policy{}
	distinct := map[string]bool{}
	for _, c := range cases {
		pid, ok := defined[c.ps]
		if !ok {
			polCounter++
			pid = fmt.Sprintf("ap%d", polCounter)
			defined[c.ps] = pid
			c.ps.define(d, pid)
			built[c.ps] = c.ps.buildGo()
		}
		goS := goAttrs(built[c.ps], c.elem, c.attrs)
		mS := strings.TrimRight(d.askOracle("ATTRS "+pid+" "+hexOf(c.elem)+" "+attrsStr(c.attrs)), " ")
		sum.Evaluations++
		in := attrsStr(c.attrs)
		if goS != "A 0 _" && goS != "A 1 "+in {
			distinct[pid+c.elem+in] = true
			sum.Distribution["changed"]++
		} else if goS == "A 0 _" {
			sum.Distribution["element-not-allowed"]++
		} else {
			sum.Distribution["unchanged"]++
		}
		if goS != mS {
			sum.Mismatches = append(sum.Mismatches, map[string]any{"kind": "correspondence-attrs", "element": c.elem, "attrs": c.attrs, "policy": c.ps, "go": goS, "model": mS})
			if len(sum.Mismatches) >= 8 {
				break
			}
		}
		if len(sum.Samples) < 4 && sum.Evaluations%997 == 5 {
			sum.Samples = append(sum.Samples, map[string]any{"policy": c.ps.Name, "element": c.elem, "attrs": c.attrs, "observed": goS})
		}
	}
	sum.Nontrivial = len(distinct)
	for k, v := range oracleStats {
		sum.Distribution["oracle-"+k] = v
	}
	if len(urlHypothesisFailures) > 0 {
		sum.Extra["url_hypothesis_failures"] = urlHypothesisFailures
	}
	sum.emit()
}
