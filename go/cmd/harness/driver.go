package main

import (
	"bufio"
	"fmt"
	"io"
	"os"
	"os/exec"
)

// driver is a pipe to the OCaml process running the extracted model.
type driver struct {
	cmd *exec.Cmd
	in  *bufio.Writer
	out *bufio.Reader
	w   io.WriteCloser
}

func startDriver(path string) *driver {
	c := exec.Command(path)
	w, err := c.StdinPipe()
	if err != nil {
		panic(err)
	}
	r, err := c.StdoutPipe()
	if err != nil {
		panic(err)
	}
	c.Stderr = os.Stderr
	if err := c.Start(); err != nil {
		fmt.Fprintln(os.Stderr, "cannot start driver:", err)
		os.Exit(2)
	}
	return &driver{cmd: c, in: bufio.NewWriterSize(w, 1<<20), out: bufio.NewReaderSize(r, 1<<20), w: w}
}

// send writes a line that produces no answer.
func (d *driver) send(line string) {
	d.in.WriteString(line)
	d.in.WriteByte('\n')
}

// ask writes a line and reads the one-line answer.
func (d *driver) ask(line string) string {
	d.send(line)
	d.send("F")
	d.in.Flush()
	return d.read()
}

// askMany pipelines the lines (each produces exactly one answer line).
func (d *driver) askMany(lines []string) []string {
	out := make([]string, 0, len(lines))
	const batch = 512
	for i := 0; i < len(lines); i += batch {
		j := i + batch
		if j > len(lines) {
			j = len(lines)
		}
		for _, l := range lines[i:j] {
			d.send(l)
		}
		d.send("F")
		d.in.Flush()
		for k := i; k < j; k++ {
			out = append(out, d.read())
		}
	}
	return out
}

func (d *driver) flush() { d.in.Flush() }

func (d *driver) read() string {
	s, err := d.out.ReadString('\n')
	if err != nil {
		fmt.Fprintln(os.Stderr, "driver died:", err)
		os.Exit(2)
	}
	return s[:len(s)-1]
}

func (d *driver) close() {
	d.in.Flush()
	d.w.Close()
	d.cmd.Wait()
}

func hexOf(s string) string {
	if s == "" {
		return "-"
	}
	return fmt.Sprintf("%x", s)
}
