package main

import (
	"sort"
	"bufio"
	"encoding/hex"
	"flag"
	"math/rand"
	"os"
	"regexp"
	"strings"

	"github.com/microcosm-cc/bluemonday"
	"golang.org/x/net/html"
)

var reGenName = regexp.MustCompile(`\b(bm|css|cmdugc|cmdemail)_[A-Za-z0-9_]+\b`)

// shipped: (a) the tables of the real UGCPolicy()/StrictPolicy() against the model's build of the
// translated builder scripts; (b) the C04 oracle on the real output of both policies
func shippedMode(args []string) {
	fs := flag.NewFlagSet("shipped", flag.ExitOnError)
	drv := fs.String("driver", "", "driver binary")
	tsv := fs.String("regexps", "", "regexps.tsv written by gen")
	seed := fs.Int64("seed", 1, "seed")
	nDoc := fs.Int("docs", 1500, "documents")
	fs.Parse(args)
	rng := rand.New(rand.NewSource(*seed))
	sum := newSummary("shipped")
	d := startDriver(*drv)
	defer d.close()
	// gen name -> pattern
	pat := map[string]string{}
	if f, err := os.Open(*tsv); err == nil {
		sc := bufio.NewScanner(f)
		sc.Buffer(make([]byte, 1<<20), 1<<24)
		for sc.Scan() {
			p := strings.Split(sc.Text(), "\t")
			b, _ := hex.DecodeString(p[1])
			pat[p[0]] = string(b)
		}
		f.Close()
	}
	for _, which := range []string{"ugc", "strict"} {
		var gp *bluemonday.Policy
		if which == "ugc" {
			gp = bluemonday.UGCPolicy()
		} else {
			gp = bluemonday.StrictPolicy()
		}
		g := dumpGo(gp)
		d.send("DUMPSHIPPED " + which)
		d.send("F")
		d.flush()
		var b strings.Builder
		for {
			l := d.read()
			if l == "END" {
				break
			}
			b.WriteString(l + "\n")
		}
		m := reGenName.ReplaceAllStringFunc(b.String(), func(n string) string {
			if p, ok := pat[n]; ok {
				return getRx(p).id
			}
			return n
		})
		sum.Evaluations++
		if g != m {
			sum.Mismatches = append(sum.Mismatches, map[string]any{"kind": "correspondence-shipped-policy", "which": which, "diff": firstDiffLine(g, m), "go": g, "model": m})
		}
	}
	// the oracle: documented vocabulary, independently restated
	vocab := map[string][]string{}
	for _, e := range strings.Fields("article aside figure section summary h1 h2 h3 h4 h5 h6 hgroup br div hr p span wbr abbr acronym cite code dfn em figcaption mark s samp strong sub sup var b i pre small strike tt u rp rt ruby dl dt dd caption") {
		vocab[e] = nil
	}
	for e, as := range map[string]string{"details": "open", "blockquote": "cite", "a": "href", "map": "name", "area": "alt coords href rel shape", "img": "usemap align alt height width src",
		"q": "cite", "time": "datetime", "bdi": "dir", "bdo": "dir", "del": "cite datetime", "ins": "cite datetime", "ol": "type", "ul": "type", "li": "type value",
		"table": "height width summary", "col": "align height width span valign", "colgroup": "align height width span valign", "thead": "align valign", "tr": "align valign",
		"td": "abbr align colspan rowspan headers height width scope valign nowrap", "th": "abbr align colspan rowspan headers height width scope valign nowrap",
		"tbody": "align valign", "tfoot": "align valign", "meter": "value min max low high optimum", "progress": "value max"} {
		vocab[e] = strings.Fields(as)
	}
	global := map[string]bool{"dir": true, "lang": true, "id": true, "title": true, "rel": true}
	ugc, strict := bluemonday.UGCPolicy(), bluemonday.StrictPolicy()
	ps := &PolicySpec{Ops: []Op{{Kind: "elements", Names: []string{"a", "b", "p", "img", "table", "td", "tr", "ul", "li", "blockquote", "q", "del", "ins", "area", "map", "details", "time", "meter", "script", "style", "iframe", "object", "form", "input", "svg", "math", "base", "link", "meta"}},
		{Kind: "attrs", Names: []string{"href", "src", "cite", "style", "onclick", "onerror", "id", "title", "class", "align", "width", "datetime", "rel", "coords", "open", "type", "value"}, Scope: "G"}}}
	g := newDocGen(rng, ps)
	distinct := map[string]bool{}
	fail := func(doc, clause string, extra map[string]any) {
		if len(sum.OracleFails) < 20 {
			m := map[string]any{"kind": "property-oracle", "clause": clause, "input_hex": hexOf(doc), "input_text": doc, "output": ugc.Sanitize(doc)}
			for k, v := range extra {
				m[k] = v
			}
			sum.OracleFails = append(sum.OracleFails, m)
		}
	}
	xss := []string{`<a href="javascript:alert(1)">x</a>`, `<a href="jav&#x09;ascript:alert(1)">x</a>`, `<img src=x onerror=alert(1)>`, `<svg><script>alert(1)</script></svg>`, `<math><style><img src=x onerror=alert(1)></style></math>`,
		`<iframe src="javascript:alert(1)">`, `<object data="x">`, `<a href="data:text/html,<script>alert(1)</script>">x</a>`, `<img src="data:image/png;base64,AAAA">`, `<div style="background:url(javascript:alert(1))">`,
		`<a href="http://x/" onclick="alert(1)">x</a>`, `<form><input name=x></form>`, `<base href="http://evil/">`, `<link rel=stylesheet href=x>`, `<meta http-equiv=refresh content="0;url=javascript:1">`,
		`<area href="javascript:alert(1)">`, `<map name=m><area href="JaVaScRiPt:alert(1)" shape=rect></map>`, `<blockquote cite="javascript:alert(1)">`, `<q cite="vbscript:x">`, `<del cite="javascript:alert(1)">x</del>`,
		`<hr style="x" onmouseover="alert(1)"/>`, `<br onclick=1 />`, `<wbr style=x/>`, `<img usemap="#m" src="/x.png" onload=1>`, `<table background="javascript:1"><tr><td>x`, `<p title="</p><script>alert(1)</script>">`}
	for j := 0; j < *nDoc; j++ {
		doc, _ := g.document()
		if j < len(xss) {
			doc = xss[j]
		} else if j%5 == 0 {
			doc = pick(rng, xss) + doc
		}
		sum.Evaluations++
		// Strict: no markup at all
		so := strict.Sanitize(doc)
		for _, t := range goTokens(so) {
			if t.Type != html.TextToken {
				fail(doc, "StrictPolicy output contains markup", map[string]any{"strict_output": so})
			}
		}
		out := ugc.Sanitize(doc)
		distinct[out] = true
		check := func(name string, attrs []html.Attribute, where string) {
			as, ok := vocab[name]
			if !ok {
				fail(doc, "UGCPolicy output contains element "+name+" ("+where+") outside the documented vocabulary", nil)
				return
			}
			for _, a := range attrs {
				okA := global[a.Key]
				for _, x := range as {
					if x == a.Key {
						okA = true
					}
				}
				if !okA {
					fail(doc, "UGCPolicy output: attribute "+a.Key+" on "+name+" ("+where+") is not documented", nil)
				}
				if strings.HasPrefix(a.Key, "on") || a.Key == "style" {
					fail(doc, "UGCPolicy output: event handler or style attribute "+a.Key, nil)
				}
				if urlPosition(name, a.Key) {
					if sc, has := whatwgScheme(a.Val); has && sc != "http" && sc != "https" && sc != "mailto" {
						fail(doc, "UGCPolicy output: URL with scheme "+sc+" on "+name+" "+a.Key, map[string]any{"value": a.Val})
					}
				}
			}
		}
		for _, t := range goTokens(out) {
			if t.Type == html.StartTagToken || t.Type == html.SelfClosingTagToken {
				check(t.Data, t.Attr, "tokenizer")
			}
			if t.Type == html.EndTagToken {
				check(t.Data, nil, "tokenizer")
			}
			if t.Type == html.CommentToken || t.Type == html.DoctypeToken {
				fail(doc, "UGCPolicy output contains a comment or doctype", nil)
			}
		}
		for _, ctx := range fragmentContexts {
			nodes, err := html.ParseFragment(strings.NewReader(out), &html.Node{Type: html.ElementNode, Data: ctx.String(), DataAtom: ctx})
			if err != nil {
				continue
			}
			for _, n := range nodes {
				walk(n, func(x *html.Node) {
					if x.Type == html.ElementNode && !implied[strings.ToLower(x.Data)] {
						check(strings.ToLower(x.Data), x.Attr, "DOM in "+ctx.String())
					}
				})
			}
		}
	}
	// conversely: vocabulary documents pass unchanged apart from rel="nofollow"
	conforming := map[string]string{
		`<p title="t">a &amp; b<br><b>c</b></p>`: "", `<a href="http://example.org/x">l</a>`: `<a href="http://example.org/x" rel="nofollow">l</a>`,
		`<table width="10%"><tr><td colspan="2" align="left">x</td></tr></table>`: "", `<img src="/i.png" alt="an image" width="10" height="20%">`: "",
		`<blockquote cite="https://x.test/">q</blockquote><q cite="/rel">r</q>`: "", `<ol type="a"><li value="3">x</li></ol><dl><dt>a</dt><dd>b</dd></dl>`: "",
		`<details open="open"><summary>s</summary>d</details>`: "", `<time datetime="1997-07-16T19:20:30.45+01:00">t</time>`: "", `<bdo dir="rtl">x</bdo><span lang="en" id="a1">y</span>`: "",
		`<meter value="0.5" min="0" max="1">m</meter><progress value="1" max="2">p</progress>`: "", `<h1>h</h1><hr><pre>x</pre><code>y</code><sub>1</sub>`: ""}
	for doc, want := range conforming {
		if want == "" {
			want = doc
		}
		sum.Evaluations++
		if got := ugc.Sanitize(doc); got != want {
			sum.OracleFails = append(sum.OracleFails, map[string]any{"kind": "property-oracle", "clause": "a document in the UGC vocabulary is not passed through unchanged (apart from rel=nofollow)", "input_text": doc, "output": got, "want": want})
		}
	}
	// ... and systematically: every documented (element, attribute) pair with documented valid values
	// (value spaces as documented in helpers.go / HTML: my independent restatement)
	valid := map[string][]string{
		"align": {"left", "center", "right", "justify", "char"}, "valign": {"baseline", "bottom", "middle", "top"},
		"height": {"10", "10%"}, "width": {"10", "25%"}, "span": {"2"}, "colspan": {"2"}, "rowspan": {"3"},
		"abbr": {"some text"}, "headers": {"h1 h2"}, "scope": {"row", "colgroup"}, "nowrap": {"nowrap"}, "summary": {"a summary"},
		"cite": {"https://x.test/", "/rel"}, "href": {"http://example.org/", "/p"}, "datetime": {"1997-07-16", "1997-07-16T19:20:30+01:00"},
		"open": {"open"}, "name": {"m1"}, "alt": {"some text"}, "coords": {"1,2,3"}, "shape": {"rect", "circle"}, "usemap": {"#m1"}, "src": {"/i.png", "https://x.test/i.png"},
		"type": {"a", "I", "1", "disc"}, "value": {"3"}, "min": {"0"}, "max": {"1"}, "low": {"0.2"}, "high": {"0.8"}, "optimum": {"0.5"},
		"dir": {"rtl", "ltr"}, "lang": {"en"}, "id": {"a1"}, "title": {"a title"},
	}
	override := map[string][]string{"img/align": {"left", "top", "middle", "bottom"}, "ol/type": {"a", "A", "i", "I", "1"}, "ul/type": {"disc", "circle", "square"},
		"meter/value": {"0.5"}, "progress/value": {"1"}, "progress/max": {"2"}, "li/value": {"3"},
		// policies.go registers cite on del/ins with the Paragraph pattern (no colon), not as "a standard URL" like blockquote/q
		"del/cite": {"/rel"}, "ins/cite": {"/rel"}}
	voidEl := map[string]bool{"br": true, "hr": true, "img": true, "col": true, "area": true, "wbr": true}
	nPairs := 0
	var elems []string
	for e := range vocab {
		elems = append(elems, e)
	}
	sort.Strings(elems)
	for _, e := range elems {
		attrs := append(append([]string{}, vocab[e]...), "dir", "lang", "id", "title")
		for _, a := range attrs {
			if a == "rel" {
				continue
			}
			vs := valid[a]
			if o, ok := override[e+"/"+a]; ok {
				vs = o
			}
			for _, v := range vs {
				doc := "<" + e + " " + a + "=\"" + v + "\">"
				if !voidEl[e] {
					doc += "x</" + e + ">"
				}
				sum.Evaluations++
				nPairs++
				got := ugc.Sanitize(doc)
				if !strings.Contains(got, "<"+e+" ") || !strings.Contains(got, " "+a+"=\""+v+"\"") {
					if len(sum.OracleFails) < 20 {
						sum.OracleFails = append(sum.OracleFails, map[string]any{"kind": "property-oracle", "clause": "a documented attribute with a documented valid value does not pass through UGCPolicy", "input_text": doc, "output": got, "element": e, "attribute": a, "value": v})
					}
				}
			}
		}
	}
	sum.Distribution["documented-element-attribute-value-samples"] = nPairs
	sum.Nontrivial = len(distinct)
	sum.Samples = append(sum.Samples, map[string]any{"input": xss[3], "ugc_output": ugc.Sanitize(xss[3]), "strict_output": strict.Sanitize(xss[3])})
	sum.emit()
}
