package main

import (
	"bytes"
	"errors"
	"flag"
	"fmt"
	"io"
	"math/rand"
	"os"
	"os/exec"
	"regexp"
	"strings"

	"github.com/microcosm-cc/bluemonday"
)

// ---- url mode: validURL on a URL corpus x policy grid (C03) -------------------------------------------

func urlCorpus(rng *rand.Rand, n int) []string {
	out := append([]string{}, urlFrags...)
	schemes := []string{"http", "https", "mailto", "javascript", "JAVASCRIPT", "data", "ftp", "vbscript", "tel", "x-y", "1a", "a+b.c-d", "", "ht tp"}
	pre := []string{"", " ", "\t", "\n", "\x00", "\x01", "\x1f", " ", "　", "\ufeff", "\r\n"}
	mid := []string{"", "\t", "\n", "\r", " ", "%0a", "\x00", "&#9;"}
	rest := []string{"//example.org/p?q#f", "alert(1)", "//h", "", "/", "a@b", "text/html,x", "image/png;base64,AAAA", "image/gif;base64,AA A=", "//[::1]:80/", "//u:p@h:8/", "\\\\h\\p", "//h/%41%zz", "?x", "#y", "//exa mple.org/", "//xn--nxasmq6b/", "//h/\x7f", "//h/ftp", "alert('ftp')//x-y", "//evil.example/-y", "ftp", "/**/alert(1)", "///x", "/x"}
	for i := 0; i < n; i++ {
		sc := pick(rng, schemes)
		if len(sc) > 1 && rng.Intn(3) == 0 {
			k := 1 + rng.Intn(len(sc)-1)
			sc = sc[:k] + pick(rng, mid) + sc[k:]
		}
		u := pick(rng, pre) + sc
		if rng.Intn(8) != 0 {
			u += ":"
		}
		u += pick(rng, rest) + pick(rng, []string{"", "", " ", "\n", " "})
		out = append(out, u)
	}
	return out
}

func urlPolicies2() []*PolicySpec {
	mk := func(name string, ops ...Op) *PolicySpec { return &PolicySpec{Name: name, Ops: ops} }
	return []*PolicySpec{
		mk("u-std", Op{Kind: "schemes", Names: []string{"http", "https", "mailto"}}, Op{Kind: "relative", B: true}),
		mk("u-norel", Op{Kind: "schemes", Names: []string{"http", "HTTPS"}}),
		mk("u-rel-only", Op{Kind: "relative", B: true}),
		mk("u-custom", Op{Kind: "schemecustom", Scheme: "http", CB: "hostex"}, Op{Kind: "schemecustom", Scheme: "http", CB: "noquery"}, Op{Kind: "schemecustom", Scheme: "data", CB: "data"}),
		mk("u-regex", Op{Kind: "schemesmatching", Re: `^(s|t)`}, Op{Kind: "schemes", Names: []string{"tel"}}, Op{Kind: "schemecustom", Scheme: "tel", CB: "never"}, Op{Kind: "parseable", B: true}),
		mk("u-off", Op{Kind: "schemes", Names: []string{"http"}}, Op{Kind: "parseable", B: false}),
		mk("u-data", Op{Kind: "schemes", Names: []string{"data", "http"}}, Op{Kind: "relative", B: false}),
		mk("u-overwrite", Op{Kind: "schemecustom", Scheme: "http", CB: "never"}, Op{Kind: "schemes", Names: []string{"http"}}),
		// scheme patterns that are not anchored: they must be judged on the scheme alone, not on the whole URL
		mk("u-regex-unanchored", Op{Kind: "schemesmatching", Re: `ftp`}, Op{Kind: "schemesmatching", Re: `-y$`}, Op{Kind: "relative", B: false}),
	}
}

func urlMode(args []string) {
	fs := flag.NewFlagSet("url", flag.ExitOnError)
	drv := fs.String("driver", "", "driver binary")
	seed := fs.Int64("seed", 1, "seed")
	n := fs.Int("n", 600, "generated URLs")
	fs.Parse(args)
	rng := rand.New(rand.NewSource(*seed))
	sum := newSummary("corr-url")
	d := startDriver(*drv)
	defer d.close()
	corpus := urlCorpus(rng, *n)
	distinct := map[string]bool{}
	for pi, ps := range urlPolicies2() {
		pid := fmt.Sprintf("up%d", pi)
		ps.define(d, pid)
		gp := ps.buildGo()
		for _, u := range corpus {
			out, ok := bluemonday.VerifValidURL(gp, u)
			goS := "U 0 -"
			if ok {
				goS = "U 1 " + hexOf(out)
				distinct[ps.Name+u] = true
				sum.Distribution["accepted"]++
			} else {
				sum.Distribution["rejected"]++
			}
			mS := d.askOracle("URL " + pid + " " + hexOf(u))
			sum.Evaluations++
			if goS != mS {
				sum.Mismatches = append(sum.Mismatches, map[string]any{"kind": "correspondence-url", "input_hex": hexOf(u), "input_text": u, "policy": ps, "go": goS, "model": mS})
				if len(sum.Mismatches) >= 8 {
					goto done
				}
			}
		}
	}
	// directed: every ordered pair and triple of builder calls from a pool that overlaps on the same element,
	// the same pattern (one regexp pointer) and the same attribute / property / scheme
	{
		pool := []Op{
			{Kind: "attrs", Names: []string{"id"}, Scope: "E", ScopeEls: []string{"a"}},
			{Kind: "attrs", Names: []string{"id"}, Re: `^[a-z]+$`, Scope: "E", ScopeEls: []string{"A"}},
			{Kind: "attrs", NoAttrs: true, Scope: "E", ScopeEls: []string{"a"}},
			{Kind: "attrs", Names: []string{"id"}, Scope: "M", ScopeRe: `^custom-`},
			{Kind: "attrs", Names: []string{"class"}, NoAttrs: true, Scope: "M", ScopeRe: `^custom-`},
			{Kind: "attrs", NoAttrs: true, Scope: "M", ScopeRe: `^custom-`},
			{Kind: "attrs", Names: []string{"ID"}, Re: `^x`, Scope: "G"},
			{Kind: "styles", Names: []string{"color"}, Scope: "M", ScopeRe: `^custom-`},
			{Kind: "styles", Names: []string{"COLOR", "width"}, Enum: []string{"red"}, Scope: "M", ScopeRe: `^custom-`},
			{Kind: "styles", Names: []string{"color"}, Scope: "E", ScopeEls: []string{"a"}},
			{Kind: "elements", Names: []string{"a", "script"}},
			{Kind: "elementsmatching", Re: `^custom-`},
			{Kind: "skip", Names: []string{"A", "b"}},
			{Kind: "keep", Names: []string{"a", "script"}},
			{Kind: "schemes", Names: []string{"HTTP"}},
			{Kind: "schemecustom", Scheme: "http", CB: "never"},
		}
		run := func(seq []int) bool {
			gp := bluemonday.NewPolicy()
			spec := &PolicySpec{}
			polCounter++
			pid := fmt.Sprintf("dq%d", polCounter)
			d.send("POLICY " + pid)
			for _, oi := range seq {
				op := pool[oi]
				op.applyGo(gp)
				spec.Ops = append(spec.Ops, op)
				d.send("OP " + pid + " " + op.wire(d))
			}
			g, m := dumpGo(gp), dumpModel(d, pid)
			sum.Evaluations++
			distinct[g] = true
			if g != m {
				sum.Mismatches = append(sum.Mismatches, map[string]any{"kind": "correspondence-dump", "history": spec, "go": g, "model": m, "diff": firstDiffLine(g, m)})
				return len(sum.Mismatches) < 5
			}
			return true
		}
		for i := range pool {
			for j := range pool {
				if !run([]int{i, j}) {
					goto done
				}
				for k := range pool {
					if (i+j+k)%3 == 0 && !run([]int{i, j, k}) {
						goto done
					}
				}
			}
		}
		sum.Distribution["directed-pairs-and-triples"] = len(pool)*len(pool) + len(pool)*len(pool)*len(pool)/3
	}
done:
	sum.Nontrivial = len(distinct)
	sum.Samples = append(sum.Samples, map[string]any{"policy": "u-std", "input": corpus[len(corpus)/2]})
	for k, v := range oracleStats {
		sum.Distribution["oracle-"+k] = v
	}
	if len(urlHypothesisFailures) > 0 {
		sum.Extra["url_hypothesis_failures"] = urlHypothesisFailures
	}
	sum.emit()
}

// ---- style mode (C10) ---------------------------------------------------------------------------------

func stylePolicies() []*PolicySpec {
	mk := func(name string, ops ...Op) *PolicySpec { return &PolicySpec{Name: name, Ops: ops} }
	return []*PolicySpec{
		mk("s-global-default", Op{Kind: "styles", Names: []string{"color", "width", "text-align", "background", "font-family", "opacity", "text-decoration", "z-index", "margin", "display", "font-size"}, Scope: "G"}),
		mk("s-element", Op{Kind: "styles", Names: []string{"COLOR", "float"}, Scope: "E", ScopeEls: []string{"p", "SPAN"}}, Op{Kind: "styles", Names: []string{"width"}, Re: `^[0-9]+px$`, Scope: "E", ScopeEls: []string{"p"}}),
		mk("s-pattern", Op{Kind: "styles", Names: []string{"color"}, Enum: []string{"red", "Blue"}, Scope: "M", ScopeRe: `^(b|i)$`}, Op{Kind: "styles", Names: []string{"width"}, Handler: "short", Scope: "M", ScopeRe: `^[a-z]+-x$`},
			Op{Kind: "styles", Names: []string{"color"}, Re: `^#[0-9a-f]+$`, Scope: "M", ScopeRe: `^(b|i)$`}),
		mk("s-mixed", Op{Kind: "styles", Names: []string{"color"}, Handler: "hasred", Scope: "G"}, Op{Kind: "styles", Names: []string{"color"}, Scope: "E", ScopeEls: []string{"p"}},
			Op{Kind: "styles", Names: []string{"unknown-prop"}, Scope: "G"}, Op{Kind: "styles", Names: []string{"width"}, Enum: []string{"1px", "10PX"}, Scope: "E", ScopeEls: []string{"p"}}),
		mk("s-overlap", Op{Kind: "styles", Names: []string{"color"}, Re: `^#[0-9a-f]+$`, Scope: "G"}, Op{Kind: "styles", Names: []string{"color"}, Enum: []string{"red"}, Scope: "E", ScopeEls: []string{"p", "span"}},
			Op{Kind: "styles", Names: []string{"width"}, Re: `^(1px|auto)$`, Scope: "G"}, Op{Kind: "styles", Names: []string{"width"}, Re: `^2px$`, Scope: "M", ScopeRe: `^(b|i)$`},
			Op{Kind: "styles", Names: []string{"background"}, Re: `^(red|green|blue)$`, Scope: "G"}),
		mk("s-two-patterns", Op{Kind: "styles", Names: []string{"color"}, Enum: []string{"red"}, Scope: "M", ScopeRe: `^[a-z]+-x$`}, Op{Kind: "styles", Names: []string{"color"}, Enum: []string{"blue"}, Scope: "M", ScopeRe: `^a-`},
			Op{Kind: "styles", Names: []string{"width"}, Scope: "M", ScopeRe: `^a-`}),
		mk("s-shadow", Op{Kind: "styles", Names: []string{"color"}, Scope: "M", ScopeRe: `^(b|i)$`}, Op{Kind: "styles", Names: []string{"width"}, Scope: "E", ScopeEls: []string{"b"}}),
	}
}

func styleCorpus(rng *rand.Rand, n int) []string {
	out := append([]string{}, styleFrags...)
	for i := 0; i < n; i++ {
		k := 1 + rng.Intn(4)
		s := strings.Join(pickN(rng, styleFrags, k), pick(rng, []string{"; ", ";", " ; ", ";;"})) + pick(rng, []string{"", ";", " ", "; "})
		if rng.Intn(5) == 0 {
			s = mutate(rng, s)
		}
		out = append(out, s)
	}
	return out
}

var styleStabilityFailures []string

func styleMode(args []string) {
	fs := flag.NewFlagSet("style", flag.ExitOnError)
	drv := fs.String("driver", "", "driver binary")
	seed := fs.Int64("seed", 1, "seed")
	n := fs.Int("n", 300, "generated style strings")
	fs.Parse(args)
	rng := rand.New(rand.NewSource(*seed))
	sum := newSummary("corr-style")
	d := startDriver(*drv)
	defer d.close()
	corpus := styleCorpus(rng, *n)
	distinct := map[string]bool{}
	for pi, ps := range stylePolicies() {
		pid := fmt.Sprintf("sp%d", pi)
		ps.define(d, pid)
		gp := ps.buildGo()
		for _, el := range []string{"p", "span", "b", "a-x", "div"} {
			for _, s := range corpus {
				out := bluemonday.VerifSanitizeStyles(gp, el, s)
				goS := "Y " + hexOf(out)
				mS := d.askOracle("STY " + pid + " " + hexOf(el) + " " + hexOf(s))
				sum.Evaluations++
				if out != "" {
					distinct[ps.Name+el+s] = true
					sum.Distribution["kept-some"]++
					// the hypothesis of the idempotence theorems for elements with style rules (C20 style_stable): the style
					// filter returns a value it produced unchanged (douceur reads the rebuilt declarations back as they were)
					if again := bluemonday.VerifSanitizeStyles(gp, el, out); again != out && len(styleStabilityFailures) < 5 {
						styleStabilityFailures = append(styleStabilityFailures, fmt.Sprintf("policy %s element %s: %q gives %q, which gives %q", ps.Name, el, s, out, again))
					}
				} else {
					sum.Distribution["dropped-all"]++
				}
				if goS != mS {
					sum.Mismatches = append(sum.Mismatches, map[string]any{"kind": "correspondence-style", "element": el, "input_hex": hexOf(s), "input_text": s, "policy": ps, "go": goS, "model": mS})
					if len(sum.Mismatches) >= 8 {
						goto done
					}
				}
			}
		}
	}
	// directed: every ordered pair and triple of builder calls from a pool that overlaps on the same element,
	// the same pattern (one regexp pointer) and the same attribute / property / scheme
	{
		pool := []Op{
			{Kind: "attrs", Names: []string{"id"}, Scope: "E", ScopeEls: []string{"a"}},
			{Kind: "attrs", Names: []string{"id"}, Re: `^[a-z]+$`, Scope: "E", ScopeEls: []string{"A"}},
			{Kind: "attrs", NoAttrs: true, Scope: "E", ScopeEls: []string{"a"}},
			{Kind: "attrs", Names: []string{"id"}, Scope: "M", ScopeRe: `^custom-`},
			{Kind: "attrs", Names: []string{"class"}, NoAttrs: true, Scope: "M", ScopeRe: `^custom-`},
			{Kind: "attrs", NoAttrs: true, Scope: "M", ScopeRe: `^custom-`},
			{Kind: "attrs", Names: []string{"ID"}, Re: `^x`, Scope: "G"},
			{Kind: "styles", Names: []string{"color"}, Scope: "M", ScopeRe: `^custom-`},
			{Kind: "styles", Names: []string{"COLOR", "width"}, Enum: []string{"red"}, Scope: "M", ScopeRe: `^custom-`},
			{Kind: "styles", Names: []string{"color"}, Scope: "E", ScopeEls: []string{"a"}},
			{Kind: "elements", Names: []string{"a", "script"}},
			{Kind: "elementsmatching", Re: `^custom-`},
			{Kind: "skip", Names: []string{"A", "b"}},
			{Kind: "keep", Names: []string{"a", "script"}},
			{Kind: "schemes", Names: []string{"HTTP"}},
			{Kind: "schemecustom", Scheme: "http", CB: "never"},
		}
		run := func(seq []int) bool {
			gp := bluemonday.NewPolicy()
			spec := &PolicySpec{}
			polCounter++
			pid := fmt.Sprintf("dq%d", polCounter)
			d.send("POLICY " + pid)
			for _, oi := range seq {
				op := pool[oi]
				op.applyGo(gp)
				spec.Ops = append(spec.Ops, op)
				d.send("OP " + pid + " " + op.wire(d))
			}
			g, m := dumpGo(gp), dumpModel(d, pid)
			sum.Evaluations++
			distinct[g] = true
			if g != m {
				sum.Mismatches = append(sum.Mismatches, map[string]any{"kind": "correspondence-dump", "history": spec, "go": g, "model": m, "diff": firstDiffLine(g, m)})
				return len(sum.Mismatches) < 5
			}
			return true
		}
		for i := range pool {
			for j := range pool {
				if !run([]int{i, j}) {
					goto done
				}
				for k := range pool {
					if (i+j+k)%3 == 0 && !run([]int{i, j, k}) {
						goto done
					}
				}
			}
		}
		sum.Distribution["directed-pairs-and-triples"] = len(pool)*len(pool) + len(pool)*len(pool)*len(pool)/3
	}
done:
	sum.Nontrivial = len(distinct)
	sum.Samples = append(sum.Samples, map[string]any{"policy": "s-global-default", "element": "p", "input": corpus[len(corpus)/2]})
	if len(styleStabilityFailures) > 0 {
		sum.Extra["style_stability_failures"] = styleStabilityFailures
	}
	for k, v := range oracleStats {
		sum.Distribution["oracle-"+k] = v
	}
	sum.emit()
}

// ---- fn mode: the small functions ---------------------------------------------------------------------

func fnMode(args []string) {
	fs := flag.NewFlagSet("fn", flag.ExitOnError)
	drv := fs.String("driver", "", "driver binary")
	seed := fs.Int64("seed", 1, "seed")
	n := fs.Int("n", 400, "random strings per function")
	fs.Parse(args)
	rng := rand.New(rand.NewSource(*seed))
	sum := newSummary("corr-fn")
	d := startDriver(*drv)
	defer d.close()
	distinct := map[string]bool{}
	randStr := func(alpha []string) string {
		var b strings.Builder
		for i := 0; i < rng.Intn(10); i++ {
			b.WriteString(pick(rng, alpha))
		}
		return b.String()
	}
	type fn struct {
		name  string
		goF   func(string) string
		alpha []string
		fixed []string
	}
	bs := func(b bool) string { return b01(b) }
	fns := []fn{
		{"remove_unicode", func(s string) string { return hexOf(bluemonday.VerifRemoveUnicode(s)) },
			[]string{"\\", "0", "1", "a", "f", "g", "7", "2", " ", "x", "d", "8", "\\5c", "\\0", "\\20 ", "\\d800", "\\110000", "\\000072", "A", "é", "\xff"},
			[]string{"\\72 ed", "r\\65 d", "\\5c 72 ed", "\\5c\\37 2", "1\\20 px", "\\0", "\\", "\\g", "\\0000000041", "\\110000x", "\\d800", "\\dfff", "\\e000", "\\a0 x", "\\3000 y", "ab\\", "\\5c 5c 5c 31"}},
		{"is_data_attribute", func(s string) string { return bs(bluemonday.VerifIsDataAttribute(s)) },
			[]string{"data-", "d", "a", "x", "m", "l", "xml", "-", ";", "A", "1", "\n", "é", "\xff", "_", ":"},
			[]string{"data-a-data-;x", "data-xmlfoo", "data-Up", "data-", "data-ok", "data-x-y", "data-xml", "data-\n", "data-é", "data", "data-data-", "data-a-data-xmlb", "xdata-a", "data-\nx", "data-x;"}},
		{"normalise", func(s string) string { return hexOf(bluemonday.VerifNormaliseElementName(s)) },
			[]string{"s", "c", "r", "i", "p", "t", "y", "l", "e", "İ", "ı", "K", "ſ", "\"", "\\", "\x00", "\n", "\x7f", "é", "\xff", "\U0001F600", "S", "�", " "},
			[]string{"script", "style", "SCRIPT", "scrİpt", "ſcript", "ſtyle", "\"script\"", "script\"", "\"script", "scr\x00ipt", "\\script", "style", "script"}},
		{"linkable", func(s string) string { return bs(bluemonday.VerifLinkable(s)) },
			elemVocab, elemVocab},
		{"to_lower", func(s string) string { return hexOf(strings.ToLower(s)) },
			[]string{"A", "z", "İ", "K", "ſ", "É", "ǅ", "Σ", "ς", "\xff", "\xc3", "1", "-", "\U00010400", "ẞ", "�"},
			[]string{"COLOR", "Straße", "İstanbul", "a\xffB", "\xc3\x28", "ΑΣ"}},
		{"trim_space", func(s string) string { return hexOf(strings.TrimSpace(s)) },
			[]string{" ", "\t", "\n", "\v", "\f", "\r", "\u0085", " ", " ", " ", " ", " ", "　", "\ufeff", "​", "a", "\xff", "\xc2", "\x85", "\xa0", "\x1c", "\x1f"},
			[]string{"  a b  ", " x　", "\xa0x\xa0", "\x85", "\xc2\x85x"}},
		{"fields", func(s string) string { return hexList(strings.Fields(s)) },
			[]string{" ", "\t", "\n", " ", "　", "a", "b-c", "\xff", "\x85", "allow-forms"},
			[]string{"a  b", " a\tb\n", " a　b", ""}},
		{"escape", func(s string) string { return hexOf(htmlEscape(s)) },
			[]string{"&", "<", ">", "\"", "'", "\r", "\n", "a", "\x00", "é"}, []string{"a&b<c>\"'\r\n"}},
	}
	for _, f := range fns {
		strs := append([]string{}, f.fixed...)
		for i := 0; i < *n; i++ {
			strs = append(strs, randStr(f.alpha))
		}
		for _, s := range strs {
			want := "V " + f.goF(s)
			got := d.ask("FN " + f.name + " " + hexOf(s))
			sum.Evaluations++
			distinct[f.name+want] = true
			if want != got {
				sum.Mismatches = append(sum.Mismatches, map[string]any{"kind": "correspondence-fn", "function": f.name, "input_hex": hexOf(s), "input_text": s, "go": want, "model": got})
				if len(sum.Mismatches) >= 12 {
					goto done
				}
			}
		}
		sum.Distribution["fn-"+f.name] = len(strs)
	}
	// EqualFold
	for i := 0; i < *n; i++ {
		alpha := []string{"a", "A", "k", "K", "K", "s", "S", "ſ", "é", "É", "\xff", "\xfe", "ǅ", "ǆ", "Ǆ", "1", "Σ", "σ", "ς"}
		a, b := randStr(alpha), randStr(alpha)
		if rng.Intn(2) == 0 {
			b = strings.ToUpper(a)
		}
		want := "V " + b01(strings.EqualFold(a, b))
		got := d.ask("EQFOLD " + hexOf(a) + " " + hexOf(b))
		sum.Evaluations++
		if want != got {
			sum.Mismatches = append(sum.Mismatches, map[string]any{"kind": "correspondence-fn", "function": "equal_fold", "a": a, "b": b, "go": want, "model": got})
		}
	}
	// directed: every ordered pair and triple of builder calls from a pool that overlaps on the same element,
	// the same pattern (one regexp pointer) and the same attribute / property / scheme
	{
		pool := []Op{
			{Kind: "attrs", Names: []string{"id"}, Scope: "E", ScopeEls: []string{"a"}},
			{Kind: "attrs", Names: []string{"id"}, Re: `^[a-z]+$`, Scope: "E", ScopeEls: []string{"A"}},
			{Kind: "attrs", NoAttrs: true, Scope: "E", ScopeEls: []string{"a"}},
			{Kind: "attrs", Names: []string{"id"}, Scope: "M", ScopeRe: `^custom-`},
			{Kind: "attrs", Names: []string{"class"}, NoAttrs: true, Scope: "M", ScopeRe: `^custom-`},
			{Kind: "attrs", NoAttrs: true, Scope: "M", ScopeRe: `^custom-`},
			{Kind: "attrs", Names: []string{"ID"}, Re: `^x`, Scope: "G"},
			{Kind: "styles", Names: []string{"color"}, Scope: "M", ScopeRe: `^custom-`},
			{Kind: "styles", Names: []string{"COLOR", "width"}, Enum: []string{"red"}, Scope: "M", ScopeRe: `^custom-`},
			{Kind: "styles", Names: []string{"color"}, Scope: "E", ScopeEls: []string{"a"}},
			{Kind: "elements", Names: []string{"a", "script"}},
			{Kind: "elementsmatching", Re: `^custom-`},
			{Kind: "skip", Names: []string{"A", "b"}},
			{Kind: "keep", Names: []string{"a", "script"}},
			{Kind: "schemes", Names: []string{"HTTP"}},
			{Kind: "schemecustom", Scheme: "http", CB: "never"},
		}
		run := func(seq []int) bool {
			gp := bluemonday.NewPolicy()
			spec := &PolicySpec{}
			polCounter++
			pid := fmt.Sprintf("dq%d", polCounter)
			d.send("POLICY " + pid)
			for _, oi := range seq {
				op := pool[oi]
				op.applyGo(gp)
				spec.Ops = append(spec.Ops, op)
				d.send("OP " + pid + " " + op.wire(d))
			}
			g, m := dumpGo(gp), dumpModel(d, pid)
			sum.Evaluations++
			distinct[g] = true
			if g != m {
				sum.Mismatches = append(sum.Mismatches, map[string]any{"kind": "correspondence-dump", "history": spec, "go": g, "model": m, "diff": firstDiffLine(g, m)})
				return len(sum.Mismatches) < 5
			}
			return true
		}
		for i := range pool {
			for j := range pool {
				if !run([]int{i, j}) {
					goto done
				}
				for k := range pool {
					if (i+j+k)%3 == 0 && !run([]int{i, j, k}) {
						goto done
					}
				}
			}
		}
		sum.Distribution["directed-pairs-and-triples"] = len(pool)*len(pool) + len(pool)*len(pool)*len(pool)/3
	}
done:
	sum.Nontrivial = len(distinct)
	sum.Samples = append(sum.Samples, map[string]any{"function": "remove_unicode", "input": "\\72 ed", "observed": bluemonday.VerifRemoveUnicode("\\72 ed")})
	sum.emit()
}

// ---- dump mode: builder histories, policy tables after every call (C17) ------------------------------------

var reFuncPtr = regexp.MustCompile(`@[0-9a-f]+`)
var reDefault = regexp.MustCompile(`H:default:(\S+)`)
var reCustomH = regexp.MustCompile(`H:custom:(\S+)`)

func normGoDump(s string) string {
	s = reFuncPtr.ReplaceAllString(s, "")
	// named callbacks of the harness library
	s = regexp.MustCompile(`bluemonday\.\(\*Policy\)\.AllowDataURIImages\.func1`).ReplaceAllString(s, "data")
	return s
}

var cbNames = map[string]string{}

func init() {
	for n, f := range urlPolicies {
		cbNames[bluemondayFuncName(f)] = n
	}
	for n, f := range rewriters {
		cbNames[bluemondayFuncName(f)] = n
	}
	for n, f := range customHandlers {
		cbNames[bluemondayFuncName(f)] = "custom:" + n
	}
}

func dumpGo(p *bluemonday.Policy) string {
	s := normGoDump(bluemonday.VerifDumpPolicy(p, rxName))
	for k, v := range cbNames {
		s = strings.ReplaceAll(s, k, v)
	}
	return s
}

func dumpModel(d *driver, pid string) string {
	d.send("DUMP " + pid)
	d.send("F")
	d.flush()
	var b strings.Builder
	for {
		l := d.read()
		if l == "END" {
			break
		}
		b.WriteString(l + "\n")
	}
	s := b.String()
	s = reDefault.ReplaceAllStringFunc(s, func(m string) string {
		prop := reDefault.FindStringSubmatch(m)[1]
		return "H:" + defaultHandlerName(prop)
	})
	s = reCustomH.ReplaceAllString(s, "H:custom:$1")
	return s
}

func dumpMode(args []string) {
	fs := flag.NewFlagSet("dump", flag.ExitOnError)
	drv := fs.String("driver", "", "driver binary")
	seed := fs.Int64("seed", 1, "seed")
	n := fs.Int("n", 60, "histories")
	fs.Parse(args)
	rng := rand.New(rand.NewSource(*seed))
	sum := newSummary("corr-dump")
	d := startDriver(*drv)
	defer d.close()
	distinct := map[string]bool{}
	for h := 0; h < *n; h++ {
		// 2-3 policies built in an interleaved fashion
		k := 2 + rng.Intn(2)
		gps := make([]*bluemonday.Policy, k)
		specs := make([]*PolicySpec, k)
		pids := make([]string, k)
		for i := range gps {
			gps[i] = bluemonday.NewPolicy()
			specs[i] = &PolicySpec{}
			polCounter++
			pids[i] = fmt.Sprintf("dp%d", polCounter)
			d.send("POLICY " + pids[i])
		}
		steps := 6 + rng.Intn(14)
		for s := 0; s < steps; s++ {
			i := rng.Intn(k)
			op := randOp(rng)
			op.applyGo(gps[i])
			specs[i].Ops = append(specs[i].Ops, op)
			d.send("OP " + pids[i] + " " + op.wire(d))
			sum.Distribution["op-"+op.Kind]++
			// every policy is compared after every call (independence of instances)
			for j := 0; j < k; j++ {
				g, m := dumpGo(gps[j]), dumpModel(d, pids[j])
				sum.Evaluations++
				distinct[g] = true
				if g != m {
					sum.Mismatches = append(sum.Mismatches, map[string]any{"kind": "correspondence-dump", "history": specs[j], "after_op_on": i, "policy_index": j, "go": g, "model": m, "diff": firstDiffLine(g, m)})
					if len(sum.Mismatches) >= 5 {
						goto done
					}
				}
			}
		}
		if len(sum.Samples) < 2 {
			sum.Samples = append(sum.Samples, map[string]any{"history": specs[0]})
		}
	}
	// directed: every ordered pair and triple of builder calls from a pool that overlaps on the same element,
	// the same pattern (one regexp pointer) and the same attribute / property / scheme
	{
		pool := []Op{
			{Kind: "attrs", Names: []string{"id"}, Scope: "E", ScopeEls: []string{"a"}},
			{Kind: "attrs", Names: []string{"id"}, Re: `^[a-z]+$`, Scope: "E", ScopeEls: []string{"A"}},
			{Kind: "attrs", NoAttrs: true, Scope: "E", ScopeEls: []string{"a"}},
			{Kind: "attrs", Names: []string{"id"}, Scope: "M", ScopeRe: `^custom-`},
			{Kind: "attrs", Names: []string{"class"}, NoAttrs: true, Scope: "M", ScopeRe: `^custom-`},
			{Kind: "attrs", NoAttrs: true, Scope: "M", ScopeRe: `^custom-`},
			{Kind: "attrs", Names: []string{"ID"}, Re: `^x`, Scope: "G"},
			{Kind: "styles", Names: []string{"color"}, Scope: "M", ScopeRe: `^custom-`},
			{Kind: "styles", Names: []string{"COLOR", "width"}, Enum: []string{"red"}, Scope: "M", ScopeRe: `^custom-`},
			{Kind: "styles", Names: []string{"color"}, Scope: "E", ScopeEls: []string{"a"}},
			{Kind: "elements", Names: []string{"a", "script"}},
			{Kind: "elementsmatching", Re: `^custom-`},
			{Kind: "skip", Names: []string{"A", "b"}},
			{Kind: "keep", Names: []string{"a", "script"}},
			{Kind: "schemes", Names: []string{"HTTP"}},
			{Kind: "schemecustom", Scheme: "http", CB: "never"},
		}
		run := func(seq []int) bool {
			gp := bluemonday.NewPolicy()
			spec := &PolicySpec{}
			polCounter++
			pid := fmt.Sprintf("dq%d", polCounter)
			d.send("POLICY " + pid)
			for _, oi := range seq {
				op := pool[oi]
				op.applyGo(gp)
				spec.Ops = append(spec.Ops, op)
				d.send("OP " + pid + " " + op.wire(d))
			}
			g, m := dumpGo(gp), dumpModel(d, pid)
			sum.Evaluations++
			distinct[g] = true
			if g != m {
				sum.Mismatches = append(sum.Mismatches, map[string]any{"kind": "correspondence-dump", "history": spec, "go": g, "model": m, "diff": firstDiffLine(g, m)})
				return len(sum.Mismatches) < 5
			}
			return true
		}
		for i := range pool {
			for j := range pool {
				if !run([]int{i, j}) {
					goto done
				}
				for k := range pool {
					if (i+j+k)%3 == 0 && !run([]int{i, j, k}) {
						goto done
					}
				}
			}
		}
		sum.Distribution["directed-pairs-and-triples"] = len(pool)*len(pool) + len(pool)*len(pool)*len(pool)/3
	}
done:
	sum.Nontrivial = len(distinct)
	sum.emit()
}

func firstDiffLine(a, b string) string {
	la, lb := strings.Split(a, "\n"), strings.Split(b, "\n")
	for i := 0; i < len(la) || i < len(lb); i++ {
		var x, y string
		if i < len(la) {
			x = la[i]
		}
		if i < len(lb) {
			y = lb[i]
		}
		if x != y {
			return fmt.Sprintf("go: %q  model: %q", x, y)
		}
	}
	return ""
}

// ---- entry mode: the four entry points, chunkings, writer kinds, cmd tools (C15) -------------------------

type chunkReader struct {
	data        string
	splits      []int // chunk lengths (0 allowed)
	eofWithData bool
	i           int
}

func (r *chunkReader) Read(p []byte) (int, error) {
	if len(r.data) == 0 {
		return 0, io.EOF
	}
	n := len(r.data)
	if r.i < len(r.splits) {
		n = r.splits[r.i]
		r.i++
	}
	if n > len(r.data) {
		n = len(r.data)
	}
	if n > len(p) {
		n = len(p)
	}
	copy(p, r.data[:n])
	r.data = r.data[n:]
	if len(r.data) == 0 && r.eofWithData {
		return n, io.EOF
	}
	return n, nil
}

type plainWriter struct{ buf bytes.Buffer }

func (w *plainWriter) Write(p []byte) (int, error) { return w.buf.Write(p) }

func entryMode(args []string) {
	fs := flag.NewFlagSet("entry", flag.ExitOnError)
	drv := fs.String("driver", "", "driver binary")
	seed := fs.Int64("seed", 1, "seed")
	nPol := fs.Int("policies", 12, "policies")
	nDoc := fs.Int("docs", 40, "documents per policy")
	cmdUGC := fs.String("cmd-ugc", "", "path of the built sanitise_ugc binary")
	cmdEmail := fs.String("cmd-email", "", "path of the built sanitise_html_email binary")
	fs.Parse(args)
	rng := rand.New(rand.NewSource(*seed))
	sum := newSummary("corr-entry")
	d := startDriver(*drv)
	defer d.close()
	distinct := map[string]bool{}
	pols := handPolicies()
	for i := 0; i < *nPol; i++ {
		pols = append(pols, randPolicy(rng, true))
	}
	blanks := []string{"", " ", "\n\t ", " ", "　  ", "\x85", "\xa0", " \x00 "}
	for _, ps := range pols {
		polCounter++
		pid := fmt.Sprintf("ep%d", polCounter)
		ps.define(d, pid)
		gp := ps.buildGo()
		g := newDocGen(rng, ps)
		docs := append([]string{}, blanks...)
		for j := 0; j < *nDoc; j++ {
			doc, _ := g.document()
			docs = append(docs, doc)
		}
		// single tokens larger than any fixed-size buffer an adapter or a reader might use
		if polCounter <= 3 {
			for _, n := range []int{1023, 1025, 4097} {
				docs = append(docs, "<p>"+strings.Repeat("a", n)+"</p>", "<b title=\""+strings.Repeat("t", n)+"\">x</b>", "x<!--"+strings.Repeat("c", n)+"-->y", strings.Repeat("&amp;", n/5+1))
			}
			sum.Distribution["large-single-token-documents"] += 12
		}
		for _, doc := range docs {
			ref := gp.Sanitize(doc)
			distinct[ref] = true
			fail := func(what, got string) {
				sum.OracleFails = append(sum.OracleFails, map[string]any{"kind": "entry-points-disagree", "what": what, "input_hex": hexOf(doc), "input_text": doc, "policy": ps, "sanitize": hexOf(ref), "other": hexOf(got)})
			}
			// model
			m := d.askOracle("ENTRY Sanitize " + pid + " " + hexOf(doc))
			sum.Evaluations++
			if m != "O "+hexOf(ref) {
				sum.Mismatches = append(sum.Mismatches, map[string]any{"kind": "correspondence-entry", "input_hex": hexOf(doc), "input_text": doc, "policy": ps, "go": "O " + hexOf(ref), "model": m})
				if len(sum.Mismatches) >= 8 {
					goto done
				}
			}
			in := []byte(doc)
			cp := append([]byte{}, in...)
			if got := string(gp.SanitizeBytes(in)); got != ref {
				fail("SanitizeBytes", got)
			}
			if !bytes.Equal(in, cp) {
				fail("SanitizeBytes modified its argument", string(in))
			}
			if strings.TrimSpace(doc) == "" {
				sum.Distribution["blank"]++
				if ref != doc {
					fail("blank input not returned unchanged", ref)
				}
				continue
			}
			// chunkings
			var chunkings [][]int
			one := make([]int, len(doc))
			for i := range one {
				one[i] = 1
			}
			chunkings = append(chunkings, nil)
			if len(doc) <= 2000 {
				chunkings = append(chunkings, one)
			}
			if len(doc) <= 48 {
				for k := 1; k < len(doc); k++ {
					chunkings = append(chunkings, []int{k})
				}
			}
			for k := 0; k < 6; k++ {
				var sp []int
				for rem := len(doc); rem > 0; {
					c := rng.Intn(7)
					if len(doc) > 2000 {
						c = rng.Intn(3000)
					}
					sp = append(sp, c)
					rem -= c
				}
				chunkings = append(chunkings, sp)
			}
			for ci, sp := range chunkings {
				sum.Distribution["chunkings"]++
				r := &chunkReader{data: doc, splits: sp, eofWithData: ci%2 == 1}
				if got := gp.SanitizeReader(r).String(); got != ref {
					fail(fmt.Sprintf("SanitizeReader chunking %v", sp), got)
				}
				r = &chunkReader{data: doc, splits: sp, eofWithData: ci%2 == 0}
				pw := &plainWriter{}
				if err := gp.SanitizeReaderToWriter(r, pw); err != nil || pw.buf.String() != ref {
					fail(fmt.Sprintf("SanitizeReaderToWriter plain writer chunking %v err=%v", sp, err), pw.buf.String())
				}
				r = &chunkReader{data: doc, splits: sp}
				var bb bytes.Buffer
				if err := gp.SanitizeReaderToWriter(r, &bb); err != nil || bb.String() != ref {
					fail(fmt.Sprintf("SanitizeReaderToWriter bytes.Buffer chunking %v err=%v", sp, err), bb.String())
				}
			}
			if len(sum.OracleFails) > 10 {
				goto done
			}
		}
	}
	// the command line tools
	for _, c := range []struct {
		path string
		pol  func() *bluemonday.Policy
		name string
	}{{*cmdUGC, cmdUGCPolicy, "sanitise_ugc"}, {*cmdEmail, cmdEmailPolicy, "sanitise_html_email"}} {
		if c.path == "" {
			continue
		}
		p := c.pol()
		g := newDocGen(rng, &PolicySpec{Ops: []Op{{Kind: "elements", Names: []string{"a", "b", "p", "img", "table", "td", "font", "style", "html", "body"}}, {Kind: "attrs", Names: []string{"href", "src", "style", "class", "color", "type"}, Scope: "G"}}})
		for j := 0; j < 25; j++ {
			doc, _ := g.document()
			if j < len(blanks) {
				doc = blanks[j]
			}
			cmd := exec.Command(c.path)
			cmd.Stdin = strings.NewReader(doc)
			out, err := cmd.Output()
			sum.Evaluations++
			sum.Distribution["cmd-"+c.name]++
			if err != nil || string(out) != p.Sanitize(doc) {
				sum.OracleFails = append(sum.OracleFails, map[string]any{"kind": "cmd-tool-differs", "tool": c.name, "input_hex": hexOf(doc), "input_text": doc, "stdout": hexOf(string(out)), "library": hexOf(p.Sanitize(doc)), "err": fmt.Sprint(err)})
			}
		}
	}
	// directed: every ordered pair and triple of builder calls from a pool that overlaps on the same element,
	// the same pattern (one regexp pointer) and the same attribute / property / scheme
	{
		pool := []Op{
			{Kind: "attrs", Names: []string{"id"}, Scope: "E", ScopeEls: []string{"a"}},
			{Kind: "attrs", Names: []string{"id"}, Re: `^[a-z]+$`, Scope: "E", ScopeEls: []string{"A"}},
			{Kind: "attrs", NoAttrs: true, Scope: "E", ScopeEls: []string{"a"}},
			{Kind: "attrs", Names: []string{"id"}, Scope: "M", ScopeRe: `^custom-`},
			{Kind: "attrs", Names: []string{"class"}, NoAttrs: true, Scope: "M", ScopeRe: `^custom-`},
			{Kind: "attrs", NoAttrs: true, Scope: "M", ScopeRe: `^custom-`},
			{Kind: "attrs", Names: []string{"ID"}, Re: `^x`, Scope: "G"},
			{Kind: "styles", Names: []string{"color"}, Scope: "M", ScopeRe: `^custom-`},
			{Kind: "styles", Names: []string{"COLOR", "width"}, Enum: []string{"red"}, Scope: "M", ScopeRe: `^custom-`},
			{Kind: "styles", Names: []string{"color"}, Scope: "E", ScopeEls: []string{"a"}},
			{Kind: "elements", Names: []string{"a", "script"}},
			{Kind: "elementsmatching", Re: `^custom-`},
			{Kind: "skip", Names: []string{"A", "b"}},
			{Kind: "keep", Names: []string{"a", "script"}},
			{Kind: "schemes", Names: []string{"HTTP"}},
			{Kind: "schemecustom", Scheme: "http", CB: "never"},
		}
		run := func(seq []int) bool {
			gp := bluemonday.NewPolicy()
			spec := &PolicySpec{}
			polCounter++
			pid := fmt.Sprintf("dq%d", polCounter)
			d.send("POLICY " + pid)
			for _, oi := range seq {
				op := pool[oi]
				op.applyGo(gp)
				spec.Ops = append(spec.Ops, op)
				d.send("OP " + pid + " " + op.wire(d))
			}
			g, m := dumpGo(gp), dumpModel(d, pid)
			sum.Evaluations++
			distinct[g] = true
			if g != m {
				sum.Mismatches = append(sum.Mismatches, map[string]any{"kind": "correspondence-dump", "history": spec, "go": g, "model": m, "diff": firstDiffLine(g, m)})
				return len(sum.Mismatches) < 5
			}
			return true
		}
		for i := range pool {
			for j := range pool {
				if !run([]int{i, j}) {
					goto done
				}
				for k := range pool {
					if (i+j+k)%3 == 0 && !run([]int{i, j, k}) {
						goto done
					}
				}
			}
		}
		sum.Distribution["directed-pairs-and-triples"] = len(pool)*len(pool) + len(pool)*len(pool)*len(pool)/3
	}
done:
	sum.Nontrivial = len(distinct)
	sum.Samples = append(sum.Samples, map[string]any{"input": "<b>x</b>", "chunkings": "nil, one byte at a time, every single split point (<=48 bytes), 6 random with zero-length reads, data+EOF"})
	sum.emit()
}

// ---- rw mode: fault injection (C16) ---------------------------------------------------------------------

type failingReader struct {
	data string
	at   int
	err  error
}

func (r *failingReader) Read(p []byte) (int, error) {
	if r.at <= 0 {
		return 0, r.err
	}
	n := r.at
	if n > len(r.data) {
		n = len(r.data)
	}
	if n > len(p) {
		n = len(p)
	}
	if n == 0 {
		return 0, r.err
	}
	copy(p, r.data[:n])
	r.data = r.data[n:]
	r.at -= n
	return n, nil
}

var errReader = errors.New("injected read failure")

func rwMode(args []string) {
	fs := flag.NewFlagSet("rw", flag.ExitOnError)
	drv := fs.String("driver", "", "driver binary")
	seed := fs.Int64("seed", 1, "seed")
	nPol := fs.Int("policies", 10, "policies")
	nDoc := fs.Int("docs", 25, "documents per policy")
	fs.Parse(args)
	rng := rand.New(rand.NewSource(*seed))
	sum := newSummary("corr-rw")
	d := startDriver(*drv)
	defer d.close()
	distinct := map[string]bool{}
	pols := handPolicies()
	for i := 0; i < *nPol; i++ {
		ps := randPolicy(rng, true)
		if i%2 == 0 {
			ps.Ops = append(ps.Ops, Op{Kind: "comments"}, Op{Kind: "addspaces", B: true})
		}
		pols = append(pols, ps)
	}
	for _, ps := range pols {
		polCounter++
		pid := fmt.Sprintf("wp%d", polCounter)
		ps.define(d, pid)
		gp := ps.buildGo()
		g := newDocGen(rng, ps)
		for j := 0; j < *nDoc; j++ {
			doc, _ := g.document()
			if strings.TrimSpace(doc) == "" {
				continue
			}
			ref, _, _ := goChunks(gp, doc)
			full := strings.Join(ref, "")
			// every write index, transient and permanent, both writer kinds
			for k := 0; k <= len(ref); k++ {
				for ti, transient := range []bool{false, true} {
					for si, str := range []bool{false, true} {
						w := &recWriter{failAt: k, transient: transient, report: (k + ti + 2*si + j) % 3}
						var err error
						if str {
							err = gp.SanitizeReaderToWriter(strings.NewReader(doc), recStringWriter{w})
						} else {
							err = gp.SanitizeReaderToWriter(strings.NewReader(doc), w)
						}
						sum.Evaluations++
						sum.Distribution["write-faults"]++
						got := strings.Join(w.chunks, "")
						distinct[fmt.Sprint(k, len(ref), transient)] = true
						if k < len(ref) {
							// the independent oracle: error reported, no write after the failure, clean prefix
							if err == nil || w.calls != k+1 || !strings.HasPrefix(full, got) || got != strings.Join(ref[:k], "") {
								if len(sum.OracleFails) < 10 {
									sum.OracleFails = append(sum.OracleFails, map[string]any{"kind": "write-failure-mishandled", "fail_at": k, "transient": transient, "string_writer": str, "failing_write_reports": []string{"0 bytes", "all bytes", "half"}[w.report], "err": fmt.Sprint(err), "write_calls": w.calls,
										"written": hexOf(got), "fault_free": hexOf(full), "input_hex": hexOf(doc), "input_text": doc, "policy": ps})
								}
							}
						} else if err != nil || got != full {
							sum.OracleFails = append(sum.OracleFails, map[string]any{"kind": "no-fault-but-error", "err": fmt.Sprint(err), "input_hex": hexOf(doc), "policy": ps})
						}
						if !str {
							m := d.askOracle(fmt.Sprintf("RW %s 1 %d %s %s", pid, k, b01(transient), hexOf(doc)))
							es := "none"
							if err != nil {
								es = "write"
							}
							goS := fmt.Sprintf("W %s %d %s", es, w.calls, hexList(w.chunks))
							if m != goS {
								sum.Mismatches = append(sum.Mismatches, map[string]any{"kind": "correspondence-rw", "fail_at": k, "transient": transient, "input_hex": hexOf(doc), "input_text": doc, "policy": ps, "go": goS, "model": m})
								if len(sum.Mismatches) >= 6 {
									goto done
								}
							}
						}
					}
				}
			}
			// reader failures at several offsets
			offs := []int{0, 1, len(doc) / 2, len(doc) - 1, len(doc)}
			readErrs := []error{errReader, io.ErrUnexpectedEOF, io.ErrClosedPipe, io.ErrNoProgress, fmt.Errorf("wrapped: %w", io.EOF), io.ErrShortBuffer}
			for oi, off := range offs {
				errReader := readErrs[(oi+j)%len(readErrs)]
				if off < 0 || off > len(doc) {
					continue
				}
				sum.Evaluations++
				sum.Distribution["read-faults"]++
				var bb bytes.Buffer
				err := gp.SanitizeReaderToWriter(&failingReader{data: doc, at: off, err: errReader}, &bb)
				buf := gp.SanitizeReader(&failingReader{data: doc, at: off, err: errReader})
				if err == nil || buf.Len() != 0 {
					sum.OracleFails = append(sum.OracleFails, map[string]any{"kind": "read-failure-mishandled", "offset": off, "err": fmt.Sprint(err), "buffer_len": buf.Len(), "input_hex": hexOf(doc), "input_text": doc, "policy": ps})
				}
				m := d.askOracle(fmt.Sprintf("RW %s 0 -1 0 %s", pid, hexOf(doc[:off])))
				if !strings.HasPrefix(m, "W read ") && !strings.HasPrefix(m, "W panic") {
					sum.Mismatches = append(sum.Mismatches, map[string]any{"kind": "correspondence-rw-read", "offset": off, "input_hex": hexOf(doc), "policy": ps, "go": "error " + fmt.Sprint(err), "model": m})
				} else {
					// the chunks written before the error equal the model's
					mc := strings.SplitN(m, " ", 4)
					if len(mc) == 4 && mc[3] != hexListJoin(bb.String(), gp, doc[:off]) {
						sum.Mismatches = append(sum.Mismatches, map[string]any{"kind": "correspondence-rw-read", "offset": off, "input_hex": hexOf(doc), "policy": ps, "go": hexOf(bb.String()), "model": m})
					}
				}
			}
		}
	}
	// directed: every ordered pair and triple of builder calls from a pool that overlaps on the same element,
	// the same pattern (one regexp pointer) and the same attribute / property / scheme
	{
		pool := []Op{
			{Kind: "attrs", Names: []string{"id"}, Scope: "E", ScopeEls: []string{"a"}},
			{Kind: "attrs", Names: []string{"id"}, Re: `^[a-z]+$`, Scope: "E", ScopeEls: []string{"A"}},
			{Kind: "attrs", NoAttrs: true, Scope: "E", ScopeEls: []string{"a"}},
			{Kind: "attrs", Names: []string{"id"}, Scope: "M", ScopeRe: `^custom-`},
			{Kind: "attrs", Names: []string{"class"}, NoAttrs: true, Scope: "M", ScopeRe: `^custom-`},
			{Kind: "attrs", NoAttrs: true, Scope: "M", ScopeRe: `^custom-`},
			{Kind: "attrs", Names: []string{"ID"}, Re: `^x`, Scope: "G"},
			{Kind: "styles", Names: []string{"color"}, Scope: "M", ScopeRe: `^custom-`},
			{Kind: "styles", Names: []string{"COLOR", "width"}, Enum: []string{"red"}, Scope: "M", ScopeRe: `^custom-`},
			{Kind: "styles", Names: []string{"color"}, Scope: "E", ScopeEls: []string{"a"}},
			{Kind: "elements", Names: []string{"a", "script"}},
			{Kind: "elementsmatching", Re: `^custom-`},
			{Kind: "skip", Names: []string{"A", "b"}},
			{Kind: "keep", Names: []string{"a", "script"}},
			{Kind: "schemes", Names: []string{"HTTP"}},
			{Kind: "schemecustom", Scheme: "http", CB: "never"},
		}
		run := func(seq []int) bool {
			gp := bluemonday.NewPolicy()
			spec := &PolicySpec{}
			polCounter++
			pid := fmt.Sprintf("dq%d", polCounter)
			d.send("POLICY " + pid)
			for _, oi := range seq {
				op := pool[oi]
				op.applyGo(gp)
				spec.Ops = append(spec.Ops, op)
				d.send("OP " + pid + " " + op.wire(d))
			}
			g, m := dumpGo(gp), dumpModel(d, pid)
			sum.Evaluations++
			distinct[g] = true
			if g != m {
				sum.Mismatches = append(sum.Mismatches, map[string]any{"kind": "correspondence-dump", "history": spec, "go": g, "model": m, "diff": firstDiffLine(g, m)})
				return len(sum.Mismatches) < 5
			}
			return true
		}
		for i := range pool {
			for j := range pool {
				if !run([]int{i, j}) {
					goto done
				}
				for k := range pool {
					if (i+j+k)%3 == 0 && !run([]int{i, j, k}) {
						goto done
					}
				}
			}
		}
		sum.Distribution["directed-pairs-and-triples"] = len(pool)*len(pool) + len(pool)*len(pool)*len(pool)/3
	}
done:
	sum.Nontrivial = len(distinct)
	sum.Samples = append(sum.Samples, map[string]any{"fault_schedule": "fail at write k for every k of the case's write sequence, transient and permanent, io.Writer with and without WriteString; reader failing at offsets 0,1,n/2,n-1,n"})
	sum.emit()
}

// the chunk list the implementation writes for the prefix, rendered like the model's accepted list
func hexListJoin(_ string, gp *bluemonday.Policy, prefix string) string {
	cs, _, _ := goChunks(gp, prefix)
	return hexList(cs)
}

var _ = os.Stdout
