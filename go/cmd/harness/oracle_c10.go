package main

// The C10 oracle: the style attribute of the output, judged against the harness's own reading of the
// style rule set (the builder calls of the policy spec, not the policy's tables).  Declarations are
// split by douceur (the same parser the implementation uses: a shared oracle, see DESIGN.md); values
// containing a backslash are not judged here (escape decoding is the business of the model and its
// correspondence), they may or may not be kept.

import (
	"math/rand"
	"strings"

	"github.com/aymerick/douceur/parser"
	"github.com/microcosm-cc/bluemonday/css"
	"golang.org/x/net/html"
)

type styleMatcher func(string) bool

// styleRulesFor: the rules that apply to the element: element rules (explicit entries, else the rules of
// every matching element pattern) and global rules
func styleRulesFor(ps *PolicySpec, el string) (local, global map[string][]styleMatcher) {
	explicit := map[string][]styleMatcher{}
	pattern := map[string][]styleMatcher{}
	global = map[string][]styleMatcher{}
	for _, o := range ps.Ops {
		if o.Kind != "styles" {
			continue
		}
		for _, n := range o.Names {
			prop := strings.ToLower(n)
			var m styleMatcher
			switch {
			case o.Handler != "":
				m = customHandlers[o.Handler]
			case len(o.Enum) > 0:
				enum := o.Enum
				m = func(v string) bool {
					for _, e := range enum {
						if strings.EqualFold(e, v) {
							return true
						}
					}
					return false
				}
			case o.Re != "":
				re := getRx(o.Re).re
				m = re.MatchString
			default:
				m = css.GetDefaultHandler(prop)
			}
			switch o.Scope {
			case "E":
				for _, e := range o.ScopeEls {
					if strings.ToLower(e) == el {
						explicit[prop] = append(explicit[prop], m)
					}
				}
			case "M":
				if getRx(o.ScopeRe).re.MatchString(el) {
					pattern[prop] = append(pattern[prop], m)
				}
			default:
				global[prop] = append(global[prop], m)
			}
		}
	}
	if len(explicit) > 0 {
		return explicit, global
	}
	return pattern, global
}

var cssPrefixes = []string{"-webkit-", "-moz-", "-ms-", "-o-", "mso-", "-xv-", "-atsc-", "-wap-", "-khtml-", "prince-", "-ah-", "-hp-", "-ro-", "-rim-", "-tc-"}

func oracleC10(fail func(oracleCase, string, map[string]any)) func(oracleCase, *specView) bool {
	return func(c oracleCase, v *specView) bool {
		in := goTokens(c.doc)
		if len(in) == 0 || (in[0].Type != html.StartTagToken && in[0].Type != html.SelfClosingTagToken) {
			return false
		}
		el := in[0].Data
		if el == "script" || el == "style" || !v.elemAllowed(el) {
			return false
		}
		for _, t := range in[1:] {
			if isTag(t) {
				return false // one tag per document: the output tag is then the input tag
			}
		}
		n, sv := 0, ""
		for _, a := range in[0].Attr {
			if a.Key == "style" {
				n++
				sv = a.Val
			}
		}
		if n != 1 {
			return false
		}
		local, global := styleRulesFor(c.ps, el)
		if len(local) == 0 && len(global) == 0 {
			return false // no style property is allowlisted for this element: the style attribute is an ordinary attribute
		}
		// the declarations the rule set keeps (must), and those not judged here (may)
		val := strings.TrimRight(sv, " ")
		if len(val) > 0 && val[len(val)-1] != ';' {
			val += ";"
		}
		type cand struct {
			s    string
			must bool
		}
		var cands []cand
		decs, err := parser.ParseDeclarations(val)
		if err == nil {
			for _, d := range decs {
				prop := strings.ToLower(d.Property)
				for _, p := range cssPrefixes {
					prop = strings.TrimPrefix(prop, p)
				}
				ms := append(append([]styleMatcher{}, local[prop]...), global[prop]...)
				if len(ms) == 0 {
					continue // a property without any rule is never kept
				}
				if strings.Contains(d.Value, "\\") {
					cands = append(cands, cand{d.Property + ": " + d.Value, false})
					continue
				}
				lv := strings.ToLower(d.Value)
				for _, m := range ms {
					if m(lv) {
						cands = append(cands, cand{d.Property + ": " + d.Value, true})
						break
					}
				}
			}
		}
		mays := 0
		for _, cd := range cands {
			if !cd.must {
				mays++
			}
		}
		if mays > 8 {
			return false
		}
		// the style attribute of the output tag
		got, present, tagSeen := "", false, false
		for _, t := range goTokens(c.gp.Sanitize(c.doc)) {
			if (t.Type == html.StartTagToken || t.Type == html.SelfClosingTagToken) && t.Data == el {
				tagSeen = true
				for _, a := range t.Attr {
					if a.Key == "style" {
						if present {
							fail(c, "two style attributes in the output for one in the input", nil)
							return true
						}
						got, present = a.Val, true
					}
				}
				break
			}
		}
		// acceptable outputs: the must declarations and any subset of the may declarations, in input order
		ok := false
		var wants []string
		for mask := 0; mask < 1<<mays && !ok; mask++ {
			var keep []string
			k := 0
			for _, cd := range cands {
				if cd.must {
					keep = append(keep, cd.s)
				} else {
					if mask&(1<<k) != 0 {
						keep = append(keep, cd.s)
					}
					k++
				}
			}
			want := strings.Join(keep, "; ")
			if len(wants) < 4 {
				wants = append(wants, want)
			}
			if want == "" {
				ok = !present
			} else {
				ok = present && got == want
			}
		}
		if !ok {
			clause := "the style attribute of the output is not the allowed declarations of the input, in order"
			switch {
			case present && len(cands) == 0:
				clause = "a style attribute is kept although no declaration of it is allowed"
			case !present && !tagSeen:
				clause = "allowed style declarations are lost: the element is gone"
			case !present:
				clause = "allowed style declarations are lost: the style attribute is gone"
			}
			fail(c, clause, map[string]any{"element": el, "style_in": sv, "style_out": got, "style_expected_one_of": wants})
		}
		return len(cands) > 0
	}
}

// c10Policies: the style rule sets of the correspondence run, each with several ways of allowing the elements
// (explicit entries, element patterns, both), with and without the style attribute itself allowed
func c10Policies(rng *rand.Rand, n int) []*PolicySpec {
	var out []*PolicySpec
	els := []string{"p", "span", "b", "i", "a-x", "div", "custom-x"}
	wraps := [][]Op{
		{{Kind: "elements", Names: els}},
		{{Kind: "elementsmatching", Re: `^(p|span|b|i|div|[a-z]+-x)$`}},
		{{Kind: "attrs", Names: []string{"id"}, Scope: "E", ScopeEls: []string{"p", "b", "a-x"}}, {Kind: "elementsmatching", Re: `^(i|span|div|custom-.*)$`}},
		{{Kind: "attrs", Names: []string{"style", "id"}, Scope: "G"}, {Kind: "elements", Names: els}},
		{{Kind: "attrs", Names: []string{"style", "title"}, Scope: "E", ScopeEls: els}},
		{{Kind: "attrs", Names: []string{"id"}, Scope: "M", ScopeRe: `^[a-z]`}, {Kind: "attrs", Names: []string{"title"}, Scope: "E", ScopeEls: []string{"b", "span", "a-x"}}},
	}
	for _, sp := range stylePolicies() {
		for wi, w := range wraps {
			ps := &PolicySpec{Name: sp.Name + "/w" + string(rune('0'+wi))}
			if wi%2 == 0 {
				ps.Ops = append(append(ps.Ops, w...), sp.Ops...)
			} else {
				ps.Ops = append(append(ps.Ops, sp.Ops...), w...)
			}
			out = append(out, ps)
		}
	}
	for i := 0; i < n; i++ {
		ps := randPolicy(rng, false)
		ps.Ops = append(ps.Ops, Op{Kind: "elements", Names: els})
		for j := 0; j < 1+rng.Intn(3); j++ {
			o := Op{Kind: "styles", Names: pickN(rng, propVocab, 1+rng.Intn(3))}
			switch rng.Intn(4) {
			case 0:
				o.Enum = pickN(rng, []string{"red", "Blue", "left", "1px", "auto", "center"}, 1+rng.Intn(3))
			case 1:
				o.Re = pick(rng, []string{`^#[0-9a-f]+$`, `^[0-9]+px$`, `^(red|green|blue)$`})
			case 2:
				o.Handler = pick(rng, []string{"short", "hasred"})
			}
			switch rng.Intn(3) {
			case 0:
				o.Scope = "G"
			case 1:
				o.Scope, o.ScopeEls = "E", pickN(rng, els, 1+rng.Intn(3))
			default:
				o.Scope, o.ScopeRe = "M", pick(rng, []string{`^(b|i)$`, `^[a-z]+-x$`, `^a-`, `^custom-`, `^[a-z]`})
			}
			ps.Ops = append(ps.Ops, o)
		}
		out = append(out, ps)
	}
	return out
}

func c10Doc(rng *rand.Rand) string {
	el := pick(rng, []string{"p", "span", "b", "i", "a-x", "div", "custom-x", "P", "br"})
	s := pick(rng, styleCorpus(rng, 3))
	var b strings.Builder
	b.WriteString("<" + el)
	if rng.Intn(3) == 0 {
		b.WriteString(" id=\"k\"")
	}
	b.WriteString(" " + pick(rng, []string{"style", "style", "STYLE"}) + "=\"" + html.EscapeString(s) + "\"")
	if rng.Intn(3) == 0 {
		b.WriteString(" title=\"t\"")
	}
	b.WriteString(pick(rng, []string{">", ">", "/>"}) + pick(rng, []string{"", "t"}))
	return b.String()
}
