package main

// The keyword-shape handlers of css/handlers.go (recognised by gen) against the Coq model
// Model/KwHandler.v, by function: candidates from the generic vocabulary and the handler's own
// keywords, alone and joined, with white space, upper case, separators, hostile fragments and
// non-ASCII (multi-byte white space, letters whose lower case is ASCII, invalid UTF-8).

import (
	"bufio"
	"flag"
	"math/rand"
	"os"
	"strings"

	"github.com/microcosm-cc/bluemonday/css"
)

func kwhMode(args []string) {
	fs := flag.NewFlagSet("kwh", flag.ExitOnError)
	drv := fs.String("driver", "", "driver binary")
	table := fs.String("table", "", "css_table.tsv written by gen")
	kwhFile := fs.String("kwhandlers", "", "css_kw_handlers.tsv written by gen")
	kwFile := fs.String("keywords", "", "css_keywords.tsv written by gen")
	seed := fs.Int64("seed", 1, "seed")
	per := fs.Int("n", 250, "random values per handler")
	fs.Parse(args)
	rng := rand.New(rand.NewSource(*seed))
	sum := newSummary("corr-kwhandlers")
	d := startDriver(*drv)
	defer d.close()
	readTSV := func(path string) [][]string {
		f, err := os.Open(path)
		if err != nil {
			panic(err)
		}
		defer f.Close()
		var out [][]string
		sc := bufio.NewScanner(f)
		sc.Buffer(make([]byte, 1<<20), 1<<22)
		for sc.Scan() {
			out = append(out, strings.Split(sc.Text(), "\t"))
		}
		return out
	}
	isKw := map[string]bool{}
	for _, r := range readTSV(*kwhFile) {
		isKw[r[0]] = true
	}
	kws := map[string][]string{}
	for _, r := range readTSV(*kwFile) {
		fn := strings.SplitN(r[0], "#", 2)[0]
		kws[fn] = append(kws[fn], strings.Split(r[1], "\x1f")...)
	}
	generic := []string{"1px", "10%", "#fff", "red", "0.5", "1", "-1", "1s", "10ms", "none", "auto", "inherit", "initial", "left", "center", "bold", "a", "100", "1em", "x-y", "", " ",
		" ", " ", "\u0085", "K", "İ", "\xff", "\xc2", "é", "expression(1)", "url(x)", "<", "\\", "@import", "javascript:1", ":", "("}
	seps := []string{",", ", ", " ,", " , ", ",,", " ", " ", " ", "  ", "\t", "\n", ";", "/"}
	distinct := map[string]bool{}
	done := map[string]bool{}
	for _, r := range readTSV(*table) {
		prop, fn := r[0], r[1]
		if !isKw[fn] || done[fn] {
			continue
		}
		done[fn] = true
		h := css.GetDefaultHandler(prop)
		cands := append(append([]string{}, generic...), kws[fn]...)
		var vals []string
		vals = append(vals, cands...)
		for i := 0; i < *per; i++ {
			k := 1 + rng.Intn(3)
			var b strings.Builder
			for j := 0; j < k; j++ {
				if j > 0 {
					b.WriteString(pick(rng, seps))
				}
				c := pick(rng, cands)
				switch rng.Intn(6) {
				case 0:
					c = strings.ToUpper(c)
				case 1:
					c = pick(rng, []string{" ", "\t", " ", " ", "\n"}) + c + pick(rng, []string{" ", "  ", "\r\n", "　"})
				case 2:
					c = mutate(rng, c)
				}
				b.WriteString(c)
			}
			vals = append(vals, b.String())
		}
		if d.ask("KWH "+fn+" "+hexOf("inherit")) == "ERR no-such-handler-definition" {
			// recognised by the translator but not kept for the theorem (a recursiveCheck over sub-handlers that accept a marked character)
			sum.Distribution["recognised-not-kept"]++
			delete(done, fn)
			continue
		}
		for _, v := range vals {
			sum.Evaluations++
			got := h(v)
			if got {
				sum.Distribution["accepted"]++
				distinct[fn+v] = true
			} else {
				sum.Distribution["rejected"]++
			}
			m := d.ask("KWH " + fn + " " + hexOf(v))
			if m != "V "+b01(got) {
				sum.Mismatches = append(sum.Mismatches, map[string]any{"kind": "correspondence-kwhandler", "handler": fn, "property": prop, "input_hex": hexOf(v), "input_text": v, "go": "V " + b01(got), "model": m})
				if len(sum.Mismatches) >= 8 {
					goto finish
				}
			}
		}
	}
finish:
	sum.Distribution["keyword-handlers"] = len(done)
	sum.Nontrivial = len(distinct)
	sum.Samples = append(sum.Samples, map[string]any{"handler": "AlignContentHandler", "input": " Center , STRETCH"})
	sum.emit()
}
