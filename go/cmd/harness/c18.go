package main

import (
	"bufio"
	"flag"
	"os"
	"regexp"
	"strings"

	"github.com/microcosm-cc/bluemonday"
	"github.com/microcosm-cc/bluemonday/css"
)

// the hostile language of Spec/CssInert.v, restated with Go regexps
var hostileRes = []*regexp.Regexp{
	regexp.MustCompile(`[<>\\@]`),
	regexp.MustCompile(`(?i)expression\(`),
	regexp.MustCompile(`(?i)(^|[^a-z0-9./_:\\])(javascript|data):`),
}
var urlOpen = regexp.MustCompile(`(?i)url\(`)
var urlOK = regexp.MustCompile(`(?i)^["']?https?://`)

func isHostile(v string) bool {
	for _, r := range hostileRes {
		if r.MatchString(v) {
			return true
		}
	}
	for _, loc := range urlOpen.FindAllStringIndex(v, -1) {
		if !urlOK.MatchString(v[loc[1]:]) {
			return true
		}
	}
	return false
}

// c18: for every entry of the default handler table: values from the handler's own vocabulary
// with a hostile fragment inserted, appended, prepended and glued at every position
func c18Mode(args []string) {
	fs := flag.NewFlagSet("c18", flag.ExitOnError)
	table := fs.String("table", "", "css_table.tsv written by gen")
	kwFile := fs.String("keywords", "", "css_keywords.tsv written by gen")
	deep := fs.Bool("deep", false, "pairs and triples of vocabulary tokens")
	fs.Int64("seed", 1, "unused")
	fs.Parse(args)
	sum := newSummary("c18")
	// keyword lists per handler function
	kws := map[string][]string{}
	if f, err := os.Open(*kwFile); err == nil {
		sc := bufio.NewScanner(f)
		sc.Buffer(make([]byte, 1<<20), 1<<22)
		for sc.Scan() {
			p := strings.SplitN(sc.Text(), "\t", 2)
			fn := strings.SplitN(p[0], "#", 2)[0]
			kws[fn] = append(kws[fn], strings.Split(p[1], "\x1f")...)
		}
		f.Close()
	}
	generic := []string{"1px", "10%", "#fff", "#a1b2c3", "red", "rgb(1,2,3)", "rgba(1,2,3,0.5)", "hsl(1,2%,3%)", "url(http://x/y.png)", "url('https://x/y.png')", "0.5", "1", "0", "1s", "10ms",
		"ease", "cubic-bezier(0,0,1,1)", "steps(2,start)", "'a'", "\"a\"", "none", "auto", "inherit", "initial", "left", "top", "center", "solid", "bold", "serif", "a", "span 2", "1fr",
		"rect(1px,2px,3px,4px)", "blur(1px)", "drop-shadow(1px 1px)", "drop-shadow(1px 1px red)", "rotate(10)", "translate(1px,2px)", "scale(2)", "skew(1px)", "perspective(1px)", "matrix(1,2,3,4,5,6)",
		"1 / 2", "underline", "digits 2", "1.0", "0.3", "opacity(50%)", "x-y", "100", "1em 2em", "left top", "left top 1px", "1px solid red", "italic bold 12px serif", "a b", "'a' 'b'"}
	frags := []string{"<script>", ">", "\\61", "@import", "expression(alert(1))", "javascript:alert(1)", "url(javascript:alert(1))", "url(data:text/html,x)", "url(//x/)", "url(httpx)", "data:x", "<", "\\",
		"url(http:\\\\x)", "EXPRESSION(1)", "Url(JavaScript:1)", " url(x)", ";expression(1)"}
	f, err := os.Open(*table)
	if err != nil {
		panic(err)
	}
	defer f.Close()
	sc := bufio.NewScanner(f)
	distinct := map[string]bool{}
	seenFail := map[string]bool{}
	var props []string
	for sc.Scan() {
		p := strings.Split(sc.Text(), "\t")
		prop, fn := p[0], p[1]
		props = append(props, prop)
		h := css.GetDefaultHandler(prop)
		cands := append(append([]string{}, generic...), kws[fn]...)
		var vocab []string
		for _, c := range cands {
			if h(c) {
				vocab = append(vocab, c)
			}
		}
		if *deep || len(vocab) < 4 {
			for _, a := range cands {
				for _, b := range cands {
					for _, sep := range []string{" ", ", ", ",", "/", " / "} {
						if v := a + sep + b; h(v) && len(vocab) < 60 {
							vocab = append(vocab, v)
						}
					}
				}
			}
		}
		sum.Distribution["vocabulary-values"] += len(vocab)
		if len(vocab) == 0 {
			sum.Distribution["handlers-without-vocabulary"]++
		}
		test := func(v, base, frag, how string) {
			sum.Evaluations++
			if h(v) {
				distinct[prop+"\x00"+v] = true
				if isHostile(v) && !seenFail[prop+how] && len(sum.OracleFails) < 40 {
					seenFail[prop+how] = true
					out := ""
					pol := bluemonday.NewPolicy()
					pol.AllowStyles(prop).Globally()
					pol.AllowElements("p")
					out = pol.Sanitize(`<p style="` + strings.ReplaceAll(prop+": "+v, `"`, "&quot;") + `">x</p>`)
					sum.OracleFails = append(sum.OracleFails, map[string]any{"kind": "css-handler-accepts-hostile", "clause": "default handler of " + prop + " (" + fn + ") accepts a hostile value",
						"property_name": prop, "handler": fn, "value": v, "base": base, "fragment": frag, "placement": how, "input_text": prop + ": " + v, "output": out})
				}
			}
		}
		otherSeps := []string{"!", "|", "&", "+", "*", "=", "?", "#", "%", "^", "~", "_", "-", ".", ":", "'", "\"", "(", ")", "[", "]", "{", "}", "\t", "\n"}
		for _, base := range vocab {
			for _, fr := range frags {
				test(base+fr, base, fr, "glued-after")
				test(fr+base, base, fr, "glued-before")
				test(base+" "+fr, base, fr, "appended")
				test(fr+" "+base, base, fr, "prepended")
				test(base+","+fr, base, fr, "appended-comma")
				test(base+";"+fr, base, fr, "appended-semicolon")
				test(base+"/"+fr, base, fr, "appended-slash")
				// any other one-byte separator a handler might split on
				for _, sp := range otherSeps {
					test(base+sp+fr, base, fr, "appended-sep")
				}
				for i := 1; i < len(base); i++ {
					test(base[:i]+fr+base[i:], base, fr, "inserted")
					if base[i] == ' ' || base[i] == ',' {
						test(base[:i]+" "+fr+base[i:], base, fr, "inserted-token")
					}
				}
			}
		}
		for _, fr := range frags {
			test(fr, "", fr, "alone")
		}
	}
	// an unknown property gets a handler that rejects everything
	for _, unk := range []string{"unknown-prop", "", "Color", "colour", "behavior", "-moz-binding", "color "} {
		known := false
		for _, p := range props {
			if p == unk {
				known = true
			}
		}
		if known {
			continue
		}
		h := css.GetDefaultHandler(unk)
		for _, v := range append(append([]string{"", " "}, generic...), frags...) {
			sum.Evaluations++
			if h(v) {
				sum.OracleFails = append(sum.OracleFails, map[string]any{"kind": "unknown-property-accepted", "clause": "the handler for an unknown property accepts a value", "property_name": unk, "value": v})
				break
			}
		}
	}
	// "used when AllowStyles is given no matcher": the builder binds, for every property name of a call and in every scope, the
	// default handler OF THAT PROPERTY (and the reject-all handler for an unknown name)
	{
		probes := []string{"red", "1px", "inherit", "initial", "left", "10%", "none", "auto", "url(http://x/y.png)", "1px solid red", "bold", "2", "center top", "expression(1)"}
		bound := 0
		for i := 0; i < len(props); i += 2 {
			names := []string{props[i], props[(i+1)%len(props)], "verif-unknown-" + props[i], props[(i+7)%len(props)]}
			for scope := 0; scope < 3; scope++ {
				p := bluemonday.NewPolicy()
				p.AllowElements("p")
				b := p.AllowStyles(names...)
				switch scope {
				case 0:
					b.Globally()
				case 1:
					b.OnElements("p")
				default:
					b.OnElementsMatching(regexp.MustCompile(`^p$`))
				}
				for _, n := range names {
					want := css.GetDefaultHandler(n)
					for _, v := range probes {
						sum.Evaluations++
						bound++
						kept := strings.Contains(p.Sanitize(`<p style="`+n+`: `+v+`">x</p>`), "style=")
						if kept != want(v) && len(sum.OracleFails) < 40 {
							sum.OracleFails = append(sum.OracleFails, map[string]any{"kind": "default-handler-binding", "clause": "a property allowed without a matcher is not judged by its own default handler",
								"property_name": n, "value": v, "kept": kept, "default_handler_accepts": want(v), "allow_styles_names": names, "scope": []string{"Globally", "OnElements", "OnElementsMatching"}[scope],
								"input_text": `<p style="` + n + `: ` + v + `">x</p>`})
						}
					}
				}
			}
		}
		sum.Distribution["default-binding-probes"] = bound
	}
	sum.Distribution["handlers"] = len(props)
	sum.Nontrivial = len(distinct)
	sum.Samples = append(sum.Samples, map[string]any{"property": "color", "base": "red", "fragment": "expression(alert(1))", "placements": "glued-after, glued-before, appended, prepended, comma, semicolon, slash, 25 other one-byte separators, inserted at every byte position"})
	sum.emit()
}
