package main

// One call of one entry point in a process of its own: a fatal error of the Go runtime (stack
// overflow, concurrent map access, out of memory) cannot be recovered, so the C14 run isolates a
// small battery of (entry point, input, policy) in child processes and reports the one that dies.

import (
	"bytes"
	"context"
	"encoding/json"
	"flag"
	"fmt"
	"io"
	"os"
	"os/exec"
	"runtime/debug"
	"strings"
	"time"
)

type oneByteReader struct{ r io.Reader }

func (r oneByteReader) Read(b []byte) (int, error) {
	if len(b) == 0 {
		return 0, nil
	}
	return r.r.Read(b[:1])
}

var c14Entries = []string{"Sanitize", "SanitizeBytes", "SanitizeReader", "ToWriter-buffer", "ToWriter-plain", "ToWriter-onebyte"}

func c14OneMode(args []string) {
	fs := flag.NewFlagSet("c14one", flag.ExitOnError)
	entry := fs.String("entry", "Sanitize", "entry point")
	in := fs.String("input", "", "hex input")
	pol := fs.String("policy", "", "JSON policy spec")
	fs.Parse(args)
	debug.SetMaxStack(64 << 20)
	gp := parseSpec(*pol).buildGo()
	doc := unhex(*in)
	switch *entry {
	case "Sanitize":
		gp.Sanitize(doc)
	case "SanitizeBytes":
		gp.SanitizeBytes([]byte(doc))
	case "SanitizeReader":
		gp.SanitizeReader(strings.NewReader(doc))
	case "ToWriter-buffer":
		gp.SanitizeReaderToWriter(strings.NewReader(doc), &bytes.Buffer{})
	case "ToWriter-plain":
		gp.SanitizeReaderToWriter(strings.NewReader(doc), &plainWriter{})
	case "ToWriter-onebyte":
		gp.SanitizeReaderToWriter(oneByteReader{strings.NewReader(doc)}, &plainWriter{})
	default:
		fmt.Println("unknown entry", *entry)
		os.Exit(3)
	}
	fmt.Println("c14one ok")
}

// c14Isolated runs the battery; one record per (entry point) that dies or stalls
func c14Isolated(sum *summary, budget time.Duration) {
	docs := []string{"", "x", "<b>x</b>", `<a href="http://x/y" rel="me">t</a>`, "<!--c-->", "<script>x</script>y", "a & b\r\n", `<p style="color: red">x</p>`, "<br/>"}
	pols := handPolicies()
	if len(pols) > 3 {
		pols = pols[:3]
	}
	self, err := os.Executable()
	if err != nil {
		sum.Extra["isolated"] = "no path to the harness binary: " + err.Error()
		return
	}
	dead := map[string]bool{}
	n := 0
	for _, ps := range pols {
		pj := ps.json()
		for _, e := range c14Entries {
			for _, doc := range docs {
				if dead[e] {
					continue
				}
				ctx, cancel := context.WithTimeout(context.Background(), 10*budget)
				cmd := exec.CommandContext(ctx, self, "c14one", "-entry", e, "-input", hexOf(doc), "-policy", pj)
				out, err := cmd.CombinedOutput()
				timedOut := ctx.Err() == context.DeadlineExceeded
				cancel()
				n++
				sum.Evaluations++
				if err == nil && strings.Contains(string(out), "c14one ok") {
					continue
				}
				dead[e] = true
				why := "the process died"
				if timedOut {
					why = fmt.Sprintf("the call did not return within %v", 10*budget)
				}
				first := ""
				for _, l := range strings.Split(string(out), "\n") {
					if strings.HasPrefix(l, "fatal error:") || strings.HasPrefix(l, "panic:") || strings.HasPrefix(l, "runtime:") {
						first = l
						break
					}
				}
				sum.OracleFails = append(sum.OracleFails, map[string]any{"kind": "crash", "clause": fmt.Sprintf("%s in %s (%v) %s", why, e, err, first), "entry": e,
					"policy": ps, "input_hex": hexOf(doc), "input_text": doc, "log": tail(string(out), 1500)})
			}
		}
	}
	sum.Distribution["isolated-calls"] = n
}

func tail(s string, n int) string {
	if len(s) > n {
		return s[len(s)-n:]
	}
	return s
}

func (ps *PolicySpec) json() string {
	b, err := json.Marshal(ps)
	if err != nil {
		panic(err)
	}
	return string(b)
}
