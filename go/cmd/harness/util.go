package main

import (
	"encoding/json"
	"reflect"
	"regexp"
	"runtime"
	"strings"

	"github.com/microcosm-cc/bluemonday"
	"github.com/microcosm-cc/bluemonday/css"
	"golang.org/x/net/html"
)

func htmlEscape(s string) string { return html.EscapeString(s) }

func bluemondayFuncName(f interface{}) string {
	n := runtime.FuncForPC(reflect.ValueOf(f).Pointer()).Name()
	if i := strings.LastIndex(n, "/"); i >= 0 {
		n = n[i+1:]
	}
	return n
}

func defaultHandlerName(prop string) string { return bluemondayFuncName(css.GetDefaultHandler(prop)) }

// the documented policies of the two command line tools (cmd/*/doc.go and the comments of
// their main functions), restated here independently of cmd/*/main.go
func cmdUGCPolicy() *bluemonday.Policy {
	p := bluemonday.UGCPolicy()
	p.RequireNoFollowOnLinks(true)
	p.RequireNoFollowOnFullyQualifiedLinks(true)
	p.AddTargetBlankToFullyQualifiedLinks(true)
	return p
}

func cmdEmailPolicy() *bluemonday.Policy {
	color := regexp.MustCompile(`(?i)^(#[0-9a-fA-F]{1,6}|black|silver|gray|white|maroon|red|purple|fuchsia|green|lime|olive|yellow|navy|blue|teal|aqua|orange|aliceblue|antiquewhite|aquamarine|azure|beige|bisque|blanchedalmond|blueviolet|brown|burlywood|cadetblue|chartreuse|chocolate|coral|cornflowerblue|cornsilk|crimson|darkblue|darkcyan|darkgoldenrod|darkgray|darkgreen|darkgrey|darkkhaki|darkmagenta|darkolivegreen|darkorange|darkorchid|darkred|darksalmon|darkseagreen|darkslateblue|darkslategray|darkslategrey|darkturquoise|darkviolet|deeppink|deepskyblue|dimgray|dimgrey|dodgerblue|firebrick|floralwhite|forestgreen|gainsboro|ghostwhite|gold|goldenrod|greenyellow|grey|honeydew|hotpink|indianred|indigo|ivory|khaki|lavender|lavenderblush|lawngreen|lemonchiffon|lightblue|lightcoral|lightcyan|lightgoldenrodyellow|lightgray|lightgreen|lightgrey|lightpink|lightsalmon|lightseagreen|lightskyblue|lightslategray|lightslategrey|lightsteelblue|lightyellow|limegreen|linen|mediumaquamarine|mediumblue|mediumorchid|mediumpurple|mediumseagreen|mediumslateblue|mediumspringgreen|mediumturquoise|mediumvioletred|midnightblue|mintcream|mistyrose|moccasin|navajowhite|oldlace|olivedrab|orangered|orchid|palegoldenrod|palegreen|paleturquoise|palevioletred|papayawhip|peachpuff|peru|pink|plum|powderblue|rosybrown|royalblue|saddlebrown|salmon|sandybrown|seagreen|seashell|sienna|skyblue|slateblue|slategray|slategrey|snow|springgreen|steelblue|tan|thistle|tomato|turquoise|violet|wheat|whitesmoke|yellowgreen|rebeccapurple)$`)
	buttonType := regexp.MustCompile(`(?i)^[a-zA-Z][a-zA-Z-]{1,30}[a-zA-Z]$`)
	styleType := regexp.MustCompile(`(?i)^text\/css$`)
	p := bluemonday.UGCPolicy()
	p.AllowElements("html", "head", "body", "title")
	p.AllowAttrs("type").Matching(styleType).OnElements("style")
	p.AllowAttrs("style").Globally()
	p.AllowElements("font", "main", "nav", "header", "footer", "kbd", "legend")
	p.AllowAttrs("type").Matching(buttonType).OnElements("button")
	p.AllowAttrs("bgcolor", "color").Matching(color).OnElements("basefont", "font", "hr")
	p.AllowAttrs("border").Matching(bluemonday.Integer).OnElements("img", "table")
	p.AllowAttrs("cellpadding", "cellspacing").Matching(bluemonday.Integer).OnElements("table")
	p.AllowStyling()
	p.AllowDataURIImages()
	p.RequireNoFollowOnLinks(true)
	p.RequireNoFollowOnFullyQualifiedLinks(true)
	p.AddTargetBlankToFullyQualifiedLinks(true)
	return p
}

func jsonUnmarshal(s string, v interface{}) error { return json.Unmarshal([]byte(s), v) }
