package main

import (
	"bytes"
	"flag"
	"fmt"
	"io"
	"math/rand"
	"strings"

	"github.com/microcosm-cc/bluemonday"
	"golang.org/x/net/html"
)

func attrsStr(as []html.Attribute) string {
	if len(as) == 0 {
		return "_"
	}
	var p []string
	for _, a := range as {
		p = append(p, hexOf(a.Key)+"="+hexOf(a.Val))
	}
	return strings.Join(p, ",")
}

func tokenStr(t html.Token) string {
	switch t.Type {
	case html.TextToken:
		return "t:" + hexOf(t.Data)
	case html.StartTagToken:
		return "s:" + hexOf(t.Data) + ":" + attrsStr(t.Attr)
	case html.EndTagToken:
		return "e:" + hexOf(t.Data)
	case html.SelfClosingTagToken:
		return "x:" + hexOf(t.Data) + ":" + attrsStr(t.Attr)
	case html.CommentToken:
		return "c:" + hexOf(t.Data)
	case html.DoctypeToken:
		return "d:" + hexOf(t.Data)
	}
	return "?"
}

func goTokens(s string) []html.Token {
	z := html.NewTokenizer(strings.NewReader(s))
	var out []html.Token
	for {
		if z.Next() == html.ErrorToken {
			return out
		}
		out = append(out, z.Token())
	}
}

func goTokensStr(s string) string {
	var p []string
	for _, t := range goTokens(s) {
		p = append(p, tokenStr(t))
	}
	return strings.TrimRight("T "+strings.Join(p, " "), " ")
}

// recWriter records every Write call; optionally fails at a given call index
type recWriter struct {
	chunks    []string
	calls     int
	failAt    int // -1 never
	report    int // 0: a failing Write returns (0, err); 1: (len(p), err); 2: (len(p)/2, err)
	transient bool
	str       bool
}

var errInjected = fmt.Errorf("injected write failure")

func (w *recWriter) Write(p []byte) (int, error) {
	k := w.calls
	w.calls++
	if w.failAt >= 0 && ((w.transient && k == w.failAt) || (!w.transient && k >= w.failAt)) {
		// what a failing Write reports besides the error: nothing written, everything, or half (io.Writer allows all three)
		switch w.report {
		case 1:
			return len(p), errInjected
		case 2:
			return len(p) / 2, errInjected
		}
		return 0, errInjected
	}
	w.chunks = append(w.chunks, string(p))
	return len(p), nil
}

type recStringWriter struct{ *recWriter }

func (w recStringWriter) WriteString(s string) (int, error) { return w.Write([]byte(s)) }

func goChunks(p *bluemonday.Policy, s string) (chunks []string, panicked bool, err error) {
	w := &recWriter{failAt: -1}
	defer func() {
		if r := recover(); r != nil {
			panicked = true
			chunks = w.chunks
		}
	}()
	err = p.SanitizeReaderToWriter(strings.NewReader(s), w)
	return w.chunks, false, err
}

func chunksStr(cs []string, panicked bool) string {
	var p []string
	for _, c := range cs {
		p = append(p, hexOf(c))
	}
	return strings.TrimRight("S "+b01(panicked)+" "+strings.Join(p, " "), " ")
}

// model chunks: strip the "u:" marker of unchecked writes
func normModelChunks(s string) string {
	return strings.TrimRight(strings.ReplaceAll(s, " u:", " "), " ")
}

type caseRec struct {
	Policy *PolicySpec `json:"policy,omitempty"`
	Input  string      `json:"input_hex"`
	Text   string      `json:"input_text,omitempty"`
	Go     string      `json:"go,omitempty"`
	Model  string      `json:"model,omitempty"`
	Kind   string      `json:"kind,omitempty"`
}

// shrinkInput minimises a disagreeing input by deleting spans while the predicate holds
func shrinkInput(s string, bad func(string) bool) string {
	for span := len(s) / 2; span >= 1; span /= 2 {
		for i := 0; i+span <= len(s); {
			t := s[:i] + s[i+span:]
			if bad(t) {
				s = t
			} else {
				i += span
			}
		}
	}
	return s
}

func shrinkPolicy(ps *PolicySpec, bad func(*PolicySpec) bool) *PolicySpec {
	cur := ps
	for i := 0; i < len(cur.Ops); {
		t := &PolicySpec{Ops: append(append([]Op{}, cur.Ops[:i]...), cur.Ops[i+1:]...)}
		if bad(t) {
			cur = t
		} else {
			i++
		}
	}
	return cur
}

var polCounter int

// corr: the correspondence between the implementation and the extracted model on full runs
// (token streams and write-chunk sequences).
func corr(args []string) {
	fs := flag.NewFlagSet("corr", flag.ExitOnError)
	drv := fs.String("driver", "", "driver binary")
	seed := fs.Int64("seed", 1, "seed")
	nPol := fs.Int("policies", 40, "random policies")
	nDoc := fs.Int("docs", 60, "documents per policy")
	mode := fs.String("mode", "san", "tok | san")
	fs.Parse(args)
	rng := rand.New(rand.NewSource(*seed))
	sum := newSummary("corr-" + *mode)
	d := startDriver(*drv)
	defer d.close()
	distinct := map[string]bool{}

	pols := handPolicies()
	for i := 0; i < *nPol; i++ {
		pols = append(pols, randPolicy(rng, true))
	}
	for _, ps := range pols {
		polCounter++
		pid := fmt.Sprintf("p%d", polCounter)
		ps.define(d, pid)
		gp := ps.buildGo()
		g := newDocGen(rng, ps)
		for j := 0; j < *nDoc; j++ {
			doc, kind := g.document()
			sum.Evaluations++
			sum.Distribution["doc-"+kind]++
			var goS, mS string
			if *mode == "tok" {
				goS = goTokensStr(doc)
				mS = strings.TrimRight(d.ask("TOK "+hexOf(doc)), " ")
			} else {
				cs, pn, _ := goChunks(gp, doc)
				goS = chunksStr(cs, pn)
				mS = normModelChunks(d.askOracle("SAN " + pid + " " + hexOf(doc)))
				if len(cs) > 0 {
					sum.Distribution["nonempty-output"]++
				}
			}
			if goS != "S 0" && goS != "T" {
				distinct[goS] = true
			}
			if goS != mS {
				// minimise
				bad := func(t string) bool {
					if *mode == "tok" {
						return goTokensStr(t) != strings.TrimRight(d.ask("TOK "+hexOf(t)), " ")
					}
					cs, pn, _ := goChunks(gp, t)
					return chunksStr(cs, pn) != normModelChunks(d.askOracle("SAN "+pid+" "+hexOf(t)))
				}
				small := shrinkInput(doc, bad)
				rec := map[string]any{"kind": "correspondence-" + *mode, "input_hex": hexOf(small), "input_text": small, "policy": ps}
				if *mode == "tok" {
					rec["go"] = goTokensStr(small)
					rec["model"] = d.ask("TOK " + hexOf(small))
				} else {
					cs, pn, _ := goChunks(gp, small)
					rec["go"] = chunksStr(cs, pn)
					rec["model"] = d.askOracle("SAN " + pid + " " + hexOf(small))
				}
				sum.Mismatches = append(sum.Mismatches, rec)
				if len(sum.Mismatches) >= 8 {
					goto done
				}
			}
			if len(sum.Samples) < 4 && j == 3 {
				sum.Samples = append(sum.Samples, map[string]any{"policy": describeOps(ps), "input": doc, "observed": goS})
			}
		}
	}
done:
	sum.Nontrivial = len(distinct)
	for k, v := range oracleStats {
		sum.Distribution["oracle-"+k] = v
	}
	if len(urlHypothesisFailures) > 0 {
		sum.Extra["url_hypothesis_failures"] = urlHypothesisFailures
	}
	sum.emit()
}

var _ = bytes.NewReader
var _ = io.EOF

// ---- bounded-exhaustive token-archetype sequences for the loop state machine ---------------------

type loopPolicy struct {
	ps   *PolicySpec
	toks []string // archetype tokens (rendered)
}

func loopPolicies() []loopPolicy {
	base := []string{"t", "<b>", "</b>", "<a>", "<a href=\"/x\">", "</a>", "<object>", "</object>", "<u>", "</u>", "<br>", "<img>", "<b/>", "<a/>",
		"<script>", "</script>", "<style>", "</style>", "<script/>", "<title>", "</title>", "<custom-x>", "</custom-x>", "<custom-x id=\"1\">", "<!--c-->", "<frame>",
		// a name that lower-cases to script under Unicode case folding but is not the script element
		"<scr\u0130pt/>", "<scr\u0130pt>"}
	mk := func(name string, ops ...Op) loopPolicy {
		return loopPolicy{ps: &PolicySpec{Name: name, Ops: ops}, toks: base}
	}
	return []loopPolicy{
		mk("L-basic", Op{Kind: "elements", Names: []string{"b", "br"}}, Op{Kind: "attrs", Names: []string{"href"}, Scope: "E", ScopeEls: []string{"a"}}),
		mk("L-spaces", Op{Kind: "elements", Names: []string{"b"}}, Op{Kind: "attrs", Names: []string{"href"}, Scope: "E", ScopeEls: []string{"a", "img"}}, Op{Kind: "addspaces", B: true}),
		mk("L-pattern", Op{Kind: "elementsmatching", Re: `^custom-`}, Op{Kind: "attrs", Names: []string{"id"}, Scope: "M", ScopeRe: `^custom-`}, Op{Kind: "elements", Names: []string{"b", "object"}},
			Op{Kind: "comments"}),
		mk("L-pattern-noattrs", Op{Kind: "attrs", NoAttrs: true, Scope: "M", ScopeRe: `^custom-`}, Op{Kind: "attrs", Names: []string{"href"}, Scope: "E", ScopeEls: []string{"a"}},
			Op{Kind: "skip", Names: []string{"u", "custom-x"}}),
		mk("L-unskip", Op{Kind: "elements", Names: []string{"script", "style", "title", "b"}}, Op{Kind: "keep", Names: []string{"script", "style", "object"}},
			Op{Kind: "elementsmatching", Re: `^s(cript|tyle)$`}, Op{Kind: "addspaces", B: true}, Op{Kind: "comments"}),
		mk("L-unsafe", Op{Kind: "elements", Names: []string{"script", "style", "b"}}, Op{Kind: "unsafe", B: true}, Op{Kind: "attrs", Names: []string{"href"}, Scope: "E", ScopeEls: []string{"a"}}),
	}
}

// evalLoopSeqs runs the sequences through the implementation and the model; false = stop (enough mismatches)
func evalLoopSeqs(d *driver, pid string, gp *bluemonday.Policy, lp loopPolicy, seqs []string, sum *summary, distinct map[string]bool, kind string) bool {
	const batch = 256
	for i := 0; i < len(seqs); i += batch {
		j := i + batch
		if j > len(seqs) {
			j = len(seqs)
		}
		var qs []string
		for _, s := range seqs[i:j] {
			qs = append(qs, "SAN "+pid+" "+hexOf(s))
		}
		ans := d.askMany(qs)
		for k, s := range seqs[i:j] {
			a := ans[k]
			if strings.HasPrefix(a, "MISS ") {
				a = d.askOracle(qs[k])
			}
			cs, pn, _ := goChunks(gp, s)
			goS := chunksStr(cs, pn)
			sum.Evaluations++
			distinct[goS] = true
			if goS != normModelChunks(a) {
				sum.Mismatches = append(sum.Mismatches, map[string]any{"kind": kind, "input_hex": hexOf(s), "input_text": s, "policy": lp.ps, "go": goS, "model": a})
				if len(sum.Mismatches) >= 8 {
					return false
				}
			}
		}
	}
	return true
}

// all ordered forests with exactly k element nodes over the given labels, rendered with the text
// marker t after every tag; a label ending in "!" is a void element (leaf, no end tag)
func forestsOfSize(maxNodes int, labels []string) [][]string {
	F := make([][]string, maxNodes+1)
	T := make([][]string, maxNodes+1)
	F[0] = []string{""}
	for k := 1; k <= maxNodes; k++ {
		// trees with exactly k nodes
		for _, l := range labels {
			if strings.HasSuffix(l, "!") {
				if k == 1 {
					T[k] = append(T[k], "<"+strings.TrimSuffix(l, "!")+">t")
				}
				continue
			}
			name := l
			if i := strings.IndexByte(l, ' '); i >= 0 {
				name = l[:i]
			}
			for _, inner := range F[k-1] {
				T[k] = append(T[k], "<"+l+">t"+inner+"</"+name+">t")
			}
		}
		for j := 1; j <= k; j++ {
			for _, t := range T[j] {
				for _, rest := range F[k-j] {
					F[k] = append(F[k], t+rest)
				}
			}
		}
	}
	return F
}

// forestMode: bounded-exhaustive WELL-FORMED documents (the shape C08 / C09 quantify over): every
// forest of at most n element nodes over the element kinds that drive the loop state (dropped for
// lack of attributes, kept, skip-content, disallowed, pattern-matched, void), text after every tag
func forestMode(args []string) {
	fs := flag.NewFlagSet("forest", flag.ExitOnError)
	drv := fs.String("driver", "", "driver binary")
	maxNodes := fs.Int("nodes", 4, "bound on element nodes, all kinds")
	coreNodes := fs.Int("corenodes", 5, "bound on element nodes over the core kinds")
	fs.Parse(args)
	all := []string{"a", "a href=\"/x\"", "b", "object", "u", "custom-x", "br!"}
	core := []string{"a", "a href=\"/x\"", "object", "b"}
	sum := newSummary("corr-forest")
	d := startDriver(*drv)
	defer d.close()
	distinct := map[string]bool{}
	pols := loopPolicies()
	use := []int{0, 1, 3}
	Fa := forestsOfSize(*maxNodes, all)
	Fc := forestsOfSize(*coreNodes, core)
	for _, pi := range use {
		lp := pols[pi]
		pid := fmt.Sprintf("fp%d", pi)
		lp.ps.define(d, pid)
		gp := lp.ps.buildGo()
		n := 0
		for k := 0; k <= *maxNodes; k++ {
			n += len(Fa[k])
			if !evalLoopSeqs(d, pid, gp, lp, Fa[k], sum, distinct, "correspondence-forest") {
				goto done
			}
		}
		for k := *maxNodes + 1; k <= *coreNodes; k++ {
			n += len(Fc[k])
			if !evalLoopSeqs(d, pid, gp, lp, Fc[k], sum, distinct, "correspondence-forest") {
				goto done
			}
		}
		sum.Distribution["policy-"+lp.ps.Name] = n
		if len(sum.Samples) < 3 {
			s := Fa[*maxNodes][len(Fa[*maxNodes])/3]
			cs, pn, _ := goChunks(gp, s)
			sum.Samples = append(sum.Samples, map[string]any{"policy": lp.ps.Name, "input": s, "observed": chunksStr(cs, pn)})
		}
	}
done:
	sum.Nontrivial = len(distinct)
	sum.Extra["exhaustive"] = fmt.Sprintf("all well-formed forests of at most %d element nodes over %d element kinds and of at most %d over %d core kinds, a text token after every tag, per policy (%d policies)", *maxNodes, len(all), *coreNodes, len(core), len(use))
	sum.emit()
}

func loopMode(args []string) {
	fs := flag.NewFlagSet("loop", flag.ExitOnError)
	drv := fs.String("driver", "", "driver binary")
	maxLen := fs.Int("maxlen", 3, "sequence length bound over all archetypes")
	coreLen := fs.Int("corelen", 4, "sequence length bound over the core archetypes")
	fs.Parse(args)
	core := []string{"t", "<a>", "</a>", "<object>", "</object>", "<b>", "</b>", "<custom-x>", "</custom-x>", "<br>", "<script>", "</script>"}
	sum := newSummary("corr-loop")
	d := startDriver(*drv)
	defer d.close()
	distinct := map[string]bool{}
	for pi, lp := range loopPolicies() {
		pid := fmt.Sprintf("lp%d", pi)
		lp.ps.define(d, pid)
		gp := lp.ps.buildGo()
		// enumerate sequences
		var seqs []string
		var rec func(prefix string, n int)
		rec = func(prefix string, n int) {
			seqs = append(seqs, prefix)
			if n == 0 {
				return
			}
			for _, t := range lp.toks {
				rec(prefix+t, n-1)
			}
		}
		rec("", *maxLen)
		if *coreLen > *maxLen {
			var rec2 func(prefix string, n, depth int)
			rec2 = func(prefix string, n, depth int) {
				if depth > *maxLen {
					seqs = append(seqs, prefix)
				}
				if n == 0 {
					return
				}
				for _, t := range core {
					rec2(prefix+t, n-1, depth+1)
				}
			}
			rec2("", *coreLen, 0)
		}
		if !evalLoopSeqs(d, pid, gp, lp, seqs, sum, distinct, "correspondence-loop") {
			goto done
		}
		sum.Distribution["policy-"+lp.ps.Name] = len(seqs)
		if len(sum.Samples) < 3 {
			s := seqs[len(seqs)/3]
			cs, pn, _ := goChunks(gp, s)
			sum.Samples = append(sum.Samples, map[string]any{"policy": lp.ps.Name, "input": s, "observed": chunksStr(cs, pn)})
		}
	}
done:
	sum.Nontrivial = len(distinct)
	sum.Extra["exhaustive"] = fmt.Sprintf("all sequences of at most %d archetype tokens over %d archetypes and of at most %d over the %d core archetypes, per policy", *maxLen, len(loopPolicies()[0].toks), *coreLen, len(core))
	sum.emit()
}
