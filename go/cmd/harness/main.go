// harness: runs the implementation (built from /repo's working tree with -tags verif),
// generates cases, talks to the OCaml driver that runs the extracted Coq model, compares
// projected observables and evaluates the independent property oracles.
package main

import (
	"encoding/json"
	"fmt"
	"os"
	"runtime"
	"time"
)

type summary struct {
	Cmd          string           `json:"cmd"`
	Evaluations  int              `json:"evaluations"`
	Nontrivial   int              `json:"distinct_nontrivial"`
	Mismatches   []map[string]any `json:"mismatches"`
	OracleFails  []map[string]any `json:"oracle_failures"`
	Known        []map[string]any `json:"known_findings"`
	Samples      []any            `json:"samples"`
	Distribution map[string]int   `json:"distribution"`
	Extra        map[string]any   `json:"extra,omitempty"`
}

func newSummary(cmd string) *summary {
	return &summary{Cmd: cmd, Distribution: map[string]int{}, Extra: map[string]any{}}
}

func (s *summary) emit() {
	enc := json.NewEncoder(os.Stdout)
	enc.SetEscapeHTML(false)
	if err := enc.Encode(s); err != nil {
		fmt.Fprintln(os.Stderr, err)
		os.Exit(2)
	}
}

func main() {
	if len(os.Args) < 2 {
		fmt.Fprintln(os.Stderr, "usage: harness <subcommand> [flags]")
		os.Exit(2)
	}
	cmd, args := os.Args[1], os.Args[2:]
	// resource watchdog: an implementation that leaks into shared state (or a runaway generator) is
	// reported as a finding of the run instead of being killed by the kernel minutes later
	go func() {
		var ms runtime.MemStats
		for {
			time.Sleep(500 * time.Millisecond)
			runtime.ReadMemStats(&ms)
			if ms.HeapAlloc > 6<<30 {
				s := newSummary(cmd)
				s.Mismatches = append(s.Mismatches, map[string]any{"kind": "resource-blowup", "detail": fmt.Sprintf("the %s run allocated more than 6 GiB of live heap: the implementation (or the policy value it mutates) grows without bound", cmd)})
				s.emit()
				os.Exit(0)
			}
		}
	}()
	switch cmd {
	case "rxcheck":
		rxcheck(args)
	case "c19oracle":
		c19oracle(args)
	case "rxeval":
		rxeval(args)
	case "corr":
		corr(args)
	case "loop":
		loopMode(args)
	case "forest":
		forestMode(args)
	case "attrs":
		attrsMode(args)
	case "url":
		urlMode(args)
	case "style":
		styleMode(args)
	case "fn":
		fnMode(args)
	case "dump":
		dumpMode(args)
	case "entry":
		entryMode(args)
	case "rw":
		rwMode(args)
	case "oracle":
		oracleMode(args)
	case "c18":
		c18Mode(args)
	case "shipped":
		shippedMode(args)
	case "c14":
		c14Mode(args)
	case "c14one":
		c14OneMode(args)
	case "reccheck":
		recCheckMode(args)
	case "kwh":
		kwhMode(args)
	case "c13":
		c13Mode(args)
	case "c17":
		c17Mode(args)
	default:
		fmt.Fprintln(os.Stderr, "unknown subcommand", cmd)
		os.Exit(2)
	}
}
