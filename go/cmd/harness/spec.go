package main

import (
	"encoding/hex"
	"fmt"
	"net/url"
	"regexp"
	"strconv"
	"strings"

	"github.com/aymerick/douceur/parser"
	"github.com/microcosm-cc/bluemonday"
	"github.com/microcosm-cc/bluemonday/css"

	"verif/rx"
)

// ---- regexps shared by implementation and model ------------------------------------------------

type rxEntry struct {
	id   string
	pat  string
	re   *regexp.Regexp
	wire string
}

var rxByPat = map[string]*rxEntry{}
var rxByPtr = map[*regexp.Regexp]*rxEntry{}
var rxSent = map[string]bool{}

// exported matchers keep their identity (the real variables are used on the Go side)
var exportedByPat = map[string]*regexp.Regexp{}

func init() {
	for _, r := range []*regexp.Regexp{bluemonday.CellAlign, bluemonday.CellVerticalAlign, bluemonday.Direction,
		bluemonday.ImageAlign, bluemonday.Integer, bluemonday.ISO8601, bluemonday.ListType,
		bluemonday.SpaceSeparatedTokens, bluemonday.Number, bluemonday.NumberOrPercent, bluemonday.Paragraph} {
		exportedByPat[r.String()] = r
	}
}

func getRx(pat string) *rxEntry {
	if e, ok := rxByPat[pat]; ok {
		return e
	}
	re, ok := exportedByPat[pat]
	if !ok {
		re = regexp.MustCompile(pat)
	}
	n, err := rx.Parse(pat)
	if err != nil {
		panic(err)
	}
	e := &rxEntry{id: fmt.Sprintf("rx%d", len(rxByPat)), pat: pat, re: re, wire: n.Wire()}
	rxByPat[pat] = e
	rxByPtr[re] = e
	return e
}

func rxName(r *regexp.Regexp) string {
	if e, ok := rxByPtr[r]; ok {
		return e.id
	}
	// a regexp created inside bluemonday (helpers): register by pattern
	e := getRx(r.String())
	rxByPtr[r] = e
	return e.id
}

func (d *driver) defineRx(e *rxEntry) {
	if !rxSent[e.id] {
		rxSent[e.id] = true
		d.send("RX " + e.id + " " + e.wire)
	}
}

// ---- callback library (mirrored in driver.ml) ----------------------------------------------------

var urlPolicies = map[string]func(*url.URL) bool{
	"always":  func(u *url.URL) bool { return true },
	"never":   func(u *url.URL) bool { return false },
	"hostex":  func(u *url.URL) bool { return u.Host == "example.org" },
	"noquery": func(u *url.URL) bool { return u.RawQuery == "" },
}

var rewriters = map[string]func(*url.URL){
	"proxy": func(u *url.URL) {
		u.RawQuery = "u=" + url.QueryEscape(u.String())
		u.Scheme, u.Host, u.Path, u.Opaque, u.Fragment = "https", "proxy.example", "/p", "", ""
	},
	"id": func(u *url.URL) {},
}

var customHandlers = map[string]func(string) bool{
	"short":  func(v string) bool { return len(v) < 8 },
	"hasred": func(v string) bool { return strings.Contains(v, "red") },
}

// ---- policy specifications ------------------------------------------------------------------------

type Op struct {
	Kind     string   `json:"kind"`
	Names    []string `json:"names,omitempty"`
	Re       string   `json:"re,omitempty"`
	NoAttrs  bool     `json:"noattrs,omitempty"`
	Scope    string   `json:"scope,omitempty"` // E M G
	ScopeEls []string `json:"scope_els,omitempty"`
	ScopeRe  string   `json:"scope_re,omitempty"`
	Handler  string   `json:"handler,omitempty"`
	Enum     []string `json:"enum,omitempty"`
	B        bool     `json:"b,omitempty"`
	Vals     []int    `json:"vals,omitempty"`
	Scheme   string   `json:"scheme,omitempty"`
	CB       string   `json:"cb,omitempty"`
}

type PolicySpec struct {
	Name string `json:"name,omitempty"`
	Ops  []Op   `json:"ops"`
}

func hexList(ss []string) string {
	if len(ss) == 0 {
		return "_"
	}
	var p []string
	for _, s := range ss {
		p = append(p, hexOf(s))
	}
	return strings.Join(p, ",")
}

func b01(b bool) string {
	if b {
		return "1"
	}
	return "0"
}

func orDash(s string) string {
	if s == "" {
		return "-"
	}
	return s
}

func (o Op) scopeWire(d *driver) string {
	switch o.Scope {
	case "E":
		return "E " + hexList(o.ScopeEls)
	case "M":
		e := getRx(o.ScopeRe)
		d.defineRx(e)
		return "M " + e.id
	}
	return "G"
}

// wire renders the op for the driver (defining regexps as needed).
func (o Op) wire(d *driver) string {
	reID := "-"
	if o.Re != "" {
		e := getRx(o.Re)
		d.defineRx(e)
		reID = e.id
	}
	switch o.Kind {
	case "attrs":
		return fmt.Sprintf("attrs %s %s %s %s", hexList(o.Names), reID, b01(o.NoAttrs), o.scopeWire(d))
	case "styles":
		return fmt.Sprintf("styles %s %s %s %s %s", hexList(o.Names), orDash(o.Handler), hexList(o.Enum), reID, o.scopeWire(d))
	case "elements", "schemes", "skip", "keep":
		return o.Kind + " " + hexList(o.Names)
	case "elementsmatching", "schemesmatching":
		return o.Kind + " " + reID
	case "data", "comments":
		return o.Kind
	case "schemecustom":
		return "schemecustom " + hexOf(o.Scheme) + " " + o.CB
	case "rewritesrc":
		return "rewritesrc " + o.CB
	case "sandbox":
		if len(o.Vals) == 0 {
			return "sandbox _"
		}
		var p []string
		for _, v := range o.Vals {
			p = append(p, strconv.Itoa(v))
		}
		return "sandbox " + strings.Join(p, ",")
	case "nofollow", "nofollowfq", "noreferrer", "noreferrerfq", "crossorigin", "targetblank", "parseable", "relative", "addspaces", "unsafe":
		return o.Kind + " " + b01(o.B)
	}
	panic("unknown op kind " + o.Kind)
}

// applyGo performs the builder call chain on the real policy.
func (o Op) applyGo(p *bluemonday.Policy) {
	var re *regexp.Regexp
	if o.Re != "" {
		re = getRx(o.Re).re
	}
	switch o.Kind {
	case "attrs":
		b := p.AllowNoAttrs()
		if len(o.Names) > 0 {
			b = p.AllowAttrs(o.Names...)
			if o.NoAttrs {
				b = b.AllowNoAttrs()
			}
		}
		if re != nil {
			b = b.Matching(re)
		}
		switch o.Scope {
		case "E":
			b.OnElements(o.ScopeEls...)
		case "M":
			b.OnElementsMatching(getRx(o.ScopeRe).re)
		default:
			b.Globally()
		}
	case "styles":
		b := p.AllowStyles(o.Names...)
		if re != nil {
			b = b.Matching(re)
		}
		if len(o.Enum) > 0 {
			b = b.MatchingEnum(o.Enum...)
		}
		if o.Handler != "" {
			b = b.MatchingHandler(customHandlers[o.Handler])
		}
		switch o.Scope {
		case "E":
			b.OnElements(o.ScopeEls...)
		case "M":
			b.OnElementsMatching(getRx(o.ScopeRe).re)
		default:
			b.Globally()
		}
	case "elements":
		p.AllowElements(o.Names...)
	case "elementsmatching":
		p.AllowElementsMatching(re)
	case "data":
		p.AllowDataAttributes()
	case "comments":
		p.AllowComments()
	case "schemes":
		p.AllowURLSchemes(o.Names...)
	case "schemecustom":
		if o.CB == "data" {
			// the real closure lives in AllowDataURIImages (which also sets RequireParseableURLs, as does the op)
			p.AllowDataURIImages()
		} else {
			p.AllowURLSchemeWithCustomPolicy(o.Scheme, urlPolicies[o.CB])
		}
	case "schemesmatching":
		p.AllowURLSchemesMatching(re)
	case "rewritesrc":
		p.RewriteSrc(rewriters[o.CB])
	case "nofollow":
		p.RequireNoFollowOnLinks(o.B)
	case "nofollowfq":
		p.RequireNoFollowOnFullyQualifiedLinks(o.B)
	case "noreferrer":
		p.RequireNoReferrerOnLinks(o.B)
	case "noreferrerfq":
		p.RequireNoReferrerOnFullyQualifiedLinks(o.B)
	case "crossorigin":
		p.RequireCrossOriginAnonymous(o.B)
	case "targetblank":
		p.AddTargetBlankToFullyQualifiedLinks(o.B)
	case "parseable":
		p.RequireParseableURLs(o.B)
	case "relative":
		p.AllowRelativeURLs(o.B)
	case "sandbox":
		var vs []bluemonday.SandboxValue
		for _, v := range o.Vals {
			vs = append(vs, bluemonday.SandboxValue(v))
		}
		p.RequireSandboxOnIFrame(vs...)
	case "addspaces":
		p.AddSpaceWhenStrippingTag(o.B)
	case "skip":
		p.SkipElementsContent(o.Names...)
	case "keep":
		p.AllowElementsContent(o.Names...)
	case "unsafe":
		p.AllowUnsafe(o.B)
	default:
		panic("unknown op kind " + o.Kind)
	}
}

func (ps *PolicySpec) buildGo() *bluemonday.Policy {
	p := bluemonday.NewPolicy()
	switch ps.Name {
	case "__ugc":
		p = bluemonday.UGCPolicy()
	case "__strict":
		p = bluemonday.StrictPolicy()
	}
	for _, o := range ps.Ops {
		o.applyGo(p)
	}
	return p
}

// define sends the policy to the driver under the given id.
func (ps *PolicySpec) define(d *driver, id string) {
	d.send("POLICY " + id)
	for _, o := range ps.Ops {
		d.send("OP " + id + " " + o.wire(d))
	}
}

// ---- answering the model's oracle questions with the real libraries ---------------------------------

func unhex(h string) string {
	if h == "-" {
		return ""
	}
	b, err := hex.DecodeString(h)
	if err != nil {
		panic(err)
	}
	return string(b)
}

// oracleStats counts what the oracles were asked (printed into the evidence)
var oracleStats = map[string]int{}

// urlHypotheses collects violations of the hypotheses U1..U4 that the Coq theorems assume of net/url
var urlHypothesisFailures []string

func answerMiss(d *driver, miss string) {
	f := strings.SplitN(miss, " ", 2)
	kind, rest := f[0], f[1]
	oracleStats[kind]++
	switch kind {
	case "url":
		s := unhex(rest)
		u, err := url.Parse(s)
		if err != nil {
			d.send("ORACLE url " + rest + " E")
			return
		}
		checkURLHypotheses(s, u)
		d.send(fmt.Sprintf("ORACLE url %s %s %s %s %s %s %s", rest, hexOf(u.Scheme), hexOf(u.Host), hexOf(u.Opaque), hexOf(u.RawQuery), hexOf(u.Fragment), hexOf(u.String())))
	case "css":
		s := unhex(rest)
		decs, err := parser.ParseDeclarations(s)
		if err != nil {
			d.send("ORACLE css " + rest + " E")
			return
		}
		var b strings.Builder
		for _, dc := range decs {
			b.WriteString(" " + hexOf(dc.Property) + " " + hexOf(dc.Value))
		}
		d.send("ORACLE css " + rest + b.String())
	case "h":
		g := strings.SplitN(rest, " ", 2)
		name, v := g[0], unhex(g[1])
		var ok bool
		if strings.HasPrefix(name, "d:") {
			ok = css.GetDefaultHandler(unhex(name[2:]))(v)
		} else {
			ok = customHandlers[name[2:]](v)
		}
		d.send("ORACLE h " + name + " " + g[1] + " " + b01(ok))
	case "rw":
		g := strings.SplitN(rest, " ", 2)
		name, s := g[0], unhex(g[1])
		u, err := url.Parse(s)
		if err != nil {
			// the implementation would call the rewriter with nil here; answer with the input
			d.send("ORACLE rw " + name + " " + g[1] + " " + g[1])
			return
		}
		rewriters[name](u)
		d.send("ORACLE rw " + name + " " + g[1] + " " + hexOf(u.String()))
	default:
		panic("unknown miss " + miss)
	}
}

// askOracle sends a command whose answer may be a MISS list, answers the misses and retries.
func (d *driver) askOracle(cmd string) string {
	for i := 0; i < 200; i++ {
		ans := d.ask(cmd)
		if !strings.HasPrefix(ans, "MISS ") {
			return ans
		}
		for _, m := range strings.Split(ans[5:], ";") {
			answerMiss(d, m)
		}
	}
	return "ERR oracle-loop"
}

func isCtl(c byte) bool { return c < 0x20 || c == 0x7f }

// the hypotheses about net/url that Proofs/UrlProofs.v assumes (DESIGN.md section 3.5)
func checkURLHypotheses(s string, u *url.URL) {
	fail := func(h string) {
		if len(urlHypothesisFailures) < 10 {
			urlHypothesisFailures = append(urlHypothesisFailures, fmt.Sprintf("%s input=%q string=%q", h, s, u.String()))
		}
	}
	out := u.String()
	for i := 0; i < len(out); i++ {
		if isCtl(out[i]) {
			fail("U1 String() contains a control character")
			break
		}
		if out[i] == ' ' && u.Opaque == "" {
			fail("U1 String() of a non-opaque URL contains a space")
			break
		}
	}
	if u.Scheme != "" {
		if !strings.HasPrefix(out, u.Scheme+":") {
			fail("U3 String() does not begin with scheme:")
		}
		if u.Scheme != strings.ToLower(goScheme(s)) {
			fail("U2 scheme is not the lower-cased getScheme prefix")
		}
	} else {
		if goScheme(out) != "" {
			fail("U4 scheme-less URL serialises with a scheme")
		}
	}
}

// goScheme: [A-Za-z][A-Za-z0-9+.-]* followed by ':' at the start of s, else ""
func goScheme(s string) string {
	for i := 0; i < len(s); i++ {
		c := s[i]
		switch {
		case 'a' <= c && c <= 'z' || 'A' <= c && c <= 'Z':
		case '0' <= c && c <= '9' || c == '+' || c == '-' || c == '.':
			if i == 0 {
				return ""
			}
		case c == ':':
			if i == 0 {
				return ""
			}
			return s[:i]
		default:
			return ""
		}
	}
	return ""
}
