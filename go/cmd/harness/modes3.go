package main

import (
	"flag"
	"fmt"
	"math/rand"
	"strings"
	"sync"
	"time"

	dcss "github.com/aymerick/douceur/css"
	"github.com/aymerick/douceur/parser"
	"github.com/microcosm-cc/bluemonday"
	"github.com/microcosm-cc/bluemonday/css"
	"golang.org/x/net/html"
)

// ---- C14: no panic, no blow-up --------------------------------------------------------------------------

// guarded runs f under a deadline and a recover: (panic value, stalled).  A stalled goroutine cannot
// be killed; the caller records the witness and winds the run up.
func guarded(budget time.Duration, f func()) (pv any, stalled bool) {
	done := make(chan any, 1)
	go func() {
		defer func() { done <- recover() }()
		f()
	}()
	select {
	case pv = <-done:
		return pv, false
	case <-time.After(budget):
		return nil, true
	}
}

func c14Mode(args []string) {
	fs := flag.NewFlagSet("c14", flag.ExitOnError)
	seed := fs.Int64("seed", 1, "seed")
	budget := fs.Duration("budget", 3*time.Second, "time allowed for one short adversarial input")
	nPol := fs.Int("policies", 30, "policies")
	nDoc := fs.Int("docs", 60, "docs")
	fs.Parse(args)
	rng := rand.New(rand.NewSource(*seed))
	sum := newSummary("c14")
	distinct := map[string]bool{}
	linkOff := func(name, opt string) *PolicySpec {
		return &PolicySpec{Name: name, Ops: []Op{{Kind: "elements", Names: []string{"a", "area", "link", "base", "img", "q", "iframe", "source", "video"}},
			{Kind: "attrs", Names: []string{"href", "src", "cite", "alt", "rel", "target"}, Scope: "G"}, {Kind: "schemes", Names: []string{"http", "https"}},
			{Kind: opt, B: true}, {Kind: "parseable", B: false}}}
	}
	b1Policies := append(handPolicies(), linkOff("c14-nofollow-off", "nofollow"), linkOff("c14-nofollowfq-off", "nofollowfq"), linkOff("c14-noreferrer-off", "noreferrer"),
		linkOff("c14-noreferrerfq-off", "noreferrerfq"), linkOff("c14-targetblank-off", "targetblank"))
	// (0) every entry point, also with destinations that lack WriteString and readers that deliver one byte at a time,
	// each call in a process of its own: a fatal error of the runtime is not recoverable
	c14Isolated(sum, *budget)
	if len(sum.OracleFails) > 0 {
		sum.emit()
		return
	}
	// (a) adversarial size-parameterised families through the default CSS handlers
	props := []string{"text-decoration", "text-decoration-line", "font-family", "font", "background", "border", "animation", "transition",
		"grid-template-columns", "grid-template-rows", "background-position", "background-size", "box-shadow", "text-shadow", "flex-flow",
		"list-style", "outline", "columns", "column-rule", "grid", "grid-area", "border-image", "transform", "filter", "margin", "padding", "border-radius", "flex"}
	toks := []string{"underline", "1px", "red", "a", "solid", "0", "none", "auto", "left", "x", "'a'", "1fr", "ease", "1s"}
	p := bluemonday.NewPolicy()
	p.AllowStyles(props...).Globally()
	p.AllowElements("p")
	slow := 0
sweep:
	for _, prop := range props {
		for _, tok := range toks {
			for _, n := range []int{8, 12, 16, 20, 24, 32, 48} {
				val := strings.Repeat(tok+" ", n) + "!"
				t0 := time.Now()
				done := make(chan struct{})
				go func() {
					css.GetDefaultHandler(prop)(val)
					p.Sanitize(`<p style="` + prop + `: ` + val + `">x</p>`)
					close(done)
				}()
				timedOut := false
				select {
				case <-done:
				case <-time.After(*budget):
					timedOut = true
				}
				dt := time.Since(t0)
				sum.Evaluations++
				distinct[prop+tok] = true
				if timedOut {
					sum.OracleFails = append(sum.OracleFails, map[string]any{"kind": "slow", "clause": fmt.Sprintf("default handler of %s does not finish within %v for %d repetitions of %q", prop, *budget, n, tok),
						"input_text": `<p style="` + prop + `: ` + val + `">x</p>`, "seconds": dt.Seconds()})
					slow++
					if slow >= 2 {
						break sweep // the abandoned goroutines keep the CPUs busy; two witnesses are enough
					}
					break
				}
			}
		}
	}
	sum.Distribution["css-families"] = sum.Evaluations - sum.Distribution["isolated-calls"]
	// (b) deep nesting, long attribute lists, long escape chains
	big := []string{strings.Repeat("<a>", 20000) + strings.Repeat("</a>", 20000), "<p " + strings.Repeat("x=y ", 20000) + ">",
		`<p style="color: ` + strings.Repeat("\\5c ", 5000) + `">`, strings.Repeat("<object>", 5000), strings.Repeat("&", 100000), strings.Repeat("<!--", 30000),
		"<a href=\"" + strings.Repeat("%41", 30000) + "\">", strings.Repeat("<b", 30000)}
	for _, ps := range handPolicies() {
		gp := ps.buildGo()
		for _, doc := range big {
			t0 := time.Now()
			pv, stalled := guarded(20**budget, func() { gp.Sanitize(doc) })
			sum.Evaluations++
			if pv != nil {
				sum.OracleFails = append(sum.OracleFails, map[string]any{"kind": "panic", "clause": fmt.Sprint("panic: ", pv), "policy": ps, "input_hex": hexOf(doc[:min(len(doc), 200)])})
			}
			if stalled {
				sum.OracleFails = append(sum.OracleFails, map[string]any{"kind": "slow", "clause": fmt.Sprintf("%d byte input does not finish within %v", len(doc), 20**budget), "policy": ps, "input_hex": hexOf(doc[:min(len(doc), 200)]), "input_text": doc[:min(len(doc), 200)]})
				goto finish
			}
			if dt := time.Since(t0); dt > 4**budget {
				sum.OracleFails = append(sum.OracleFails, map[string]any{"kind": "slow", "clause": fmt.Sprintf("%d byte input needs %v", len(doc), dt), "policy": ps, "input_hex": hexOf(doc[:200])})
			}
		}
	}
	// (b') every URL of the corpus at every src / href / cite position under every hand policy (rewriters, data URIs)
	// and under the link options with URL checking switched off again afterwards
	for _, ps := range b1Policies {
		gp := ps.buildGo()
		for _, u := range append(urlCorpus(rng, 200), shortURLs()...) {
			for _, el := range []string{"img", "iframe", "a", "q", "source", "video", "area", "link", "base"} {
				key := map[string]string{"a": "href", "q": "cite", "area": "href", "link": "href", "base": "href"}[el]
				if key == "" {
					key = "src"
				}
				doc := "<" + el + " " + key + "=\"" + strings.ReplaceAll(u, "\"", "&quot;") + "\" alt=x>"
				sum.Evaluations++
				var out string
				pv, stalled := guarded(*budget, func() { out = gp.Sanitize(doc) })
				if pv != nil && len(sum.OracleFails) < 10 {
					sum.OracleFails = append(sum.OracleFails, map[string]any{"kind": "panic", "clause": fmt.Sprint("panic: ", pv), "policy": ps, "input_hex": hexOf(doc), "input_text": doc})
				}
				if stalled {
					sum.OracleFails = append(sum.OracleFails, map[string]any{"kind": "slow", "clause": fmt.Sprintf("a %d byte input does not finish within %v", len(doc), *budget), "policy": ps, "input_hex": hexOf(doc), "input_text": doc})
					goto finish
				}
				distinct[out] = true
			}
		}
	}
	// (c) panics on generated inputs, all entry points
	for _, ps := range oraclePolicies(rng, *nPol, true) {
		gp := ps.buildGo()
		g := newDocGen(rng, ps)
		for j := 0; j < *nDoc; j++ {
			doc, _ := g.document()
			if j%3 == 0 {
				doc = mutate(rng, mutate(rng, doc))
			}
			sum.Evaluations++
			var out string
			pv, stalled := guarded(*budget, func() {
				out = gp.Sanitize(doc)
				gp.SanitizeBytes([]byte(doc))
				gp.SanitizeReader(strings.NewReader(doc))
			})
			if pv != nil {
				sum.OracleFails = append(sum.OracleFails, map[string]any{"kind": "panic", "clause": fmt.Sprint("panic: ", pv), "policy": ps, "input_hex": hexOf(doc), "input_text": doc})
			}
			if stalled {
				sum.OracleFails = append(sum.OracleFails, map[string]any{"kind": "slow", "clause": fmt.Sprintf("a %d byte input does not finish within %v", len(doc), *budget), "policy": ps, "input_hex": hexOf(doc), "input_text": doc})
				goto finish
			}
			distinct[out] = true
		}
	}
finish:
	sum.Nontrivial = len(distinct)
	sum.Samples = append(sum.Samples, map[string]any{"family": "text-decoration: underline x n !", "sizes": []int{8, 16, 24, 32, 48}})
	sum.emit()
}

func min(a, b int) int {
	if a < b {
		return a
	}
	return b
}

// ---- C13: sharing a finished policy between goroutines (built with -race by the check) ----------------------

func c13Mode(args []string) {
	fs := flag.NewFlagSet("c13", flag.ExitOnError)
	seed := fs.Int64("seed", 1, "seed")
	nPol := fs.Int("policies", 12, "policies")
	nDoc := fs.Int("docs", 40, "docs")
	fs.Parse(args)
	rng := rand.New(rand.NewSource(*seed))
	sum := newSummary("c13")
	distinct := map[string]bool{}
	pols := append(handPolicies(), &PolicySpec{Name: "__ugc"}, &PolicySpec{Name: "__strict"})
	for i := 0; i < *nPol; i++ {
		ps := randPolicy(rng, false)
		// several overlapping element patterns and style rules
		ps.Ops = append(ps.Ops, Op{Kind: "attrs", Names: []string{"id"}, Scope: "M", ScopeRe: `^custom-`}, Op{Kind: "attrs", Names: []string{"class"}, Scope: "M", ScopeRe: `^[a-z]+-x$`},
			Op{Kind: "styles", Names: []string{"color"}, Scope: "M", ScopeRe: `^custom-`}, Op{Kind: "styles", Names: []string{"width"}, Scope: "M", ScopeRe: `^[a-z]+-x$`},
			Op{Kind: "elementsmatching", Re: `^(b|i)$`},
			Op{Kind: "attrs", Names: []string{"id"}, Re: `^[a-z]+$`, Scope: "M", ScopeRe: `^custom-`}, Op{Kind: "attrs", Names: []string{"id"}, Re: `^[0-9]+$`, Scope: "M", ScopeRe: `^custom-`},
			Op{Kind: "attrs", Names: []string{"id"}, Re: `^x`, Scope: "M", ScopeRe: `^[a-z]+-x$`},
			Op{Kind: "styles", Names: []string{"float"}, Enum: []string{"left"}, Scope: "M", ScopeRe: `^custom-`}, Op{Kind: "styles", Names: []string{"float"}, Enum: []string{"right"}, Scope: "M", ScopeRe: `^[a-z]+-x$`},
			Op{Kind: "attrs", Names: []string{"title"}, Scope: "M", ScopeRe: `^[a-z]+-x$`})
		pols = append(pols, ps)
	}
	for _, ps := range pols {
		gp := ps.buildGo()
		g := newDocGen(rng, ps)
		var docs []string
		for j := 0; j < *nDoc; j++ {
			d, _ := g.document()
			docs = append(docs, d, `<custom-x id="1" class="c" title="t" style="color: red; width: 1px; float: left; float: right">t</custom-x>`, `<custom-y id="1" class="c" title="t" style="float: right">u</custom-y><a-x id="2" class="d" title="t">v</a-x>`)
		}
		before := bluemonday.VerifDumpPolicy(gp, rxName)
		want := make([]string, len(docs))
		for i, d := range docs {
			want[i] = gp.Sanitize(d)
			distinct[want[i]] = true
		}
		// repeated sequential calls: results must not depend on earlier calls or on map order
		for rep := 0; rep < 5; rep++ {
			for i, d := range docs {
				sum.Evaluations++
				if got := gp.Sanitize(d); got != want[i] {
					sum.OracleFails = append(sum.OracleFails, map[string]any{"kind": "nondeterministic", "clause": "a repeated call returns a different result", "policy": ps, "input_hex": hexOf(d), "input_text": d, "first": want[i], "later": got})
				}
			}
		}
		// a fresh, equally built policy (different map seeds)
		for rep := 0; rep < 5; rep++ {
			g2 := ps.buildGo()
			for i, d := range docs {
				sum.Evaluations++
				if got := g2.Sanitize(d); got != want[i] {
					sum.OracleFails = append(sum.OracleFails, map[string]any{"kind": "nondeterministic", "clause": "an equally built policy returns a different result (map order)", "policy": ps, "input_hex": hexOf(d), "input_text": d, "first": want[i], "later": got})
				}
			}
		}
		// concurrent calls on the shared policy
		var wg sync.WaitGroup
		var mu sync.Mutex
		for w := 0; w < 16; w++ {
			wg.Add(1)
			go func(w int) {
				defer wg.Done()
				for k := 0; k < len(docs); k++ {
					i := (k*7 + w) % len(docs)
					got := gp.Sanitize(docs[i])
					if got != want[i] {
						mu.Lock()
						sum.OracleFails = append(sum.OracleFails, map[string]any{"kind": "concurrent-differs", "clause": "a concurrent call returns a different result than the sequential call", "policy": ps, "input_hex": hexOf(docs[i]), "input_text": docs[i], "sequential": want[i], "concurrent": got})
						mu.Unlock()
					}
				}
			}(w)
		}
		wg.Wait()
		sum.Evaluations += 16 * len(docs)
		if after := bluemonday.VerifDumpPolicy(gp, rxName); after != before {
			sum.OracleFails = append(sum.OracleFails, map[string]any{"kind": "policy-mutated", "clause": "sanitising changed the policy's tables", "policy": ps, "diff": firstDiffLine(before, after)})
		}
		if len(sum.OracleFails) > 10 {
			break
		}
	}
	sum.Nontrivial = len(distinct)
	sum.Samples = append(sum.Samples, map[string]any{"schedule": "16 goroutines x all documents on one shared policy, compared with sequential results; 5 repeated sequential passes; 5 freshly built equal policies; policy dump before/after"})
	sum.emit()
}

// ---- C17: behaviour depends only on the rule set ------------------------------------------------------------

func isRuleOp(o Op) bool {
	switch o.Kind {
	case "attrs", "styles", "elements", "elementsmatching", "schemesmatching":
		return true
	}
	return false
}

func c17Mode(args []string) {
	fs := flag.NewFlagSet("c17", flag.ExitOnError)
	seed := fs.Int64("seed", 1, "seed")
	nPol := fs.Int("policies", 60, "policies")
	nDoc := fs.Int("docs", 30, "docs")
	fs.Parse(args)
	rng := rand.New(rand.NewSource(*seed))
	sum := newSummary("c17")
	distinct := map[string]bool{}
	for i := 0; i < *nPol; i++ {
		ps := randPolicy(rng, false)
		// permute the rule-adding ops among themselves, keep every other op in place
		perm := &PolicySpec{Ops: append([]Op{}, ps.Ops...)}
		var idx []int
		for k, o := range perm.Ops {
			if isRuleOp(o) {
				idx = append(idx, k)
			}
		}
		sh := append([]int{}, idx...)
		rng.Shuffle(len(sh), func(a, b int) { sh[a], sh[b] = sh[b], sh[a] })
		for k, from := range sh {
			perm.Ops[idx[k]] = ps.Ops[from]
		}
		// a case variant of every name
		cased := &PolicySpec{Ops: append([]Op{}, ps.Ops...)}
		up := func(l []string) []string {
			var out []string
			for _, s := range l {
				out = append(out, strings.ToUpper(s))
			}
			return out
		}
		for k := range cased.Ops {
			o := cased.Ops[k]
			o.Names = up(o.Names)
			o.ScopeEls = up(o.ScopeEls)
			if o.Kind == "schemecustom" && o.CB != "data" {
				o.Scheme = strings.ToUpper(o.Scheme)
			}
			if o.Kind == "styles" {
				o.Enum = cased.Ops[k].Enum
			}
			cased.Ops[k] = o
		}
		a, b, c := ps.buildGo(), perm.buildGo(), cased.buildGo()
		// an unrelated policy built and extended in between must not matter
		other := bluemonday.UGCPolicy()
		other.AllowAttrs("zzz").OnElements("custom-x", "a", "b")
		other.AllowNoAttrs().OnElements("a", "img", "custom-x")
		other.SkipElementsContent("b", "p")
		other.AllowElementsContent("script", "object")
		g := newDocGen(rng, ps)
		for j := 0; j < *nDoc; j++ {
			doc, _ := g.document()
			sum.Evaluations++
			ra := a.Sanitize(doc)
			distinct[ra] = true
			if rb := b.Sanitize(doc); rb != ra {
				sum.OracleFails = append(sum.OracleFails, map[string]any{"kind": "order-dependent", "clause": "permuting the rule-adding builder calls changes the output", "policy": ps, "permuted": perm, "input_hex": hexOf(doc), "input_text": doc, "output": ra, "other": rb})
			}
			if rc := c.Sanitize(doc); rc != ra {
				sum.OracleFails = append(sum.OracleFails, map[string]any{"kind": "case-dependent", "clause": "upper-casing the names given to the builder changes the output", "policy": ps, "input_hex": hexOf(doc), "input_text": doc, "output": ra, "other": rc})
			}
			if len(sum.OracleFails) > 12 {
				goto done
			}
		}
	}
	// rules accumulate, directed: two rules for the same style property (or the same attribute) in every pair of scopes and with
	// every pair of matchers; what the first rule alone keeps, both together keep
	{
		scopes := []func(o *Op){
			func(o *Op) { o.Scope = "G" },
			func(o *Op) { o.Scope, o.ScopeEls = "E", []string{"p"} },
			func(o *Op) { o.Scope, o.ScopeRe = "M", `^p$` },
		}
		smatch := []func(o *Op){
			func(o *Op) {},
			func(o *Op) { o.Enum = []string{"red"} },
			func(o *Op) { o.Enum = []string{"blue", "left"} },
			func(o *Op) { o.Re = `^#[0-9a-f]+$` },
			func(o *Op) { o.Handler = "hasred" },
		}
		amatch := []func(o *Op){
			func(o *Op) {},
			func(o *Op) { o.Re = `^[a-z]+$` },
			func(o *Op) { o.Re = `^[0-9]+$` },
		}
		vals := []string{"red", "blue", "#fff", "left", "12", "darkred"}
		for s1 := range scopes {
			for s2 := range scopes {
				if s1 == 2 && s2 == 1 {
					continue // a rule on the named element hides the pattern rule (documented behaviour, F11)
				}
				for kind := 0; kind < 2; kind++ {
					ms := smatch
					if kind == 1 {
						ms = amatch
					}
					for m1 := range ms {
						for m2 := range ms {
							o1, o2 := Op{Kind: "styles", Names: []string{"color"}}, Op{Kind: "styles", Names: []string{"COLOR"}}
							if kind == 1 {
								o1, o2 = Op{Kind: "attrs", Names: []string{"title"}}, Op{Kind: "attrs", Names: []string{"Title"}}
							}
							ms[m1](&o1)
							ms[m2](&o2)
							scopes[s1](&o1)
							scopes[s2](&o2)
							base := &PolicySpec{Ops: []Op{{Kind: "elements", Names: []string{"p"}}, {Kind: "attrs", Names: []string{"id"}, Scope: "G"}, o1}}
							more := &PolicySpec{Ops: append(append([]Op{}, base.Ops...), o2)}
							if (s1+s2+m1+m2)%2 == 1 {
								more = &PolicySpec{Ops: []Op{base.Ops[0], base.Ops[1], o2, o1}}
							}
							pa, pb := base.buildGo(), more.buildGo()
							for _, v := range vals {
								doc := `<p id="k" style="color: ` + v + `">t`
								keep := `color: ` + v
								if kind == 1 {
									doc = `<p id="k" title="` + v + `">t`
									keep = `title="` + v + `"`
								}
								sum.Evaluations++
								oa, ob := pa.Sanitize(doc), pb.Sanitize(doc)
								if strings.Contains(oa, keep) {
									distinct[oa+fmt.Sprint(s1, s2, m1, m2)] = true
									if !strings.Contains(ob, keep) && len(sum.OracleFails) < 12 {
										sum.OracleFails = append(sum.OracleFails, map[string]any{"kind": "rule-replaces", "clause": "one more rule-adding builder call takes away what the policy kept before", "lost": keep,
											"policy": base, "added_rule": o2, "input_hex": hexOf(doc), "input_text": doc, "output": oa, "other": ob})
									}
								}
							}
						}
					}
				}
			}
		}
		sum.Distribution["directed-accumulation-pairs"] = 8 * (len(smatch)*len(smatch) + len(amatch)*len(amatch))
	}
	// rules accumulate: one more attribute or style rule never takes away what the policy kept before.  (Two lookups of the
	// implementation are "explicit entry, else patterns": a rule on a named element hides the pattern rules for that element, so
	// a rule on named elements is only added to policies without pattern-scoped rules of that kind; and the first style rule that
	// reaches an element switches its style attribute from an ordinary attribute to a filtered one, so style is compared only when
	// the element had style rules before.)
	for i := 0; i < *nPol; i++ {
		base := randPolicy(rng, false)
		// every other round: two rules for the same names in (usually) different scopes with different matchers, and documents
		// that use exactly those names on the elements concerned
		var focusNames, focusEls []string
		focusKind := ""
		if i%2 == 0 {
			focusEls = pickN(rng, []string{"p", "span", "b", "i", "a-x", "custom-x", "div"}, 3)
			base.Ops = append(base.Ops, Op{Kind: "elements", Names: focusEls})
			var o Op
			if i%4 == 0 {
				focusKind = "styles"
				focusNames = pickN(rng, []string{"color", "width", "float", "background", "text-align"}, 1+rng.Intn(2))
				o = Op{Kind: "styles", Names: focusNames}
				switch rng.Intn(3) {
				case 0:
					o.Enum = pickN(rng, []string{"red", "Blue", "left", "1px", "none", "center"}, 1+rng.Intn(2))
				case 1:
					o.Re = pick(rng, []string{`^[a-z]+$`, `^[0-9]+px$`, `red`})
				}
			} else {
				focusKind = "attrs"
				focusNames = pickN(rng, []string{"id", "title", "class", "dir", "lang", "width"}, 1+rng.Intn(2))
				o = Op{Kind: "attrs", Names: focusNames}
				if rng.Intn(2) == 0 {
					o.Re = pick(rng, []string{`^[a-z]+$`, `^[0-9]+$`, `^x`, `(?i)^(rtl|ltr)$`})
				}
			}
			switch rng.Intn(3) {
			case 0:
				o.Scope = "G"
			case 1:
				o.Scope, o.ScopeEls = "E", pickN(rng, focusEls, 1+rng.Intn(2))
			default:
				o.Scope, o.ScopeRe = "M", pick(rng, []string{`^(b|i)$`, `^[a-z]+-x$`, `^custom-`, `^[a-z]`})
			}
			base.Ops = append(base.Ops, o)
		}
		hasM := map[string]bool{}
		for _, o := range base.Ops {
			if o.Scope == "M" && len(o.Names) > 0 {
				hasM[o.Kind] = true
			}
		}
		var r Op
		if rng.Intn(2) == 0 {
			r = Op{Kind: "attrs", Names: pickN(rng, attrVocab, 1+rng.Intn(2))}
			if rng.Intn(3) == 0 {
				r.Re = pick(rng, rxVocab)
			}
		} else {
			r = Op{Kind: "styles", Names: pickN(rng, propVocab, 1+rng.Intn(2))}
			switch rng.Intn(4) {
			case 0:
				r.Re = pick(rng, []string{`^[a-z]+$`, `^[0-9]+px$`, `red`})
			case 1:
				r.Enum = pickN(rng, []string{"red", "Blue", "left", "1px", "none"}, 1+rng.Intn(2))
			case 2:
				r.Handler = pick(rng, []string{"short", "hasred"})
			}
		}
		if focusKind != "" {
			r = Op{Kind: focusKind, Names: focusNames}
			switch rng.Intn(3) {
			case 0:
				if focusKind == "styles" {
					r.Enum = pickN(rng, []string{"red", "Blue", "left", "1px", "none", "center"}, 1+rng.Intn(2))
				} else {
					r.Re = pick(rng, []string{`^[a-z]+$`, `^[0-9]+$`, `^x`})
				}
			case 1:
				r.Re = pick(rng, []string{`^[a-z]+$`, `^[0-9]+px$`, `^#[0-9a-f]+$`})
			}
		}
		for {
			r.Scope, r.ScopeEls, r.ScopeRe = "", nil, ""
			randScope(rng, &r)
			if focusKind != "" && r.Scope == "E" {
				r.ScopeEls = pickN(rng, focusEls, 1+rng.Intn(2))
			}
			if !(r.Scope == "E" && hasM[r.Kind]) {
				break
			}
		}
		more := &PolicySpec{Ops: append([]Op{}, base.Ops...)}
		at := rng.Intn(len(more.Ops) + 1)
		more.Ops = append(more.Ops[:at], append([]Op{r}, more.Ops[at:]...)...)
		pa, pb := base.buildGo(), more.buildGo()
		g := newDocGen(rng, more)
		for j := 0; j < *nDoc; j++ {
			var doc string
			if focusKind != "" && j%4 != 3 {
				vals := []string{"red", "blue", "left", "1px", "10px", "none", "center", "#fff", "x1", "12", "rtl", "v"}
				if focusKind == "styles" {
					var ds []string
					for k := 0; k < 1+rng.Intn(2); k++ {
						ds = append(ds, pick(rng, focusNames)+": "+pick(rng, vals))
					}
					doc = "<" + pick(rng, focusEls) + " style=\"" + strings.Join(ds, "; ") + "\" id=\"k\">t"
				} else {
					doc = "<" + pick(rng, focusEls) + " " + pick(rng, focusNames) + "=\"" + pick(rng, vals) + "\" " + pick(rng, focusNames) + "=\"" + pick(rng, vals) + "\">t"
				}
			} else if j%2 == 0 {
				doc = g.startTag(pick(rng, g.elems), false) + "t"
			} else {
				doc = "<" + pick(rng, g.elems) + " style=\"" + html.EscapeString(pick(rng, styleCorpus(rng, 2))) + "\" " + renderAttr(rng, pick(rng, g.attrs), "v") + ">t"
			}
			in := goTokens(doc)
			if len(in) == 0 || in[0].Type != html.StartTagToken {
				continue
			}
			el := in[0].Data
			first := func(out string) *html.Token {
				for _, tk := range goTokens(out) {
					if tk.Type == html.StartTagToken && tk.Data == el {
						return &tk
					}
				}
				return nil
			}
			sum.Evaluations++
			oa, ob := pa.Sanitize(doc), pb.Sanitize(doc)
			ta, tb := first(oa), first(ob)
			if ta == nil {
				continue
			}
			l0, g0 := styleRulesFor(base, el)
			styled := len(l0) > 0 || len(g0) > 0
			if !styled && r.Kind == "styles" {
				continue // the first style rule for this element: its style attribute is filtered from now on (and may take the tag with it)
			}
			distinct[oa] = true
			lost := ""
			if tb == nil {
				lost = "the element"
			} else {
				for _, a := range ta.Attr {
					switch a.Key {
					case "rel", "target", "sandbox", "crossorigin":
						continue
					case "style":
						if !styled {
							continue
						}
						da, ea := parser.ParseDeclarations(a.Val + ";")
						var db []*dcss.Declaration
						var eb error
						for _, b := range tb.Attr {
							if b.Key == "style" && b.Val != "" {
								ds, e := parser.ParseDeclarations(b.Val + ";")
								if e != nil {
									eb = e
								}
								db = append(db, ds...)
							}
						}
						if ea != nil || eb != nil {
							continue
						}
						for _, d := range da {
							found := false
							for _, e := range db {
								found = found || (e.Property == d.Property && e.Value == d.Value)
							}
							if !found {
								lost = "the style declaration " + d.Property + ": " + d.Value
							}
						}
						continue
					}
					found := false
					for _, b := range tb.Attr {
						found = found || b == a
					}
					if !found {
						lost = "the attribute " + a.Key + "=" + a.Val
					}
				}
			}
			if lost != "" {
				sum.OracleFails = append(sum.OracleFails, map[string]any{"kind": "rule-replaces", "clause": "one more rule-adding builder call takes away what the policy kept before", "lost": lost,
					"policy": base, "added_rule": r, "input_hex": hexOf(doc), "input_text": doc, "output": oa, "other": ob})
				if len(sum.OracleFails) > 12 {
					goto done
				}
			}
		}
	}
	// shipped constructors return independent values
	{
		u1 := bluemonday.UGCPolicy()
		doc := `<a href="http://x/" onclick="1">t</a><img><script>x</script><b>y</b>`
		w := u1.Sanitize(doc)
		s1 := bluemonday.StrictPolicy().Sanitize(doc)
		u2 := bluemonday.UGCPolicy()
		u2.AllowAttrs("onclick").OnElements("a")
		u2.AllowNoAttrs().OnElements("img", "a")
		u2.AllowElementsContent("script")
		u2.AllowElements("script")
		u2.RequireNoFollowOnLinks(false)
		n := bluemonday.NewPolicy()
		n.AllowElements("b", "img", "a")
		sum.Evaluations++
		if u1.Sanitize(doc) != w || bluemonday.UGCPolicy().Sanitize(doc) != w || bluemonday.StrictPolicy().Sanitize(doc) != s1 {
			sum.OracleFails = append(sum.OracleFails, map[string]any{"kind": "instances-share-state", "clause": "extending one policy changed another instance", "input_text": doc, "before": w, "after": u1.Sanitize(doc), "fresh": bluemonday.UGCPolicy().Sanitize(doc)})
		}
	}
done:
	sum.Nontrivial = len(distinct)
	sum.Samples = append(sum.Samples, map[string]any{"variants": "rule-adding ops shuffled among themselves; all names upper-cased; unrelated policies built in between"})
	sum.emit()
}
