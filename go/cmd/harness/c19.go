package main

import (
	"encoding/hex"
	"flag"
	"regexp"
	"strings"
	"unicode/utf8"

	"github.com/microcosm-cc/bluemonday"
)

type matcherInfo struct {
	name     string
	re       *regexp.Regexp
	alphabet func(r rune) bool
	examples []string
}

func isLetter(r rune) bool {
	return (r >= 'A' && r <= 'Z') || (r >= 'a' && r <= 'z') || r == 0x17f || r == 0x212a
}
func isDigit(r rune) bool { return r >= '0' && r <= '9' }
func isHTMLWs(r rune) bool { return r == '\t' || r == '\n' || r == '\f' || r == '\r' || r == ' ' }
func inSet(s string) func(rune) bool {
	return func(r rune) bool { return strings.ContainsRune(s, r) }
}
func or(fs ...func(rune) bool) func(rune) bool {
	return func(r rune) bool {
		for _, f := range fs {
			if f(r) {
				return true
			}
		}
		return false
	}
}
func nonASCII(r rune) bool { return r >= 128 }
func asciiAlnum(r rune) bool {
	return (r >= 'A' && r <= 'Z') || (r >= 'a' && r <= 'z') || isDigit(r)
}

// the documented alphabets, restated independently of the Coq spec (cross-check of my reading)
func exportedMatchers() []matcherInfo {
	return []matcherInfo{
		{"CellAlign", bluemonday.CellAlign, isLetter, examplesFor("bm_CellAlign")},
		{"CellVerticalAlign", bluemonday.CellVerticalAlign, isLetter, examplesFor("bm_CellVerticalAlign")},
		{"Direction", bluemonday.Direction, isLetter, examplesFor("bm_Direction")},
		{"ImageAlign", bluemonday.ImageAlign, isLetter, examplesFor("bm_ImageAlign")},
		{"Integer", bluemonday.Integer, isDigit, examplesFor("bm_Integer")},
		{"ISO8601", bluemonday.ISO8601, or(isDigit, inSet("-:T .Z+")), examplesFor("bm_ISO8601")},
		{"ListType", bluemonday.ListType, or(isLetter, inSet("1")), examplesFor("bm_ListType")},
		{"SpaceSeparatedTokens", bluemonday.SpaceSeparatedTokens, or(isHTMLWs, asciiAlnum, inSet("_-"), nonASCII), examplesFor("bm_SpaceSeparatedTokens")},
		{"Number", bluemonday.Number, or(isDigit, inSet("-+.eE")), examplesFor("bm_Number")},
		{"NumberOrPercent", bluemonday.NumberOrPercent, or(isDigit, inSet("%")), examplesFor("bm_NumberOrPercent")},
		{"Paragraph", bluemonday.Paragraph, or(isHTMLWs, asciiAlnum, inSet("-_',[]!./\\()"), nonASCII), examplesFor("bm_Paragraph")},
	}
}

// c19oracle: the implementation-side search for a failing input: strings the real exported
// matcher accepts although they contain a character outside the documented alphabet, and
// documented examples it rejects.
func c19oracle(args []string) {
	fs := flag.NewFlagSet("c19oracle", flag.ExitOnError)
	maxLen := fs.Int("maxlen", 3, "exhaustive bound")
	extra := fs.String("extra", "", "comma separated hex strings to test against every matcher")
	fs.Parse(args)
	sum := newSummary("c19oracle")
	distinct := map[string]bool{}
	for _, m := range exportedMatchers() {
		alpha := alphabetOf(m.re.String())
		strs := allStrings(alpha, *maxLen)
		for _, e := range m.examples {
			strs = append(strs, e)
			strs = append(strs, substitutions(e, alpha, 1)...)
			if len(e) <= 12 {
				strs = append(strs, substitutions(e, alpha, 2)...)
			}
		}
		if *extra != "" {
			for _, h := range strings.Split(*extra, ",") {
				b, _ := hex.DecodeString(h)
				strs = append(strs, string(b))
			}
		}
		for _, e := range m.examples {
			if !m.re.MatchString(e) {
				sum.OracleFails = append(sum.OracleFails, map[string]any{"matcher": m.name, "clause": "example-rejected", "input_hex": hexOf(e), "input": e})
			}
		}
		for _, s := range strs {
			sum.Evaluations++
			if !m.re.MatchString(s) {
				continue
			}
			distinct[m.name+"\x00"+s] = true
			bad := false
			for _, r := range s {
				if r == utf8.RuneError || !m.alphabet(r) {
					if r == utf8.RuneError && nonASCII(r) && m.alphabet(r) {
						continue
					}
					bad = true
				}
			}
			if bad && len(sum.OracleFails) < 50 {
				sum.OracleFails = append(sum.OracleFails, map[string]any{"matcher": m.name, "clause": "accepts-outside-alphabet", "input_hex": hexOf(s), "input": s})
			}
		}
		sum.Distribution["matchers"]++
	}
	sum.Nontrivial = len(distinct)
	sum.emit()
}

// rxeval: does the real regexp (by gen name, from regexps.tsv pattern) accept the input?
func rxeval(args []string) {
	fs := flag.NewFlagSet("rxeval", flag.ExitOnError)
	matcher := fs.String("matcher", "", "exported matcher name (uses the real exported variable)")
	in := fs.String("input", "", "hex input")
	fs.Parse(args)
	sum := newSummary("rxeval")
	b, _ := hex.DecodeString(*in)
	for _, m := range exportedMatchers() {
		if m.name == *matcher {
			sum.Evaluations = 1
			ok := m.re.MatchString(string(b))
			outside := false
			for _, r := range string(b) {
				if !m.alphabet(r) {
					outside = true
				}
			}
			sum.Extra["accepted"] = ok
			sum.Extra["outside_alphabet"] = outside
			sum.Extra["pattern"] = m.re.String()
		}
	}
	sum.emit()
}
