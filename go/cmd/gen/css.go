package main

import (
	"bytes"
	"fmt"
	"go/ast"
	"go/printer"
	"go/token"
	"sort"
	"strconv"
	"strings"
)

// genCss: the data-like parts of css/handlers.go: the default handler table, every keyword
// list, which regexps are used as whole-value acceptors (X.MatchString(value)) and which only
// to strip a leading function name, and the shape of GetDefaultHandler / BaseHandler.
func genCss(files []*srcFile) {
	var cssFile *srcFile
	for _, sf := range files {
		if sf.path == "css/handlers.go" {
			cssFile = sf
		}
	}
	if cssFile == nil {
		fatal("css/handlers.go not loaded")
	}
	// default handler table
	type kv struct{ prop, fn string }
	var table []kv
	regexVars := map[string]bool{}
	for _, d := range cssFile.file.Decls {
		gd, ok := d.(*ast.GenDecl)
		if !ok || gd.Tok != token.VAR {
			continue
		}
		for _, sp := range gd.Specs {
			vs := sp.(*ast.ValueSpec)
			for i, name := range vs.Names {
				if i >= len(vs.Values) {
					continue
				}
				if _, ok := isMustCompile(vs.Values[i]); ok {
					regexVars[name.Name] = true
				}
				if name.Name == "defaultStyleHandlers" {
					cl, ok := vs.Values[i].(*ast.CompositeLit)
					if !ok {
						fatal("css/handlers.go: defaultStyleHandlers is not a map literal")
					}
					for _, el := range cl.Elts {
						e := el.(*ast.KeyValueExpr)
						k, ok := strLit(e.Key)
						id, ok2 := e.Value.(*ast.Ident)
						if !ok || !ok2 {
							fatal("css/handlers.go: defaultStyleHandlers entry is not \"prop\": Handler")
						}
						table = append(table, kv{k, id.Name})
					}
				}
			}
		}
	}
	if len(table) < 100 {
		fatal("css/handlers.go: default handler table not recognised")
	}
	// keyword lists: every []string{...} literal of string literals, and regexp uses
	type kwl struct {
		where string
		words []string
	}
	var lists []kwl
	acceptors := map[string]bool{}
	otherUse := map[string]bool{}
	handlerFuncs := map[string]bool{}
	for _, d := range cssFile.file.Decls {
		where := "package"
		var body ast.Node = d
		if fd, ok := d.(*ast.FuncDecl); ok {
			where = fd.Name.Name
			handlerFuncs[fd.Name.Name] = true
			if fd.Body == nil {
				continue
			}
			body = fd.Body
		}
		k := 0
		ast.Inspect(body, func(n ast.Node) bool {
			switch x := n.(type) {
			case *ast.CompositeLit:
				at, ok := x.Type.(*ast.ArrayType)
				if !ok || !isIdent(at.Elt, "string") {
					return true
				}
				var ws []string
				for _, e := range x.Elts {
					s, ok := strLit(e)
					if !ok {
						return true // []string{value} and the like: not a keyword list
					}
					ws = append(ws, s)
				}
				if len(ws) == 0 {
					return true
				}
				k++
				lists = append(lists, kwl{fmt.Sprintf("%s#%d", where, k), ws})
			case *ast.CallExpr:
				sel, ok := x.Fun.(*ast.SelectorExpr)
				if !ok {
					return true
				}
				id, ok := sel.X.(*ast.Ident)
				if !ok || !regexVars[id.Name] {
					return true
				}
				if sel.Sel.Name == "MatchString" {
					acceptors[id.Name] = true
				} else {
					otherUse[id.Name] = true
				}
			}
			return true
		})
	}
	// GetDefaultHandler / BaseHandler shapes
	gdh := findFuncIn(cssFile, "GetDefaultHandler")
	okShape := len(gdh.Body.List) == 2
	if okShape {
		is, ok := gdh.Body.List[0].(*ast.IfStmt)
		rs, ok2 := gdh.Body.List[1].(*ast.ReturnStmt)
		okShape = ok && ok2 && len(rs.Results) == 1 && isIdent(rs.Results[0], "BaseHandler") && is.Else == nil && len(is.Body.List) == 1
		if okShape {
			be, ok := is.Cond.(*ast.BinaryExpr)
			okShape = ok && be.Op == token.NEQ && isIdent(be.Y, "nil") && isTableIndex(be.X)
			if r2, ok := is.Body.List[0].(*ast.ReturnStmt); okShape && (!ok || len(r2.Results) != 1 || !isTableIndex(r2.Results[0])) {
				okShape = false
			}
		}
	}
	if !okShape {
		fatal("css/handlers.go GetDefaultHandler: expected `if defaultStyleHandlers[attr] != nil { return defaultStyleHandlers[attr] }; return BaseHandler`")
	}
	bh := findFuncIn(cssFile, "BaseHandler")
	if len(bh.Body.List) != 1 {
		fatal("css/handlers.go BaseHandler: expected `return false`")
	}
	if rs, ok := bh.Body.List[0].(*ast.ReturnStmt); !ok || len(rs.Results) != 1 || !isIdent(rs.Results[0], "false") {
		fatal("css/handlers.go BaseHandler: expected `return false`")
	}
	for _, e := range table {
		if !handlerFuncs[e.fn] {
			fatal("css/handlers.go: table entry %s names %s which is not a function of the file", e.prop, e.fn)
		}
	}

	// handler bodies of the keyword shape:  [if R.MatchString(value) { return true }]*  values := []string{..};
	// splitVals := splitValues(value); return in(splitVals, values)   -- and the two helpers they call, text for text
	wantSplitValues := "func splitValues(value string) []string {\n\tvalues := strings.Split(value, \",\")\n\tnewValues := []string{}\n\tfor _, strippedValue := range values {\n\t\tnewValues = append(newValues, strings.ToLower(strings.TrimSpace(strippedValue)))\n\t}\n\treturn newValues\n}"
	wantIn := "func in(value []string, arr []string) bool {\n\tfor _, i := range value {\n\t\tfoundString := false\n\t\tfor _, j := range arr {\n\t\t\tif j == i {\n\t\t\t\tfoundString = true\n\t\t\t}\n\t\t}\n\t\tif !foundString {\n\t\t\treturn false\n\t\t}\n\t}\n\treturn true\n}"
	helpersOK := nodeText(cssFile, findFuncIn(cssFile, "splitValues")) == wantSplitValues && nodeText(cssFile, findFuncIn(cssFile, "in")) == wantIn
	// package-level keyword lists by variable name (colorValues)
	pkgLists := map[string][]string{}
	for _, d := range cssFile.file.Decls {
		gd, ok := d.(*ast.GenDecl)
		if !ok || gd.Tok != token.VAR {
			continue
		}
		for _, sp := range gd.Specs {
			vs := sp.(*ast.ValueSpec)
			for i, name := range vs.Names {
				if i >= len(vs.Values) {
					continue
				}
				if cl, ok := vs.Values[i].(*ast.CompositeLit); ok {
					if at, ok := cl.Type.(*ast.ArrayType); ok && at.Len == nil && isIdent(at.Elt, "string") {
						var ws []string
						good := true
						for _, e := range cl.Elts {
							w, ok := strLit(e)
							good = good && ok
							ws = append(ws, w)
						}
						if good {
							pkgLists[name.Name] = ws
						}
					}
				}
			}
		}
	}
	// a handler body that is a disjunction of conditions on the value:
	//   values := []string{..} | splitVals := splitValues(value) | splitVals := strings.Split(value, " ")   (bindings)
	//   if COND { return true }   ...   return COND
	//   COND ::= R.MatchString(value) | OtherHandler(value) | in(splitVals, values) | in(splitVals, colorValues)
	type hcond struct {
		kind   string // rx, call, in, insp, insep, exact, rec
		name   string
		words  []string
		sep    byte
		maxLen int // -1: no guard
		fns    []string
	}
	type hdef struct {
		fn    string
		conds []hcond
	}
	parseDef := func(fd *ast.FuncDecl) (hdef, bool) {
		def := hdef{fn: fd.Name.Name}
		var values []string
		haveValues := false
		split := "" // "", "sv" (splitValues), "sp" (strings.Split on a blank), "s1" (strings.Split on another one-byte separator)
		var sepByte byte
		maxLen := -1
		var used []string
		haveUsed := false
		cond := func(e ast.Expr) (hcond, bool) {
			ce, ok := e.(*ast.CallExpr)
			if !ok {
				return hcond{}, false
			}
			if sel, ok := ce.Fun.(*ast.SelectorExpr); ok {
				id, ok := sel.X.(*ast.Ident)
				if ok && regexVars[id.Name] && sel.Sel.Name == "MatchString" && len(ce.Args) == 1 && isIdent(ce.Args[0], "value") {
					return hcond{kind: "rx", name: id.Name}, true
				}
				return hcond{}, false
			}
			id, ok := ce.Fun.(*ast.Ident)
			if !ok {
				return hcond{}, false
			}
			if id.Name == "in" && len(ce.Args) == 2 && isIdent(ce.Args[1], "values") && haveValues {
				// in([]string{value}, values): the value itself is a keyword
				if cl, ok := ce.Args[0].(*ast.CompositeLit); ok && len(cl.Elts) == 1 && isIdent(cl.Elts[0], "value") {
					if at, ok := cl.Type.(*ast.ArrayType); ok && at.Len == nil && isIdent(at.Elt, "string") {
						return hcond{kind: "exact", words: values}, true
					}
				}
			}
			if id.Name == "recursiveCheck" && len(ce.Args) == 2 && isIdent(ce.Args[0], "splitVals") && isIdent(ce.Args[1], "usedFunctions") && haveUsed && (split == "sp" || split == "s1") {
				return hcond{kind: "rec", sep: sepByte, maxLen: maxLen, fns: used}, true
			}
			if id.Name == "in" && len(ce.Args) == 2 && isIdent(ce.Args[0], "splitVals") && (split == "sv" || split == "sp" || split == "s1") {
				var ws []string
				if isIdent(ce.Args[1], "values") && haveValues {
					ws = values
				} else if a, ok := ce.Args[1].(*ast.Ident); ok && pkgLists[a.Name] != nil {
					ws = pkgLists[a.Name]
				} else {
					return hcond{}, false
				}
				k := "in"
				if split == "sp" {
					k = "insp"
				} else if split == "s1" {
					// in(strings.Split(value, ";"), values): the pieces as they are, no trimming, no lower-casing
					k = "insep"
				}
				return hcond{kind: k, words: ws, sep: sepByte}, true
			}
			if handlerFuncs[id.Name] && id.Name != fd.Name.Name && len(ce.Args) == 1 && isIdent(ce.Args[0], "value") && strings.HasSuffix(id.Name, "Handler") {
				return hcond{kind: "call", name: id.Name}, true
			}
			return hcond{}, false
		}
		for si, st := range fd.Body.List {
			last := si == len(fd.Body.List)-1
			switch x := st.(type) {
			case *ast.AssignStmt:
				if last || x.Tok != token.DEFINE || len(x.Lhs) != 1 || len(x.Rhs) != 1 {
					return def, false
				}
				switch {
				case isIdent(x.Lhs[0], "values") && !haveValues:
					cl, ok := x.Rhs[0].(*ast.CompositeLit)
					if !ok {
						return def, false
					}
					at, ok := cl.Type.(*ast.ArrayType)
					if !ok || at.Len != nil || !isIdent(at.Elt, "string") {
						return def, false
					}
					for _, e := range cl.Elts {
						w, ok := strLit(e)
						if !ok {
							return def, false
						}
						values = append(values, w)
					}
					haveValues = true
				case isIdent(x.Lhs[0], "splitVals") && split == "":
					ce, ok := x.Rhs[0].(*ast.CallExpr)
					if !ok {
						return def, false
					}
					if isIdent(ce.Fun, "splitValues") && len(ce.Args) == 1 && isIdent(ce.Args[0], "value") {
						split = "sv"
					} else if sel, ok := ce.Fun.(*ast.SelectorExpr); ok && isIdent(sel.X, "strings") && sel.Sel.Name == "Split" && len(ce.Args) == 2 && isIdent(ce.Args[0], "value") {
						if sep, ok := strLit(ce.Args[1]); ok && sep == " " {
							split, sepByte = "sp", ' '
						} else if ok && len(sep) == 1 {
							split, sepByte = "s1", sep[0]
						} else {
							return def, false
						}
					} else {
						return def, false
					}
				case isIdent(x.Lhs[0], "usedFunctions") && !haveUsed:
					cl, ok := x.Rhs[0].(*ast.CompositeLit)
					if !ok {
						return def, false
					}
					if _, ok := cl.Type.(*ast.ArrayType); !ok {
						return def, false
					}
					for _, e := range cl.Elts {
						id, ok := e.(*ast.Ident)
						if !ok || !handlerFuncs[id.Name] || id.Name == fd.Name.Name {
							return def, false
						}
						used = append(used, id.Name)
					}
					haveUsed = len(used) > 0
				default:
					return def, false
				}
			case *ast.IfStmt:
				if last || x.Init != nil || x.Else != nil || len(x.Body.List) != 1 {
					return def, false
				}
				rs, ok := x.Body.List[0].(*ast.ReturnStmt)
				if ok && len(rs.Results) == 1 && isIdent(rs.Results[0], "false") && maxLen < 0 && split != "" {
					// if len(splitVals) > K { return false }
					if be, ok := x.Cond.(*ast.BinaryExpr); ok && be.Op == token.GTR {
						if ce, ok := be.X.(*ast.CallExpr); ok && isIdent(ce.Fun, "len") && len(ce.Args) == 1 && isIdent(ce.Args[0], "splitVals") {
							if bl, ok := be.Y.(*ast.BasicLit); ok && bl.Kind == token.INT {
								if k, err := strconv.Atoi(bl.Value); err == nil && k >= 0 && k < 1000 {
									maxLen = k
									// the guard precedes only the final recursiveCheck: no condition may follow except the last return
									if si != len(fd.Body.List)-2 && si != len(fd.Body.List)-3 {
										return def, false
									}
									continue
								}
							}
						}
					}
					return def, false
				}
				if !ok || len(rs.Results) != 1 || !isIdent(rs.Results[0], "true") {
					return def, false
				}
				c, ok := cond(x.Cond)
				if !ok {
					return def, false
				}
				def.conds = append(def.conds, c)
			case *ast.ReturnStmt:
				if !last || len(x.Results) != 1 {
					return def, false
				}
				c, ok := cond(x.Results[0])
				if !ok {
					return def, false
				}
				def.conds = append(def.conds, c)
			default:
				return def, false
			}
		}
		return def, len(def.conds) > 0
	}
	var hdefs []hdef
	if helpersOK {
		cand := map[string]hdef{}
		var order []string
		for _, d := range cssFile.file.Decls {
			fd, ok := d.(*ast.FuncDecl)
			if !ok || fd.Body == nil || fd.Recv != nil || len(fd.Type.Params.List) != 1 || len(fd.Type.Params.List[0].Names) != 1 || fd.Type.Params.List[0].Names[0].Name != "value" {
				continue
			}
			if def, ok := parseDef(fd); ok {
				cand[def.fn] = def
				order = append(order, def.fn)
			}
		}
		// dependency order: a definition is emitted once everything it calls has been; what calls an unrecognised handler is dropped
		emitted := map[string]bool{}
		for changed := true; changed; {
			changed = false
			for _, fn := range order {
				if emitted[fn] {
					continue
				}
				ready := true
				for _, c := range cand[fn].conds {
					if c.kind == "call" && !emitted[c.name] {
						ready = false
					}
					for _, f := range c.fns {
						if !emitted[f] {
							ready = false
						}
					}
				}
				if ready {
					emitted[fn] = true
					hdefs = append(hdefs, cand[fn])
					changed = true
				}
			}
		}
	}

	var b strings.Builder
	b.WriteString("(* GENERATED by /verif/go/cmd/gen from /repo/css/handlers.go. Do not edit. *)\n")
	b.WriteString("From Coq Require Import List NArith String.\nImport ListNotations.\nFrom BM Require Import Bytes Regex GenRegex KwHandler.\nOpen Scope N_scope.\n\n")
	b.WriteString("(* defaultStyleHandlers: property -> handler function *)\nDefinition default_style_handlers : list (bytes * string) := [\n")
	for i, e := range table {
		sep := ";"
		if i == len(table)-1 {
			sep = ""
		}
		fmt.Fprintf(&b, "  (B\"%s\", \"%s\"%%string)%s\n", coqString(e.prop), e.fn, sep)
	}
	b.WriteString("].\n\n(* GetDefaultHandler is a lookup in that table falling back to BaseHandler, whose body is `return false` (shape recognised by gen) *)\n")
	b.WriteString("Definition get_default_handler_is_table_lookup_else_base : bool := true.\nDefinition base_handler_is_return_false : bool := true.\n\n")
	var acc, strip []string
	for n := range regexVars {
		if acceptors[n] {
			acc = append(acc, n)
		} else {
			strip = append(strip, n)
		}
	}
	sort.Strings(acc)
	sort.Strings(strip)
	b.WriteString("(* regexps used as X.MatchString(value): whole-value acceptors *)\nDefinition css_acceptors : list (string * re) := [\n")
	for i, n := range acc {
		sep := ";"
		if i == len(acc)-1 {
			sep = ""
		}
		fmt.Fprintf(&b, "  (\"%s\"%%string, css_%s)%s\n", n, n, sep)
	}
	b.WriteString("].\n\n(* regexps never used with MatchString: they strip a leading function name (ReplaceAll / FindString) *)\nDefinition css_strippers : list (string * re) := [\n")
	for i, n := range strip {
		sep := ";"
		if i == len(strip)-1 {
			sep = ""
		}
		fmt.Fprintf(&b, "  (\"%s\"%%string, css_%s)%s\n", n, n, sep)
	}
	b.WriteString("].\n\n(* every []string literal of the file *)\nDefinition css_keyword_lists : list (string * list bytes) := [\n")
	for i, l := range lists {
		sep := ";"
		if i == len(lists)-1 {
			sep = ""
		}
		fmt.Fprintf(&b, "  (\"%s\"%%string, %s)%s\n", l.where, coqBytesList(l.words), sep)
	}
	b.WriteString("].\n\n(* handlers whose whole body is a disjunction of conditions on the value (bindings  values := []string{..},\n   splitVals := splitValues(value) | strings.Split(value, \" \");  if COND { return true } ... return COND  with\n   COND ::= R.MatchString(value) | OtherHandler(value) | in(splitVals, values|colorValues)), in dependency order;\n   splitValues and in are as modelled in Model/KwHandler.v (gen compares the two helpers text for text) *)\nDefinition css_handler_defs : list (string * list hcond) := [\n")
	for i, h := range hdefs {
		sep := ";"
		if i == len(hdefs)-1 {
			sep = ""
		}
		var cs []string
		for _, c := range h.conds {
			switch c.kind {
			case "rx":
				cs = append(cs, "CRx \""+c.name+"\"%string")
			case "call":
				cs = append(cs, "CCall \""+c.name+"\"%string")
			case "in":
				cs = append(cs, "CIn "+coqBytesList(c.words))
			case "insp":
				cs = append(cs, "CInSpace "+coqBytesList(c.words))
			case "insep":
				cs = append(cs, fmt.Sprintf("CInSep %d %s", c.sep, coqBytesList(c.words)))
			case "exact":
				cs = append(cs, "CExact "+coqBytesList(c.words))
			case "rec":
				mx := "None"
				if c.maxLen >= 0 {
					mx = fmt.Sprintf("(Some %d%%nat)", c.maxLen)
				}
				var fs []string
				for _, f := range c.fns {
					fs = append(fs, "\""+f+"\"%string")
				}
				cs = append(cs, fmt.Sprintf("CRec %d %s [%s]", c.sep, mx, strings.Join(fs, "; ")))
			}
		}
		fmt.Fprintf(&b, "  (\"%s\"%%string, [%s])%s\n", h.fn, strings.Join(cs, "; "), sep)
	}
	b.WriteString("].\n")
	writeIfChanged("GenCss.v", b.String())
	var kh strings.Builder
	for _, h := range hdefs {
		fmt.Fprintf(&kh, "%s\t%d\n", h.fn, len(h.conds))
	}
	writeIfChanged("css_kw_handlers.tsv", kh.String())

	var t strings.Builder
	for _, e := range table {
		fmt.Fprintf(&t, "%s\t%s\n", e.prop, e.fn)
	}
	writeIfChanged("css_table.tsv", t.String())
	var kw strings.Builder
	for _, l := range lists {
		fmt.Fprintf(&kw, "%s\t%s\n", l.where, strings.Join(l.words, "\x1f"))
	}
	writeIfChanged("css_keywords.tsv", kw.String())
}

func isTableIndex(e ast.Expr) bool {
	ix, ok := e.(*ast.IndexExpr)
	return ok && isIdent(ix.X, "defaultStyleHandlers") && isIdent(ix.Index, "attr")
}

func findFuncIn(sf *srcFile, name string) *ast.FuncDecl {
	for _, d := range sf.file.Decls {
		if fd, ok := d.(*ast.FuncDecl); ok && fd.Name.Name == name && fd.Body != nil {
			return fd
		}
	}
	fatal("%s: function %s not found", sf.path, name)
	return nil
}

// nodeText: the source text of a declaration
func nodeText(sf *srcFile, n ast.Node) string {
	if n == nil {
		return ""
	}
	var b bytes.Buffer
	if err := printer.Fprint(&b, fset, n); err != nil {
		return ""
	}
	return b.String()
}
