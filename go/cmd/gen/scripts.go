package main

import (
	"fmt"
	"go/ast"
	"go/token"
	"strings"
)

// genScripts translates the straight-line builder code of policies.go / helpers.go (UGCPolicy,
// StrictPolicy and the Allow* helpers they call) into lists of builder operations of the Coq
// model (Model/Builder.v).  Matchers are regexp ASTs named as in GenRegex.v, paired with their
// name so that the driver can print them.  Anything outside the catalogue of shapes aborts.

type scriptGen struct {
	files   []*srcFile
	helpers map[string]*ast.FuncDecl // methods of *Policy in helpers.go
	ops     []string
	rxCount map[string]int
}

func (g *scriptGen) fail(n ast.Node, format string, a ...interface{}) {
	fatal("builder script translation: %s at %s", fmt.Sprintf(format, a...), fset.Position(n.Pos()))
}

func strArgs(g *scriptGen, args []ast.Expr) []string {
	var out []string
	for _, a := range args {
		s, ok := strLit(a)
		if !ok {
			g.fail(a, "argument is not a string literal")
		}
		out = append(out, s)
	}
	return out
}

func boolArg(g *scriptGen, args []ast.Expr) string {
	if len(args) == 1 && isIdent(args[0], "true") {
		return "true"
	}
	if len(args) == 1 && isIdent(args[0], "false") {
		return "false"
	}
	g.fail(args[0], "argument is not a boolean literal")
	return ""
}

// regexp argument: an identifier naming a package-level matcher, or an inline regexp.MustCompile
func (g *scriptGen) rxArg(fn string, e ast.Expr) string {
	if id, ok := e.(*ast.Ident); ok {
		return fmt.Sprintf("(\"bm_%s\"%%string, bm_%s)", id.Name, id.Name)
	}
	if _, ok := isMustCompile(e); ok {
		g.rxCount[fn]++
		n := fmt.Sprintf("bm_%s_rx%d", fn, g.rxCount[fn])
		return fmt.Sprintf("(\"%s\"%%string, %s)", n, n)
	}
	g.fail(e, "regexp argument is neither an identifier nor regexp.MustCompile(...)")
	return ""
}

// chain flattens recv.M1(a).M2(b)... into (recv, [(M1,a),(M2,b),...])
func chain(e ast.Expr) (ast.Expr, []*ast.CallExpr) {
	var calls []*ast.CallExpr
	for {
		c, ok := e.(*ast.CallExpr)
		if !ok {
			break
		}
		sel, ok := c.Fun.(*ast.SelectorExpr)
		if !ok {
			break
		}
		calls = append([]*ast.CallExpr{c}, calls...)
		e = sel.X
	}
	return e, calls
}

func mname(c *ast.CallExpr) string { return c.Fun.(*ast.SelectorExpr).Sel.Name }

func (g *scriptGen) stmt(fn string, recv string, st ast.Stmt) {
	es, ok := st.(*ast.ExprStmt)
	if !ok {
		g.fail(st, "statement is not a call")
	}
	base, calls := chain(es.X)
	if !isIdent(base, recv) || len(calls) == 0 {
		g.fail(st, "statement is not a method chain on %s", recv)
	}
	first := mname(calls[0])
	switch first {
	case "AllowAttrs", "AllowNoAttrs":
		names := []string{}
		noattrs := "false"
		if first == "AllowAttrs" {
			names = strArgs(g, calls[0].Args)
		} else {
			noattrs = "true"
		}
		re := "None"
		scope := ""
		for _, c := range calls[1:] {
			switch mname(c) {
			case "Matching":
				re = "(Some " + g.rxArg(fn, c.Args[0]) + ")"
			case "AllowNoAttrs":
				noattrs = "true"
			case "OnElements":
				scope = "(@OnElements _ " + coqBytesList(strArgs(g, c.Args)) + ")"
			case "OnElementsMatching":
				scope = "(@OnElementsMatching _ 0 " + g.rxArg(fn, c.Args[0]) + ")"
			case "Globally":
				scope = "(@Globally _)"
			default:
				g.fail(c, "unexpected method %s in an attribute rule", mname(c))
			}
		}
		if scope == "" {
			g.fail(st, "attribute rule is never bound")
		}
		g.ops = append(g.ops, fmt.Sprintf("@OAllowAttrs _ _ _ %s %s %s %s", coqBytesList(names), re, noattrs, scope))
	case "AllowElements":
		g.ops = append(g.ops, "@OAllowElements _ _ _ "+coqBytesList(strArgs(g, calls[0].Args)))
	case "AllowURLSchemes":
		g.ops = append(g.ops, "@OAllowURLSchemes _ _ _ "+coqBytesList(strArgs(g, calls[0].Args)))
	case "RequireParseableURLs":
		g.ops = append(g.ops, "@ORequireParseableURLs _ _ _ "+boolArg(g, calls[0].Args))
	case "AllowRelativeURLs":
		g.ops = append(g.ops, "@OAllowRelativeURLs _ _ _ "+boolArg(g, calls[0].Args))
	case "RequireNoFollowOnLinks":
		g.ops = append(g.ops, "@ORequireNoFollowOnLinks _ _ _ "+boolArg(g, calls[0].Args))
	case "RequireNoFollowOnFullyQualifiedLinks":
		g.ops = append(g.ops, "@ORequireNoFollowOnFullyQualifiedLinks _ _ _ "+boolArg(g, calls[0].Args))
	case "AddTargetBlankToFullyQualifiedLinks":
		g.ops = append(g.ops, "@OAddTargetBlankToFullyQualifiedLinks _ _ _ "+boolArg(g, calls[0].Args))
	default:
		h, ok := g.helpers[first]
		if !ok || len(calls) != 1 || len(calls[0].Args) != 0 {
			g.fail(st, "unknown builder call %s", first)
		}
		g.inline(h)
	}
}

func (g *scriptGen) inline(fd *ast.FuncDecl) {
	recv := fd.Recv.List[0].Names[0].Name
	g.rxCount[fd.Name.Name] = 0
	for _, st := range fd.Body.List {
		g.stmt(fd.Name.Name, recv, st)
	}
}

func genScripts(files []*srcFile) {
	g := &scriptGen{files: files, helpers: map[string]*ast.FuncDecl{}, rxCount: map[string]int{}}
	var ugc, strict *ast.FuncDecl
	for _, sf := range files {
		for _, d := range sf.file.Decls {
			fd, ok := d.(*ast.FuncDecl)
			if !ok || fd.Body == nil {
				continue
			}
			if sf.path == "helpers.go" && fd.Recv != nil {
				g.helpers[fd.Name.Name] = fd
			}
			if sf.path == "policies.go" && fd.Name.Name == "UGCPolicy" {
				ugc = fd
			}
			if sf.path == "policies.go" && fd.Name.Name == "StrictPolicy" {
				strict = fd
			}
		}
	}
	if ugc == nil || strict == nil {
		fatal("policies.go: UGCPolicy / StrictPolicy not found")
	}
	// StrictPolicy: return NewPolicy()
	okStrict := len(strict.Body.List) == 1
	if okStrict {
		rs, ok := strict.Body.List[0].(*ast.ReturnStmt)
		okStrict = ok && len(rs.Results) == 1
		if okStrict {
			c, ok := rs.Results[0].(*ast.CallExpr)
			okStrict = ok && isIdent(c.Fun, "NewPolicy") && len(c.Args) == 0
		}
	}
	if !okStrict {
		fatal("policies.go StrictPolicy: expected `return NewPolicy()`")
	}
	// UGCPolicy: p := NewPolicy(); <builder statements>; return p
	body := ugc.Body.List
	if len(body) < 3 {
		fatal("policies.go UGCPolicy: unexpected shape")
	}
	as, ok := body[0].(*ast.AssignStmt)
	if !ok || as.Tok != token.DEFINE || len(as.Lhs) != 1 || len(as.Rhs) != 1 {
		fatal("policies.go UGCPolicy: expected `p := NewPolicy()` first")
	}
	recv := as.Lhs[0].(*ast.Ident).Name
	if c, ok := as.Rhs[0].(*ast.CallExpr); !ok || !isIdent(c.Fun, "NewPolicy") {
		fatal("policies.go UGCPolicy: expected `p := NewPolicy()` first")
	}
	if rs, ok := body[len(body)-1].(*ast.ReturnStmt); !ok || len(rs.Results) != 1 || !isIdent(rs.Results[0], recv) {
		fatal("policies.go UGCPolicy: expected `return p` last")
	}
	for _, st := range body[1 : len(body)-1] {
		g.stmt("UGCPolicy", recv, st)
	}
	var b strings.Builder
	b.WriteString("(* GENERATED by /verif/go/cmd/gen from /repo/policies.go and helpers.go: the shipped policies as builder scripts. Do not edit. *)\n")
	b.WriteString("From Coq Require Import List NArith String.\nImport ListNotations.\nFrom BM Require Import Bytes Regex Policy Builder GenRegex.\nOpen Scope N_scope.\n\n")
	b.WriteString("(* matchers are (name, regexp AST); the shipped policies use no custom URL policy and no rewriter *)\nDefinition smatcher := (string * re)%type.\n\n")
	b.WriteString("(* StrictPolicy is `return NewPolicy()` *)\nDefinition strict_script : list (op smatcher unit unit) := [].\n\n")
	b.WriteString("Definition ugc_script : list (op smatcher unit unit) := [\n")
	for i, o := range g.ops {
		sep := ";"
		if i == len(g.ops)-1 {
			sep = ""
		}
		fmt.Fprintf(&b, "  %s%s\n", o, sep)
	}
	b.WriteString("].\n")
	writeIfChanged("GenScripts.v", b.String())
}
