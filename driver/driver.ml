(* Correspondence driver: runs the extracted Coq model (model.ml) on commands written by the
   Go harness and prints one observation per line.  Trusted for the correspondence only.

   The model is polymorphic in the matcher / URL-policy / rewriter types and takes their
   interpretation (and the oracles for net/url and douceur) as a record of functions; the
   driver instantiates them with the types below and with tables filled by ORACLE lines. *)
open Model

let rec pos_of_int (i : int) : positive =
  if i = 1 then XH else if i land 1 = 0 then XO (pos_of_int (i lsr 1)) else XI (pos_of_int (i lsr 1))
let n_of_int (i : int) : n = if i = 0 then N0 else Npos (pos_of_int i)
let rec int_of_pos (p : positive) : int =
  match p with XH -> 1 | XO q -> 2 * int_of_pos q | XI q -> 2 * int_of_pos q + 1
let int_of_n (x : n) : int = match x with N0 -> 0 | Npos p -> int_of_pos p
let rec nat_of_int (i : int) : nat = if i <= 0 then O else S (nat_of_int (i - 1))
let rec int_of_nat (x : nat) : int = match x with O -> 0 | S y -> 1 + int_of_nat y
let int_of_z (x : z) : int = match x with Z0 -> 0 | Zpos p -> int_of_pos p | Zneg p -> - (int_of_pos p)

let char_of_ascii (a : ascii) : char =
  match a with Ascii (b0, b1, b2, b3, b4, b5, b6, b7) ->
    let v b k = if b then 1 lsl k else 0 in
    Char.chr (v b0 0 + v b1 1 + v b2 2 + v b3 3 + v b4 4 + v b5 5 + v b6 6 + v b7 7)
let rec string_of_chars (s : Model.string) : String.t =
  match s with EmptyString -> "" | String (a, r) -> String.make 1 (char_of_ascii a) ^ string_of_chars r

let bytes_of_hex (h : String.t) : n list =
  if h = "-" then [] else begin
    let l = String.length h / 2 in
    let rec go i acc = if i < 0 then acc else go (i - 1) (n_of_int (int_of_string ("0x" ^ String.sub h (2 * i) 2)) :: acc) in
    go (l - 1) []
  end
let hex_of_bytes (b : n list) : String.t =
  if b = [] then "-" else begin
    let buf = Buffer.create 64 in
    List.iter (fun x -> Buffer.add_string buf (Printf.sprintf "%02x" (int_of_n x))) b;
    Buffer.contents buf
  end
(* "_" = empty list, otherwise comma separated hex strings *)
let list_of_hexes (s : String.t) : n list list =
  if s = "_" then [] else List.map bytes_of_hex (String.split_on_char ',' s)
let hexes_of_list (l : n list list) : String.t =
  if l = [] then "_" else String.concat "," (List.map hex_of_bytes l)
let ostring_of_bytes (b : n list) : String.t =
  String.init (List.length b) (fun i -> Char.chr (int_of_n (List.nth b i)))
let quoted (b : n list) : String.t =
  (* Go %q-like rendering is not needed to be identical: both sides print hex *)
  hex_of_bytes b

(* regexp wire format (prefix):  E e B Z | C neg n lo hi .. | . a b | '|' a b | * a *)
let parse_re (toks : String.t list) : re * String.t list =
  let rec go toks =
    match toks with
    | "E" :: r -> (Emp, r)
    | "e" :: r -> (Eps, r)
    | "B" :: r -> (Bot, r)
    | "Z" :: r -> (Eot, r)
    | "C" :: neg :: cnt :: r ->
      let k = int_of_string cnt in
      let rec rd i r acc =
        if i = 0 then (List.rev acc, r) else
        match r with
        | lo :: hi :: r' -> rd (i - 1) r' ((n_of_int (int_of_string lo), n_of_int (int_of_string hi)) :: acc)
        | _ -> failwith "bad class" in
      let (cls, r') = rd k r [] in
      (Chr (neg = "1", cls), r')
    | "." :: r -> let (a, r1) = go r in let (b, r2) = go r1 in (Cat (a, b), r2)
    | "|" :: r -> let (a, r1) = go r in let (b, r2) = go r1 in (Alt (a, b), r2)
    | "*" :: r -> let (a, r1) = go r in (Star a, r1)
    | t :: _ -> failwith ("bad regexp token " ^ t)
    | [] -> failwith "regexp truncated" in
  go toks

(* ---- instantiation of the model's type parameters ---------------------------------------- *)
type m =
  | MRe of String.t * re          (* regexp: registered id, AST *)
  | MDefault of n list            (* css.GetDefaultHandler(property) *)
  | MCustom of String.t           (* named callback of the harness library *)
type u = UData | UNamed of String.t
type r = RNamed of String.t

let regexps : (String.t, re) Hashtbl.t = Hashtbl.create 97
let regexp_ids : (String.t, int) Hashtbl.t = Hashtbl.create 97
let next_rid = ref 0
let rid (id : String.t) : int =
  match Hashtbl.find_opt regexp_ids id with
  | Some i -> i
  | None -> incr next_rid; Hashtbl.replace regexp_ids id !next_rid; !next_rid
let get_re (id : String.t) : m =
  match Hashtbl.find_opt regexps id with
  | Some r -> MRe (id, r)
  | None -> failwith ("unknown regexp " ^ id)

let o_url : (String.t, url option) Hashtbl.t = Hashtbl.create 997
let o_css : (String.t, (n list * n list) list option) Hashtbl.t = Hashtbl.create 997
let o_h : (String.t, bool) Hashtbl.t = Hashtbl.create 997
let o_rw : (String.t, n list) Hashtbl.t = Hashtbl.create 97
let misses : String.t list ref = ref []
let miss (s : String.t) = if not (List.mem s !misses) then misses := s :: !misses

let example_org = bytes_of_hex "6578616d706c652e6f7267"
let the_interp : (m, u, r) interp = {
  mmatch = (fun mt v ->
    match mt with
    | MRe (_, r) -> search r (runes v)
    | MDefault prop ->
      let k = "d:" ^ hex_of_bytes prop ^ " " ^ hex_of_bytes v in
      (match Hashtbl.find_opt o_h k with Some b -> b | None -> miss ("h " ^ k); false)
    | MCustom name ->
      let k = "c:" ^ name ^ " " ^ hex_of_bytes v in
      (match Hashtbl.find_opt o_h k with Some b -> b | None -> miss ("h " ^ k); false));
  upol = (fun f url ->
    match f with
    | UData -> data_uri_image_policy url
    | UNamed "always" -> true
    | UNamed "never" -> false
    | UNamed "hostex" -> url.u_host = example_org
    | UNamed "noquery" -> url.u_rawquery = []
    | UNamed s -> failwith ("unknown url policy " ^ s));
  rewrite = (fun f s ->
    match f with RNamed name ->
      let k = name ^ " " ^ hex_of_bytes s in
      (match Hashtbl.find_opt o_rw k with Some b -> b | None -> miss ("rw " ^ k); s));
  url_parse = (fun s ->
    let k = hex_of_bytes s in
    match Hashtbl.find_opt o_url k with Some x -> x | None -> miss ("url " ^ k); None);
  css_decls = (fun s ->
    let k = hex_of_bytes s in
    match Hashtbl.find_opt o_css k with Some x -> x | None -> miss ("css " ^ k); None);
}

let policies : (String.t, (m, u, r) policy) Hashtbl.t = Hashtbl.create 97
let get_policy (id : String.t) = match Hashtbl.find_opt policies id with Some p -> p | None -> failwith ("unknown policy " ^ id)
let default_handler (prop : n list) : m = MDefault prop

let opt_re (s : String.t) : m option = if s = "-" then None else Some (get_re s)

let parse_scope (toks : String.t list) : m scope =
  match toks with
  | ["E"; els] -> OnElements (list_of_hexes els)
  | ["M"; id] -> (match get_re id with MRe (_, _) as mm -> OnElementsMatching (n_of_int (rid id), mm) | _ -> failwith "scope")
  | ["G"] -> Globally
  | _ -> failwith "bad scope"

let parse_op (toks : String.t list) : (m, u, r) op =
  let b s = (s = "1") in
  match toks with
  | "attrs" :: names :: re :: noattrs :: sc -> OAllowAttrs (list_of_hexes names, opt_re re, b noattrs, parse_scope sc)
  | "styles" :: props :: h :: enum :: re :: sc ->
    OAllowStyles (list_of_hexes props, (if h = "-" then None else Some (MCustom h)), list_of_hexes enum, opt_re re, parse_scope sc)
  | ["elements"; names] -> OAllowElements (list_of_hexes names)
  | ["elementsmatching"; id] -> OAllowElementsMatching (n_of_int (rid id), get_re id)
  | ["data"] -> OAllowDataAttributes
  | ["comments"] -> OAllowComments
  | ["schemes"; names] -> OAllowURLSchemes (list_of_hexes names)
  | ["schemecustom"; s; cb] -> OAllowURLSchemeWithCustomPolicy (bytes_of_hex s, (if cb = "data" then UData else UNamed cb))
  | ["schemesmatching"; id] -> OAllowURLSchemesMatching (get_re id)
  | ["rewritesrc"; name] -> ORewriteSrc (RNamed name)
  | ["nofollow"; x] -> ORequireNoFollowOnLinks (b x)
  | ["nofollowfq"; x] -> ORequireNoFollowOnFullyQualifiedLinks (b x)
  | ["noreferrer"; x] -> ORequireNoReferrerOnLinks (b x)
  | ["noreferrerfq"; x] -> ORequireNoReferrerOnFullyQualifiedLinks (b x)
  | ["crossorigin"; x] -> ORequireCrossOriginAnonymous (b x)
  | ["targetblank"; x] -> OAddTargetBlankToFullyQualifiedLinks (b x)
  | ["parseable"; x] -> ORequireParseableURLs (b x)
  | ["relative"; x] -> OAllowRelativeURLs (b x)
  | ["sandbox"; vals] -> ORequireSandboxOnIFrame (if vals = "_" then [] else List.map (fun s -> n_of_int (int_of_string s)) (String.split_on_char ',' vals))
  | ["addspaces"; x] -> OAddSpaceWhenStrippingTag (b x)
  | ["skip"; names] -> OSkipElementsContent (list_of_hexes names)
  | ["keep"; names] -> OAllowElementsContent (list_of_hexes names)
  | ["unsafe"; x] -> OAllowUnsafe (b x)
  | k :: _ -> failwith ("unknown op " ^ k)
  | [] -> failwith "empty op"

(* ---- rendering of observations ------------------------------------------------------------- *)
let attrs_str (a : attr list) : String.t =
  if a = [] then "_" else String.concat "," (List.map (fun (k, v) -> hex_of_bytes k ^ "=" ^ hex_of_bytes v) a)
let parse_attrs (s : String.t) : attr list =
  if s = "_" then [] else
  List.map (fun kv -> match String.split_on_char '=' kv with
                      | [k; v] -> (bytes_of_hex k, bytes_of_hex v)
                      | _ -> failwith "bad attr") (String.split_on_char ',' s)

let token_str (t : token) : String.t =
  match t with
  | TText d -> "t:" ^ hex_of_bytes d
  | TStart (nm, a) -> "s:" ^ hex_of_bytes nm ^ ":" ^ attrs_str a
  | TEnd nm -> "e:" ^ hex_of_bytes nm
  | TSelf (nm, a) -> "x:" ^ hex_of_bytes nm ^ ":" ^ attrs_str a
  | TComment d -> "c:" ^ hex_of_bytes d
  | TDoctype d -> "d:" ^ hex_of_bytes d

let mname (x : m) : String.t =
  match x with MRe (id, _) -> id | MDefault p -> "default:" ^ ostring_of_bytes p | MCustom s -> "custom:" ^ s

(* same layout as VerifDumpPolicy in /repo/verif_hooks.go (names are printable ASCII in the cases) *)
let dump_policy_gen : 'a 'b 'c. ('a -> String.t) -> ('b -> String.t) -> ('c -> String.t) -> ('a, 'b, 'c) policy -> unit = fun mname uname rname p ->
  let q (b : n list) = "\"" ^ ostring_of_bytes b ^ "\"" in
  let pb k v = Printf.printf "%s=%b\n" k v in
  pb "addSpaces" p.addSpaces; pb "requireNoFollow" p.requireNoFollow; pb "requireNoFollowFQ" p.requireNoFollowFQ;
  pb "requireNoReferrer" p.requireNoReferrer; pb "requireNoReferrerFQ" p.requireNoReferrerFQ;
  pb "requireCrossOrigin" p.requireCrossOrigin; pb "addTargetBlank" p.addTargetBlank;
  pb "requireParseableURLs" p.requireParseableURLs; pb "allowRelativeURLs" p.allowRelativeURLs;
  pb "allowDataAttributes" p.allowDataAttributes; pb "allowComments" p.allowComments; pb "allowUnsafe" p.allowUnsafe;
  let by_key l = List.sort (fun (a, _) (b, _) -> compare a b) l in
  let skeys l = by_key (List.map (fun (k, v) -> (ostring_of_bytes k, v)) l) in
  (match p.requireSandbox with
   | None -> print_string "sandbox=nil\n"
   | Some l -> Printf.printf "sandbox=[%s]\n" (String.concat "," (List.sort_uniq compare (List.map ostring_of_bytes l))));
  let aps l = String.concat " " (List.map (fun ap -> match ap with None -> "-" | Some x -> mname x) l) in
  let sps l = String.concat " " (List.map (fun sp -> match sp with
      | SPHandler h -> "H:" ^ mname h
      | SPEnum e -> "E:[" ^ String.concat " " (List.map q e) ^ "]"
      | SPRegexp r -> "R:" ^ mname r) l) in
  let dump_map prefix f m =
    let l = skeys m in
    if l = [] then Printf.printf "%s {}\n" prefix;
    List.iter (fun (k, v) -> Printf.printf "%s \"%s\": %s\n" prefix k (f v)) l in
  List.iter (fun (k, v) -> dump_map ("elsAndAttrs \"" ^ k ^ "\"") aps v) (skeys p.elsAndAttrs);
  List.iter (fun (k, v) -> dump_map ("elsMatchingAndAttrs " ^ k) aps v)
    (by_key (List.map (fun ((_, mm), v) -> (mname mm, v)) p.elsMatchingAndAttrs));
  dump_map "globalAttrs" aps p.globalAttrs;
  List.iter (fun (k, v) -> dump_map ("elsAndStyles \"" ^ k ^ "\"") sps v) (skeys p.elsAndStyles);
  List.iter (fun (k, v) -> dump_map ("elsMatchingAndStyles " ^ k) sps v)
    (by_key (List.map (fun ((_, mm), v) -> (mname mm, v)) p.elsMatchingAndStyles));
  dump_map "globalStyles" sps p.globalStyles;
  List.iter (fun (k, v) -> Printf.printf "allowURLSchemes \"%s\": %s\n" k
                (String.concat " " (List.map uname v)))
    (skeys p.allowURLSchemes);
  Printf.printf "allowURLSchemeRegexps: %s\n" (String.concat " " (List.map mname p.allowURLSchemeRegexps));
  Printf.printf "srcRewriter: %s\n" (match p.srcRewriter with None -> "nil" | Some f -> rname f);
  let set l = "[" ^ String.concat " " (List.map (fun s -> "\"" ^ s ^ "\"") (List.sort_uniq compare (List.map ostring_of_bytes l))) ^ "]" in
  Printf.printf "elsNoAttrs: %s\n" (set p.elsNoAttrs);
  Printf.printf "elsMatchingNoAttrs: %s\n" (String.concat " " (List.map mname p.elsMatchingNoAttrs));
  Printf.printf "elsSkipContent: %s\n" (set p.elsSkipContent);
  print_string "END\n"

let dump_policy (p : (m, u, r) policy) : unit =
  dump_policy_gen mname (fun f -> match f with UData -> "data" | UNamed s -> s) (fun (RNamed s) -> s) p

let split_ws (s : String.t) : String.t list =
  List.filter (fun x -> x <> "") (String.split_on_char ' ' s)

let with_misses (f : unit -> String.t) : unit =
  misses := [];
  let out = f () in
  if !misses <> [] then Printf.printf "MISS %s\n" (String.concat ";" (List.rev !misses))
  else (print_string out; print_char '\n')

let chunk_str (c : chunk) : String.t = (if c.checked then "" else "u:") ^ hex_of_bytes c.data

let css_handlers_env = lazy css_handlers

let handle_line (line : String.t) : unit =
  match split_ws line with
  | [] -> ()
  | ["F"] -> flush stdout
  | "RX" :: id :: toks ->
    let (r, rest) = parse_re toks in
    if rest <> [] then failwith "trailing regexp tokens";
    Hashtbl.replace regexps id r
  | ["M"; id; hex] ->
    let r = Hashtbl.find regexps id in
    print_string (if search r (runes (bytes_of_hex hex)) then "1\n" else "0\n")
  | ["REPORT"; "C19"] ->
    List.iter (fun (name, obs) ->
      List.iter (fun (kind, w) ->
        let st = match w with
          | None -> "out-of-fuel -"
          | Some None -> "holds -"
          | Some (Some l) -> "fails " ^ (if l = [] then "-" else String.concat "," (List.map (fun x -> string_of_int (int_of_n x)) l)) in
        Printf.printf "R %s %s %s\n" (string_of_chars name) (string_of_chars kind) st) obs) c19_report;
    print_string "END\n"
  | ["POLICY"; id] -> Hashtbl.replace policies id (new_policy : (m, u, r) policy)
  | ["COPY"; dst; src] -> Hashtbl.replace policies dst (get_policy src)
  | "OP" :: id :: toks -> Hashtbl.replace policies id (apply default_handler (get_policy id) (parse_op toks))
  | ["CLEAR"] -> Hashtbl.reset o_url; Hashtbl.reset o_css; Hashtbl.reset o_h; Hashtbl.reset o_rw
  | ["ORACLE"; "url"; k; "E"] -> Hashtbl.replace o_url k None
  | ["ORACLE"; "url"; k; sc; host; op; rq; fr; st] ->
    Hashtbl.replace o_url k (Some { u_scheme = bytes_of_hex sc; u_host = bytes_of_hex host; u_opaque = bytes_of_hex op;
                                    u_rawquery = bytes_of_hex rq; u_fragment = bytes_of_hex fr; u_string = bytes_of_hex st })
  | ["ORACLE"; "css"; k; "E"] -> Hashtbl.replace o_css k None
  | "ORACLE" :: "css" :: k :: rest ->
    let rec pairs l = match l with p :: v :: r -> (bytes_of_hex p, bytes_of_hex v) :: pairs r | [] -> [] | _ -> failwith "css oracle" in
    Hashtbl.replace o_css k (Some (pairs rest))
  | ["ORACLE"; "h"; name; v; b] -> Hashtbl.replace o_h (name ^ " " ^ v) (b = "1")
  | ["ORACLE"; "rw"; name; k; v] -> Hashtbl.replace o_rw (name ^ " " ^ k) (bytes_of_hex v)
  | ["TOK"; hex] ->
    print_string ("T " ^ String.concat " " (List.map token_str (tokenize (bytes_of_hex hex))) ^ "\n")
  | ["SAN"; id; hex] ->
    with_misses (fun () ->
      let (cs, panicked) = run the_interp (get_policy id) (tokenize (bytes_of_hex hex)) in
      "S " ^ (if panicked then "1" else "0") ^ " " ^ String.concat " " (List.map chunk_str cs))
  | ["ENTRY"; which; id; hex] ->
    with_misses (fun () ->
      let p = get_policy id and s = bytes_of_hex hex in
      let out = match which with
        | "Sanitize" -> sanitize the_interp p s
        | "SanitizeBytes" -> sanitizeBytes the_interp p s
        | "SanitizeReader" -> sanitizeReader the_interp p { src_data = s; src_eof = true }
        | _ -> failwith "entry" in
      "O " ^ hex_of_bytes out)
  | ["RW"; id; eof; failat; transient; hex] ->
    with_misses (fun () ->
      let fa = int_of_string failat in
      let sink (k : nat) : bool =
        let k = int_of_nat k in
        if fa < 0 then true else if transient = "1" then k <> fa else k < fa in
      let ((acc, k), e) = sanitize_rw the_interp (get_policy id) { src_data = bytes_of_hex hex; src_eof = (eof = "1") } sink in
      let es = match e with ErrNone -> "none" | ErrRead -> "read" | ErrWrite -> "write" | ErrPanic -> "panic" in
      "W " ^ es ^ " " ^ string_of_int (int_of_nat k) ^ " " ^ hexes_of_list acc)
  | ["ATTRS"; id; elem; attrs] ->
    with_misses (fun () ->
      let p = get_policy id and el = bytes_of_hex elem in
      match element_policies the_interp p el with
      | None -> "A 0 _"
      | Some aps ->
        let a = parse_attrs attrs in
        let out = match a with [] -> [] | _ -> sanitize_attrs the_interp p el a aps in
        "A 1 " ^ attrs_str out)
  | ["URL"; id; hex] ->
    with_misses (fun () ->
      match valid_url the_interp (get_policy id) (bytes_of_hex hex) with
      | Some u -> "U 1 " ^ hex_of_bytes u
      | None -> "U 0 -")
  | ["STY"; id; elem; hex] ->
    with_misses (fun () -> "Y " ^ hex_of_bytes (sanitize_styles the_interp (get_policy id) (bytes_of_hex elem) (bytes_of_hex hex)))
  | ["NOATTRS"; id; elem] ->
    with_misses (fun () -> if allow_no_attrs the_interp (get_policy id) (bytes_of_hex elem) then "B 1" else "B 0")
  | ["FN"; name; hex] ->
    let s = bytes_of_hex hex in
    let bs b = if b then "1" else "0" in
    let out = match name with
      | "remove_unicode" -> hex_of_bytes (remove_unicode s)
      | "is_data_attribute" -> bs (is_data_attribute s)
      | "normalise" -> hex_of_bytes (normalise s)
      | "linkable" -> bs (linkable s)
      | "to_lower" -> hex_of_bytes (to_lower s)
      | "trim_space" -> hex_of_bytes (trim_space s)
      | "fields" -> hexes_of_list (fields s)
      | "escape" -> hex_of_bytes (escape s)
      | "unescape" -> hex_of_bytes (unescape false s)
      | "unescape_attr" -> hex_of_bytes (unescape true s)
      | _ -> failwith ("unknown function " ^ name) in
    print_string ("V " ^ out ^ "\n")
  | ["KWH"; fn; hex] ->
    (* a handler of css/handlers.go whose body is a disjunction of conditions (GenCss.css_handler_defs), by function name *)
    (match List.find_opt (fun e -> string_of_chars (fst e) = fn) (Lazy.force css_handlers_env) with
     | Some e -> print_string (if snd e (bytes_of_hex hex) then "V 1\n" else "V 0\n")
     | None -> print_string "ERR no-such-handler-definition\n")
  | ["RC"; vals; sets] ->
    (* recursiveCheck: components (comma-separated hex, "_" = none), sub-handlers as finite sets (";"-separated lists) *)
    let hx s = if s = "e" then [] else bytes_of_hex s in   (* "e" = the empty string *)
    let hl s = if s = "_" then [] else List.map hx (String.split_on_char ',' s) in
    let one s = if s = "-" then [] else hl s in
    let (r, c) = rc_sets (hl vals) (List.map one (String.split_on_char ';' sets)) in
    print_string ("V " ^ (if r then "1" else "0") ^ " " ^ string_of_int (int_of_nat c) ^ "\n")
  | ["EQFOLD"; a; b] -> print_string (if equal_fold (bytes_of_hex a) (bytes_of_hex b) then "V 1\n" else "V 0\n")
  | ["DUMP"; id] -> dump_policy (get_policy id)
  | ["DUMPSHIPPED"; which] ->
    let p = (match which with "ugc" -> ugc | "strict" -> strict | _ -> failwith "shipped") in
    dump_policy_gen (fun (name, _) -> string_of_chars name) (fun () -> "?") (fun () -> "?") p
  | cmd :: _ -> failwith ("unknown command " ^ cmd)

let () =
  try
    while true do
      let line = input_line stdin in
      (try handle_line line with
       | Failure msg -> Printf.printf "ERR %s\n" msg
       | Not_found -> print_string "ERR not-found\n")
    done
  with End_of_file -> ()
