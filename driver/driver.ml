(* Correspondence driver: runs the extracted Coq model (model.ml) on case files written by the
   Go harness and prints one observation per line.  Trusted for the correspondence only. *)
open Model

let rec pos_of_int (i : int) : positive =
  if i = 1 then XH else if i land 1 = 0 then XO (pos_of_int (i lsr 1)) else XI (pos_of_int (i lsr 1))
let n_of_int (i : int) : n = if i = 0 then N0 else Npos (pos_of_int i)
let rec int_of_pos (p : positive) : int =
  match p with XH -> 1 | XO q -> 2 * int_of_pos q | XI q -> 2 * int_of_pos q + 1
let int_of_n (x : n) : int = match x with N0 -> 0 | Npos p -> int_of_pos p

let char_of_ascii (a : ascii) : char =
  match a with Ascii (b0, b1, b2, b3, b4, b5, b6, b7) ->
    let v b k = if b then 1 lsl k else 0 in
    Char.chr (v b0 0 + v b1 1 + v b2 2 + v b3 3 + v b4 4 + v b5 5 + v b6 6 + v b7 7)
let rec string_of_chars (s : Model.string) : String.t =
  match s with EmptyString -> "" | String (a, r) -> String.make 1 (char_of_ascii a) ^ string_of_chars r

let bytes_of_hex (h : String.t) : n list =
  if h = "-" then [] else begin
    let l = String.length h / 2 in
    let rec go i acc = if i < 0 then acc else go (i - 1) (n_of_int (int_of_string ("0x" ^ String.sub h (2 * i) 2)) :: acc) in
    go (l - 1) []
  end
let hex_of_bytes (b : n list) : String.t =
  if b = [] then "-" else String.concat "" (List.map (fun x -> Printf.sprintf "%02x" (int_of_n x)) b)

(* regexp wire format (prefix):  E e B Z | C neg n lo hi .. | . a b | '|' a b | * a *)
let parse_re (toks : String.t list) : re * String.t list =
  let rec go toks =
    match toks with
    | "E" :: r -> (Emp, r)
    | "e" :: r -> (Eps, r)
    | "B" :: r -> (Bot, r)
    | "Z" :: r -> (Eot, r)
    | "C" :: neg :: cnt :: r ->
      let k = int_of_string cnt in
      let rec rd i r acc =
        if i = 0 then (List.rev acc, r) else
        match r with
        | lo :: hi :: r' -> rd (i - 1) r' ((n_of_int (int_of_string lo), n_of_int (int_of_string hi)) :: acc)
        | _ -> failwith "bad class" in
      let (cls, r') = rd k r [] in
      (Chr (neg = "1", cls), r')
    | "." :: r -> let (a, r1) = go r in let (b, r2) = go r1 in (Cat (a, b), r2)
    | "|" :: r -> let (a, r1) = go r in let (b, r2) = go r1 in (Alt (a, b), r2)
    | "*" :: r -> let (a, r1) = go r in (Star a, r1)
    | t :: _ -> failwith ("bad regexp token " ^ t)
    | [] -> failwith "regexp truncated" in
  go toks

let regexps : (String.t, re) Hashtbl.t = Hashtbl.create 97

let split_ws (s : String.t) : String.t list =
  List.filter (fun x -> x <> "") (String.split_on_char ' ' s)

let handle_line (line : String.t) : unit =
  match split_ws line with
  | [] -> ()
  | ["F"] -> flush stdout
  | "RX" :: id :: toks ->
    let (r, rest) = parse_re toks in
    if rest <> [] then failwith "trailing regexp tokens";
    Hashtbl.replace regexps id r
  | ["M"; id; hex] ->
    let r = Hashtbl.find regexps id in
    print_string (if search r (runes (bytes_of_hex hex)) then "1\n" else "0\n")
  | ["REPORT"; "C19"] ->
    List.iter (fun (name, obs) ->
      List.iter (fun (kind, w) ->
        let st = match w with
          | None -> "out-of-fuel -"
          | Some None -> "holds -"
          | Some (Some l) -> "fails " ^ (if l = [] then "-" else String.concat "," (List.map (fun x -> string_of_int (int_of_n x)) l)) in
        Printf.printf "R %s %s %s\n" (string_of_chars name) (string_of_chars kind) st) obs) c19_report;
    print_string "END\n"
  | cmd :: _ -> failwith ("unknown command " ^ cmd)

let () =
  try
    while true do
      let line = input_line stdin in
      (try handle_line line with
       | Failure m -> Printf.printf "ERR %s\n" m
       | Not_found -> print_string "ERR not-found\n")
    done
  with End_of_file -> ()
