(* C15  All entry points agree, independent of chunking and writer type.  (partial: chunking)
   In the model a source is the concatenation of what its Read calls deliver, so independence
   of chunking holds by construction; the code that could break it is x/net/html's buffering.
   It is exercised by the entry correspondence (every split point, one byte at a time,
   zero-length reads, data+EOF, both writer kinds, the two cmd binaries). *)
From Coq Require Import List NArith Bool.
Import ListNotations.
From BM Require Import Bytes Tokenizer Policy Loop Entry LoopInv EntryProofs.

Section C15.
  Variables M U R : Type.
  Variable I : interp M U R.
  Variable p : policy M U R.

  Theorem C15_agree : forall s, is_blank s = false ->
    Sanitize I p s = sanitize_bytes I p s /\
    SanitizeBytes I p s = sanitize_bytes I p s /\
    SanitizeReader I p {| src_data := s; src_eof := true |} = sanitize_bytes I p s /\
    (forall w, (forall j, w j = true) ->
       sanitize_rw I p {| src_data := s; src_eof := true |} w
       = (map data (chunks_of I p s), length (chunks_of I p s), ErrNone)).
  Proof. exact (entry_points_agree I p). Qed.

  (* what the destination received is the same byte string for every well-behaved writer *)
  Corollary C15_written_bytes : forall s w, is_blank s = false -> (forall j, w j = true) ->
    concat (fst (fst (sanitize_rw I p {| src_data := s; src_eof := true |} w))) = Sanitize I p s.
  Proof.
    intros s w Hb Hw. destruct (entry_points_agree I p s Hb) as (H1 & _ & _ & H4).
    rewrite (H4 w Hw), H1. cbn [fst]. apply chunks_concat.
  Qed.

  Theorem C15_blank : forall s, is_blank s = true -> Sanitize I p s = s /\ SanitizeBytes I p s = s.
  Proof. exact (blank_unchanged I p). Qed.
End C15.

Print Assumptions C15_agree.
Print Assumptions C15_written_bytes.
Print Assumptions C15_blank.
