(* C11  Link hardening: nofollow, noreferrer, noopener and _blank are really present.  (partial)
   Proved, for every attribute list (any order and multiplicity of href/rel/target), every rel value
   and every option combination, about the two loops of the link-hardening block:
     - first loop: every rel attribute of its result carries the required tokens as whole,
       ASCII-case-insensitive, white-space separated tokens; the "found" flags are exactly
       "a rel attribute was seen"; href attributes are untouched; with AddTargetBlank the first
       target of the result is _blank; the target flag is exactly "some target is _blank";
     - second loop: every rel attribute carries noopener and one exists; tokens present before survive;
     - a required token is not appended when present as a token; values are only extended.
   Missing for the full statement: the composition of these facts through the flag plumbing of
   link_pass / sanitizeAttrs (about 40 lines of straight-line code); it is covered by the link
   correspondence (all 32 option combinations x generated attribute lists) and the output oracle. *)
From Coq Require Import List NArith Bool.
Import ListNotations.
From BM Require Import Bytes Strings Tokenizer Policy Attrs GenTables Forced TablesInst ForcedAttrs LinkProofs.

Theorem C11_first_loop_partial : forall (is_a addNF addNR addTB : bool) attrs nf nr tb r nf' nr' tb',
  link_pass1 is_a addNF addNR addTB attrs nf nr tb = (r, nf', nr', tb') ->
  ((addNF || addNR = true) ->
     rel_all (fun v => (addNF = true -> has_tok (B"nofollow") v) /\ (addNR = true -> has_tok (B"noreferrer") v)) r) /\
  (if (addNF || addNR) && has_rel attrs then nf' = addNF /\ nr' = addNR else nf' = nf /\ nr' = nr) /\
  has_rel r = has_rel attrs /\
  filter (key_is (B"href")) r = filter (key_is (B"href")) attrs /\
  (is_a = true -> tb' = tb || existsb (fun a => key_is (B"target") a && beqb (aval a) (B"_blank")) r) /\
  (is_a = false -> tb' = tb) /\
  (is_a = true -> addTB = true -> tb = false ->
     match filter (key_is (B"target")) r with [] => True | t :: _ => aval t = B"_blank" end).
Proof. exact lp1_spec. Qed.

Theorem C11_noopener_loop_partial : forall attrs,
  has_rel (noopener_pass attrs) = true /\ rel_all (has_tok (B"noopener")) (noopener_pass attrs).
Proof. exact noopener_pass_spec. Qed.

Theorem C11_noopener_keeps_tokens : forall attrs t,
  has_rel attrs = true -> rel_all (has_tok t) attrs -> rel_all (has_tok t) (noopener_pass attrs).
Proof. exact noopener_pass_keeps. Qed.

Theorem C11_no_duplicate : forall c w v, has_tok w v -> add_word c w v = v.
Proof. exact add_word_nodup. Qed.
Theorem C11_tokens_kept : forall c w v, exists suffix, add_word c w v = v ++ suffix.
Proof. exact add_word_extends. Qed.

(* a, area and link are among the elements the rel/target block applies to *)
Theorem C11_elements : subset link_rel_documented link_rel_elements = true /\ subset link_rel_elements linkable_elements = true.
Proof. split; [exact link_rel_table_documented | exact link_rel_linkable]. Qed.

Print Assumptions C11_first_loop_partial.
Print Assumptions C11_noopener_loop_partial.
Print Assumptions C11_noopener_keeps_tokens.
Print Assumptions C11_elements.
