(* C11  Link hardening: nofollow, noreferrer, noopener and _blank are really present.  (partial)
   Proved, for every attribute list (any order and multiplicity of href/rel/target), every rel value
   and every option combination, about the two loops of the link-hardening block:
     - first loop: every rel attribute of its result carries the required tokens as whole,
       ASCII-case-insensitive, white-space separated tokens; the "found" flags are exactly
       "a rel attribute was seen"; href attributes are untouched; with AddTargetBlank the first
       target of the result is _blank; the target flag is exactly "some target is _blank";
     - second loop: every rel attribute carries noopener and one exists; tokens present before survive;
     - a required token is not appended when present as a token; values are only extended.
   Composition (C11_attrs, Proofs/LinkCompose.v): for the list sanitizeAttrs returns, for every
   policy with one of the five options on, every element of the rel/target table (a, area, link and
   base) and every attribute list: if the result carries an href (ext = some href of the result
   has a host), then with RequireNoFollow / RequireNoReferrer (or the fully-qualified variants and
   ext) a rel attribute exists and every rel attribute has the token; for a with ext and
   AddTargetBlank the first target attribute exists and is _blank; for a, if some target of the
   result is _blank, a rel attribute exists and every rel attribute has noopener; tokens that were
   on every rel attribute after the filtering loop are still on every rel attribute.  With
   C11_no_duplicate / C11_tokens_kept (values are only extended, by missing tokens).
   C11_output_tokens: the same for the attributes of every a/area/link/base tag that a tokenizer
   reads from the output bytes (policies without AllowUnsafe and raw-text elements).
   Missing: byte level for policies with raw-text elements; covered by the link
   correspondence (all 32 option combinations x generated attribute lists) and the output oracle. *)
From Coq Require Import List NArith Bool.
Import ListNotations.
From BM Require Import Bytes Strings Tokenizer Policy Attrs Loop GenTables Forced TablesInst ForcedAttrs LinkProofs LinkCompose SanRoundTrip TokenLevel.

Theorem C11_first_loop_partial : forall (is_a addNF addNR addTB : bool) attrs nf nr tb r nf' nr' tb',
  link_pass1 is_a addNF addNR addTB attrs nf nr tb = (r, nf', nr', tb') ->
  ((addNF || addNR = true) ->
     rel_all (fun v => (addNF = true -> has_tok (B"nofollow") v) /\ (addNR = true -> has_tok (B"noreferrer") v)) r) /\
  (if (addNF || addNR) && has_rel attrs then nf' = addNF /\ nr' = addNR else nf' = nf /\ nr' = nr) /\
  has_rel r = has_rel attrs /\
  filter (key_is (B"href")) r = filter (key_is (B"href")) attrs /\
  (is_a = true -> tb' = tb || existsb (fun a => key_is (B"target") a && beqb (aval a) (B"_blank")) r) /\
  (is_a = false -> tb' = tb) /\
  (is_a = true -> addTB = true -> tb = false ->
     match filter (key_is (B"target")) r with [] => True | t :: _ => aval t = B"_blank" end).
Proof. exact lp1_spec. Qed.

Theorem C11_noopener_loop_partial : forall attrs,
  has_rel (noopener_pass attrs) = true /\ rel_all (has_tok (B"noopener")) (noopener_pass attrs).
Proof. exact noopener_pass_spec. Qed.

Theorem C11_noopener_keeps_tokens : forall attrs t,
  has_rel attrs = true -> rel_all (has_tok t) attrs -> rel_all (has_tok t) (noopener_pass attrs).
Proof. exact noopener_pass_keeps. Qed.

Theorem C11_no_duplicate : forall c w v, has_tok w v -> add_word c w v = v.
Proof. exact add_word_nodup. Qed.
Theorem C11_tokens_kept : forall c w v, exists suffix, add_word c w v = v ++ suffix.
Proof. exact add_word_extends. Qed.

(* a, area and link are among the elements the rel/target block applies to *)
Theorem C11_elements : subset link_rel_documented link_rel_elements = true /\ subset link_rel_elements linkable_elements = true.
Proof. split; [exact link_rel_table_documented | exact link_rel_linkable]. Qed.

Lemma link_rel_linkable_all : forall e, mem e link_rel_elements = true -> linkable e = true.
Proof.
  intros e He. pose proof link_rel_linkable as T. unfold subset in T. rewrite forallb_forall in T.
  unfold linkable. apply T. apply mem_In. exact He.
Qed.

Section C11.
  Variables M U R : Type.
  Variable I : interp M U R.
  Variable p : policy M U R.

  Definition link_hardened (elem : bytes) (out : list attr) (ext : bool) : Prop :=
    let NF := requireNoFollow p || (ext && requireNoFollowFQ p) in
    let NR := requireNoReferrer p || (ext && requireNoReferrerFQ p) in
    (NF = true -> has_rel out = true /\ rel_all (has_tok (B"nofollow")) out) /\
    (NR = true -> has_rel out = true /\ rel_all (has_tok (B"noreferrer")) out) /\
    (beqb elem (B"a") = true -> ext && addTargetBlank p = true -> first_target_blank out) /\
    (beqb elem (B"a") = true -> has_blank_target out = true -> has_rel out = true /\ rel_all (has_tok (B"noopener")) out).

  Theorem C11_attrs : forall elem attrs aps ext,
    link_options_on M U R p = true -> mem elem link_rel_elements = true ->
    href_external I (sanitize_attrs I p elem attrs aps) = (true, ext) ->
    link_hardened elem (sanitize_attrs I p elem attrs aps) ext /\
    (forall t, let clean := flat_map (filter_attr I p elem aps (has_style_policies I p elem)) attrs in
               has_rel clean = true -> rel_all (has_tok t) clean -> rel_all (has_tok t) (sanitize_attrs I p elem attrs aps)).
  Proof.
    intros elem attrs aps ext Ho He Hh.
    pose proof (sanitize_attrs_links M U R I p link_rel_linkable_all elem attrs aps ext) as S. cbv zeta in S.
    destruct (S Ho He Hh) as (S1 & S2 & S3 & S4 & S5). split; [|exact S5].
    unfold link_hardened. cbv zeta. auto.
  Qed.

  (* the tags a tokenizer reads from the output bytes *)
  Theorem C11_output_tokens : plain_policy I p -> link_options_on M U R p = true -> forall s n a' ext,
    In (TStart n a') (tokenize (sanitize_bytes I p s)) \/ In (TSelf n a') (tokenize (sanitize_bytes I p s)) ->
    mem n link_rel_elements = true -> href_external I a' = (true, ext) ->
    link_hardened n a' ext.
  Proof.
    intros Hplain Ho s n a' ext Hin He Hh.
    assert (H : exists a aps, a' = clean_attrs I p n a aps).
    { destruct Hin as [Hin|Hin]; pose proof (output_token_provenance M U R I p Hplain s _ Hin) as H; cbn in H;
        destruct H as (_ & _ & a & aps & _ & _ & Ha & _); eauto. }
    destruct H as (a & aps & ->). unfold clean_attrs in *. destruct a as [|a0 ar]; [discriminate Hh|].
    apply (C11_attrs n (a0 :: ar) aps ext Ho He Hh).
  Qed.
End C11.

Print Assumptions C11_first_loop_partial.
Print Assumptions C11_attrs.
Print Assumptions C11_output_tokens.
Print Assumptions C11_noopener_loop_partial.
Print Assumptions C11_noopener_keeps_tokens.
Print Assumptions C11_elements.

(* non-vacuity: a policy with RequireNoFollowOnLinks and AddTargetBlankToFullyQualifiedLinks, an a
   element with a host-qualified href; the oracle is a fixed parse result *)
From BM Require Import Builder GenScripts C04Inst.
Definition ex_interp : interp smatcher unit unit :=
  {| mmatch := fun _ _ => true; upol := fun _ _ => true; rewrite := fun _ b => b;
     url_parse := fun b => Some {| u_scheme := B"http"; u_host := B"example.com"; u_opaque := []; u_rawquery := [];
                                   u_fragment := []; u_string := b |};
     css_decls := fun _ => None |}.
Definition ex_policy : policy smatcher unit unit :=
  build no_default [@OAllowAttrs _ _ _ [B"href"] None false (@OnElements _ [B"a"]); @OAllowURLSchemes _ _ _ [B"http"];
                    @ORequireNoFollowOnLinks _ _ _ true; @OAddTargetBlankToFullyQualifiedLinks _ _ _ true].
Definition ex_aps := match lookup (B"a") (elsAndAttrs ex_policy) with Some aps => aps | None => [] end.
Example C11_example_premises :
  link_options_on _ _ _ ex_policy = true /\ mem (B"a") link_rel_elements = true /\
  href_external ex_interp (sanitize_attrs ex_interp ex_policy (B"a") [(B"href", B"http://example.com/")] ex_aps) = (true, true).
Proof. split; [vm_compute; reflexivity|]. split; vm_compute; reflexivity. Qed.
Example C11_example_result :
  sanitize_attrs ex_interp ex_policy (B"a") [(B"href", B"http://example.com/")] ex_aps =
    [(B"href", B"http://example.com/"); (B"rel", B"nofollow noopener"); (B"target", B"_blank")].
Proof. vm_compute. reflexivity. Qed.
