(* C20  Re-sanitising sanitised output is a no-op.   (partial)
   Proved, the three mechanisms the property names: escaping is not applied twice (the text the
   tokenizer reads back from an emitted text item renders to the same bytes), added rel tokens are
   not repeated (adding a required token is idempotent), and a value accepted by the URL gate is
   u.String() of a parse (C03), whose stability under a second parse is the monitored net/url
   hypothesis U5.
   Proved for whole documents (C20_idempotent_if_attrs_stable), for every policy that keeps no
   comments and allows no raw-text element: if the attribute filter is idempotent on its own
   output for the policy's elements, then Sanitize(Sanitize(x)) = Sanitize(x) for every byte
   string x.  This composes the round-trip theorem (the tokenizer reads back exactly the emitted
   items), the pass-through theorem (canonical items are emitted unchanged) and the escaping
   round trip; it reduces the property to the attribute filter.  The premise holds outright for
   StrictPolicy (C20_strict) and for every element whose attribute list passes through none of the
   rewriting passes (C20_attrs_stable_plain_elements).
   REFUTED in general (C20_refuted_forced_attr_order): trying to prove the premise for link elements
   showed that it is false when the policy allows only one of rel / target on the element and the
   sanitiser has to add both: the first pass writes href rel target, the second drops the forced
   attribute that is not allowed, keeps the other in place and appends the dropped one again at
   the end (href target rel).  The witness is computed on the model and replayed on the
   implementation (known finding F15).
   Missing: the premise for elements with URL attributes / forced attributes when the policy
   allows all or none of the forced attributes (it needs the net/url stability hypothesis U5 and
   the rel-token lemmas composed through both runs); carried by the idempotence oracle on every
   generated case of the stated policy class (link grid included), StrictPolicy and UGCPolicy. *)
From Coq Require Import List NArith Bool.
Import ListNotations.
From BM Require Import Bytes Escape Tokenizer Policy Attrs Loop LoopProps EscapeProofs LinkProofs MiscProofs SanRoundTrip PassThrough AttrIdem Builder GenScripts C04Inst PlainInst.

Theorem C20_escaping_not_applied_twice_partial : forall d,
  render_item (IText (unescape false (render_item (IText d)))) = render_item (IText d).
Proof. exact text_rendering_stable. Qed.

Theorem C20_rel_tokens_not_repeated : forall c v,
  add_word c (B"nofollow") (add_word c (B"nofollow") v) = add_word c (B"nofollow") v /\
  add_word c (B"noreferrer") (add_word c (B"noreferrer") v) = add_word c (B"noreferrer") v.
Proof.
  intros c v. destruct words_ok as ((W1 & W2) & (W3 & W4) & _). split; apply add_word_idem; auto.
Qed.

Theorem C20_idempotent_if_attrs_stable : forall M U R (I : interp M U R) (p : policy M U R),
  plain_policy I p -> allowComments p = false ->
  (forall n a aps, element_policies I p n = Some aps ->
     clean_attrs I p n (clean_attrs I p n a aps) aps = clean_attrs I p n a aps) ->
  forall s, sanitize_bytes I p (sanitize_bytes I p s) = sanitize_bytes I p s.
Proof. intros M U R I p. exact (sanitize_idempotent I p). Qed.

(* the premise, for elements whose attributes no later pass rewrites (not a URL-carrying,
   crossorigin or sandbox element, no style rules) *)
Theorem C20_attrs_stable_plain_elements : forall M U R (I : interp M U R) (p : policy M U R) n a aps,
  linkable n = false -> has_style_policies I p n = false ->
  clean_attrs I p n (clean_attrs I p n a aps) aps = clean_attrs I p n a aps.
Proof. intros M U R I p n a aps. exact (clean_attrs_idem_plain I p n a aps). Qed.

(* hence: policies all of whose elements are of that kind are idempotent on every input *)
Corollary C20_idempotent_plain_elements : forall M U R (I : interp M U R) (p : policy M U R),
  plain_policy I p -> allowComments p = false ->
  (forall n, elem_allowed I p n = true -> linkable n = false /\ has_style_policies I p n = false) ->
  forall s, sanitize_bytes I p (sanitize_bytes I p s) = sanitize_bytes I p s.
Proof.
  intros M U R I p Hplain Hnc Hel. apply (sanitize_idempotent I p Hplain Hnc).
  intros n a aps Hp. assert (Ha : elem_allowed I p n = true) by (rewrite element_policies_allowed, Hp; reflexivity).
  destruct (Hel n Ha) as [H1 H2]. apply clean_attrs_idem_plain; assumption.
Qed.

Theorem C20_strict : forall (I : interp smatcher unit unit) s,
  sanitize_bytes I strict (sanitize_bytes I strict s) = sanitize_bytes I strict s.
Proof.
  intros I. apply (sanitize_idempotent I strict (strict_plain I) strict_no_comments).
  intros n a aps Hp. pose proof (element_policies_allowed I strict n) as E.
  rewrite (strict_nothing I), Hp in E. discriminate.
Qed.

(* the full statement is false of the faithful model: a policy of the stated class (no raw-text
   element, no comments, no value pattern on a rewritten attribute, no rewriter) and an input on
   which sanitising twice differs from sanitising once; the oracle is a fixed parse result *)
Definition c20_interp : interp smatcher unit unit :=
  {| mmatch := fun _ _ => true; upol := fun _ _ => true; rewrite := fun _ b => b;
     url_parse := fun b => Some {| u_scheme := B"http"; u_host := B"example.org"; u_opaque := []; u_rawquery := [];
                                   u_fragment := []; u_string := b |};
     css_decls := fun _ => None |}.
Definition c20_policy : policy smatcher unit unit :=
  build no_default [@OAllowAttrs _ _ _ [B"href"; B"target"] None false (@OnElements _ [B"a"]); @OAllowURLSchemes _ _ _ [B"http"];
                    @ORequireNoFollowOnLinks _ _ _ true; @OAddTargetBlankToFullyQualifiedLinks _ _ _ true].
Definition c20_input : bytes := B"<a href=""http://example.org/"">t".
Theorem C20_refuted_forced_attr_order :
  plain_policy c20_interp c20_policy /\ allowComments c20_policy = false /\
  sanitize_bytes c20_interp c20_policy c20_input = B"<a href=""http://example.org/"" rel=""nofollow noopener"" target=""_blank"">t" /\
  sanitize_bytes c20_interp c20_policy (sanitize_bytes c20_interp c20_policy c20_input)
    = B"<a href=""http://example.org/"" target=""_blank"" rel=""nofollow noopener"">t".
Proof.
  split; [|split; [vm_compute; reflexivity | split; vm_compute; reflexivity]].
  split; [vm_compute; reflexivity|].
  intros n Hn. unfold is_raw_name in Hn. apply existsb_exists in Hn as (x & Hx & E). apply beqb_eq in E. subst x.
  cbn in Hx. repeat (destruct Hx as [<-|Hx]; [vm_compute; reflexivity|]). contradiction.
Qed.

Print Assumptions C20_escaping_not_applied_twice_partial.
Print Assumptions C20_refuted_forced_attr_order.
Print Assumptions C20_idempotent_if_attrs_stable.
Print Assumptions C20_strict.
Print Assumptions C20_attrs_stable_plain_elements.
Print Assumptions C20_idempotent_plain_elements.
Print Assumptions C20_rel_tokens_not_repeated.
