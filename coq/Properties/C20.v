(* C20  Re-sanitising sanitised output is a no-op.   (partial)
   Proved, the three mechanisms the property names: escaping is not applied twice (the text the
   tokenizer reads back from an emitted text item renders to the same bytes), added rel tokens are
   not repeated (adding a required token is idempotent), and a value accepted by the URL gate is
   u.String() of a parse (C03), whose stability under a second parse is the monitored net/url
   hypothesis U5.  Missing: the composition over whole documents (needs Html/RoundTrip); carried
   by the idempotence oracle Sanitize(Sanitize(x)) = Sanitize(x) on every generated case of the
   stated policy class, StrictPolicy and UGCPolicy. *)
From Coq Require Import List NArith Bool.
Import ListNotations.
From BM Require Import Bytes Escape Tokenizer Policy Attrs Loop EscapeProofs LinkProofs MiscProofs.

Theorem C20_escaping_not_applied_twice_partial : forall d,
  render_item (IText (unescape false (render_item (IText d)))) = render_item (IText d).
Proof. exact text_rendering_stable. Qed.

Theorem C20_rel_tokens_not_repeated : forall c v,
  add_word c (B"nofollow") (add_word c (B"nofollow") v) = add_word c (B"nofollow") v /\
  add_word c (B"noreferrer") (add_word c (B"noreferrer") v) = add_word c (B"noreferrer") v.
Proof.
  intros c v. destruct words_ok as ((W1 & W2) & (W3 & W4) & _). split; apply add_word_idem; auto.
Qed.

Print Assumptions C20_escaping_not_applied_twice_partial.
Print Assumptions C20_rel_tokens_not_repeated.
