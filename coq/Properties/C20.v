(* C20  Re-sanitising sanitised output is a no-op.   (partial)
   Proved, the three mechanisms the property names: escaping is not applied twice (the text the
   tokenizer reads back from an emitted text item renders to the same bytes), added rel tokens are
   not repeated (adding a required token is idempotent), and a value accepted by the URL gate is
   u.String() of a parse (C03), whose stability under a second parse is the monitored net/url
   hypothesis U5.
   Proved for whole documents (C20_idempotent_if_attrs_stable), for every policy that keeps no
   comments and allows no raw-text element: if the attribute filter is idempotent on its own
   output for the policy's elements, then Sanitize(Sanitize(x)) = Sanitize(x) for every byte
   string x.  This composes the round-trip theorem (the tokenizer reads back exactly the emitted
   items), the pass-through theorem (canonical items are emitted unchanged) and the escaping
   round trip; it reduces the property to the attribute filter.  The premise holds outright for
   StrictPolicy (C20_strict) and for every element whose attribute list passes through none of the
   rewriting passes (C20_attrs_stable_plain_elements).
   REFUTED in general (C20_refuted_forced_attr_order): trying to prove the premise for link elements
   showed that it is false when the policy allows only one of rel / target on the element and the
   sanitiser has to add both: the first pass writes href rel target, the second drops the forced
   attribute that is not allowed, keeps the other in place and appends the dropped one again at
   the end (href target rel).  The witness is computed on the model and replayed on the
   implementation (known finding F15).
   The premise is PROVED (C20_attrs_stable_forced_rejected, Proofs/AttrIdemLinks.v) for every link /
   URL element on which the policy allows NONE of the forced attributes and attaches no pattern to
   the URL attribute, under the net/url stability hypothesis U5 (a value validURL returned is
   returned unchanged when validated again: a hypothesis about the oracle, monitored by the
   harness): the second pass drops the forced attributes, finds the rest unchanged and forces the
   same attributes again.  Hence C20_idempotent_stable_elements (whole documents, every such
   policy) and C20_ugc (UGCPolicy as regenerated from policies.go, every input without area, del
   and ins tags: the three UGC elements that carry a patterned rel or cite).
   The premise is also PROVED (C20_attrs_stable_forced_accepted_or_rejected, Proofs/LinkIdem.v and
   AttrIdemAccepted.v) for elements on which the policy allows, without a pattern, EVERY attribute a
   pass can force on that element: link_pass returns unchanged any list that meets its own
   postcondition (hence is idempotent, C20_link_passes_idempotent), the crossorigin pass likewise
   and it does not disturb the former.  Enumerating the mixed cases that remain gave a second
   refutation (C20_refuted_forced_attr_order_crossorigin, finding F17: crossorigin allowed on link,
   rel not).
   On a both mixed cases reorder (with rel allowed and target not, the noopener pass appends
   rel="noopener" behind the forced target: F15 in the other direction).
   A tag whose URL attribute does not survive the first pass is stable without any condition on
   patterns or on net/url (C20_attrs_stable_no_surviving_url, Proofs/AttrIdemNoUrl.v); hence
   C20_ugc_no_surviving_url: UGCPolicy, every input, provided no del / ins cite and no area href
   survives the first pass.
   The remaining combinations (none of the attributes forced on the element allowed; link with
   rel allowed and crossorigin not) are proved in Proofs/AttrIdemRelevant.v:
   C20_idempotent_stable_elements3, with C20_condition_separates showing that the decidable
   condition accepts them and rejects the two refuting policies.
   UGC's area as a link: SpaceSeparatedTokens, as regenerated, is closed under the rewriting of the
   link pass (Instances/UGCRelClosed.v, by the verified exploration of every residual), hence
   C20_ugc_every_input: UGCPolicy, every input, under the property's own proviso for del / ins.
   Elements with style rules are covered by the same theorems: their premise style_stable (the style
   filter returns a value it produced unchanged) is vacuous without style rules and follows from
   parse_stable, a statement about the declaration parser (Proofs/StyleIdem.v,
   C20_idempotent_with_styles); the harness re-applies the real sanitizeStyles to every value it
   returned.
   C20_class_decided: where no value pattern decides about rel, target, crossorigin or the URL
   attribute, the condition of these theorems holds or the element has the F15 / F17 shape, so the
   property's class is decided completely (under U5 and style_stable).
   Missing: policies with patterned forced attributes other than UGC's (outside the class); carried by the idempotence oracle on every generated case of
   the stated policy class (link grid included), StrictPolicy and UGCPolicy. *)
From Coq Require Import List NArith Bool.
Import ListNotations.
From BM Require Import Bytes Escape Tokenizer Policy Attrs Loop LoopProps EscapeProofs LinkProofs MiscProofs Url Style MapProofs SanRoundTrip PassThrough AttrIdem AttrProvenance AttrIdemLinks LinkIdem AttrIdemAccepted AttrIdemNoUrl AttrIdemRelevant AttrIdemRelClosed StyleIdem Utf8 Regex UGCRelClosed Builder GenTables GenScripts UGCSpec C04Inst PlainInst.

Theorem C20_escaping_not_applied_twice_partial : forall d,
  render_item (IText (unescape false (render_item (IText d)))) = render_item (IText d).
Proof. exact text_rendering_stable. Qed.

Theorem C20_rel_tokens_not_repeated : forall c v,
  add_word c (B"nofollow") (add_word c (B"nofollow") v) = add_word c (B"nofollow") v /\
  add_word c (B"noreferrer") (add_word c (B"noreferrer") v) = add_word c (B"noreferrer") v.
Proof.
  intros c v. destruct words_ok as ((W1 & W2) & (W3 & W4) & _). split; apply add_word_idem; auto.
Qed.

Theorem C20_idempotent_if_attrs_stable : forall M U R (I : interp M U R) (p : policy M U R),
  plain_policy I p -> allowComments p = false ->
  (forall n a aps, element_policies I p n = Some aps ->
     clean_attrs I p n (clean_attrs I p n a aps) aps = clean_attrs I p n a aps) ->
  forall s, sanitize_bytes I p (sanitize_bytes I p s) = sanitize_bytes I p s.
Proof. intros M U R I p. exact (sanitize_idempotent I p). Qed.

(* the premise, for elements whose attributes no later pass rewrites (not a URL-carrying,
   crossorigin or sandbox element, no style rules) *)
Theorem C20_attrs_stable_plain_elements : forall M U R (I : interp M U R) (p : policy M U R) n a aps,
  linkable n = false -> style_stable M U R I p n ->
  clean_attrs I p n (clean_attrs I p n a aps) aps = clean_attrs I p n a aps.
Proof. intros M U R I p n a aps. exact (clean_attrs_idem_plain I p n a aps). Qed.

(* hence: policies all of whose elements are of that kind are idempotent on every input *)
Corollary C20_idempotent_plain_elements : forall M U R (I : interp M U R) (p : policy M U R),
  plain_policy I p -> allowComments p = false ->
  (forall n, elem_allowed I p n = true -> linkable n = false /\ style_stable M U R I p n) ->
  forall s, sanitize_bytes I p (sanitize_bytes I p s) = sanitize_bytes I p s.
Proof.
  intros M U R I p Hplain Hnc Hel. apply (sanitize_idempotent I p Hplain Hnc).
  intros n a aps Hp. assert (Ha : elem_allowed I p n = true) by (rewrite element_policies_allowed, Hp; reflexivity).
  destruct (Hel n Ha) as [H1 H2]. apply clean_attrs_idem_plain; assumption.
Qed.

(* the premise for link / URL elements whose forced attributes the policy does not allow *)
Theorem C20_attrs_stable_forced_rejected : forall M U R (I : interp M U R) (p : policy M U R),
  srcRewriter p = None -> (forall raw u, valid_url I p raw = Some u -> valid_url I p u = Some u) ->
  forall n aps a, style_stable M U R I p n -> elem_stable_b p n aps = true ->
  clean_attrs I p n (clean_attrs I p n a aps) aps = clean_attrs I p n a aps.
Proof. intros M U R I p Hrw Hst n aps a. exact (elem_stable_sound I p Hrw Hst n aps a). Qed.

Theorem C20_idempotent_stable_elements : forall M U R (I : interp M U R) (p : policy M U R),
  plain_policy I p -> allowComments p = false -> srcRewriter p = None ->
  (forall raw u, valid_url I p raw = Some u -> valid_url I p u = Some u) ->
  forall s,
  (forall n a aps, In (TStart n a) (tokenize s) \/ In (TSelf n a) (tokenize s) -> element_policies I p n = Some aps ->
     style_stable M U R I p n /\ elem_stable_b p n aps = true) ->
  sanitize_bytes I p (sanitize_bytes I p s) = sanitize_bytes I p s.
Proof.
  intros M U R I p Hplain Hnc Hrw Hst s Hel. apply (sanitize_idempotent_on I p Hplain Hnc).
  intros n a aps Hin Hp. destruct (Hel n a aps Hin Hp) as [H1 H2]. apply (elem_stable_sound I p Hrw Hst); assumption.
Qed.

(* the link-hardening and crossorigin passes, applied to their own result, change nothing *)
Theorem C20_link_passes_idempotent : forall M U R (I : interp M U R) (p : policy M U R) n l,
  link_pass I p n (link_pass I p n l) = link_pass I p n l /\
  crossorigin_pass p n (crossorigin_pass p n l) = crossorigin_pass p n l /\
  crossorigin_pass p n (link_pass I p n (crossorigin_pass p n (link_pass I p n l))) = crossorigin_pass p n (link_pass I p n l).
Proof.
  intros M U R I p n l. split; [apply link_pass_idem | split; [apply crossorigin_pass_idem | apply (link_crossorigin_idem M U R I p n l)]].
Qed.

(* the premise for link / URL elements on which the policy allows, without a pattern, EVERY attribute a pass can force
   on that element (rel on a/area/base/link, target on a, crossorigin on audio/img/link/script/video), or none of them *)
Theorem C20_attrs_stable_forced_accepted_or_rejected : forall M U R (I : interp M U R) (p : policy M U R),
  srcRewriter p = None -> (forall raw u, valid_url I p raw = Some u -> valid_url I p u = Some u) ->
  forall n aps a, style_stable M U R I p n -> elem_stable2_b p n aps = true ->
  clean_attrs I p n (clean_attrs I p n a aps) aps = clean_attrs I p n a aps.
Proof. intros M U R I p Hrw Hst n aps a. exact (elem_stable2_sound I p Hrw Hst n aps a). Qed.

Theorem C20_idempotent_stable_elements2 : forall M U R (I : interp M U R) (p : policy M U R),
  plain_policy I p -> allowComments p = false -> srcRewriter p = None ->
  (forall raw u, valid_url I p raw = Some u -> valid_url I p u = Some u) ->
  forall s,
  (forall n a aps, In (TStart n a) (tokenize s) \/ In (TSelf n a) (tokenize s) -> element_policies I p n = Some aps ->
     style_stable M U R I p n /\ elem_stable2_b p n aps = true) ->
  sanitize_bytes I p (sanitize_bytes I p s) = sanitize_bytes I p s.
Proof.
  intros M U R I p Hplain Hnc Hrw Hst s Hel. apply (sanitize_idempotent_on I p Hplain Hnc).
  intros n a aps Hin Hp. destruct (Hel n a aps Hin Hp) as [H1 H2]. apply (elem_stable2_sound I p Hrw Hst); assumption.
Qed.

(* all combinations: each attribute a pass can force on the element is allowed without a pattern or not allowed at all;
   stable when all are allowed, when none is, and on link when rel is allowed and crossorigin is not.  What is left out is
   exactly what F15 (a: one of rel / target) and F17 (link: crossorigin but not rel) refute. *)
Theorem C20_idempotent_stable_elements3 : forall M U R (I : interp M U R) (p : policy M U R),
  plain_policy I p -> allowComments p = false -> srcRewriter p = None ->
  (forall raw u, valid_url I p raw = Some u -> valid_url I p u = Some u) ->
  forall s,
  (forall n a aps, In (TStart n a) (tokenize s) \/ In (TSelf n a) (tokenize s) -> element_policies I p n = Some aps ->
     style_stable M U R I p n /\ elem_stable3_b p n aps = true) ->
  sanitize_bytes I p (sanitize_bytes I p s) = sanitize_bytes I p s.
Proof.
  intros M U R I p Hplain Hnc Hrw Hst s Hel. apply (sanitize_idempotent_on I p Hplain Hnc).
  intros n a aps Hin Hp. destruct (Hel n a aps Hin Hp) as [H1 H2]. apply (elem_stable3_sound I p Hrw Hst); assumption.
Qed.

(* not vacuous: a policy that allows href, rel and target on a and hardens links meets the condition on a
   (and not the older one: it allows forced attributes) *)
Definition c20_links_policy : policy smatcher unit unit :=
  build no_default [@OAllowAttrs _ _ _ [B"href"; B"rel"; B"target"] None false (@OnElements _ [B"a"]);
                    @OAllowAttrs _ _ _ [B"href"; B"rel"; B"crossorigin"] None false (@OnElements _ [B"link"]);
                    @OAllowURLSchemes _ _ _ [B"http"]; @ORequireNoFollowOnLinks _ _ _ true;
                    @OAddTargetBlankToFullyQualifiedLinks _ _ _ true; @ORequireCrossOriginAnonymous _ _ _ true].
Example C20_links_policy_stable :
  forallb (fun e => elem_stable2_b c20_links_policy (fst e) (snd e) && negb (elem_stable_b c20_links_policy (fst e) (snd e)))
          (elsAndAttrs c20_links_policy) = true /\ length (elsAndAttrs c20_links_policy) = 2%nat.
Proof. split; vm_compute; reflexivity. Qed.

(* elements with style rules: the premise asks that the style filter, applied to a value it produced, returns it unchanged
   (`style_stable`; vacuous without style rules).  That holds whenever the declaration parser reads a rebuilt declaration
   list back as the declarations it was built from, a statement about the parser oracle (douceur) which the harness checks on
   every style value it sees *)
Theorem C20_style_filter_stable : forall M U R (I : interp M U R) (p : policy M U R),
  parse_stable M U R I -> forall n, style_stable M U R I p n.
Proof. intros M U R I p H n. apply style_stable_of_parse_stable. exact H. Qed.

Corollary C20_idempotent_with_styles : forall M U R (I : interp M U R) (p : policy M U R),
  plain_policy I p -> allowComments p = false -> srcRewriter p = None ->
  (forall raw u, valid_url I p raw = Some u -> valid_url I p u = Some u) -> parse_stable M U R I ->
  forall s,
  (forall n a aps, In (TStart n a) (tokenize s) \/ In (TSelf n a) (tokenize s) -> element_policies I p n = Some aps ->
     elem_stable3_b p n aps = true) ->
  sanitize_bytes I p (sanitize_bytes I p s) = sanitize_bytes I p s.
Proof.
  intros M U R I p Hplain Hnc Hrw Hst Hps s Hel.
  apply (C20_idempotent_stable_elements3 M U R I p Hplain Hnc Hrw Hst).
  intros n a aps Hin Hp. split; [apply C20_style_filter_stable; exact Hps | exact (Hel n a aps Hin Hp)].
Qed.

(* the condition decides the class: on an element where no value pattern decides about rel, target, crossorigin or the URL
   attribute (and which is not a sandboxed iframe), either the condition of the theorems above holds, or the element has one
   of the two shapes on which the statement is refuted (F15: a with exactly one of rel / target allowed; F17: link with
   crossorigin allowed and rel not) *)
Theorem C20_class_decided : forall M U R (p : policy M U R) n aps,
  in_class_b M U R p n aps = true ->
  elem_stable3_b p n aps || f15_shape_b M U R p n aps || f17_shape_b M U R p n aps = true.
Proof. intros M U R p n aps. exact (class_decided M U R p n aps). Qed.

(* a statement about the policy alone, for policies without element patterns: a condition decided by computation on the
   policy's tables, and then every input *)
Definition c20_policy_ok {M U R} (p : policy M U R) : bool :=
  match elsMatchingAndAttrs p with [] => true | _ => false end &&
  forallb (fun e => elem_stable3_b p (fst e) (snd e)) (elsAndAttrs p).

Theorem C20_policy_level : forall M U R (I : interp M U R) (p : policy M U R),
  plain_policy I p -> allowComments p = false -> srcRewriter p = None ->
  (forall raw u, valid_url I p raw = Some u -> valid_url I p u = Some u) -> parse_stable M U R I ->
  c20_policy_ok p = true ->
  forall s, sanitize_bytes I p (sanitize_bytes I p s) = sanitize_bytes I p s.
Proof.
  intros M U R I p Hplain Hnc Hrw Hst Hps Hok s. apply andb_true_iff in Hok as [Hnp Hall].
  apply (C20_idempotent_with_styles M U R I p Hplain Hnc Hrw Hst Hps).
  intros n a aps _ Hp.
  assert (Hl : lookup n (elsAndAttrs p) = Some aps).
  { unfold element_policies in Hp. destruct (lookup n (elsAndAttrs p)); [exact Hp|].
    unfold match_regex, matching_entries in Hp. destruct (elsMatchingAndAttrs p); [|discriminate]. cbn in Hp. discriminate. }
  rewrite forallb_forall in Hall. exact (Hall _ (lookup_In_gen _ _ _ Hl)).
Qed.

Lemma ugc_no_style_policies (I : interp smatcher unit unit) n : has_style_policies I ugc n = false.
Proof. destruct ugc_no_styles_no_data as (E1 & E2 & E3 & _). unfold has_style_policies. rewrite E1, E2, E3. reflexivity. Qed.
Lemma ugc_style_stable (I : interp smatcher unit unit) n : style_stable _ _ _ I ugc n.
Proof. apply style_stable_none. apply ugc_no_style_policies. Qed.

(* UGCPolicy: every element but area, del and ins meets the condition *)
Definition ugc_unstable : list bytes := [B"area"; B"del"; B"ins"].
Lemma ugc_elements_stable : forallb (fun e => mem (fst e) ugc_unstable || elem_stable_b ugc (fst e) (snd e)) (elsAndAttrs ugc) = true.
Proof. vm_compute. reflexivity. Qed.

Theorem C20_ugc : forall (I : interp smatcher unit unit),
  (forall raw u, valid_url I ugc raw = Some u -> valid_url I ugc u = Some u) ->
  forall s,
  (forall n a, In (TStart n a) (tokenize s) \/ In (TSelf n a) (tokenize s) -> mem n ugc_unstable = false) ->
  sanitize_bytes I ugc (sanitize_bytes I ugc s) = sanitize_bytes I ugc s.
Proof.
  intros I Hst s Hno. destruct ugc_url_settings as (_ & _ & _ & Hrw & _).
  apply (C20_idempotent_stable_elements _ _ _ I ugc (ugc_plain I) ugc_no_comments Hrw Hst).
  intros n a aps Hin Hp. split.
  - apply ugc_style_stable.
  - assert (Hl : lookup n (elsAndAttrs ugc) = Some aps).
    { unfold element_policies in Hp. destruct (lookup n (elsAndAttrs ugc)); [exact Hp|].
      unfold match_regex, matching_entries in Hp. rewrite ugc_no_patterns in Hp. cbn in Hp. discriminate. }
    pose proof ugc_elements_stable as T. rewrite forallb_forall in T. specialize (T _ (lookup_In_gen _ _ _ Hl)). cbn [fst snd] in T.
    rewrite (Hno n a Hin) in T. exact T.
Qed.

(* a tag whose URL attribute (href / cite / src, by element) does not survive the first pass is stable, whatever patterns
   the policy attaches, when the crossorigin and sandbox passes do not apply to the element *)
Theorem C20_attrs_stable_no_surviving_url : forall M U R (I : interp M U R) (p : policy M U R) n aps a,
  style_stable M U R I p n -> (forall l, sandbox_pass p n l = l) -> (forall l, crossorigin_pass p n l = l) ->
  no_url_attr n (sanitize_attrs I p n a aps) ->
  sanitize_attrs I p n (sanitize_attrs I p n a aps) aps = sanitize_attrs I p n a aps.
Proof. intros M U R I p n aps a. exact (fun H1 H2 H3 => sanitize_attrs_idem_no_url I p n aps H1 H2 H3 a). Qed.

(* UGCPolicy, every input: idempotent whenever no del / ins cite attribute and no area href attribute survives the first pass
   (the property's own proviso for del / ins; area, whose rel carries a pattern, is covered when it is not a link) *)
Lemma ugc_no_cross_no_sandbox : requireCrossOrigin ugc = false /\ requireSandbox ugc = None.
Proof. vm_compute. split; reflexivity. Qed.

Theorem C20_ugc_no_surviving_url : forall (I : interp smatcher unit unit),
  (forall raw u, valid_url I ugc raw = Some u -> valid_url I ugc u = Some u) ->
  forall s,
  (forall n a aps, In (TStart n a) (tokenize s) \/ In (TSelf n a) (tokenize s) -> mem n ugc_unstable = true ->
     element_policies I ugc n = Some aps -> no_url_attr n (clean_attrs I ugc n a aps)) ->
  sanitize_bytes I ugc (sanitize_bytes I ugc s) = sanitize_bytes I ugc s.
Proof.
  intros I Hst s Hno. destruct ugc_url_settings as (_ & _ & _ & Hrw & _).
  apply (sanitize_idempotent_on I ugc (ugc_plain I) ugc_no_comments).
  intros n a aps Hin Hp.
  pose proof (ugc_style_stable I n) as Hs.
  destruct (mem n ugc_unstable) eqn:Eu.
  - destruct ugc_no_cross_no_sandbox as [Hc Hsb].
    assert (E : forall l, clean_attrs I ugc n l aps = sanitize_attrs I ugc n l aps) by (intros l; unfold clean_attrs; destruct l; reflexivity).
    specialize (Hno n a aps Hin Eu Hp). rewrite E in Hno. rewrite !E.
    apply (sanitize_attrs_idem_no_url I ugc n aps Hs); [| |exact Hno].
    + intros l. unfold sandbox_pass. rewrite Hsb. reflexivity.
    + intros l. unfold crossorigin_pass. rewrite Hc. reflexivity.
  - apply (elem_stable_sound I ugc Hrw Hst); [exact Hs|].
    assert (Hl : lookup n (elsAndAttrs ugc) = Some aps).
    { unfold element_policies in Hp. destruct (lookup n (elsAndAttrs ugc)); [exact Hp|].
      unfold match_regex, matching_entries in Hp. rewrite ugc_no_patterns in Hp. cbn in Hp. discriminate. }
    pose proof ugc_elements_stable as T. rewrite forallb_forall in T. specialize (T _ (lookup_In_gen _ _ _ Hl)). cbn [fst snd] in T.
    rewrite Eu in T. exact T.
Qed.

(* UGCPolicy, every input, with the property's own proviso and nothing else: area is covered as a link too, because the
   pattern on its rel (SpaceSeparatedTokens, as regenerated) is closed under the rewriting of the link pass.  The matchers are
   read as the regexps they were translated from. *)
Theorem C20_ugc_every_input : forall (I : interp smatcher unit unit),
  (forall m v, mmatch I m v = Regex.search (snd m) (runes v)) ->
  (forall raw u, valid_url I ugc raw = Some u -> valid_url I ugc u = Some u) ->
  forall s,
  (forall n a aps, In (TStart n a) (tokenize s) \/ In (TSelf n a) (tokenize s) -> mem n [B"del"; B"ins"] = true ->
     element_policies I ugc n = Some aps -> no_url_attr n (clean_attrs I ugc n a aps)) ->
  sanitize_bytes I ugc (sanitize_bytes I ugc s) = sanitize_bytes I ugc s.
Proof.
  intros I Hmm Hst s Hno. destruct ugc_url_settings as (_ & _ & _ & Hrw & _).
  apply (sanitize_idempotent_on I ugc (ugc_plain I) ugc_no_comments).
  intros n a aps Hin Hp.
  pose proof (ugc_style_stable I n) as Hs.
  assert (Hl : lookup n (elsAndAttrs ugc) = Some aps).
  { unfold element_policies in Hp. destruct (lookup n (elsAndAttrs ugc)); [exact Hp|].
    unfold match_regex, matching_entries in Hp. rewrite ugc_no_patterns in Hp. cbn in Hp. discriminate. }
  destruct ugc_no_cross_no_sandbox as [Hc Hsb].
  assert (Hnsb : forall l, sandbox_pass ugc n l = l) by (intros l; unfold sandbox_pass; rewrite Hsb; reflexivity).
  assert (Hnco : forall l, crossorigin_pass ugc n l = l) by (intros l; unfold crossorigin_pass; rewrite Hc; reflexivity).
  assert (E : forall l, clean_attrs I ugc n l aps = sanitize_attrs I ugc n l aps) by (intros l; unfold clean_attrs; destruct l; reflexivity).
  destruct (beqb n (B"area")) eqn:Earea.
  - apply beqb_eq in Earea. subst n. rewrite ugc_area_lookup in Hl. inversion Hl; subst aps. rewrite !E.
    apply (sanitize_attrs_idem_rel_closed I ugc (B"area") ugc_area_aps Hs); auto.
    + intros v c1 c2. rewrite (ugc_no_style_policies I (B"area")). apply Fa_area_rel_mod. exact Hmm.
    + intros nf nr. rewrite (ugc_no_style_policies I (B"area")). apply Fa_area_rel_app. exact Hmm.
    + apply (url_free_sound _ _ _ I ugc). vm_compute. reflexivity.
  - destruct (mem n [B"del"; B"ins"]) eqn:Eu.
    + specialize (Hno n a aps Hin Eu Hp). rewrite E in Hno. rewrite !E.
      apply (sanitize_attrs_idem_no_url I ugc n aps Hs); assumption.
    + apply (elem_stable_sound I ugc Hrw Hst); [exact Hs|].
      pose proof ugc_elements_stable as T. rewrite forallb_forall in T. specialize (T _ (lookup_In_gen _ _ _ Hl)). cbn [fst snd] in T.
      assert (Eun : mem n ugc_unstable = false).
      { unfold ugc_unstable. cbn [mem existsb] in *. unfold mem in *. cbn [existsb] in *. rewrite Earea. exact Eu. }
      rewrite Eun in T. exact T.
Qed.

Theorem C20_strict : forall (I : interp smatcher unit unit) s,
  sanitize_bytes I strict (sanitize_bytes I strict s) = sanitize_bytes I strict s.
Proof.
  intros I. apply (sanitize_idempotent I strict (strict_plain I) strict_no_comments).
  intros n a aps Hp. pose proof (element_policies_allowed I strict n) as E.
  rewrite (strict_nothing I), Hp in E. discriminate.
Qed.

(* the full statement is false of the faithful model: a policy of the stated class (no raw-text
   element, no comments, no value pattern on a rewritten attribute, no rewriter) and an input on
   which sanitising twice differs from sanitising once; the oracle is a fixed parse result *)
Definition c20_interp : interp smatcher unit unit :=
  {| mmatch := fun _ _ => true; upol := fun _ _ => true; rewrite := fun _ b => b;
     url_parse := fun b => Some {| u_scheme := B"http"; u_host := B"example.org"; u_opaque := []; u_rawquery := [];
                                   u_fragment := []; u_string := b |};
     css_decls := fun _ => None |}.
Definition c20_policy : policy smatcher unit unit :=
  build no_default [@OAllowAttrs _ _ _ [B"href"; B"target"] None false (@OnElements _ [B"a"]); @OAllowURLSchemes _ _ _ [B"http"];
                    @ORequireNoFollowOnLinks _ _ _ true; @OAddTargetBlankToFullyQualifiedLinks _ _ _ true].
Definition c20_input : bytes := B"<a href=""http://example.org/"">t".
Theorem C20_refuted_forced_attr_order :
  plain_policy c20_interp c20_policy /\ allowComments c20_policy = false /\
  sanitize_bytes c20_interp c20_policy c20_input = B"<a href=""http://example.org/"" rel=""nofollow noopener"" target=""_blank"">t" /\
  sanitize_bytes c20_interp c20_policy (sanitize_bytes c20_interp c20_policy c20_input)
    = B"<a href=""http://example.org/"" target=""_blank"" rel=""nofollow noopener"">t".
Proof.
  split; [|split; [vm_compute; reflexivity | split; vm_compute; reflexivity]].
  split; [vm_compute; reflexivity|].
  intros n Hn. unfold is_raw_name in Hn. apply existsb_exists in Hn as (x & Hx & E). apply beqb_eq in E. subst x.
  cbn in Hx. repeat (destruct Hx as [<-|Hx]; [vm_compute; reflexivity|]). contradiction.
Qed.

(* the proviso of C20_ugc_no_surviving_url is met by documents that do contain del / ins / area tags, e.g. when the cite
   does not parse (here: an oracle that parses nothing) *)
Definition c20_interp_nourl : interp smatcher unit unit :=
  {| mmatch := fun _ _ => true; upol := fun _ _ => true; rewrite := fun _ b => b; url_parse := fun _ => None; css_decls := fun _ => None |}.
Definition ugc_no_url_b (I : interp smatcher unit unit) (s : bytes) : bool :=
  forallb (fun t => match t with
                    | TStart n a | TSelf n a =>
                      if mem n ugc_unstable then
                        match element_policies I ugc n, url_attr_of n with
                        | Some aps, Some k => negb (existsb (key_is k) (clean_attrs I ugc n a aps))
                        | _, _ => true
                        end
                      else true
                    | _ => true
                    end) (tokenize s).
Example C20_ugc_proviso_example :
  ugc_no_url_b c20_interp_nourl (B"<del datetime=""2020-01-01"" cite=""http://[::1"">x</del><ins cite=""%zz"">y</ins><area alt=""a"" shape=""rect""><p>z</p>") = true /\
  sanitize_bytes c20_interp_nourl ugc (B"<del datetime=""2020-01-01"" cite=""http://[::1"">x</del><ins cite=""%zz"">y</ins><area alt=""a"" shape=""rect""><p>z</p>")
    = B"<del datetime=""2020-01-01"">x</del><ins>y</ins><area alt=""a"" shape=""rect""><p>z</p>".
Proof. split; vm_compute; reflexivity. Qed.

(* the link path of area in the model: the patterned rel is rewritten on the first pass and kept on the second *)
Definition c20_interp_rx : interp smatcher unit unit :=
  {| mmatch := fun m v => Regex.search (snd m) (runes v); upol := fun _ _ => true; rewrite := fun _ b => b;
     url_parse := fun b => Some {| u_scheme := B"http"; u_host := B"example.org"; u_opaque := []; u_rawquery := [];
                                   u_fragment := []; u_string := b |};
     css_decls := fun _ => None |}.
Example C20_ugc_area_example :
  sanitize_bytes c20_interp_rx ugc (B"<area href=""http://example.org/"" rel=""a b"" alt=""x""><area href=""http://example.org/"" rel=""a&lt;b"">")
    = B"<area href=""http://example.org/"" rel=""a b nofollow"" alt=""x""><area href=""http://example.org/"" rel=""nofollow"">" /\
  sanitize_bytes c20_interp_rx ugc (B"<area href=""http://example.org/"" rel=""a b nofollow"" alt=""x""><area href=""http://example.org/"" rel=""nofollow"">")
    = B"<area href=""http://example.org/"" rel=""a b nofollow"" alt=""x""><area href=""http://example.org/"" rel=""nofollow"">".
Proof. split; vm_compute; reflexivity. Qed.

(* a second witness of the same kind (finding F17): rel is not allowed on link but crossorigin is; the first pass appends
   rel and then crossorigin, the second drops rel, keeps crossorigin in place and appends rel behind it *)
Definition c20_policy2 : policy smatcher unit unit :=
  build no_default [@OAllowAttrs _ _ _ [B"href"; B"crossorigin"] None false (@OnElements _ [B"link"]); @OAllowURLSchemes _ _ _ [B"http"];
                    @ORequireNoFollowOnLinks _ _ _ true; @ORequireCrossOriginAnonymous _ _ _ true].
Definition c20_input2 : bytes := B"<link href=""http://example.org/"">".
Theorem C20_refuted_forced_attr_order_crossorigin :
  plain_policy c20_interp c20_policy2 /\ allowComments c20_policy2 = false /\
  sanitize_bytes c20_interp c20_policy2 c20_input2 = B"<link href=""http://example.org/"" rel=""nofollow"" crossorigin=""anonymous"">" /\
  sanitize_bytes c20_interp c20_policy2 (sanitize_bytes c20_interp c20_policy2 c20_input2)
    = B"<link href=""http://example.org/"" crossorigin=""anonymous"" rel=""nofollow"">".
Proof.
  split; [|split; [vm_compute; reflexivity | split; vm_compute; reflexivity]].
  split; [vm_compute; reflexivity|].
  intros n Hn. unfold is_raw_name in Hn. apply existsb_exists in Hn as (x & Hx & E). apply beqb_eq in E. subst x.
  cbn in Hx. repeat (destruct Hx as [<-|Hx]; [vm_compute; reflexivity|]). contradiction.
Qed.

(* the condition separates the cases as claimed: link with rel but not crossorigin allowed, and img under a policy that allows
   rel globally but not crossorigin, are stable (and not by the earlier conditions); the two refuting policies are not *)
Definition c20_mixed_policy : policy smatcher unit unit :=
  build no_default [@OAllowAttrs _ _ _ [B"href"; B"rel"] None false (@OnElements _ [B"link"]);
                    @OAllowAttrs _ _ _ [B"alt"] None false (@OnElements _ [B"img"]);
                    @OAllowAttrs _ _ _ [B"rel"] None false (@Globally _);
                    @OAllowURLSchemes _ _ _ [B"http"]; @ORequireNoFollowOnLinks _ _ _ true; @ORequireCrossOriginAnonymous _ _ _ true].
Example C20_condition_separates :
  forallb (fun e => elem_stable3_b c20_mixed_policy (fst e) (snd e) && negb (elem_stable2_b c20_mixed_policy (fst e) (snd e)))
          (elsAndAttrs c20_mixed_policy) = true /\ length (elsAndAttrs c20_mixed_policy) = 2%nat /\
  forallb (fun e => negb (elem_stable3_b c20_policy (fst e) (snd e))) (elsAndAttrs c20_policy) = true /\
  forallb (fun e => negb (elem_stable3_b c20_policy2 (fst e) (snd e))) (elsAndAttrs c20_policy2) = true.
Proof. repeat split; vm_compute; reflexivity. Qed.

Example C20_refuting_policies_have_the_shapes :
  forallb (fun e => in_class_b _ _ _ c20_policy (fst e) (snd e) && f15_shape_b _ _ _ c20_policy (fst e) (snd e)) (elsAndAttrs c20_policy) = true /\
  forallb (fun e => in_class_b _ _ _ c20_policy2 (fst e) (snd e) && f17_shape_b _ _ _ c20_policy2 (fst e) (snd e)) (elsAndAttrs c20_policy2) = true.
Proof. split; vm_compute; reflexivity. Qed.

Example C20_policy_level_instances :
  c20_policy_ok c20_links_policy = true /\ c20_policy_ok c20_mixed_policy = true /\
  c20_policy_ok c20_policy = false /\ c20_policy_ok c20_policy2 = false /\ c20_policy_ok ugc = false.
Proof. repeat split; vm_compute; reflexivity. Qed.

Print Assumptions C20_policy_level.
Print Assumptions C20_class_decided.
Print Assumptions C20_link_passes_idempotent.
Print Assumptions C20_attrs_stable_no_surviving_url.
Print Assumptions C20_ugc_no_surviving_url.
Print Assumptions C20_ugc_every_input.
Print Assumptions C20_attrs_stable_forced_accepted_or_rejected.
Print Assumptions C20_idempotent_stable_elements2.
Print Assumptions C20_idempotent_stable_elements3.
Print Assumptions C20_idempotent_with_styles.
Print Assumptions C20_refuted_forced_attr_order_crossorigin.
Print Assumptions C20_escaping_not_applied_twice_partial.
Print Assumptions C20_refuted_forced_attr_order.
Print Assumptions C20_idempotent_if_attrs_stable.
Print Assumptions C20_strict.
Print Assumptions C20_idempotent_stable_elements.
Print Assumptions C20_ugc.
Print Assumptions C20_attrs_stable_plain_elements.
Print Assumptions C20_idempotent_plain_elements.
Print Assumptions C20_rel_tokens_not_repeated.
