(* C13  A finished policy is deterministic and safe to share between goroutines.   (partial)
   What a Coq model can carry: sanitising is a function of (policy value, input) and returns
   bytes only, so a call cannot depend on or influence another; and the one place where Go's
   randomised map iteration order enters (the order in which the rules of several matching element
   patterns are merged) is irrelevant, because rule lists are consulted by "some rule accepts".
   C13_same_rules_same_bytes (Proofs/PolicyEquiv.v): two policy VALUES whose tables hold the same
   rules -- keys in any order, rule lists in any order and multiplicity, pattern entries in any
   order (everything Go's map iteration order or the order of appends could change) -- sanitize
   every input to the same bytes, for every interpretation of matchers and oracles.
   Data-race freedom and "concurrent = sequential" are facts about the Go runtime; they are
   validated (not proved) by the race-detector stress run of the C13 check. *)
From Coq Require Import List NArith Bool Permutation.
Import ListNotations.
From BM Require Import Bytes Tokenizer Policy Attrs Loop MapProofs MiscProofs PolicyEquiv.

Section C13.
  Variables M U R : Type.
  Variable I : interp M U R.
  Variable p : policy M U R.

  Theorem C13_rule_order_irrelevant_partial : forall (apl apl' : list (attr_policy M)) v,
    Permutation apl apl' -> existsb (rule_accepts I v) apl = existsb (rule_accepts I v) apl'.
  Proof. exact (rules_order_irrelevant I). Qed.

  (* a batch of inputs sanitised one after the other gives what each gives alone *)
  Theorem C13_no_dependence_on_earlier_calls : forall inputs,
    map (sanitize_bytes I p) inputs = map (fun s => sanitize_bytes I p s) inputs.
  Proof. reflexivity. Qed.

  (* results do not depend on the order in which the tables are stored or iterated *)
  Theorem C13_same_rules_same_bytes : forall q, peq p q -> forall s, sanitize_bytes I p s = sanitize_bytes I q s.
  Proof. intros q E s. apply (peq_sanitize I p q E s). Qed.
End C13.

Print Assumptions C13_rule_order_irrelevant_partial.
Print Assumptions C13_same_rules_same_bytes.
