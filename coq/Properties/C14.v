(* C14  Sanitising always returns promptly and never panics.   (partial: steps, not seconds)
   Proved: every function of the model is a total Coq function (structural recursion or explicit
   fuel bounded by the input length), and the one Go operation of the token loop that can panic
   (indexing the closing-tag stack) is unreachable for every token list and policy.
   The one unbounded loop of /repo's own code, the escape-decoding loop of removeUnicode, makes
   progress on every input: each decoded escape is replaced by something strictly shorter
   (C14_escape_loop_progress), so it runs at most len(value) times, ends with no escape left or
   gives the value up (C14_escape_loop_ends), and the fuel of the model is never what stops it
   (C14_fuel_irrelevant: the model IS the unbounded loop).
   The one super-linear piece of /repo's own code, recursiveCheck of css/handlers.go (the search for a
   cut of a shorthand value into groups accepted by sub-handlers, memoised since fix F8), is modelled
   with a counter of sub-handler calls: C14_recursive_check_quadratic bounds the calls by
   |sub-handlers| * n * n for n components, for every value and all sub-handlers, and
   C14_recursive_check_correct shows that the memo table never hides a solution (the result is true
   exactly when a cut exists).  The model is tied to the code on the result and on the call count.
   Wall-clock time is not a theorem; seconds are validated on size-parameterised adversarial
   families (see the C14 check). *)
From Coq Require Import List NArith Bool.
Import ListNotations.
From BM Require Import Bytes Strings Tokenizer Policy Style Loop Entry LoopInv EntryProofs StyleTermination RecCheck RecCheckProofs RecCheckCost.

Section C14.
  Variables M U R : Type.
  Variable I : interp M U R.
  Variable p : policy M U R.

  Theorem C14_no_panic : forall ts, snd (run I p ts) = false.
  Proof. exact (run_no_panic I p). Qed.

  Theorem C14_entry_points_no_panic : forall r w, snd (sanitize_rw I p r w) <> ErrPanic.
  Proof.
    intros r w. unfold sanitize_rw. pose proof (run_no_panic I p (tokenize (src_data r))) as H.
    destruct (run I p (tokenize (src_data r))) as [cs pn]. cbn [snd] in H. subst pn.
    destruct (offer w 0 cs) as [[acc k] failed]. cbn [snd]. destruct failed; [discriminate|].
    destruct (src_eof r); discriminate.
  Qed.
End C14.

(* removeUnicode: progress, termination, adequacy of the fuel *)
Theorem C14_escape_loop_progress : forall s pre h sp rest rep,
  find_escape s = Some (pre, h, sp, rest) -> escape_replacement h = Some rep ->
  (length (pre ++ rep ++ rest) < length s)%nat.
Proof. exact step_shrinks. Qed.

Theorem C14_escape_loop_ends : forall s, remove_unicode s = [] \/ find_escape (remove_unicode s) = None.
Proof. exact remove_unicode_complete. Qed.

Theorem C14_fuel_irrelevant : forall f1 f2 s, (length s < f1)%nat -> (length s < f2)%nat ->
  remove_unicode_fuel f1 s = remove_unicode_fuel f2 s.
Proof. exact remove_unicode_fuel_irrelevant. Qed.

Example C14_escape_loop_example : remove_unicode (B"\5c \5c x\72 ed") = [92; 92; 120; 114; 101; 100].
Proof. vm_compute. reflexivity. Qed.

(* recursiveCheck: quadratically many sub-handler calls, and the right answer *)
Theorem C14_recursive_check_quadratic : forall (value : list bytes) (funcs : list (bytes -> bool)),
  (calls (snd (recursive_check_run value funcs)) <= length funcs * length value * length value)%nat.
Proof. exact recursive_check_calls. Qed.

Theorem C14_recursive_check_correct : forall (value : list bytes) (funcs : list (bytes -> bool)),
  recursive_check value funcs = true <-> good value funcs 0.
Proof. exact recursive_check_correct. Qed.

Example C14_recursive_check_example :
  rc_sets [B"a"; B"a"; B"a"; B"a"; B"a"; B"a"; B"a"; B"!"] [[B"a"; B"a a"; B"a a a"]; [B"a a"]] = (false, 72%nat).
Proof. vm_compute. reflexivity. Qed.

Print Assumptions C14_recursive_check_quadratic.
Print Assumptions C14_recursive_check_correct.
Print Assumptions C14_no_panic.
Print Assumptions C14_escape_loop_progress.
Print Assumptions C14_escape_loop_ends.
Print Assumptions C14_fuel_irrelevant.
Print Assumptions C14_entry_points_no_panic.
