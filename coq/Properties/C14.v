(* C14  Sanitising always returns promptly and never panics.   (partial: steps, not seconds)
   Proved: every function of the model is a total Coq function (structural recursion or explicit
   fuel bounded by the input length), and the one Go operation of the token loop that can panic
   (indexing the closing-tag stack) is unreachable for every token list and policy.
   Wall-clock time is not a theorem; the cost of recursiveCheck is validated by call counters on
   size-parameterised adversarial families (see the C14 check). *)
From Coq Require Import List NArith Bool.
Import ListNotations.
From BM Require Import Bytes Tokenizer Policy Loop Entry LoopInv EntryProofs.

Section C14.
  Variables M U R : Type.
  Variable I : interp M U R.
  Variable p : policy M U R.

  Theorem C14_no_panic : forall ts, snd (run I p ts) = false.
  Proof. exact (run_no_panic I p). Qed.

  Theorem C14_entry_points_no_panic : forall r w, snd (sanitize_rw I p r w) <> ErrPanic.
  Proof.
    intros r w. unfold sanitize_rw. pose proof (run_no_panic I p (tokenize (src_data r))) as H.
    destruct (run I p (tokenize (src_data r))) as [cs pn]. cbn [snd] in H. subst pn.
    destruct (offer w 0 cs) as [[acc k] failed]. cbn [snd]. destruct failed; [discriminate|].
    destruct (src_eof r); discriminate.
  Qed.
End C14.

Print Assumptions C14_no_panic.
Print Assumptions C14_entry_points_no_panic.
