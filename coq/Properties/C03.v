(* C03  URL attributes carry only allowed schemes (or allowed relative URLs).   (partial)
   net/url is an oracle (url_parse of the interpretation).  Proved for every raw value and policy:
   a value accepted by validURL under RequireParseableURLs is the re-serialisation u.String() of a
   successful parse of the trimmed (data-URI: newline-stripped) value, whose scheme is on the
   allowlist (and approved by a custom check if any are registered, or matched by a scheme pattern
   when the scheme is not listed), or which has no scheme while relative URLs are allowed and the
   result is non-empty; white space survives trimming only in data: values.  At the fifteen
   positions the URL pass keeps an attribute only with that value (src: the rewriter's result);
   the position tables are regenerated from sanitize.go and checked against the property text.
   For the list sanitizeAttrs RETURNS (C03_final_list): at a URL position (the element's URL
   attribute, URL checking on) every surviving attribute carries validURL's result for an attribute
   that passed the filtering loop -- for src with a rewriter installed, the rewriter's result of it;
   no later pass (rel/target, crossorigin, sandbox) touches it, and no unchecked copy survives.
   Missing: "a browser resolves it to that scheme" needs the link between Go's parser and the
   WHATWG scheme extraction (hypotheses U2-U4 of DESIGN.md 3.5); it is monitored on every URL the
   oracle sees and checked on the output by the implementation-side oracle. *)
From Coq Require Import List NArith Bool.
Import ListNotations.
From BM Require Import Bytes Strings Tokenizer Policy Url Attrs GenTables Forced TablesInst AttrsSound AttrProvenance.

Section C03.
  Variables M U R : Type.
  Variable I : interp M U R.
  Variable p : policy M U R.

  Theorem C03_gate_partial : forall raw out, requireParseableURLs p = true -> valid_url I p raw = Some out ->
    exists parsed u, url_parse I parsed = Some u /\ out = u_string u /\
      (u_scheme u <> [] -> scheme_ok I p u) /\
      (u_scheme u = [] -> allowRelativeURLs p = true /\ out <> []) /\
      (contains (trim_space raw) [32] || contains (trim_space raw) [9] || contains (trim_space raw) [10] = true ->
         has_prefix (trim_space raw) (B"data:") = true).
  Proof. exact (valid_url_sound I p). Qed.

  Theorem C03_url_pass : forall elem a,
    url_pass_attr I p elem a =
    match url_attr_of elem with
    | Some k => if key_is k a then
                  match valid_url I p (aval a) with
                  | Some u => [(akey a, if beqb k (B"src") then match srcRewriter p with Some f => rewrite I f u | None => u end else u)]
                  | None => []
                  end
                else [a]
    | None => [a]
    end.
  Proof. exact (url_pass_attr_spec I p). Qed.

  (* the list sanitizeAttrs returns, at a URL position *)
  Theorem C03_final_list : forall elem attrs aps k a,
    linkable elem = true -> requireParseableURLs p = true -> url_attr_of elem = Some k ->
    forced_key k = false ->
    In a (sanitize_attrs I p elem attrs aps) -> key_is k a = true ->
    exists raw u, valid_url I p raw = Some u /\
      aval a = (if beqb k (B"src") then match srcRewriter p with Some f => rewrite I f u | None => u end else u).
  Proof.
    intros elem attrs aps k a Hl Hp Hk Hnf Hin Hka.
    destruct (sanitize_attrs_provenance I p elem attrs aps a Hin) as [Hf|(a0 & a1 & _ & _ & [[-> Hnc]|[_ Hrw]])].
    - exfalso. unfold key_is in Hka. apply beqb_eq in Hka. rewrite Hka in Hf. congruence.
    - exfalso. unfold url_checked in Hnc. rewrite Hl, Hp, Hk, Hka in Hnc. discriminate.
    - destruct Hrw as (_ & _ & k' & u & Hk' & _ & Hv & ->). rewrite Hk in Hk'. inversion Hk'; subst k'.
      exists (aval a1), u. split; [exact Hv | reflexivity].
  Qed.

  (* href, cite and src are not among the keys the sanitiser forces *)
  Example C03_url_keys_not_forced : forced_key (B"href") = false /\ forced_key (B"cite") = false /\ forced_key (B"src") = false.
  Proof. vm_compute. auto. Qed.
End C03.

(* every one of the fifteen positions of the property text is gated by linkable() and listed in the URL switch *)
Theorem C03_positions :
  subset href_documented href_elements && subset cite_documented cite_elements && subset src_documented src_elements &&
  subset (href_documented ++ cite_documented ++ src_documented) linkable_elements = true.
Proof. exact url_positions_covered. Qed.

Print Assumptions C03_gate_partial.
Print Assumptions C03_url_pass.
Print Assumptions C03_final_list.
Print Assumptions C03_positions.
