(* C07  Conforming content passes through unchanged (rules are additive).   (partial)
   Proved: rules are additive at the level where the code consults them: when several rules cover
   an attribute, a value accepted by any one of them is kept (rules_accept is "some rule accepts"),
   adding a rule to a table never makes it reject what it accepted, the order of the rules is
   irrelevant; a kept tag is written back as Token.String of the token with the filtered attributes,
   an accepted attribute is kept with its value unchanged by the filtering loop.
   Not true as stated for pattern rules: an explicit entry for an element shadows the rules it got
   through patterns (recorded finding F11).  Missing: byte-for-byte identity of whole conforming
   documents (needs Html/RoundTrip); carried by the pass-through oracle. *)
From Coq Require Import List NArith Bool Permutation.
Import ListNotations.
From BM Require Import Bytes Strings Tokenizer Policy Attrs Loop Builder AttrsSound MapProofs MiscProofs.

Section C07.
  Variables M U R : Type.
  Variable I : interp M U R.
  Variable p : policy M U R.

  Theorem C07_any_rule_suffices_partial : forall rules a, rules_accept I rules a = true <->
    exists apl ap, lookup (akey a) rules = Some apl /\ In ap apl /\
                   match ap with None => True | Some r => mmatch I r (aval a) = true end.
  Proof. exact (rules_accept_spec I). Qed.

  Theorem C07_additive : forall rules k (ap : attr_policy M) a,
    rules_accept I rules a = true -> rules_accept I (app_rule k ap rules) a = true.
  Proof. exact (rules_accept_add_rule I). Qed.

  (* an attribute accepted by the element's rules passes the filtering loop unchanged *)
  Theorem C07_accepted_attr_unchanged : forall elem aps a,
    (allowDataAttributes p && is_data_attribute (akey a) = false) ->
    (key_is (B"style") a && has_style_policies I p elem = false) ->
    rules_accept I aps a = true -> filter_attr I p elem aps (has_style_policies I p elem) a = [a].
  Proof. intros elem aps a Hd Hs Hr. unfold filter_attr. rewrite Hd, Hs, Hr. reflexivity. Qed.
End C07.

Print Assumptions C07_any_rule_suffices_partial.
Print Assumptions C07_additive.
Print Assumptions C07_accepted_attr_unchanged.
