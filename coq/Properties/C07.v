(* C07  Conforming content passes through unchanged (rules are additive).   (partial)
   Proved: rules are additive at the level where the code consults them: when several rules cover
   an attribute, a value accepted by any one of them is kept (rules_accept is "some rule accepts"),
   adding a rule to a table never makes it reject what it accepted, the order of the rules is
   irrelevant; a kept tag is written back as Token.String of the token with the filtered attributes,
   an accepted attribute is kept with its value unchanged by the filtering loop.
   Not true as stated for pattern rules: an explicit entry for an element shadows the rules it got
   through patterns (recorded finding F11).
   Proved for whole documents (C07_pass_through), for every policy and matcher interpretation: a
   document that is the canonical serialisation (Token.String of tags with lower-case names and
   keys, escaped text) of items the policy leaves alone -- every tag names an allowed element that
   is not a raw-text element, its attribute list is a fixpoint of the attribute filter, it is bare
   only if allowed bare -- is returned byte for byte.  Concrete instance: Properties/C04.v,
   C04_sample_doc_unchanged (UGCPolicy).  The attributes the policy instructs the sanitiser to add
   or rewrite are exactly what makes an attribute list fail to be a fixpoint.
   Missing: documents with comments (a comment is written with its data escaped again: not a
   fixpoint) or raw-text elements; carried by the pass-through oracle. *)
From Coq Require Import List NArith Bool Permutation.
Import ListNotations.
From BM Require Import Bytes Strings Tokenizer Policy Attrs Loop Builder AttrsSound MapProofs MiscProofs Retokenize PassThrough.

Section C07.
  Variables M U R : Type.
  Variable I : interp M U R.
  Variable p : policy M U R.

  Theorem C07_any_rule_suffices_partial : forall rules a, rules_accept I rules a = true <->
    exists apl ap, lookup (akey a) rules = Some apl /\ In ap apl /\
                   match ap with None => True | Some r => mmatch I r (aval a) = true end.
  Proof. exact (rules_accept_spec I). Qed.

  Theorem C07_additive : forall rules k (ap : attr_policy M) a,
    rules_accept I rules a = true -> rules_accept I (app_rule k ap rules) a = true.
  Proof. exact (rules_accept_add_rule I). Qed.

  (* an attribute accepted by the element's rules passes the filtering loop unchanged *)
  Theorem C07_accepted_attr_unchanged : forall elem aps a,
    (allowDataAttributes p && is_data_attribute (akey a) = false) ->
    (key_is (B"style") a && has_style_policies I p elem = false) ->
    rules_accept I aps a = true -> filter_attr I p elem aps (has_style_policies I p elem) a = [a].
  Proof. intros elem aps a Hd Hs Hr. unfold filter_attr. rewrite Hd, Hs, Hr. reflexivity. Qed.

  Theorem C07_pass_through : forall its, Forall item_ok its -> Forall (canon_item I p) its ->
    sanitize_bytes I p (render_items its) = render_items its.
  Proof. exact (pass_through I p). Qed.

  (* an attribute list made only of accepted, non-rewritten attributes is a fixpoint of the filter
     loop (the first stage of sanitizeAttrs) *)
  Theorem C07_filter_fixpoint : forall elem aps attrs,
    Forall (fun a => (allowDataAttributes p && is_data_attribute (akey a) = false) /\
                     (key_is (B"style") a && has_style_policies I p elem = false) /\
                     rules_accept I aps a = true) attrs ->
    flat_map (filter_attr I p elem aps (has_style_policies I p elem)) attrs = attrs.
  Proof.
    intros elem aps attrs H. induction H as [|a l (Hd & Hs & Hr) Hl IH]; cbn [flat_map]; [reflexivity|].
    rewrite IH. rewrite (C07_accepted_attr_unchanged elem aps a Hd Hs Hr). reflexivity.
  Qed.
End C07.

Print Assumptions C07_any_rule_suffices_partial.
Print Assumptions C07_additive.
Print Assumptions C07_accepted_attr_unchanged.
Print Assumptions C07_pass_through.
Print Assumptions C07_filter_fixpoint.
