(* C06  Text is preserved exactly and always emitted escaped.   (partial)
   Proved: a text token outside skipped / script-style regions is emitted exactly once as IText,
   rendered through escape; an HTML tokenizer's unescape reads the rendered bytes back to the
   original text (unescape (escape d) = d for every byte string), and the rendered bytes contain
   none of the characters less-than, greater-than, double quote, apostrophe, CR, so no input text can open or close markup; nothing else is emitted for it.
   Proved for whole documents, for every policy without AllowUnsafe that allows no raw-text
   element and every input without script, style and skip-content tags: the text the tokenizer
   reads from the output bytes is the text it reads from the input, with exactly one blank for
   every removed tag under AddSpaceWhenStrippingTag (C06_output_text) and no difference at all
   otherwise (C06_output_text_equal).
   Policies that keep comments are covered (a comment contributes no text).
   Missing: policies that allow raw-text elements; carried by the text-equality oracle on every
   generated case. *)
From Coq Require Import List NArith Bool.
Import ListNotations.
From BM Require Import Bytes Escape Tokenizer Policy Loop LoopInv LoopProps EscapeProofs MiscProofs SanRoundTrip TokenLevel.

Section C06.
  Variables M U R : Type.
  Variable I : interp M U R.
  Variable p : policy M U R.

  Theorem C06_text_emitted_once_partial : forall st d, skip st = false -> recent_is_raw st = false ->
    step I p st (TText d) = Ok st [IText d].
  Proof. exact (text_step I p). Qed.

  Theorem C06_read_back : forall d, unescape false (render_item (IText d)) = d.
  Proof. intros d. apply unescape_escape. Qed.

  Theorem C06_inert : forall d c, In c (render_item (IText d)) -> c <> 60 /\ c <> 62 /\ c <> 34 /\ c <> 39 /\ c <> 13.
  Proof. intros d c. apply escape_inert. Qed.

  (* under a policy without AllowUnsafe text is never written unescaped *)
  Theorem C06_never_raw : allowUnsafe p = false -> forall ts d, ~ In (IRawText d) (emitted I p ts).
  Proof.
    intros safe ts d Hin. destruct (emitted_justified I p safe ts _ Hin) as (st & t & _ & Hj). exact Hj.
  Qed.

  (* whole documents.  expected_text: a text token contributes its data, an emitted tag nothing, a
     removed tag one blank when AddSpaceWhenStrippingTag is on (TokenLevel.contribution) *)
  Theorem C06_output_text : plain_policy I p -> forall s,
    forallb (clean_tok M U R p) (tokenize s) = true ->
    text_of (tokenize (sanitize_bytes I p s)) = expected_text M U R I p init_state (tokenize s).
  Proof. intros Hplain s. apply output_text; exact Hplain. Qed.

  Theorem C06_output_text_equal : plain_policy I p -> addSpaces p = false -> forall s,
    forallb (clean_tok M U R p) (tokenize s) = true ->
    text_of (tokenize (sanitize_bytes I p s)) = text_of (tokenize s).
  Proof. intros Hplain Ha s. apply output_text_equal; assumption. Qed.
End C06.

Print Assumptions C06_text_emitted_once_partial.
Print Assumptions C06_read_back.
Print Assumptions C06_inert.
Print Assumptions C06_never_raw.
Print Assumptions C06_output_text.
Print Assumptions C06_output_text_equal.
