(* C19  Exported attribute matchers are anchored, closed-alphabet recognisers.
   Statements only; everything is closed by reflection on the regenerated regexps. *)
From Coq Require Import List NArith Bool String.
Import ListNotations.
From BM Require Import Bytes Regex RegexSound RegexSem Matchers GenRegex C19Inst C19Whole C19Alpha C19Exact C19Examples.
Open Scope N_scope.


(* every search hit of an exported matcher is a match of the whole value *)
Theorem C19_whole_value : forall X m, In (X, m) c19_matchers ->
  forall s, search X s = true -> matches X s = true.
Proof.
  intros X m Hin. pose proof c19_all_whole as H. rewrite forallb_forall in H. specialize (H _ Hin).
  apply incl_from_empty. apply (is_empty_sound _ _ H).
Qed.

(* an accepted value contains only runes of the matcher's documented alphabet *)
Theorem C19_alphabet : forall X m, In (X, m) c19_matchers ->
  forall s, search X s = true -> forallb (fun c => cs_mem c (ms_alphabet m)) s = true.
Proof.
  intros X m Hin. pose proof c19_all_alpha as H. rewrite forallb_forall in H. specialize (H _ Hin).
  apply alphabet_from_empty. apply (is_empty_sound _ _ H).
Qed.

(* where the documentation pins the language down, the matcher accepts exactly it *)
Theorem C19_exact : forall X m D, In (X, m) c19_matchers -> ms_exact m = Some D ->
  forall s, search X s = matches D s.
Proof.
  intros X m D Hin HD. pose proof c19_all_exact as H. rewrite forallb_forall in H. specialize (H _ Hin).
  unfold ok_exact in H. simpl in H. rewrite HD in H. apply andb_true_iff in H as [H1 H2].
  intros s. unfold search.
  pose proof (incl_from_empty _ _ (is_empty_sound _ _ H1) s) as I1.
  pose proof (incl_from_empty _ _ (is_empty_sound _ _ H2) s) as I2.
  destruct (matches (wrap X) s) eqn:E1; destruct (matches D s) eqn:E2; auto;
    try (specialize (I1 eq_refl)); try (specialize (I2 eq_refl)); congruence.
Qed.

Theorem C19_examples : forall X m e, In (X, m) c19_matchers -> In e (ms_examples m) ->
  search X (bytes_of_string e) = true.
Proof.
  intros X m e Hin He. pose proof c19_all_examples as H. rewrite forallb_forall in H. specialize (H _ Hin).
  unfold ok_examples in H. rewrite forallb_forall in H. apply H. exact He.
Qed.

(* the documented alphabets contain no HTML-significant character and no control character
   other than the white space of the two text matchers *)
Theorem C19_alphabets_sane : forallb alphabet_sane (map snd c19_matchers) = true.
Proof. vm_compute. reflexivity. Qed.

(* all eleven are covered *)
Theorem C19_covers_all : map (fun p => ms_name (snd p)) c19_matchers = map ms_name matcher_specs.
Proof. reflexivity. Qed.

Print Assumptions C19_whole_value.
Print Assumptions C19_alphabet.
Print Assumptions C19_exact.
Print Assumptions C19_examples.
Print Assumptions C19_alphabets_sane.
