(* C16  I/O failures are reported and the output stays a clean prefix.
   Model: Entry.sanitize_rw over an abstract source (bytes delivered, then EOF or an error)
   and sink (which write calls succeed); the chunk sequence is tied to the implementation's
   WriteString sequence by the rw correspondence (every write index, transient and permanent). *)
From Coq Require Import List NArith Bool.
Import ListNotations.
From BM Require Import Bytes Tokenizer Policy Loop Entry LoopInv EntryProofs.

Section C16.
  Variables M U R : Type.
  Variable I : interp M U R.
  Variable p : policy M U R.

  (* If the first failing write is write k (transient or permanent: the sink is arbitrary after k)
     and the fault-free run makes more than k writes, then SanitizeReaderToWriter returns a
     write error, made exactly k+1 write calls (none after the failure), and the destination
     holds exactly the first k chunks of the fault-free run. *)
  Theorem C16_write_failure : forall (r : source) (w : sink) (k : nat),
    fails_first_at w 0 k -> (k < length (chunks_of I p (src_data r)))%nat ->
    sanitize_rw I p r w = (map data (firstn k (chunks_of I p (src_data r))), S k, ErrWrite).
  Proof. exact (write_failure I p). Qed.

  (* ... and those chunks concatenate to a prefix of the fault-free output *)
  Theorem C16_clean_prefix : forall (s : bytes) (k : nat), exists t,
    sanitize_bytes I p s = concat (map data (firstn k (chunks_of I p s))) ++ t.
  Proof. exact (accepted_is_prefix I p). Qed.

  (* a source that fails with a non-EOF error: the error is returned / the buffer is empty *)
  Theorem C16_read_failure : forall (r : source) (w : sink), src_eof r = false -> (forall j, w j = true) ->
    snd (sanitize_rw I p r w) = ErrRead.
  Proof. exact (read_failure_reported I p). Qed.

  Theorem C16_read_failure_buffer : forall (r : source), src_eof r = false -> SanitizeReader I p r = [].
  Proof. exact (read_failure_empty_buffer I p). Qed.
End C16.

(* the hypotheses are satisfiable: a sink failing at write 1 of a two-chunk run *)
Example C16_nonvacuous : fails_first_at (fun k => Nat.eqb k 0) 0 1.
Proof. split; [intros j Hj; destruct j; [reflexivity | inversion Hj; subst; inversion H0] | reflexivity]. Qed.

Print Assumptions C16_write_failure.
Print Assumptions C16_clean_prefix.
Print Assumptions C16_read_failure.
Print Assumptions C16_read_failure_buffer.
