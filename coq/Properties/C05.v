(* C05  script and style never survive unless AllowUnsafe(true).
   Proved for every policy value with allowUnsafe = false (a superset of what the builder can
   assemble: tables may name script/style, patterns may match them, the skip set may lack them)
   and every token list.  For policies that in addition allow no other
   raw-text element, the same is proved of the tokens a tokenizer reads from the output bytes
   (C05_output_tokens). *)
From Coq Require Import List NArith Bool.
Import ListNotations.
From BM Require Import Bytes Tokenizer Policy Loop LoopInv LoopProps SanRoundTrip TokenLevel.

Definition tag_name (t : token) : bytes :=
  match t with TStart n _ | TEnd n | TSelf n _ => n | _ => [] end.

Section C05.
  Variables M U R : Type.
  Variable I : interp M U R.
  Variable p : policy M U R.
  Hypothesis safe : allowUnsafe p = false.

  (* no start, end or self-closing tag whose normalised name is script or style is ever emitted,
     and nothing is ever written unescaped *)
  Theorem C05_tags : forall ts it, In it (emitted I p ts) ->
    match it with
    | ITag t => is_script_or_style (tag_name t) = false
    | IRawText _ => False
    | _ => True
    end.
  Proof.
    intros ts it Hin. destruct (emitted_justified I p safe ts it Hin) as (st & t & _ & Hj).
    destruct it as [|[d|n a|n|n a|d|d]|d|d|d]; simpl in *; auto; try contradiction.
    - destruct Hj as (_ & H & _); exact H.
    - destruct Hj as (_ & _ & H & _); exact H.
    - destruct Hj as (_ & H & _); exact H.
  Qed.

  (* the names the HTML tokenizer produces for script/style in any letter case are exactly these *)
  Example C05_names : is_script_or_style (B"script") = true /\ is_script_or_style (B"style") = true.
  Proof. split; vm_compute; reflexivity. Qed.

  Corollary C05_literal_names : forall ts t, In (ITag t) (emitted I p ts) ->
    tag_name t <> B"script" /\ tag_name t <> B"style".
  Proof.
    intros ts t Hin. pose proof (C05_tags ts (ITag t) Hin) as H. simpl in H.
    split; intros E; rewrite E in H; [rewrite (proj1 C05_names) in H | rewrite (proj2 C05_names) in H]; discriminate.
  Qed.

  (* the body: the text token that the tokenizer attaches to a script/style start tag (also the
     self-closing form, which the tokenizer treats as opening raw text) contributes nothing *)
  Theorem C05_body : forall st n a st1 out1 d, is_script_or_style n = true ->
    (step I p st (TStart n a) = Ok st1 out1 \/ step I p st (TSelf n a) = Ok st1 out1) ->
    out1 = [] /\ step I p st1 (TText d) = Ok st1 [].
  Proof. exact (script_body_dropped I p safe). Qed.

  Theorem C05_output_tokens : plain_policy I p -> forall s t, In t (tokenize (sanitize_bytes I p s)) ->
    match t with
    | TStart n _ | TEnd n | TSelf n _ => is_script_or_style n = false
    | TText _ | TComment _ => True
    | TDoctype _ => False
    end.
  Proof.
    intros Hplain s t Hin. pose proof (output_token_provenance M U R I p Hplain s t Hin) as H.
    destruct t as [d|n a|n|n a|d|d]; auto; try (destruct H as (_ & H & _); exact H).
    destruct H as (_ & _ & H); exact H.
  Qed.
End C05.

Print Assumptions C05_tags.
Print Assumptions C05_literal_names.
Print Assumptions C05_body.
Print Assumptions C05_output_tokens.
