(* C10  Inline style is filtered declaration by declaration against the CSS allowlist.   (partial)
   douceur's declaration parser is an oracle (css_decls).  Proved for every style string, element
   and policy: the result is exactly the declarations of the (blank-trimmed, semicolon-terminated)
   value, in order, whose lower-cased, prefix-stripped property has a rule (element rules: explicit
   entry, else merged pattern entries; then global rules) accepting the lower-cased value with CSS
   escapes removed, and whose value no undecodable escape has emptied (fix F16: such a declaration
   is dropped instead of being offered to the matchers as the empty string, which the default
   font-family and font handlers accept: C10_undecodable_dropped), rebuilt as "prop: value" joined
   by "; "; a parse error or nothing left gives the empty value (the attribute is then dropped, see
   C02); a property without any rule is never kept.
   Missing: that removeUnicode decodes as a browser does (false outside a well-behaved class, a
   recorded finding) and douceur's tokenisation vs a browser's. *)
From Coq Require Import List NArith Bool.
Import ListNotations.
From BM Require Import Bytes Strings Tokenizer Policy Style Attrs AttrsSound.

Section C10.
  Variables M U R : Type.
  Variable I : interp M U R.
  Variable p : policy M U R.

  Theorem C10_filter : forall elem val,
    sanitize_styles I p elem val =
    match css_decls I (style_input val) with
    | None => []
    | Some decs => join (map (fun d => fst d ++ [58; 32] ++ snd d)
                             (filter (fun d => decodable (snd d) && existsb (style_accepts I (seen_value (snd d))) (rules_for I p elem (fst d))) decs)) [59; 32]
    end.
  Proof. exact (sanitize_styles_spec I p). Qed.

  Theorem C10_no_rule_no_keep : forall elem prop val, rules_for I p elem prop = [] ->
    decl_allowed I p (element_styles I p elem) prop val = false.
  Proof. exact (unruled_property_dropped I p). Qed.

  (* a declaration whose value an undecodable escape has emptied is never kept, whatever the matchers accept *)
  Theorem C10_undecodable_dropped : forall elem prop val, val <> [] -> seen_value val = [] ->
    decl_allowed I p (element_styles I p elem) prop val = false.
  Proof.
    intros elem prop val Hv Hs. rewrite (decl_allowed_spec M U R I p). unfold decodable. rewrite Hs.
    destruct val; [congruence | reflexivity].
  Qed.
  (* nor one whose value ends in an unterminated escape or an escaped semicolon (fix F18): rebuilt into "prop: value; ..."
     its backslash would swallow the separator and the declaration that follows *)
  Theorem C10_unterminated_dropped : forall elem prop val, unterminated val = true ->
    decl_allowed I p (element_styles I p elem) prop val = false.
  Proof.
    intros elem prop val Hu. rewrite (decl_allowed_spec M U R I p). unfold decodable. rewrite Hu. cbn [negb]. rewrite andb_false_r. reflexivity.
  Qed.
  Example C10_unterminated_example : unterminated (B"red\") = true /\ unterminated (B"red\;") = true /\ unterminated (B"red\\") = false.
  Proof. vm_compute. repeat split. Qed.
  Example C10_undecodable_example : seen_value (B"\110000 expression(alert(1))") = [].
  Proof. vm_compute. reflexivity. Qed.

  (* a style attribute whose filtered value is empty is removed *)
  Theorem C10_empty_dropped : forall elem aps a, key_is (B"style") a = true -> has_style_policies I p elem = true ->
    (allowDataAttributes p && is_data_attribute (akey a) = false) ->
    sanitize_styles I p elem (aval a) = [] -> filter_attr I p elem aps true a = [].
  Proof.
    intros elem aps a Hk Hs Hd He. unfold filter_attr. rewrite Hd, Hk. cbn [andb]. rewrite He. reflexivity.
  Qed.
End C10.

Print Assumptions C10_filter.
Print Assumptions C10_no_rule_no_keep.
Print Assumptions C10_undecodable_dropped.
Print Assumptions C10_unterminated_dropped.
Print Assumptions C10_empty_dropped.
