(* C04  Shipped policies are safe: Strict strips all markup, UGC emits inert vocabulary.   (partial)
   The policies are the model's `build` of the builder scripts that the translator regenerates from
   policies.go / helpers.go on every run (UGCPolicy with its helpers inlined; StrictPolicy =
   NewPolicy()).  Proved, for every token list and every interpretation of matchers and oracles:
     - StrictPolicy emits nothing but escaped text;
     - every tag UGCPolicy emits names an element of the documented vocabulary (Spec/UGCSpec.v),
       which contains no script, style, iframe, object, embed, form control, base, meta or link;
     - every attribute that survives UGCPolicy's filtering loop is documented for its element or
       is one of dir, lang, id, title; no rule names an event-handler or style attribute;
     - the tables are exactly the documented ones: URL checking on, relative URLs allowed, schemes
       exactly mailto/http/https without custom checks or patterns, rel=nofollow required, no style
       rules, no data attributes, no comments, no rewriter (so C03 applies with that allowlist).
   Proved on the BYTES of the output, for every input byte string (round-trip theorem):
     - StrictPolicy's output contains no less-than or greater-than byte, a tokenizer reads nothing but
       text from it, and sanitizing it again returns it unchanged;
     - every tag a tokenizer reads from UGCPolicy's output names a documented, non-forbidden element,
       every attribute on it is forced (rel, target, crossorigin, sandbox) or documented for that
       element or global, and is no event-handler or style attribute; the value of the element's URL
       attribute is u.String() of a parsed URL whose scheme is empty or one of mailto, http, https;
       no comment or doctype is read;
     - conversely a document that is the canonical serialisation of items UGCPolicy leaves alone is
       returned byte for byte (C04_ugc_pass_through, with a concrete instance); every documented
       (element, attribute, sample value) is accepted by the regenerated rules (C04_ugc_documented_values).
   Missing: the DOM clause (x/net/html's tree builder is not modelled); exercised by the C01/C07
   oracles through UGCPolicy in ten containers. *)
From Coq Require Import List NArith Bool String.
Import ListNotations.
From BM Require Import Bytes Strings Escape Regex Tokenizer Policy Url Attrs Loop Builder LoopInv LoopProps AttrsSound
                       EscapeProofs Retokenize SanRoundTrip TokenLevel AttrProvenance PassThrough
                       GenTables GenScripts Forced UGCSpec C04Inst PlainInst C04Samples C01.
Open Scope N_scope.

Lemma lookup_In {V} k (m : amap V) v : lookup k m = Some v -> exists k', beqb k' k = true /\ In (k', v) m.
Proof.
  induction m as [|[k' v'] m IH]; simpl; [discriminate|].
  destruct (beqb k' k) eqn:E.
  - intros H; inversion H; subst. exists k'. auto.
  - intros H. destruct (IH H) as (k2 & E2 & Hin). exists k2. auto.
Qed.

Lemma has_key_mem {V} k (m : amap V) : has_key k m = true -> mem k (map fst m) = true.
Proof.
  unfold has_key. destruct (lookup k m) eqn:E; [|discriminate]. intros _.
  destruct (lookup_In _ _ _ E) as (k' & Ek & Hin). apply beqb_eq in Ek. subst k'.
  apply mem_In. apply in_map_iff. exists (k, v). auto.
Qed.

Section C04.
  Variable I : interp smatcher unit unit.

  Theorem C04_strict_text_only : forall ts it, In it (emitted I strict ts) -> exists d, it = IText d.
  Proof.
    intros ts it Hin.
    pose proof (C01_items_partial smatcher unit unit I strict strict_safe ts it Hin) as H.
    destruct strict_nothing_allowed as (E1 & E2 & E3 & E4).
    assert (Hna : forall n, elem_allowed I strict n = false).
    { intros n. unfold elem_allowed. rewrite E1, E2. reflexivity. }
    destruct it as [|[d|n a|n|n a|d|d]|d|d|d]; try contradiction; try (exists d; reflexivity);
      try (rewrite Hna in H; discriminate H); try congruence.
    destruct H as [H _]. congruence.
  Qed.

  Theorem C04_ugc_tags : forall ts t, In (ITag t) (emitted I ugc ts) ->
    exists n, (t = TEnd n \/ exists a, t = TStart n a \/ t = TSelf n a) /\ mem n (map fst ugc_vocabulary) = true /\
              mem n ugc_forbidden_elements = false.
  Proof.
    intros ts t Hin.
    pose proof (C01_items_partial smatcher unit unit I ugc ugc_safe ts _ Hin) as H.
    assert (P : forall n, elem_allowed I ugc n = true -> mem n (map fst ugc_vocabulary) = true /\ mem n ugc_forbidden_elements = false).
    { intros n Hn. unfold elem_allowed in Hn. rewrite ugc_no_patterns in Hn. cbn [existsb] in Hn. rewrite orb_false_r in Hn.
      apply has_key_mem in Hn. split.
      - pose proof ugc_elements_documented as T. unfold subset in T. rewrite forallb_forall in T.
        apply T. apply mem_In. exact Hn.
      - destruct (mem n ugc_forbidden_elements) eqn:E; auto. apply mem_In in E.
        pose proof ugc_nothing_forbidden as F. rewrite forallb_forall in F. specialize (F _ E).
        apply negb_true_iff in F. unfold keys in F. congruence. }
    destruct t as [d|n a|n|n a|d|d]; try contradiction; exists n; (split; [eauto|apply P; exact H]).
  Qed.

  (* ---- the bytes of StrictPolicy's output ---- *)
  Theorem C04_strict_no_markup : forall s,
    (forall c, In c (sanitize_bytes I strict s) -> c <> 60 /\ c <> 62) /\
    (forall t, In t (tokenize (sanitize_bytes I strict s)) -> exists d, t = TText d).
  Proof.
    intros s. split.
    - intros c Hin. unfold sanitize_bytes, sanitize_tokens in Hin.
      apply in_concat in Hin as (b & Hb & Hc). apply in_map_iff in Hb as (it & <- & Hit).
      destruct (C04_strict_text_only _ _ Hit) as (d & ->). cbn [render_item] in Hc.
      destruct (escape_inert d c Hc) as (H1 & H2 & _). auto.
    - intros t Hin. pose proof (C01_output_tokens smatcher unit unit I strict (strict_plain I) s t Hin) as H.
      destruct t as [d|n a|n|n a|d|d]; try contradiction; eauto; try (rewrite (strict_nothing I) in H; discriminate).
      rewrite strict_no_comments in H. discriminate.
  Qed.

  Theorem C04_strict_idempotent : forall s,
    sanitize_bytes I strict (sanitize_bytes I strict s) = sanitize_bytes I strict s.
  Proof.
    apply (sanitize_idempotent I strict (strict_plain I) strict_no_comments).
    intros n a aps Hp. pose proof (element_policies_allowed I strict n) as E.
    rewrite (strict_nothing I), Hp in E. discriminate.
  Qed.

  (* ---- the bytes of UGCPolicy's output ---- *)
  Lemma ugc_element_policies n aps : element_policies I ugc n = Some aps -> lookup n (elsAndAttrs ugc) = Some aps.
  Proof.
    unfold element_policies. destruct (lookup n (elsAndAttrs ugc)); [auto|].
    unfold match_regex, matching_entries. rewrite ugc_no_patterns. cbn. discriminate.
  Qed.

  Lemma ugc_no_style_policies n : has_style_policies I ugc n = false.
  Proof.
    destruct ugc_no_styles_no_data as (E1 & E2 & E3 & _). unfold has_style_policies. rewrite E1, E2, E3. reflexivity.
  Qed.

  Lemma lookup_has_key {V} k (m : amap V) v : lookup k m = Some v -> has_key k m = true.
  Proof. unfold has_key. intros ->. reflexivity. Qed.

  Lemma rules_accept_key (rules : amap (list (attr_policy smatcher))) a : rules_accept I rules a = true -> mem (akey a) (keys rules) = true.
  Proof.
    unfold rules_accept. destruct (lookup (akey a) rules) eqn:E; [|discriminate]. intros _.
    apply has_key_mem. eapply lookup_has_key; eauto.
  Qed.

  Definition ugc_attr_documented (n k : bytes) : Prop :=
    forced_key k = true \/
    (exists attrs, lookup n ugc_vocabulary = Some attrs /\ mem k attrs = true) \/
    mem k ugc_global_attrs = true.

  Lemma ugc_rule_keys n aps k : lookup n (elsAndAttrs ugc) = Some aps -> mem k (keys aps) = true ->
    (exists attrs, lookup n ugc_vocabulary = Some attrs /\ mem k attrs = true) /\ event_or_style_attr k = false.
  Proof.
    intros Hl Hk. destruct (lookup_In _ _ _ Hl) as (n' & En & Hin). apply beqb_eq in En. subst n'.
    pose proof ugc_attr_names_documented as T. rewrite forallb_forall in T. specialize (T _ Hin). cbn [fst snd] in T.
    destruct (lookup n ugc_vocabulary) as [attrs|]; [|discriminate]. split.
    - exists attrs. split; [reflexivity|]. unfold subset in T. rewrite forallb_forall in T. apply T. apply mem_In. exact Hk.
    - destruct ugc_no_event_or_style_names as [T2 _]. rewrite forallb_forall in T2. specialize (T2 _ Hin). cbn [snd] in T2.
      rewrite forallb_forall in T2. apply mem_In in Hk. specialize (T2 _ Hk). apply negb_true_iff in T2. exact T2.
  Qed.

  Lemma ugc_global_keys k : mem k (keys (globalAttrs ugc)) = true ->
    mem k ugc_global_attrs = true /\ event_or_style_attr k = false.
  Proof.
    intros Hk. split.
    - pose proof ugc_global_names_documented as T. unfold subset in T. rewrite forallb_forall in T. apply T. apply mem_In. exact Hk.
    - destruct ugc_no_event_or_style_names as [_ T2]. rewrite forallb_forall in T2. apply mem_In in Hk. specialize (T2 _ Hk).
      apply negb_true_iff in T2. exact T2.
  Qed.

  Lemma forced_not_event k : forced_key k = true -> event_or_style_attr k = false.
  Proof.
    unfold forced_key. intros H. repeat (apply orb_true_iff in H as [H|H]); apply beqb_eq in H; subst k; vm_compute; reflexivity.
  Qed.

  Lemma forced_not_url k : forced_key k = true ->
    beqb k (B"href") = false /\ beqb k (B"cite") = false /\ beqb k (B"src") = false.
  Proof.
    unfold forced_key. intros H.
    apply orb_true_iff in H as [H|H]; [apply orb_true_iff in H as [H|H]; [apply orb_true_iff in H as [H|H]|]|];
      apply beqb_eq in H; subst k; vm_compute; auto.
  Qed.

  (* one attribute of one kept UGC tag *)
  Lemma ugc_attr n a aps kv : lookup n (elsAndAttrs ugc) = Some aps -> In kv (clean_attrs I ugc n a aps) ->
    ugc_attr_documented n (fst kv) /\ event_or_style_attr (fst kv) = false /\
    (url_checked ugc n kv = true ->
       exists raw u, url_parse I raw = Some u /\ snd kv = u_string u /\
         (u_scheme u = [] \/ mem (u_scheme u) ugc_schemes = true)).
  Proof.
    intros Hl Hin. unfold clean_attrs in Hin. destruct a as [|a0 a']; [contradiction|].
    destruct (sanitize_attrs_justified I ugc n _ aps kv Hin) as [Hf|(x0 & x1 & _ & Hj & Hr)].
    - split; [left; exact Hf|]. split; [apply forced_not_event; exact Hf|].
      intros Hu. exfalso. destruct (forced_not_url _ Hf) as (N1 & N2 & N3).
      unfold url_checked, url_attr_of, key_is in Hu.
      destruct (linkable n && requireParseableURLs ugc); [|discriminate Hu]. cbn [andb] in Hu.
      destruct (mem n href_elements); [congruence|]. destruct (mem n cite_elements); [congruence|].
      destruct (mem n src_elements); [congruence | discriminate Hu].
    - destruct ugc_no_styles_no_data as (_ & _ & _ & Ed).
      assert (Hkey : akey kv = akey x1).
      { destruct Hr as [[-> _]|(_ & _ & _ & k & u & _ & _ & _ & ->)]; reflexivity. }
      assert (Hx1 : (mem (akey x1) (keys aps) = true \/ mem (akey x1) (keys (globalAttrs ugc)) = true) /\ x1 = x0).
      { destruct Hj as [(Hd & _)|[(_ & Hs & _)|[(Hra & ->)|(Hra & ->)]]].
        - congruence.
        - rewrite ugc_no_style_policies in Hs. discriminate.
        - split; [left; apply rules_accept_key; exact Hra | reflexivity].
        - split; [right; apply rules_accept_key; exact Hra | reflexivity]. }
      destruct Hx1 as [Hk _]. unfold akey in Hkey. rewrite Hkey. fold (akey x1).
      split; [|split].
      + destruct Hk as [Hk|Hk]; [right; left; exact (proj1 (ugc_rule_keys _ _ _ Hl Hk)) | right; right; exact (proj1 (ugc_global_keys _ Hk))].
      + destruct Hk as [Hk|Hk]; [exact (proj2 (ugc_rule_keys _ _ _ Hl Hk)) | exact (proj2 (ugc_global_keys _ Hk))].
      + intros Hu. destruct ugc_url_settings as (Hp & Hrel & Hre & Hrw & Hsch & Hemp).
        destruct Hr as [[-> Hnc]|(_ & _ & _ & k & u & Hk1 & Hk2 & Hv & ->)]; [congruence|].
        destruct (valid_url_sound I ugc (aval x1) u Hp Hv) as (parsed & pu & Hparse & Hout & Hsc & _).
        exists parsed, pu. split; [exact Hparse|]. split.
        * cbn [snd]. rewrite Hrw. destruct (beqb k (B"src")); exact Hout.
        * destruct (u_scheme pu) as [|c sc] eqn:Es; [left; reflexivity|]. right.
          assert (Hne : c :: sc <> []) by discriminate. specialize (Hsc Hne). unfold scheme_ok in Hsc. rewrite Es in Hsc.
          destruct (lookup (c :: sc) (allowURLSchemes ugc)) eqn:Elk.
          -- unfold subset in Hsch. rewrite forallb_forall in Hsch. apply Hsch. apply mem_In. apply has_key_mem.
             exact (lookup_has_key _ _ _ Elk).
          -- rewrite Hre in Hsc. discriminate.
  Qed.

  Theorem C04_ugc_output_tokens : forall s t, In t (tokenize (sanitize_bytes I ugc s)) ->
    match t with
    | TText _ => True
    | TEnd n => mem n (map fst ugc_vocabulary) = true /\ mem n ugc_forbidden_elements = false
    | TStart n a | TSelf n a =>
        mem n (map fst ugc_vocabulary) = true /\ mem n ugc_forbidden_elements = false /\
        forall kv, In kv a ->
          ugc_attr_documented n (fst kv) /\ event_or_style_attr (fst kv) = false /\
          (url_checked ugc n kv = true ->
             exists raw u, url_parse I raw = Some u /\ snd kv = u_string u /\
               (u_scheme u = [] \/ mem (u_scheme u) ugc_schemes = true))
    | TComment _ | TDoctype _ => False
    end.
  Proof.
    intros s t Hin.
    assert (P : forall n, elem_allowed I ugc n = true -> mem n (map fst ugc_vocabulary) = true /\ mem n ugc_forbidden_elements = false).
    { intros n Hn. unfold elem_allowed in Hn. rewrite ugc_no_patterns in Hn. cbn [existsb] in Hn. rewrite orb_false_r in Hn.
      apply has_key_mem in Hn. split.
      - pose proof ugc_elements_documented as T. unfold subset in T. rewrite forallb_forall in T.
        apply T. apply mem_In. exact Hn.
      - destruct (mem n ugc_forbidden_elements) eqn:E; auto. apply mem_In in E.
        pose proof ugc_nothing_forbidden as F. rewrite forallb_forall in F. specialize (F _ E).
        apply negb_true_iff in F. unfold keys in F. congruence. }
    pose proof (output_token_provenance smatcher unit unit I ugc (ugc_plain I) s t Hin) as H.
    destruct t as [d|n a|n|n a|d|d]; auto.
    - destruct H as (Hal & _ & a0 & aps & _ & Hp & -> & _). destruct (P n Hal) as [P1 P2].
      split; [exact P1|]. split; [exact P2|]. intros kv Hkv. eapply ugc_attr; [apply ugc_element_policies; exact Hp | exact Hkv].
    - destruct H as (_ & Hal & _). exact (P n Hal).
    - destruct H as (Hal & _ & a0 & aps & _ & Hp & -> & _). destruct (P n Hal) as [P1 P2].
      split; [exact P1|]. split; [exact P2|]. intros kv Hkv. eapply ugc_attr; [apply ugc_element_policies; exact Hp | exact Hkv].
    - destruct H as (Hc & _). rewrite ugc_no_comments in Hc. discriminate.
  Qed.

  (* the converse: canonical documents in the vocabulary are returned byte for byte *)
  Theorem C04_ugc_pass_through : forall its, Forall item_ok its -> Forall (canon_item I ugc) its ->
    sanitize_bytes I ugc (render_items its) = render_items its.
  Proof. apply pass_through. Qed.

  Definition sample_doc : list item :=
    [ITag (TStart (B"p") []); IText (B"a < b & c"); ITag (TStart (B"b") []); IText (B"bold");
     ITag (TEnd (B"b")); ITag (TEnd (B"p"))].
  Example C04_sample_doc_conforms : Forall item_ok sample_doc /\ Forall (canon_item I ugc) sample_doc.
  Proof.
    assert (Hn : forall n, n = B"p" \/ n = B"b" -> RoundTrip.name_ok n).
    { intros n [-> | ->]; (split; [eexists _, _; split; reflexivity | repeat constructor]). }
    assert (Hc : forall n, n = B"p" \/ n = B"b" -> canon_item I ugc (ITag (TStart n []))).
    { intros n [-> | ->]; (split; [vm_compute; reflexivity|]); eexists; (split; [vm_compute; reflexivity|]);
        (split; [reflexivity|]); intros _; vm_compute; reflexivity. }
    split.
    - repeat constructor; try (apply Hn; auto).
    - repeat (constructor; [first [exact Logic.I | apply Hc; auto | split; vm_compute; reflexivity]|]). constructor.
  Qed.
  Example C04_sample_doc_unchanged :
    sanitize_bytes I ugc (B"<p>a &lt; b &amp; c<b>bold</b></p>") = B"<p>a &lt; b &amp; c<b>bold</b></p>".
  Proof.
    change (B"<p>a &lt; b &amp; c<b>bold</b></p>") with (render_items sample_doc).
    apply C04_ugc_pass_through; apply C04_sample_doc_conforms.
  Qed.

  (* the tables are the documented ones *)
  Theorem C04_ugc_tables : ugc_tables_ok = true /\ strict_tables_ok = true.
  Proof. split; [exact ugc_tables_documented | exact strict_tables_empty]. Qed.
End C04.

Print Assumptions C04_strict_text_only.
Print Assumptions C04_ugc_tags.
(* every documented (element, attribute, sample value) passes UGCPolicy's attribute rules, with the
   regexps regenerated from helpers.go run by the verified matcher (515 samples) *)
Theorem C04_ugc_documented_values : ugc_samples_ok = true.
Proof. exact ugc_samples_accepted. Qed.

Print Assumptions C04_ugc_tables.
Print Assumptions C04_ugc_documented_values.
Print Assumptions C04_strict_no_markup.
Print Assumptions C04_strict_idempotent.
Print Assumptions C04_ugc_output_tokens.
Print Assumptions C04_ugc_pass_through.
