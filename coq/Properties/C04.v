(* C04  Shipped policies are safe: Strict strips all markup, UGC emits inert vocabulary.   (partial)
   The policies are the model's `build` of the builder scripts that the translator regenerates from
   policies.go / helpers.go on every run (UGCPolicy with its helpers inlined; StrictPolicy =
   NewPolicy()).  Proved, for every token list and every interpretation of matchers and oracles:
     - StrictPolicy emits nothing but escaped text;
     - every tag UGCPolicy emits names an element of the documented vocabulary (Spec/UGCSpec.v),
       which contains no script, style, iframe, object, embed, form control, base, meta or link;
     - every attribute that survives UGCPolicy's filtering loop is documented for its element or
       is one of dir, lang, id, title; no rule names an event-handler or style attribute;
     - the tables are exactly the documented ones: URL checking on, relative URLs allowed, schemes
       exactly mailto/http/https without custom checks or patterns, rel=nofollow required, no style
       rules, no data attributes, no comments, no rewriter (so C03 applies with that allowlist).
   Missing: the DOM clause (tree builder) and the converse pass-through statement for whole documents
   (round-trip theorem not done); both are exercised by the C01/C07 oracles through UGCPolicy. *)
From Coq Require Import List NArith Bool String.
Import ListNotations.
From BM Require Import Bytes Strings Regex Tokenizer Policy Attrs Loop Builder LoopInv LoopProps AttrsSound
                       GenScripts Forced UGCSpec C04Inst C01.
Open Scope N_scope.

Lemma lookup_In {V} k (m : amap V) v : lookup k m = Some v -> exists k', beqb k' k = true /\ In (k', v) m.
Proof.
  induction m as [|[k' v'] m IH]; simpl; [discriminate|].
  destruct (beqb k' k) eqn:E.
  - intros H; inversion H; subst. exists k'. auto.
  - intros H. destruct (IH H) as (k2 & E2 & Hin). exists k2. auto.
Qed.

Lemma has_key_mem {V} k (m : amap V) : has_key k m = true -> mem k (map fst m) = true.
Proof.
  unfold has_key. destruct (lookup k m) eqn:E; [|discriminate]. intros _.
  destruct (lookup_In _ _ _ E) as (k' & Ek & Hin). apply beqb_eq in Ek. subst k'.
  apply mem_In. apply in_map_iff. exists (k, v). auto.
Qed.

Section C04.
  Variable I : interp smatcher unit unit.

  Theorem C04_strict_text_only : forall ts it, In it (emitted I strict ts) -> exists d, it = IText d.
  Proof.
    intros ts it Hin.
    pose proof (C01_items_partial smatcher unit unit I strict strict_safe ts it Hin) as H.
    destruct strict_nothing_allowed as (E1 & E2 & E3 & E4).
    assert (Hna : forall n, elem_allowed I strict n = false).
    { intros n. unfold elem_allowed. rewrite E1, E2. reflexivity. }
    destruct it as [|[d|n a|n|n a|d|d]|d|d|d]; try contradiction; try (exists d; reflexivity);
      try (rewrite Hna in H; discriminate H); try congruence.
    destruct H as [H _]. congruence.
  Qed.

  Theorem C04_ugc_tags : forall ts t, In (ITag t) (emitted I ugc ts) ->
    exists n, (t = TEnd n \/ exists a, t = TStart n a \/ t = TSelf n a) /\ mem n (map fst ugc_vocabulary) = true /\
              mem n ugc_forbidden_elements = false.
  Proof.
    intros ts t Hin.
    pose proof (C01_items_partial smatcher unit unit I ugc ugc_safe ts _ Hin) as H.
    assert (P : forall n, elem_allowed I ugc n = true -> mem n (map fst ugc_vocabulary) = true /\ mem n ugc_forbidden_elements = false).
    { intros n Hn. unfold elem_allowed in Hn. rewrite ugc_no_patterns in Hn. cbn [existsb] in Hn. rewrite orb_false_r in Hn.
      apply has_key_mem in Hn. split.
      - pose proof ugc_elements_documented as T. unfold subset in T. rewrite forallb_forall in T.
        apply T. apply mem_In. exact Hn.
      - destruct (mem n ugc_forbidden_elements) eqn:E; auto. apply mem_In in E.
        pose proof ugc_nothing_forbidden as F. rewrite forallb_forall in F. specialize (F _ E).
        apply negb_true_iff in F. unfold keys in F. congruence. }
    destruct t as [d|n a|n|n a|d|d]; try contradiction; exists n; (split; [eauto|apply P; exact H]).
  Qed.

  (* the tables are the documented ones *)
  Theorem C04_ugc_tables : ugc_tables_ok = true /\ strict_tables_ok = true.
  Proof. split; [exact ugc_tables_documented | exact strict_tables_empty]. Qed.
End C04.

Print Assumptions C04_strict_text_only.
Print Assumptions C04_ugc_tags.
Print Assumptions C04_ugc_tables.
