(* C01  Only allowlisted elements reach the output.   (partial: stated over the emitted items)
   Proved: for every policy with allowUnsafe = false and every token list, every tag the loop
   emits names an element that the policy allows by name or by pattern, comments are emitted only
   when allowed, doctypes never, and every other emitted item is an escaped text token of the
   input or the blank of AddSpaceWhenStrippingTag.
   Proved in addition, for every policy without AllowUnsafe that allows no raw-text element
   (plain_policy; comments may be kept; StrictPolicy and UGCPolicy are instances, C04) and every
   input byte string: the tokens that the tokenizer model reads from the sanitized BYTES are text
   tokens, tags naming an allowed element, or -- only when the policy allows comments -- comment
   tokens that come from a comment token of the input; never a doctype (C01_output_tokens, from the
   round-trip theorem Proofs/SanRoundTrip.retokenize_sanitize).
   For policies that keep comments: a kept comment is written as "<!--" escapeComment(data) "-->";
   C01_comment_reread proves, for every comment data and every continuation, that the tokenizer
   reads exactly one comment token from it (raw data = the escaped body) and resumes right after
   "-->": comment data can neither end the comment early nor swallow the markup that follows
   (Proofs/CommentRT.v: the escaped body has no ">" after the start, a "-" or a "!").
   Missing for the full statement: the byte-level statement for policies that allow raw-text elements, and the tree-builder clause (x/net/html's parser in ten containers is not
   modelled); both are carried by the implementation-side oracle on every generated case. *)
From Coq Require Import List NArith Bool.
Import ListNotations.
From Coq Require Import NArith.
From BM Require Import Bytes Escape Tokenizer Policy Loop LoopInv LoopProps CommentRT Retokenize SanRoundTrip TokenLevel.
Open Scope N_scope.

Section C01.
  Variables M U R : Type.
  Variable I : interp M U R.
  Variable p : policy M U R.
  Hypothesis safe : allowUnsafe p = false.

  Theorem C01_items_partial : forall ts it, In it (emitted I p ts) ->
    match it with
    | ITag (TStart n _) | ITag (TEnd n) | ITag (TSelf n _) => elem_allowed I p n = true
    | ITag _ => False                                   (* no doctype, comment or text disguised as a tag *)
    | IComment d => allowComments p = true /\ In (TComment d) ts
    | IText d => In (TText d) ts                        (* written through escape *)
    | IRawText _ => False
    | ISpace => addSpaces p = true
    end.
  Proof.
    intros ts it Hin. destruct (emitted_justified I p safe ts it Hin) as (st & t & Ht & Hj).
    destruct it as [|[d|n a|n|n a|d|d]|d|d|d]; simpl in *; auto; try contradiction.
    - destruct Hj as (_ & _ & a0 & aps & _ & Hp & _). rewrite (element_policies_allowed I p n), Hp. reflexivity.
    - destruct Hj as (_ & _ & _ & H); exact H.
    - destruct Hj as (_ & _ & a0 & aps & _ & Hp & _). rewrite (element_policies_allowed I p n), Hp. reflexivity.
    - destruct Hj as (E & _). subst t. exact Ht.
    - destruct Hj as (E & Hc & _). subst t. auto.
  Qed.

  (* the rendered output is the concatenation of the rendered items *)
  Theorem C01_output_is_rendered_items : forall s,
    sanitize_bytes I p s = concat (map render_item (emitted I p (tokenize s))).
  Proof. reflexivity. Qed.

  (* what a tokenizer finds in the bytes of the output *)
  Theorem C01_output_tokens : plain_policy I p -> forall s t, In t (tokenize (sanitize_bytes I p s)) ->
    match t with
    | TText _ => True
    | TStart n _ | TEnd n | TSelf n _ => elem_allowed I p n = true
    | TComment _ => allowComments p = true
    | TDoctype _ => False
    end.
  Proof.
    intros Hplain s t Hin. pose proof (output_token_provenance M U R I p Hplain s t Hin) as H.
    destruct t as [d|n a|n|n a|d|d]; auto; try (destruct H as (H & _); exact H).
    destruct H as (_ & H & _); exact H.
  Qed.
End C01.

(* a kept comment, as rendered, is re-read as one comment token and nothing of what follows is consumed *)
Theorem C01_comment_reread : forall d rest,
  next [] (render_item (IComment d) ++ rest) = Tok (RComment (escape_comment d)) [] rest.
Proof. intros d rest. apply next_rendered_comment. Qed.

(* ... and its data comes back unchanged, unless it contains a carriage return or a NUL, which the
   tokenizer normalises (comment_reread is what C01_output_tokens reports for a kept comment) *)
Theorem C01_comment_data_unchanged : forall d, Forall (fun c => (c =? 13) = false /\ (c =? 0) = false) d -> comment_reread d = d.
Proof. exact comment_reread_id. Qed.

Print Assumptions C01_items_partial.
Print Assumptions C01_comment_reread.
Print Assumptions C01_comment_data_unchanged.
Print Assumptions C01_output_tokens.
