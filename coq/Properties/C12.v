(* C12  Forced attributes: crossorigin=anonymous and iframe sandbox.
   For every attribute list (duplicates, any order), every policy and every interpretation of
   its matchers; "emitted with attributes" is literal: the result of sanitizeAttrs is non-empty. *)
From Coq Require Import List NArith Bool.
Import ListNotations.
From BM Require Import Bytes Strings Tokenizer Policy Attrs GenTables Forced TablesInst ForcedAttrs.

Section C12.
  Variables M U R : Type.
  Variable I : interp M U R.
  Variable p : policy M U R.

  Theorem C12_crossorigin : forall elem attrs aps,
    requireCrossOrigin p = true -> mem elem crossorigin_documented = true ->
    sanitize_attrs I p elem attrs aps <> [] ->
    has_key_attr (B"crossorigin") (sanitize_attrs I p elem attrs aps) = true /\
    all_vals (B"crossorigin") (fun v => v = B"anonymous") (sanitize_attrs I p elem attrs aps).
  Proof.
    intros elem attrs aps Hr He Hne.
    assert (He' : mem elem crossorigin_elements = true).
    { pose proof crossorigin_table_documented as H. unfold same_set in H. apply andb_true_iff in H as [_ H].
      unfold subset in H. rewrite forallb_forall in H. apply H. apply mem_In. exact He. }
    exact (crossorigin_forced I p iframe_not_crossorigin elem attrs aps Hr He' Hne).
  Qed.

  (* the sandbox value is a duplicate-free list of tokens the policy listed, joined by single spaces;
     a missing attribute is added (with the empty value) *)
  Theorem C12_sandbox : forall attrs aps allowed,
    requireSandbox p = Some allowed -> sanitize_attrs I p (B"iframe") attrs aps <> [] ->
    has_key_attr (B"sandbox") (sanitize_attrs I p (B"iframe") attrs aps) = true /\
    all_vals (B"sandbox") (sandbox_value_ok allowed) (sanitize_attrs I p (B"iframe") attrs aps).
  Proof. exact (sandbox_forced I p). Qed.
End C12.

(* the fourteen SandboxValue constants denote the fourteen documented tokens *)
Theorem C12_sandbox_names : map snd sandbox_values = sandbox_documented /\ map fst sandbox_values = map N.of_nat (seq 0 14).
Proof. exact sandbox_table_documented. Qed.

Print Assumptions C12_crossorigin.
Print Assumptions C12_sandbox.
Print Assumptions C12_sandbox_names.
