(* C09  Well-nested input yields well-nested output.   (partial)
   Proved: the invariant that ties the skip flag of the closing-tag stack to its emptiness (so the
   stack is consulted safely for every token list), and the matching step: a non-void element
   dropped for lack of attributes is pushed and its own end tag pops exactly that entry, emitting
   nothing but the optional blank and restoring the stack, the flag, and the skipping state.
   Proved for whole documents (Proofs/TreeSem.v, induction over trees): for every forest in which
   every non-void element is opened and closed (void elements as lone start tags, self-closing
   tags, text, comments, script and style included), every policy and matcher interpretation, the
   emitted items are well nested (C09_output_balanced): every kept start tag of a non-void element
   is followed by a well-nested segment and its own end tag, no stray end tag is written; and the
   loop state after the forest is the state before it up to the most-recent-tag field
   (C09_state_restored), which is what makes a removed start tag take its end tag with it and a
   kept one keep it (the bracket lemma).
   Missing: the parse of arbitrary bytes into such a forest (tree construction not modelled);
   carried by the balance oracle on generated trees. *)
From Coq Require Import List NArith ZArith Bool.
Import ListNotations.
From BM Require Import Bytes Tokenizer Policy Attrs Loop LoopInv MiscProofs TreeSem.

Section C09.
  Variables M U R : Type.
  Variable I : interp M U R.
  Variable p : policy M U R.

  Theorem C09_stack_invariant : forall ts, snd (run_items I p ts) = false.
  Proof. exact (run_items_no_panic I p). Qed.

  Theorem C09_dropped_pair_partial : forall st n a aps,
    Inv st -> is_script_or_style n = false -> is_void n = false ->
    element_policies I p n = Some aps -> clean_attrs I p n a aps = [] -> allow_no_attrs I p n = false ->
    exists st1, step I p st (TStart n a) = Ok st1 (space_if_adding p) /\
                stack st1 = (n, O) :: stack st /\ skip st1 = skip st /\ skipCount st1 = skipCount st /\
                exists st2, step I p st1 (TEnd n) = Ok st2 (space_if_adding p) /\
                            stack st2 = stack st /\ skipClosing st2 = skipClosing st /\ skip st2 = skip st /\ skipCount st2 = skipCount st.
  Proof. exact (dropped_pair I p). Qed.

  Theorem C09_output_balanced : forall f, forallb wf f = true -> balanced (emitted I p (flatten_forest f)).
  Proof. exact (output_balanced I p). Qed.

  Theorem C09_state_restored : forall f st, forallb wf f = true -> Inv2 M U R I p st ->
    exists r o, exec M U R I p st (flatten_forest f) = Some (set_recent st r, o).
  Proof. intros f st. apply state_restored. Qed.

  (* start and end tag of one element: removed together or kept together *)
  Theorem C09_bracket : forall n a st, Inv2 M U R I p st -> is_void n = false ->
    exists stA oA oB,
      step I p st (TStart n a) = Ok stA oA /\ Inv2 M U R I p stA /\
      (forall r, step I p (set_recent stA r) (TEnd n) = Ok (set_recent st (end_recent r n)) oB) /\
      bclass M U R I p st n a stA oA oB.
  Proof. intros n a st. apply bracket. Qed.
End C09.

Print Assumptions C09_stack_invariant.
Print Assumptions C09_dropped_pair_partial.
Print Assumptions C09_output_balanced.
Print Assumptions C09_state_restored.
Print Assumptions C09_bracket.
