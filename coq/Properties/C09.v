(* C09  Well-nested input yields well-nested output.   (partial)
   Proved: the invariant that ties the skip flag of the closing-tag stack to its emptiness (so the
   stack is consulted safely for every token list), and the matching step: a non-void element
   dropped for lack of attributes is pushed and its own end tag pops exactly that entry, emitting
   nothing but the optional blank and restoring the stack, the flag, and the skipping state.
   Missing: the induction over whole well-nested documents (kept same-named descendants are
   counted on the entry; void elements are never pushed); carried by the bounded-exhaustive loop
   correspondence and the balance oracle on generated trees. *)
From Coq Require Import List NArith ZArith Bool.
Import ListNotations.
From BM Require Import Bytes Tokenizer Policy Attrs Loop LoopInv MiscProofs.

Section C09.
  Variables M U R : Type.
  Variable I : interp M U R.
  Variable p : policy M U R.

  Theorem C09_stack_invariant : forall ts, snd (run_items I p ts) = false.
  Proof. exact (run_items_no_panic I p). Qed.

  Theorem C09_dropped_pair_partial : forall st n a aps,
    Inv st -> is_script_or_style n = false -> is_void n = false ->
    element_policies I p n = Some aps -> clean_attrs I p n a aps = [] -> allow_no_attrs I p n = false ->
    exists st1, step I p st (TStart n a) = Ok st1 (space_if_adding p) /\
                stack st1 = (n, O) :: stack st /\ skip st1 = skip st /\ skipCount st1 = skipCount st /\
                exists st2, step I p st1 (TEnd n) = Ok st2 (space_if_adding p) /\
                            stack st2 = stack st /\ skipClosing st2 = skipClosing st /\ skip st2 = skip st /\ skipCount st2 = skipCount st.
  Proof. exact (dropped_pair I p). Qed.
End C09.

Print Assumptions C09_stack_invariant.
Print Assumptions C09_dropped_pair_partial.
