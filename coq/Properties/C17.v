(* C17  A policy is its rule set: independent of call order, case and other instances.   (partial)
   Proved over Builder.apply: an added rule is appended to the rule list of its key and leaves every
   other key's list alone, so what a table accepted it still accepts afterwards (rules accumulate);
   switch-like options take the value of their most recent setting and leave all tables alone.
   Order of calls (C17_order_of_rule_calls, Proofs/BuilderEquiv.v + PolicyEquiv.v): two builder
   histories that make the same switch-like calls in the same order and the same rule-adding calls
   (AllowAttrs..., AllowStyles..., AllowElements, AllowElementsMatching, with any scope) in ANY order
   and interleaving build policies that sanitize every input to the same bytes, for every
   interpretation of matchers and oracles.  (Side condition: a pattern's pointer identity stands
   for one regexp, as in Go.)  The proof decomposes every rule-adding call into primitive table
   updates (apply_prims), shows that primitive updates commute up to "same rules" (prim_comm) and
   commute exactly with switch-like calls (history_normal_form), and that policies with the same
   rules behave identically (PolicyEquiv.peq_sanitize).
   Independence of instances is built into the functional model; that the code allocates per
   instance, lower-cases names and accumulates rather than replaces is checked by the dump
   correspondence: interleaved builder histories on 2-3 policies, every table of every policy
   compared with the model after every call.
   Letter case (C17_letter_case): the builder looks at element, attribute, CSS property and scheme
   names only through strings.ToLower; two calls whose names agree after lower-casing have exactly
   the same effect on every policy (instance: HREF / A versus href / a). *)
From Coq Require Import List NArith Bool.
Import ListNotations.
From Coq Require Import Permutation.
From BM Require Import Bytes Strings Tokenizer Policy Attrs Loop Builder MapProofs MiscProofs PolicyEquiv BuilderEquiv.

Section C17.
  Variables M U R : Type.
  Variable I : interp M U R.
  Variable dh : bytes -> M.

  Theorem C17_rules_accumulate_partial : forall rules k (ap : attr_policy M) a,
    rules_accept I rules a = true -> rules_accept I (app_rule k ap rules) a = true.
  Proof. exact (rules_accept_add_rule I). Qed.

  Theorem C17_rule_lists : forall (rules : amap (list (attr_policy M))) k ap k2,
    lookup k (app_rule k ap rules) = Some (match lookup k rules with Some l => l ++ [ap] | None => [ap] end) /\
    (beqb k k2 = false -> lookup k2 (app_rule k ap rules) = lookup k2 rules).
  Proof.
    intros rules k ap k2. unfold app_rule. split.
    - rewrite lookup_upsert_same. destruct (lookup k rules); reflexivity.
    - intros H. apply lookup_upsert_other. exact H.
  Qed.

  (* switch-like options: the most recent setting wins and nothing else changes *)
  Theorem C17_switch_last_setting : forall (p : policy M U R) b1 b2,
    let p' := apply dh (apply dh p (@ORequireNoFollowOnLinks M U R b1)) (@ORequireNoFollowOnLinks M U R b2) in
    requireNoFollow p' = b2 /\ elsAndAttrs p' = elsAndAttrs p /\ globalAttrs p' = globalAttrs p /\
    elsMatchingAndAttrs p' = elsMatchingAndAttrs p /\ allowURLSchemes p' = allowURLSchemes p.
  Proof. intros p b1 b2. cbn. repeat split. Qed.

  Theorem C17_skip_set_last_setting : forall (p : policy M U R) n,
    is_ascii n = true ->
    mem (to_lower n) (elsSkipContent (apply dh (apply dh p (@OSkipElementsContent M U R [n])) (@OAllowElementsContent M U R [n]))) = false.
  Proof.
    intros p n _. cbn [apply upd set_opts get_opts elsSkipContent o_skip fold_left].
    unfold mem. destruct (existsb _ _) eqn:E; auto. apply existsb_exists in E as (x & Hin & Hx).
    apply filter_In in Hin as [_ Hf]. apply negb_true_iff in Hf. apply beqb_eq in Hx. subst x.
    rewrite beqb_refl in Hf. discriminate.
  Qed.

  (* the order of the rule-adding calls does not matter *)
  Theorem C17_order_of_rule_calls : forall h1 h2,
    switches_of M U R h1 = switches_of M U R h2 ->
    Permutation (rules_of M U R h1) (rules_of M U R h2) ->
    all_compat M (flat_map (prims_of M U R dh) (rules_of M U R h1)) ->
    forall s, sanitize_bytes I (build dh h1) s = sanitize_bytes I (build dh h2) s.
  Proof.
    intros h1 h2 Hs Hp Hc s. unfold build.
    destruct (histories_core_eq M U R dh h1 h2 (new_policy M U R) (new_policy_wf M U R) Hs Hp Hc) as (C & W1 & W2).
    apply (peq_sanitize I). apply core_eq_peq; assumption.
  Qed.

  (* the letter case of names does not matter *)
  Theorem C17_letter_case : forall (p : policy M U R) o1 o2, op_case_eq M U R o1 o2 -> apply dh p o1 = apply dh p o2.
  Proof. intros p o1 o2. apply apply_case_eq. Qed.

  Example C17_letter_case_example : forall p : policy M U R,
    apply dh p (@OAllowAttrs M U R [B"HREF"; B"Title"] None false (@OnElements _ [B"A"])) =
    apply dh p (@OAllowAttrs M U R [B"href"; B"title"] None false (@OnElements _ [B"a"])).
  Proof. intros p. apply C17_letter_case. constructor; vm_compute; reflexivity. Qed.

  (* histories without element patterns satisfy the side condition *)
  Lemma C17_no_patterns_compat : forall l : list (prim M), (forall x, In x l -> prim_rid M x = None) -> all_compat M l.
  Proof. intros l H x y Hx Hy. unfold compat. rewrite (H x Hx). exact Logic.I. Qed.
End C17.

(* non-vacuity: two orders of the same calls *)
Section C17Example.
  Variables M U R : Type.
  Variable I : interp M U R.
  Variable dh : bytes -> M.
  Definition h_one : list (op M U R) :=
    [@OAllowAttrs _ _ _ [B"href"] None false (@OnElements _ [B"a"]); @ORequireNoFollowOnLinks _ _ _ true;
     @OAllowElements _ _ _ [B"b"; B"i"]; @OAllowAttrs _ _ _ [B"title"] None false (@Globally _)].
  Definition h_two : list (op M U R) :=
    [@OAllowElements _ _ _ [B"b"; B"i"]; @OAllowAttrs _ _ _ [B"title"] None false (@Globally _);
     @ORequireNoFollowOnLinks _ _ _ true; @OAllowAttrs _ _ _ [B"href"] None false (@OnElements _ [B"a"])].
  Example C17_example : forall s, sanitize_bytes I (build dh h_one) s = sanitize_bytes I (build dh h_two) s.
  Proof.
    apply C17_order_of_rule_calls.
    - reflexivity.
    - cbn. apply perm_trans with (l' := [@OAllowElements M U R [B"b"; B"i"]; @OAllowAttrs _ _ _ [B"href"] None false (@OnElements _ [B"a"]); @OAllowAttrs _ _ _ [B"title"] None false (@Globally _)]).
      + apply perm_swap.
      + apply perm_skip. apply perm_swap.
    - apply C17_no_patterns_compat. cbn. intros x Hx. repeat (destruct Hx as [<-|Hx]; [reflexivity|]). contradiction.
  Qed.
End C17Example.

Print Assumptions C17_rules_accumulate_partial.
Print Assumptions C17_rule_lists.
Print Assumptions C17_switch_last_setting.
Print Assumptions C17_order_of_rule_calls.
Print Assumptions C17_letter_case.
