(* C17  A policy is its rule set: independent of call order, case and other instances.   (partial)
   Proved over Builder.apply: an added rule is appended to the rule list of its key and leaves every
   other key's list alone, so what a table accepted it still accepts afterwards (rules accumulate);
   switch-like options take the value of their most recent setting and leave all tables alone.
   Independence of instances is built into the functional model; that the code allocates per
   instance, lower-cases names and accumulates rather than replaces is checked by the dump
   correspondence: interleaved builder histories on 2-3 policies, every table of every policy
   compared with the model after every call. *)
From Coq Require Import List NArith Bool.
Import ListNotations.
From BM Require Import Bytes Strings Policy Attrs Builder MapProofs MiscProofs.

Section C17.
  Variables M U R : Type.
  Variable I : interp M U R.
  Variable dh : bytes -> M.

  Theorem C17_rules_accumulate_partial : forall rules k (ap : attr_policy M) a,
    rules_accept I rules a = true -> rules_accept I (app_rule k ap rules) a = true.
  Proof. exact (rules_accept_add_rule I). Qed.

  Theorem C17_rule_lists : forall (rules : amap (list (attr_policy M))) k ap k2,
    lookup k (app_rule k ap rules) = Some (match lookup k rules with Some l => l ++ [ap] | None => [ap] end) /\
    (beqb k k2 = false -> lookup k2 (app_rule k ap rules) = lookup k2 rules).
  Proof.
    intros rules k ap k2. unfold app_rule. split.
    - rewrite lookup_upsert_same. destruct (lookup k rules); reflexivity.
    - intros H. apply lookup_upsert_other. exact H.
  Qed.

  (* switch-like options: the most recent setting wins and nothing else changes *)
  Theorem C17_switch_last_setting : forall (p : policy M U R) b1 b2,
    let p' := apply dh (apply dh p (@ORequireNoFollowOnLinks M U R b1)) (@ORequireNoFollowOnLinks M U R b2) in
    requireNoFollow p' = b2 /\ elsAndAttrs p' = elsAndAttrs p /\ globalAttrs p' = globalAttrs p /\
    elsMatchingAndAttrs p' = elsMatchingAndAttrs p /\ allowURLSchemes p' = allowURLSchemes p.
  Proof. intros p b1 b2. cbn. repeat split. Qed.

  Theorem C17_skip_set_last_setting : forall (p : policy M U R) n,
    is_ascii n = true ->
    mem (to_lower n) (elsSkipContent (apply dh (apply dh p (@OSkipElementsContent M U R [n])) (@OAllowElementsContent M U R [n]))) = false.
  Proof.
    intros p n _. cbn [apply upd set_opts get_opts elsSkipContent o_skip fold_left].
    unfold mem. destruct (existsb _ _) eqn:E; auto. apply existsb_exists in E as (x & Hin & Hx).
    apply filter_In in Hin as [_ Hf]. apply negb_true_iff in Hf. apply beqb_eq in Hx. subst x.
    rewrite beqb_refl in Hf. discriminate.
  Qed.
End C17.

Print Assumptions C17_rules_accumulate_partial.
Print Assumptions C17_rule_lists.
Print Assumptions C17_switch_last_setting.
