(* C02  Only allowlisted attributes with accepted values reach the output.   (partial)
   Proved for every element, attribute list, policy and matcher interpretation:
     - every attribute that survives the filtering loop of sanitizeAttrs is justified: a well-formed
       data-* attribute with data attributes enabled, a style attribute rebuilt by the style filter
       (C10) with a non-empty result, or an attribute for whose key the element's rule table
       (explicit entry, else merged pattern entries) or the global table has a rule without pattern
       or with a pattern accepting the decoded input value;
     - a start or self-closing tag is emitted bare only if the element is allowed without attributes.
     - for the FINAL list sanitizeAttrs returns (C02_final_list): every attribute carries a key the
       sanitizer forces (rel, target, crossorigin, sandbox), or is an attribute justified as above and
       unchanged, or is such an attribute on which the URL pass ran, with the value validURL returned
       (so value patterns were judged on the decoded input value, before re-serialisation);
     - for the BYTES of the output (C02_output_tokens), for every policy without AllowUnsafe that
       allows no raw-text element: every attribute of every tag a tokenizer reads from the output
       has that provenance with respect to a tag of the input, and a tag is bare only if the
       element is allowed without attributes.
   Missing: the byte-level statement for policies that allow raw-text elements;
   covered by the attrs correspondence and the oracle. *)
From Coq Require Import List NArith Bool.
Import ListNotations.
From BM Require Import Bytes Strings Tokenizer Policy Url Style Attrs Loop LoopInv LoopProps AttrsSound AttrProvenance SanRoundTrip TokenLevel.

Section C02.
  Variables M U R : Type.
  Variable I : interp M U R.
  Variable p : policy M U R.

  Theorem C02_filter_sound_partial : forall elem aps a0 a,
    In a (filter_attr I p elem aps (has_style_policies I p elem) a0) -> attr_justified I p elem aps a0 a.
  Proof. intros. eapply filter_attr_sound; eauto. Qed.

  Theorem C02_rule_accepts : forall rules a, rules_accept I rules a = true <->
    exists apl ap, lookup (akey a) rules = Some apl /\ In ap apl /\
                   match ap with None => True | Some r => mmatch I r (aval a) = true end.
  Proof. exact (rules_accept_spec I). Qed.

  (* never emitted bare unless allowed without attributes *)
  Theorem C02_not_bare : allowUnsafe p = false -> forall ts n,
    (In (ITag (TStart n [])) (emitted I p ts) \/ In (ITag (TSelf n [])) (emitted I p ts)) ->
    allow_no_attrs I p n = true.
  Proof.
    intros safe ts n [H|H]; destruct (emitted_justified I p safe ts _ H) as (st & t & _ & Hj); simpl in Hj;
      destruct Hj as (_ & _ & a & aps & _ & _ & _ & Hb); apply Hb; reflexivity.
  Qed.

  (* the list sanitizeAttrs returns *)
  Theorem C02_final_list : forall elem attrs aps a, In a (sanitize_attrs I p elem attrs aps) ->
    forced_key (akey a) = true \/
    exists a0 a1, In a0 attrs /\ attr_justified I p elem aps a0 a1 /\
      ((a = a1 /\ url_checked p elem a1 = false) \/ (url_checked p elem a1 = true /\ url_rewritten I p elem a1 a)).
  Proof. exact (sanitize_attrs_justified I p). Qed.

  (* the attributes a tokenizer reads from the bytes of the output *)
  Theorem C02_output_tokens : plain_policy I p -> forall s n a',
    In (TStart n a') (tokenize (sanitize_bytes I p s)) \/ In (TSelf n a') (tokenize (sanitize_bytes I p s)) ->
    exists a aps,
      (In (TStart n a) (tokenize s) \/ In (TSelf n a) (tokenize s)) /\ element_policies I p n = Some aps /\
      (a' = [] -> allow_no_attrs I p n = true) /\
      forall x, In x a' ->
        forced_key (akey x) = true \/
        exists a0 a1, In a0 a /\ attr_justified I p n aps a0 a1 /\
          ((x = a1 /\ url_checked p n a1 = false) \/ (url_checked p n a1 = true /\ url_rewritten I p n a1 x)).
  Proof.
    intros Hplain s n a' [Hin|Hin];
      pose proof (output_token_provenance M U R I p Hplain s _ Hin) as H; cbn in H;
      destruct H as (_ & _ & a & aps & Hsrc & Hp & Ha & Hb); exists a, aps;
      (split; [auto|]); (split; [exact Hp|]); (split; [exact Hb|]);
      intros x Hx; subst a'; unfold clean_attrs in Hx; destruct a as [|a0 ar]; try contradiction;
      apply (sanitize_attrs_justified I p); exact Hx.
  Qed.
End C02.

Print Assumptions C02_filter_sound_partial.
Print Assumptions C02_rule_accepts.
Print Assumptions C02_not_bare.
Print Assumptions C02_final_list.
Print Assumptions C02_output_tokens.
