(* C02  Only allowlisted attributes with accepted values reach the output.   (partial)
   Proved for every element, attribute list, policy and matcher interpretation:
     - every attribute that survives the filtering loop of sanitizeAttrs is justified: a well-formed
       data-* attribute with data attributes enabled, a style attribute rebuilt by the style filter
       (C10) with a non-empty result, or an attribute for whose key the element's rule table
       (explicit entry, else merged pattern entries) or the global table has a rule without pattern
       or with a pattern accepting the decoded input value;
     - a start or self-closing tag is emitted bare only if the element is allowed without attributes.
   Missing: provenance through the later rewriting passes (URL pass: C03; rel/target: C11;
   crossorigin/sandbox: C12 are proved separately) as one theorem about the final list, and the
   re-tokenisation of the rendered tag. Both are covered by the attrs correspondence and the oracle. *)
From Coq Require Import List NArith Bool.
Import ListNotations.
From BM Require Import Bytes Strings Tokenizer Policy Style Attrs Loop LoopInv LoopProps AttrsSound.

Section C02.
  Variables M U R : Type.
  Variable I : interp M U R.
  Variable p : policy M U R.

  Theorem C02_filter_sound_partial : forall elem aps a0 a,
    In a (filter_attr I p elem aps (has_style_policies I p elem) a0) -> attr_justified I p elem aps a0 a.
  Proof. intros. eapply filter_attr_sound; eauto. Qed.

  Theorem C02_rule_accepts : forall rules a, rules_accept I rules a = true <->
    exists apl ap, lookup (akey a) rules = Some apl /\ In ap apl /\
                   match ap with None => True | Some r => mmatch I r (aval a) = true end.
  Proof. exact (rules_accept_spec I). Qed.

  (* never emitted bare unless allowed without attributes *)
  Theorem C02_not_bare : allowUnsafe p = false -> forall ts n,
    (In (ITag (TStart n [])) (emitted I p ts) \/ In (ITag (TSelf n [])) (emitted I p ts)) ->
    allow_no_attrs I p n = true.
  Proof.
    intros safe ts n [H|H]; destruct (emitted_justified I p safe ts _ H) as (st & t & _ & Hj); simpl in Hj;
      destruct Hj as (_ & _ & a & aps & _ & _ & _ & Hb); apply Hb; reflexivity.
  Qed.
End C02.

Print Assumptions C02_filter_sound_partial.
Print Assumptions C02_rule_accepts.
Print Assumptions C02_not_bare.
