(* C18  Default CSS value handlers accept only inert, whole values.   (partial)
   Proved, for strings of every length, about the building blocks of the ~210 default handlers as
   they stand in css/handlers.go now (regenerated on every run):
     - every regexp used as X.MatchString(value) matches against the whole value and accepts no
       hostile string (angle bracket, backslash, at-sign, expression( , a javascript:/data:
       reference, a url( that is not a plain http(s):// reference), wherever the fragment is placed;
     - the regexps that strip a leading function name are anchored at the start and strip only
       inert text;
     - every keyword list of the file is free of the characters < > \ @ ( : of which every hostile
       value needs one (C18_hostile_needs_danger, by reflection on the hostile language itself: a
       value without these six characters is not hostile);
     - GetDefaultHandler is a lookup in the default table that falls back to BaseHandler, whose
       body is `return false` (shape recognised by the translator, which fails otherwise).
   WHOLE HANDLERS whose body is a disjunction of conditions on the value (132 functions, 167 of the
   213 table entries) are proved outright: C18_handlers_whole - the modelled handler
   (Model/KwHandler.v: regexp acceptors, calls of earlier handlers, in(splitValues(value), keywords),
   in(strings.Split(value, " "), keywords); shape and helper texts recognised by the translator,
   models tied to the real handlers by the correspondence run) accepts no hostile value of any
   length: the regexps are inert, and the six characters survive Split / TrimSpace / ToLower
   unchanged (Proofs/DangerBytes.v) while no keyword contains one.
   One composing block is proved as well: recursiveCheck (modelled in Model/RecCheck.v, tied to the
   code on results and call counts, proved correct and quadratic for C14) accepts a value only if
   every component lies in a group that a sub-handler accepted, so with sub-handlers that accept only
   values free of the six characters the whole value is free of them and not hostile
   (C18_recursive_check_composes).
   Missing: the other 37 handler functions (recursiveCheck over the colour handlers, splits on longer
   separators, the hand-written loops).  That part is covered by the
   bounded-exhaustive implementation-side search the property text itself describes: for all
   table entries, values from the handler's own vocabulary with hostile fragments inserted,
   appended, prepended and glued at every position. *)
From Coq Require Import List NArith Bool String.
Import ListNotations.
From BM Require Import Bytes Regex RegexSound RegexSem CssInert GenRegex GenCss C18Inst C18Inert0 C18Inert1 C18Inert2 C18Inert3 C18Whole C18Strip C18Kw C18Danger.
From BM Require Utf8 Strings RecCheck RecCheckSafe Utf8Props.
From BM Require Import KwHandler KwHandlerProofs C18KwHandlers C18RxClean.
From Coq Require Import Lia.
Open Scope N_scope.

Lemma hostile_parts_four : hostile_parts = [nth 0 hostile_parts Emp; nth 1 hostile_parts Emp; nth 2 hostile_parts Emp; nth 3 hostile_parts Emp].
Proof. reflexivity. Qed.

Theorem C18_regexps_inert : forall name X, In (name, X) css_acceptors ->
  forall s, search X s = true -> matches hostile s = false.
Proof.
  intros name X Hin s Hs. unfold hostile. rewrite matches_alts, hostile_parts_four.
  assert (P : forall k (Hk : forallb (ok18_inert_part k) css_acceptors = true), matches (nth k hostile_parts Emp) s = false).
  { intros k Hk. rewrite forallb_forall in Hk. specialize (Hk _ Hin). unfold ok18_inert_part in Hk. cbn [snd] in Hk.
    pose proof (is_empty_sound _ _ Hk s) as He. rewrite matches_And in He. unfold search in Hs. rewrite Hs in He. exact He. }
  cbn [existsb]. rewrite (P 0%nat c18_all_inert0), (P 1%nat c18_all_inert1), (P 2%nat c18_all_inert2), (P 3%nat c18_all_inert3). reflexivity.
Qed.

Theorem C18_regexps_whole_value : forall name X, In (name, X) css_acceptors ->
  forall s, search X s = true -> matches X s = true.
Proof.
  intros name X Hin. pose proof c18_all_whole as H. rewrite forallb_forall in H. specialize (H _ Hin).
  apply incl_from_empty. apply (is_empty_sound _ _ H).
Qed.

Theorem C18_strippers_anchored : forall name X, In (name, X) css_strippers -> starts_with_bot X = true.
Proof.
  intros name X Hin. pose proof c18_all_strip as H. rewrite forallb_forall in H. specialize (H _ Hin).
  unfold ok18_stripper in H. apply andb_true_iff in H as [H _]. exact H.
Qed.

Theorem C18_keywords_inert : forall loc ws w, In (loc, ws) css_keyword_lists -> In w ws -> word_inert w = true.
Proof.
  intros loc ws w Hin Hw. pose proof c18_all_kw as H. rewrite forallb_forall in H. specialize (H _ Hin).
  unfold ok18_keywords in H. cbn [snd] in H. rewrite forallb_forall in H. apply H. exact Hw.
Qed.

(* without one of the danger characters a value cannot be hostile: every part of the hostile
   language needs < > \ @ ( or :   (by reflection on Spec/CssInert.hostile) *)
Theorem C18_hostile_needs_danger : forall s, matches hostile s = true -> matches has_danger s = true.
Proof. exact hostile_needs_danger. Qed.
Theorem C18_no_danger_not_hostile : forall s, Forall (fun c => cs_mem c danger_cset = false) s -> matches hostile s = false.
Proof. exact no_danger_not_hostile. Qed.

(* the recursiveCheck block composes (Model/RecCheck.v is tied to css.recursiveCheck on results and call counts, C14): if
   every sub-handler accepts only values free of the six characters, a value whose space-separated components recursiveCheck
   accepts is free of them, hence not hostile *)
Theorem C18_recursive_check_composes : forall (value : list Bytes.bytes) (funcs : list (Bytes.bytes -> bool)),
  (forall j, In j funcs -> forall s, j s = true -> Forall (fun c => cs_mem c danger_cset = false) s) ->
  RecCheck.recursive_check value funcs = true ->
  Forall (fun c => cs_mem c danger_cset = false) (Strings.join value [32]) /\
  matches hostile (Utf8.runes (Strings.join value [32])) = false.
Proof.
  intros value funcs Hsub Hacc.
  assert (Hb : Forall (fun c => cs_mem c danger_cset = false) (Strings.join value [32])).
  { assert (Hc : RecCheckSafe.clean (fun c => negb (cs_mem c danger_cset)) (Strings.join value [32])).
    { apply RecCheckSafe.recursive_check_joined_clean with (funcs := funcs); [| repeat constructor | exact Hacc].
      intros j Hj s Hs. specialize (Hsub j Hj s Hs). unfold RecCheckSafe.clean. eapply Forall_impl; [|exact Hsub].
      intros c Hc. cbv beta in Hc. rewrite Hc. reflexivity. }
    unfold RecCheckSafe.clean in Hc. eapply Forall_impl; [|exact Hc]. intros c H. cbv beta in H. apply negb_true_iff in H. exact H. }
  split; [exact Hb|]. apply no_danger_not_hostile. apply Forall_forall. intros r Hr.
  destruct (cs_mem r danger_cset) eqn:E; [|reflexivity]. exfalso.
  assert (Hsmall : r < 128).
  { unfold danger_cset, cs_mem in E. cbn [existsb fst snd] in E.
    repeat (apply orb_true_iff in E as [E|E]); try discriminate; apply andb_true_iff in E as [E1 E2]; apply N.leb_le in E1, E2; lia. }
  pose proof (Utf8Props.runes_small_in _ r Hr Hsmall) as Hin. rewrite Forall_forall in Hb. rewrite (Hb r Hin) in E. discriminate.
Qed.

(* byte strings free of the six characters are not hostile once decoded *)
Lemma clean_bytes_not_hostile v : Forall (fun c => cs_mem c danger_cset = false) v -> matches hostile (Utf8.runes v) = false.
Proof.
  intros Hb. apply no_danger_not_hostile. apply Forall_forall. intros r Hr.
  destruct (cs_mem r danger_cset) eqn:E; [|reflexivity]. exfalso.
  assert (Hsmall : r < 128) by (apply C18KwHandlers.dmk_ascii; exact E).
  pose proof (Utf8Props.runes_small_in _ r Hr Hsmall) as Hin. rewrite Forall_forall in Hb. rewrite (Hb r Hin) in E. discriminate.
Qed.

(* WHOLE HANDLERS: for every handler function of css/handlers.go whose body is a disjunction of conditions on the value
     values := []string{..} | splitVals := splitValues(value) | splitVals := strings.Split(value, " ")     (bindings)
     if COND { return true } ... return COND,   COND ::= R.MatchString(value) | OtherHandler(value) | in(splitVals, values|colorValues) | in([]string{value}, values)
          | recursiveCheck(splitVals, usedFunctions), splitVals also strings.Split(value, ";") (CInSep)
   (141 functions serving 180 of the 213 table entries; the translator recognises the shape statement by statement, orders the
   definitions by their calls and compares splitValues and in with their expected source text), the modelled handler accepts no
   hostile value, whatever its length.  The models are tied to the real handlers by the correspondence run. *)
Definition not_hostile (v : Bytes.bytes) : Prop := matches hostile (Utf8.runes v) = false.
(* the definitions that can be proved: a recursiveCheck may only use sub-handlers that accept nothing but values free of the
   six characters (which excludes e.g. the colour handlers, whose rgb( form has one) *)
(* css_defs_kept and css_handlers are defined in Instances/C18RxClean.v (the driver of the correspondence run extracts them) *)

Lemma css_data_ok : Forall (fun nd => Forall (cond_data_ok dmk) (snd nd)) css_handler_defs.
Proof.
  apply Forall_forall. intros [n d] Hin. cbn [snd]. apply Forall_forall. intros c Hc.
  pose proof handler_keywords_clean as K. rewrite forallb_forall in K. specialize (K _ Hin). cbn [snd] in K.
  rewrite forallb_forall in K. specialize (K c Hc).
  pose proof handler_separators_unmarked as S. rewrite forallb_forall in S. specialize (S _ Hin). cbn [snd] in S.
  rewrite forallb_forall in S. specialize (S c Hc).
  destruct c as [nm|fn|kw|kw|kw|sep mx fns|sep kw]; cbn [cond_data_ok cond_keywords cond_sep_ok] in *; try exact I;
    try (intros k Hk; apply forallb_D_nil; rewrite forallb_forall in K; exact (K k Hk)).
  - apply negb_true_iff in S. exact S.
  - split; [apply negb_true_iff in S; exact S|].
    intros k Hk. apply forallb_D_nil. rewrite forallb_forall in K. exact (K k Hk).
Qed.

Lemma acceptor_not_hostile nm v : acceptor css_acceptors nm v = true -> not_hostile v.
Proof.
  intros Hacc. unfold acceptor in Hacc.
  destruct (find (fun a => String.eqb (fst a) nm) css_acceptors) as [[n0 X]|] eqn:Ef; [|discriminate].
  apply find_some in Ef as [Ein _]. cbn [snd] in Hacc. exact (C18_regexps_inert n0 X Ein _ Hacc).
Qed.

(* stated for the term itself (css_handlers of Instances/C18RxClean.v abbreviates it) so that no conversion is needed *)
Theorem C18_handlers_whole : forall fn h,
  In (fn, h) (build_handlers css_acceptors (fst (keep_defs rx_clean_names css_handler_defs [] [])) []) ->
  forall v, h v = true -> matches hostile (Utf8.runes v) = false.
Proof.
  intros fn h Hin v Hv.
  pose proof (keep_defs_inv css_acceptors dmk dmk_ascii dmk_not_upper dmk_not_lower dmk_table dmk_space dmk_comma dmk_blank
                not_hostile (fun v H => clean_bytes_not_hostile v (D_nil_clean v H)) rx_clean_names acceptor_not_hostile rx_clean_sound
                css_handler_defs [] [] []) as E.
  destruct E as [E _]; [split; intros e [] | intros x Hx; exact Hx | intros e [] | exact css_data_ok|].
  exact (E (fn, h) Hin v Hv).
Qed.

(* every call in the kept definitions goes to an earlier one (the model never falls back to "unknown handler"); on the pinned
   tree 148 handler functions are recognised and the 141 kept ones serve 180 of the 213 table entries (lower bounds below) *)
Definition kept_entries : nat :=
  List.length (filter (fun e => existsb (fun h => String.eqb (fst h) (snd e)) css_defs_kept) default_style_handlers).
Example C18_handlers_resolved_and_coverage :
  calls_resolved css_defs_kept [] = true /\ Nat.leb 178 kept_entries = true /\ Nat.leb 140 (List.length css_defs_kept) = true.
Proof. repeat split; vm_compute; reflexivity. Qed.

Theorem C18_unknown_property : get_default_handler_is_table_lookup_else_base = true /\ base_handler_is_return_false = true.
Proof. split; reflexivity. Qed.

Print Assumptions C18_regexps_inert.
Print Assumptions C18_hostile_needs_danger.
Print Assumptions C18_recursive_check_composes.
Print Assumptions C18_handlers_whole.
Print Assumptions C18_regexps_whole_value.
Print Assumptions C18_strippers_anchored.
Print Assumptions C18_keywords_inert.
