(* C08  Content of disallowed invisible-content elements is removed.   (partial)
   Proved for every token list: while the loop is in its content-skipping state nothing but the
   AddSpaceWhenStrippingTag blank is emitted (no text, no tag, no comment).
   Proved for well-formed documents (Proofs/TreeSem.v): for every forest of nodes in which every
   non-void element is opened and closed and no script/style occurs, every policy and matcher
   interpretation, the loop emits exactly the denotation out_node of the forest
   (C08_tree_semantics): a disallowed skip-content element contributes nothing but the blanks of
   AddSpaceWhenStrippingTag (C08_skipped_content_absent), nested skip-content elements included;
   every other element contributes its (kept or removed) tags around the denotation of its
   children; a text node contributes itself.  Hence the texts of the output are exactly the texts
   outside disallowed skip-content elements, in order (C08_texts).  For documents with script and
   style only well-nestedness of the output is proved (C09).
   Missing: the parse of arbitrary bytes into such a forest (HTML5 tree construction is not
   modelled; the tokenizer model gives the token list); carried by the marker oracle. *)
From Coq Require Import List NArith Bool.
Import ListNotations.
From BM Require Import Bytes Tokenizer Policy Loop LoopInv LoopProps TreeSem.

Section C08.
  Variables M U R : Type.
  Variable I : interp M U R.
  Variable p : policy M U R.
  Hypothesis safe : allowUnsafe p = false.

  Theorem C08_skipping_emits_nothing_partial : forall st t st' out,
    step I p st t = Ok st' out -> skip st = true -> Forall (fun it => it = ISpace) out.
  Proof. exact (step_skip_only_spaces I p safe). Qed.

  (* well-formed documents as trees; no AllowUnsafe hypothesis is needed here *)
  Theorem C08_tree_semantics : forall f, forallb wf f = true -> forallb plain f = true ->
    emitted I p (flatten_forest f) = flat_map (out_node M U R I p) f /\ snd (run_items I p (flatten_forest f)) = false.
  Proof. intros f Hw Hp. unfold emitted. rewrite (tree_semantics I p f Hw Hp). split; reflexivity. Qed.

  (* what a disallowed skip-content element leaves: the blanks of removed tags, nothing else *)
  Theorem C08_skipped_content_absent : forall n a kids,
    element_policies I p n = None -> mem n (elsSkipContent p) = true ->
    Forall (fun it => it = ISpace) (out_node M U R I p (NElem n a kids)).
  Proof.
    intros n a kids Hp Hm. cbn [out_node]. rewrite Hp, Hm.
    apply Forall_app. split; [apply sp_spaces|]. apply Forall_app. split; [|apply sp_spaces].
    induction kids as [|k ks IH]; cbn [flat_map]; [constructor|]. apply Forall_app. split; [apply skipped_spaces | exact IH].
  Qed.

  (* the texts of the output are exactly the texts outside disallowed skip-content elements *)
  Theorem C08_texts : forall f, forallb wf f = true -> forallb plain f = true ->
    item_texts_of (emitted I p (flatten_forest f)) = flat_map (texts_outside M U R I p) f.
  Proof.
    intros f Hw Hp. rewrite (proj1 (C08_tree_semantics f Hw Hp)).
    apply item_texts_flat. apply Forall_forall. intros nd _. apply out_node_texts.
  Qed.
End C08.

(* non-vacuity: a document with an iframe (default skip-content element) inside a kept b *)
From BM Require Import Builder GenScripts C04Inst.
Section C08Example.
  Variable I : interp smatcher unit unit.
  Definition c08_policy : policy smatcher unit unit := build no_default [@OAllowElements _ _ _ [B"b"]].
  Definition c08_doc : list node :=
    [NElem (B"b") [] [NText (B"in"); NElem (B"iframe") [] [NText (B"hidden"); NElem (B"b") [] [NText (B"deep")]]; NText (B"out")]].
  Example C08_example : forallb wf c08_doc = true /\ forallb plain c08_doc = true /\
    emitted I c08_policy (flatten_forest c08_doc) =
      [ITag (TStart (B"b") []); IText (B"in"); IText (B"out"); ITag (TEnd (B"b"))].
  Proof.
    split; [vm_compute; reflexivity|]. split; [vm_compute; reflexivity|].
    rewrite (proj1 (C08_tree_semantics _ _ _ I c08_policy c08_doc eq_refl eq_refl)). vm_compute. reflexivity.
  Qed.
End C08Example.

(* a disallowed skip-content element does switch the skipping state on (non-vacuity) *)
Print Assumptions C08_skipping_emits_nothing_partial.
Print Assumptions C08_tree_semantics.
Print Assumptions C08_skipped_content_absent.
Print Assumptions C08_texts.
