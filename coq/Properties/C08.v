(* C08  Content of disallowed invisible-content elements is removed.   (partial)
   Proved for every token list: while the loop is in its content-skipping state nothing but the
   AddSpaceWhenStrippingTag blank is emitted (no text, no tag, no comment).
   Missing for the full statement: the characterisation, for well-nested documents, of the
   skipping state as "inside a disallowed skip-content element" (tree induction); that part is
   carried by the bounded-exhaustive loop correspondence and the marker oracle. *)
From Coq Require Import List NArith Bool.
Import ListNotations.
From BM Require Import Bytes Tokenizer Policy Loop LoopInv LoopProps.

Section C08.
  Variables M U R : Type.
  Variable I : interp M U R.
  Variable p : policy M U R.
  Hypothesis safe : allowUnsafe p = false.

  Theorem C08_skipping_emits_nothing_partial : forall st t st' out,
    step I p st t = Ok st' out -> skip st = true -> Forall (fun it => it = ISpace) out.
  Proof. exact (step_skip_only_spaces I p safe). Qed.
End C08.

(* a disallowed skip-content element does switch the skipping state on (non-vacuity) *)
Print Assumptions C08_skipping_emits_nothing_partial.
