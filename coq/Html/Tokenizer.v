(* Functional model of the golang.org/x/net/html v0.26.0 Tokenizer (token.go), as used by
   bluemonday: NewTokenizer (no context tag), AllowCDATA off, no MaxBuf; Next/Token to EOF.
   Written from token.go function by function.  Definitions only. *)
From Coq Require Import List NArith Bool.
Import ListNotations.
From BM Require Import Bytes Utf8 Strings Escape.
Open Scope N_scope.

Definition LT := 60. Definition GT := 62. Definition SLASH := 47. Definition BANG := 33.
Definition QM := 63. Definition EQ := 61. Definition DQ := 34. Definition SQ := 39.
Definition SP := 32. Definition TAB := 9. Definition LF := 10.
Definition CR := 13. Definition FF := 12. Definition DASH := 45.

Definition is_ws (c : N) := (c =? SP) || (c =? LF) || (c =? CR) || (c =? TAB) || (c =? FF).
Definition lower := lower_ascii.
Definition attr := (bytes * bytes)%type.

(* span p s = (longest prefix on which p is false... i.e. take until p holds, rest begins with the char satisfying p) *)
Fixpoint until (p : N -> bool) (s : bytes) : bytes * bytes :=
  match s with
  | [] => ([], [])
  | c :: s' => if p c then ([], s) else let (a, r) := until p s' in (c :: a, r)
  end.
Fixpoint skip_ws (s : bytes) : bytes :=
  match s with c :: s' => if is_ws c then skip_ws s' else s | [] => [] end.

(* raw tokens: spans of the input before Token() decodes them *)
Inductive rtoken :=
| RText (kind : N) (d : bytes)      (* kind 0 data, 1 RCDATA, 2 raw text; d = undecoded bytes *)
| RStart (n : bytes) (a : list attr)
| REnd (n : bytes)
| RSelf (n : bytes) (a : list attr)
| RComment (d : bytes)
| RDoctype (d : bytes).

(* tokens as html.Token values *)
Inductive token :=
| TText (d : bytes)
| TStart (n : bytes) (a : list attr)
| TEnd (n : bytes)
| TSelf (n : bytes) (a : list attr)
| TComment (d : bytes)
| TDoctype (d : bytes).

(* ---- attributes ------------------------------------------------------------------ *)
(* readTagAttrKey: returns (key, rest); rest starts at the terminating char (not consumed) *)
Definition key_stop (c : N) := is_ws c || (c =? SLASH) || (c =? GT) || (c =? EQ).
Definition read_key (s : bytes) : bytes * bytes :=
  match s with
  | c :: s' => if c =? EQ then let (k, r) := until key_stop s' in (c :: k, r) else until key_stop s
  | [] => ([], [])
  end.

(* readTagAttrVal: returns None on EOF-in-tag, else (val, rest) *)
Definition read_val (s : bytes) : option (bytes * bytes) :=
  match skip_ws s with
  | [] => None
  | c :: s1 =>
    if c =? SLASH then Some ([], s1)
    else if negb (c =? EQ) then Some ([], c :: s1)
    else match skip_ws s1 with
         | [] => None
         | q :: s2 =>
           if q =? GT then Some ([], q :: s2)
           else if (q =? SQ) || (q =? DQ) then
             let (v, r) := until (fun x => x =? q) s2 in
             match r with [] => None | _ :: r' => Some (v, r') end
           else
             let (v, r) := until (fun x => is_ws x || (x =? GT)) s2 in
             match r with
             | [] => None
             | x :: r' => if x =? GT then Some (q :: v, r) else Some (q :: v, r')
             end
         end
    end.

(* attribute loop of readTag, after the tag name and skipWhiteSpace: returns attrs and rest after '>' *)
Fixpoint read_attrs (fuel : nat) (s : bytes) : option (list attr * bytes) :=
  match fuel with
  | O => None
  | S f =>
    match s with
    | [] => None
    | c :: s' =>
      if c =? GT then Some ([], s')
      else
        let (k, r) := read_key s in
        match read_val r with
        | None => None
        | Some (v, r2) =>
          match skip_ws r2 with
          | [] => None
          | r3 => match read_attrs f r3 with
                  | None => None
                  | Some (l, rest) => Some ((match k with [] => l | _ => (k, v) :: l end), rest)
                  end
          end
        end
    end
  end.

Definition name_stop (c : N) := is_ws c || (c =? SLASH) || (c =? GT).
(* readTag: s starts at the first letter of the name. returns name, attrs, rest after '>' *)
Definition read_tag (s : bytes) : option (bytes * list attr * bytes) :=
  let (n, r) := until name_stop s in
  match skip_ws r with
  | [] => None
  | r2 => match read_attrs (S (length r2)) r2 with
          | None => None
          | Some (a, rest) => Some (n, a, rest)
          end
  end.

(* ---- raw text --------------------------------------------------------------------- *)
Fixpoint match_ci (tag s : bytes) : option bytes :=   (* tag is lower-case *)
  match tag with
  | [] => Some s
  | t :: tag' => match s with
                 | c :: s' => if (c =? t) || (c =? t - 32) then match_ci tag' s' else None
                 | [] => None
                 end
  end.
Definition raw_end_here (tag s : bytes) : bool :=   (* s begins right after "</" *)
  match match_ci tag s with
  | Some (c :: _) => is_ws c || (c =? SLASH) || (c =? GT)
  | _ => false
  end.
(* readRawOrRCDATA for non-script: split s into (text, rest) where rest begins with "</tag" or is empty.
   Faithful to the Go scan: after "</" fails to match, scanning resumes after the bytes that matched. *)
Fixpoint raw_split (tag s : bytes) : bytes * bytes :=
  match s with
  | [] => ([], [])
  | c :: s' =>
    if (c =? LT) then
      match s' with
      | d :: s'' => if (d =? SLASH) && raw_end_here tag s'' then ([], s)
                    else let (a, r) := raw_split tag s' in (c :: a, r)
      | [] => ([c], [])
      end
    else let (a, r) := raw_split tag s' in (c :: a, r)
  end.

(* ---- script data (readScript) ------------------------------------------------------ *)
Inductive sst := SData | SLt | SEscStart | SEscStartDash | SEsc | SEscDash | SEscDashDash | SEscLt
               | SDbl | SDblDash | SDblDashDash | SDblLt.
Definition script_tag : bytes := [115;99;114;105;112;116].
Definition delim (d : N) := is_ws d || (d =? SLASH) || (d =? GT).
(* returns the remaining input at the point where the text ends (begins with "</script" or is []) *)
Fixpoint script_scan (fuel : nat) (st : sst) (s : bytes) : bytes :=
  match fuel with
  | O => []
  | S f =>
    match s with
    | [] => []
    | c :: s' =>
      match st with
      | SData => if c =? LT then script_scan f SLt s' else script_scan f SData s'
      | SLt => if c =? SLASH then (if raw_end_here script_tag s' then (LT :: s) else script_scan f SData s')
               else if c =? BANG then script_scan f SEscStart s'
               else script_scan f SData s
      | SEscStart => if c =? DASH then script_scan f SEscStartDash s' else script_scan f SData s
      | SEscStartDash => if c =? DASH then script_scan f SEscDashDash s' else script_scan f SData s
      | SEsc => if c =? DASH then script_scan f SEscDash s' else if c =? LT then script_scan f SEscLt s' else script_scan f SEsc s'
      | SEscDash => if c =? DASH then script_scan f SEscDashDash s' else if c =? LT then script_scan f SEscLt s' else script_scan f SEsc s'
      | SEscDashDash => if c =? DASH then script_scan f SEscDashDash s' else if c =? LT then script_scan f SEscLt s'
                        else if c =? GT then script_scan f SData s' else script_scan f SEsc s'
      | SEscLt => if c =? SLASH then (if raw_end_here script_tag s' then (LT :: s) else script_scan f SEsc s')
                  else if is_letter c then
                    match match_ci script_tag s with
                    | Some (d :: r) => if delim d then script_scan f SDbl r else script_scan f SEsc s
                    | _ => script_scan f SEsc s
                    end
                  else script_scan f SData s
      | SDbl => if c =? DASH then script_scan f SDblDash s' else if c =? LT then script_scan f SDblLt s' else script_scan f SDbl s'
      | SDblDash => if c =? DASH then script_scan f SDblDashDash s' else if c =? LT then script_scan f SDblLt s' else script_scan f SDbl s'
      | SDblDashDash => if c =? DASH then script_scan f SDblDashDash s' else if c =? LT then script_scan f SDblLt s'
                        else if c =? GT then script_scan f SData s' else script_scan f SDbl s'
      | SDblLt => if c =? SLASH then
                    (if raw_end_here script_tag s' then script_scan f SEsc (skipn 7 s') else script_scan f SDbl s')
                  else script_scan f SDbl s
      end
    end
  end.

(* ---- comments, doctype, bogus comments ---------------------------------------------- *)
Definition ends_with (s suf : bytes) : bool := beqb (skipn (length s - length suf) s) suf && Nat.leb (length suf) (length s).
Definition drop_last (n : nat) (s : bytes) := firstn (length s - n) s.
Definition abrupt_trim (d : bytes) : bytes :=     (* calculateAbruptCommentDataEnd on the comment body *)
  if ends_with d [DASH; DASH; BANG] then drop_last 3 d
  else if ends_with d [DASH; DASH] then drop_last 2 d
  else if ends_with d [DASH] then drop_last 1 d else d.

(* readComment: s is the input after "<!--"; acc is the body consumed so far (reversed);
   returns (data, rest) *)
Fixpoint read_comment (s : bytes) (acc : bytes) (dash : nat) (beginning : bool) : bytes * bytes :=
  match s with
  | [] => (abrupt_trim (rev acc), [])
  | c :: s' =>
    if c =? DASH then read_comment s' (c :: acc) (S dash) beginning
    else if (c =? GT) && (Nat.leb 2 dash || beginning) then
      (drop_last 2 (rev acc), s')                       (* data.end = raw.end - len("-->") ; clamp below *)
    else if (c =? BANG) && Nat.leb 2 dash then
      match s' with
      | [] => (abrupt_trim (rev (c :: acc)), [])
      | d :: s'' =>
        if d =? GT then (drop_last 2 (rev acc), s'')    (* raw.end - len("--!>") *)
        else if d =? DASH then read_comment s'' (d :: c :: acc) 1 false
        else read_comment s'' (d :: c :: acc) 0 false
      end
    else read_comment s' (c :: acc) 0 false
  end.

Definition until_gt (s : bytes) : bytes * bytes :=
  let (d, r) := until (fun c => c =? GT) s in (d, match r with [] => [] | _ :: r' => r' end).

Definition doctype_word : bytes := [100;111;99;116;121;112;101].
(* after "<!" *)
Definition read_markup (s : bytes) : rtoken * bytes :=
  match s with
  | [] => (RComment [], [])
  | [c] => (RComment [c], [])
  | c0 :: c1 :: s2 =>
    if (c0 =? DASH) && (c1 =? DASH) then
      let (d, r) := read_comment s2 [] 0 true in (RComment d, r)
    else
      (* readDoctype *)
      let fix go (w : bytes) (t : bytes) : option (option bytes) :=   (* Some (Some rest)=matched, Some None = EOF mid-way, None = mismatch *)
          match w with
          | [] => Some (Some t)
          | x :: w' => match t with
                       | [] => Some None
                       | y :: t' => if (y =? x) || (y =? x - 32) then go w' t' else None
                       end
          end in
      match go doctype_word s with
      | Some (Some r) =>
        match skip_ws r with
        | [] => (RDoctype [], [])
        | r' => let (d, rest) := until_gt r' in (RDoctype d, rest)
        end
      | Some None => (RComment [], [])                    (* quirk: EOF inside "DOCTYPE" yields an empty comment *)
      | None => let (d, rest) := until_gt s in (RComment d, rest)
      end
  end.

(* ---- Next ---------------------------------------------------------------------------- *)
Definition raw_names : list bytes :=
  [ [105;102;114;97;109;101]; [110;111;101;109;98;101;100]; [110;111;102;114;97;109;101;115];
    [110;111;115;99;114;105;112;116]; [112;108;97;105;110;116;101;120;116]; script_tag; [115;116;121;108;101];
    [116;101;120;116;97;114;101;97]; [116;105;116;108;101]; [120;109;112] ].
Definition plaintext_tag : bytes := [112;108;97;105;110;116;101;120;116].
Definition textarea_tag : bytes := [116;101;120;116;97;114;101;97].
Definition title_tag : bytes := [116;105;116;108;101].
Definition is_raw_name (n : bytes) := existsb (beqb n) raw_names.

(* does s begin a tag/comment/doctype?  (s begins with '<') *)
Definition opens (s : bytes) : bool :=
  match s with
  | _ :: c :: _ => is_letter c || (c =? SLASH) || (c =? BANG) || (c =? QM)
  | _ => false
  end.
(* split off leading text: text ends at the first '<' that opens markup.
   "</" at EOF does not open (the Go loop breaks and the bytes become text). *)
Fixpoint text_split (s : bytes) : bytes * bytes :=
  match s with
  | [] => ([], [])
  | c :: s' =>
    if (c =? LT) && opens s then ([], s)
    else let (a, r) := text_split s' in (c :: a, r)
  end.

Inductive step := Tok (t : rtoken) (rawtag : bytes) (rest : bytes) | Stop.

Definition next_markup (s : bytes) : step :=        (* s begins with '<' and opens s = true *)
  match s with
  | _ :: c :: s2 =>
    if is_letter c then
      match read_tag (c :: s2) with
      | None => Stop
      | Some (n, a, rest) =>
        let n' := lower n in
        let consumed := firstn (length s - length rest) s in
        let selfc := match rev consumed with _ :: p :: _ => p =? SLASH | _ => false end in
        let rawtag := if is_raw_name n' then n' else [] in
        Tok (if selfc then RSelf n' a else RStart n' a) rawtag rest
      end
    else if c =? SLASH then
      match s2 with
      | [] => Tok (RText 0 [LT; SLASH]) [] []   (* "</" at EOF is flushed as its own text token *)
      | d :: s3 =>
        if d =? GT then Tok (RComment []) [] s3
        else if is_letter d then
          match read_tag (d :: s3) with
          | None => Stop
          | Some (n, _, rest) => Tok (REnd (lower n)) [] rest
          end
        else let (cd, rest) := until_gt s2 in Tok (RComment cd) [] rest
      end
    else if c =? BANG then let (t, rest) := read_markup s2 in Tok t [] rest
    else let (cd, rest) := until_gt (c :: s2) in Tok (RComment cd) [] rest
  | _ => Stop
  end.

Definition next (rawtag : bytes) (s : bytes) : step :=
  match s with
  | [] => Stop
  | _ =>
    let normal (s : bytes) :=
      match s with
      | [] => Stop
      | _ => let (t, r) := text_split s in
             match t with
             | [] => next_markup r
             | _ => Tok (RText 0 t) [] r
             end
      end in
    match rawtag with
    | [] => normal s
    | _ =>
      if beqb rawtag plaintext_tag then Tok (RText 2 s) rawtag []
      else
        let rest := if beqb rawtag script_tag then script_scan (2 * length s + 2) SData s else snd (raw_split rawtag s) in
        let t := firstn (length s - length rest) s in
        match t with
        | [] => normal s
        | _ => Tok (RText (if beqb rawtag textarea_tag || beqb rawtag title_tag then 1 else 2) t) [] rest
        end
    end
  end.

Fixpoint tokens (fuel : nat) (rawtag : bytes) (s : bytes) : list rtoken :=
  match fuel with
  | O => []
  | S f => match next rawtag s with
           | Stop => []
           | Tok t rt rest => t :: tokens f rt rest
           end
  end.
Definition raw_tokens (s : bytes) : list rtoken := tokens (S (length s)) [] s.

(* ---- decoding done by Token() -------------------------------------------------------- *)
Fixpoint conv_nl (s : bytes) : bytes :=
  match s with
  | [] => []
  | c :: s' => if c =? CR then LF :: (match s' with d :: s'' => if d =? LF then conv_nl s'' else conv_nl s' | [] => [] end)
               else c :: conv_nl s'
  end.
Definition conv_nul (s : bytes) : bytes := flat_map (fun c => if c =? 0 then [239;191;189] else [c]) s.
Definition dec_attr (a : attr) : attr := (lower (fst a), unescape true (conv_nl (snd a))).
Definition decode (t : rtoken) : token :=
  match t with
  | RText k d => TText (if k =? 0 then unescape false (conv_nl d)
                        else if k =? 1 then unescape false (conv_nul (conv_nl d))
                        else conv_nul (conv_nl d))
  | RComment d => TComment (unescape false (conv_nul (conv_nl d)))
  | RDoctype d => TDoctype (unescape false (conv_nl d))
  | RStart n a => TStart n (map dec_attr a)
  | RSelf n a => TSelf n (map dec_attr a)
  | REnd n => TEnd n
  end.
Definition tokenize (s : bytes) : list token := map decode (raw_tokens s).

(* ---- Token.String --------------------------------------------------------------------- *)
Definition render_attr (a : attr) : bytes := SP :: fst a ++ [EQ; DQ] ++ escape (snd a) ++ [DQ].
Definition tag_string (n : bytes) (a : list attr) : bytes := n ++ flat_map render_attr a.
Definition render1 (t : token) : bytes :=
  match t with
  | TText d => escape d
  | TStart n a => LT :: tag_string n a ++ [GT]
  | TEnd n => LT :: SLASH :: n ++ [GT]
  | TSelf n a => LT :: tag_string n a ++ [SLASH; GT]
  | TComment d => [LT; BANG; DASH; DASH] ++ escape_comment d ++ [DASH; DASH; GT]
  | TDoctype d => B"<!DOCTYPE " ++ escape d ++ [GT]
  end.

Fixpoint attrs_eqb (a b : list attr) : bool :=
  match a, b with [], [] => true | (k,v)::a', (k',v')::b' => beqb k k' && beqb v v' && attrs_eqb a' b' | _, _ => false end.
Definition tok_eqb (x y : token) : bool :=
  match x, y with
  | TText d, TText d' | TComment d, TComment d' | TDoctype d, TDoctype d' | TEnd d, TEnd d' => beqb d d'
  | TStart n a, TStart n' a' | TSelf n a, TSelf n' a' => beqb n n' && attrs_eqb a a'
  | _, _ => false
  end.
