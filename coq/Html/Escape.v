(* Model of golang.org/x/net/html v0.26.0 escape.go: escape, escapeComment,
   unescape / unescapeEntity.  Definitions only. *)
From Coq Require Import List NArith Bool.
Import ListNotations.
From BM Require Import Bytes Utf8 Strings GenEntities.
Open Scope N_scope.

Definition AMP := 38.  Definition SEMI := 59.  Definition HASH := 35.

(* escape: ampersand, apostrophe, angle brackets, double quote, CR *)
Definition esc_byte (c : N) : bytes :=
  if c =? 38 then [38;97;109;112;59]            (* &amp; *)
  else if c =? 39 then [38;35;51;57;59]          (* &#39; *)
  else if c =? 60 then [38;108;116;59]           (* &lt; *)
  else if c =? 62 then [38;103;116;59]           (* &gt; *)
  else if c =? 34 then [38;35;51;52;59]          (* &#34; *)
  else if c =? 13 then [38;35;49;51;59]          (* &#13; *)
  else [c].
Definition escape (s : bytes) : bytes := flat_map esc_byte s.

(* escapeComment: & always, > only when first or preceded by ! or - *)
Fixpoint escape_comment_from (prev : option N) (s : bytes) : bytes :=
  match s with
  | [] => []
  | c :: s' =>
    (if c =? 38 then [38;97;109;112;59]
     else if (c =? 62) && (match prev with None => true | Some p => (p =? 33) || (p =? 45) end)
          then [38;103;116;59]
     else [c]) ++ escape_comment_from (Some c) s'
  end.
Definition escape_comment (s : bytes) : bytes := escape_comment_from None s.

(* ---- unescape ------------------------------------------------------------------------ *)
Definition replacement_table : list N :=
  [8364;129;8218;402;8222;8230;8224;8225;710;8240;352;8249;338;141;381;143;
   144;8216;8217;8220;8221;8226;8211;8212;732;8482;353;8250;339;157;382;376].

Fixpoint entity_lookup (name : bytes) (t : list (bytes * list N)) : option (list N) :=
  match t with
  | [] => None
  | (n, rs) :: t' => if beqb n name then Some rs else entity_lookup name t'
  end.
Definition entity (name : bytes) : option (list N) := entity_lookup name entity_table.

Definition is_alnum (c : N) := is_letter c || is_digit c.
Definition hexval (c : N) : option N :=
  if is_digit c then Some (c - 48)
  else if (97 <=? c) && (c <=? 102) then Some (c - 87)
  else if (65 <=? c) && (c <=? 70) then Some (c - 55)
  else None.

(* numeric reference digits: returns (value mod 2^32 as Go's int32 arithmetic wraps,
   number of digit bytes consumed, rest) *)
Fixpoint read_digits (hex : bool) (x : N) (n : nat) (s : bytes) : N * nat * bytes :=
  match s with
  | [] => (x, n, [])
  | c :: s' =>
    match (if hex then hexval c else if is_digit c then Some (c - 48) else None) with
    | Some d => read_digits hex (((if hex then 16 else 10) * x + d) mod 4294967296) (S n) s'
    | None => (x, n, s)
    end
  end.

Definition numeric_rune (x : N) : N :=
  if (128 <=? x) && (x <=? 159) then nth (N.to_nat (x - 128)) replacement_table rune_error
  else if (x =? 0) || ((55296 <=? x) && (x <=? 57343)) || (1114111 <? x) then rune_error
  else x.

Fixpoint take_alnum (s : bytes) : bytes * bytes :=
  match s with
  | c :: s' => if is_alnum c then let (a, r) := take_alnum s' in (c :: a, r) else ([], s)
  | [] => ([], [])
  end.

(* longest proper prefix (length maxLen down to 2) that names an entity *)
Fixpoint prefix_entity (j : nat) (name : bytes) : option (nat * list N) :=
  match j with
  | O | S O => None
  | S j' => match entity (firstn j name) with
            | Some rs => Some (j, rs)
            | None => prefix_entity j' name
            end
  end.

(* unescapeEntity: s begins with '&'. returns (output bytes, rest of input) *)
Definition unescape_entity (attribute : bool) (s : bytes) : bytes * bytes :=
  match s with
  | [] => ([], [])
  | amp :: s1 =>
    match s1 with
    | [] => ([amp], [])
    | c1 :: s2 =>
      if c1 =? HASH then
        (* numeric *)
        if Nat.leb (length s) 3 then ([amp], s1) else
        let '(hex, s3, pre) := match s2 with
                               | c2 :: s3' => if (c2 =? 120) || (c2 =? 88) then (true, s3', 3%nat) else (false, s2, 2%nat)
                               | [] => (false, s2, 2%nat)
                               end in
        let '(x, n, rest) := read_digits hex 0 O s3 in
        (* i = pre + n (+1 when a ';' follows); "no characters matched" is i <= 3 *)
        let '(i, rest') := match rest with
                           | c :: r' => if c =? SEMI then (pre + n + 1, r')%nat else ((pre + n)%nat, rest)
                           | [] => ((pre + n)%nat, rest)
                           end in
        (* the Go loop consumes the terminating byte before looking at it: when the first byte
           after the prefix is not a digit, i ends at pre (not ';') or pre+1 (';') *)
        if Nat.leb i 3 then ([amp], s1)
        else (encode1 (numeric_rune x), rest')
      else
        let (alnum, r0) := take_alnum s1 in
        let '(name, after) := match r0 with
                              | c :: r' => if c =? SEMI then (alnum ++ [SEMI], r') else (alnum, r0)
                              | [] => (alnum, r0)
                              end in
        match name with
        | [] => ([amp], s1)
        | _ =>
          let last_semi := match rev name with c :: _ => c =? SEMI | [] => false end in
          let eq_follows := match after with c :: _ => c =? 61 | [] => false end in
          if attribute && negb last_semi && eq_follows then (amp :: name, after)
          else match entity name with
               | Some rs => (encode rs, after)
               | None =>
                 if attribute then (amp :: name, after)
                 else
                   let maxlen := Nat.min (length name - 1) longest_entity_without_semicolon in
                   match prefix_entity maxlen name with
                   | Some (j, rs) => (encode rs, skipn j name ++ after)
                   | None => (amp :: name, after)
                   end
               end
        end
    end
  end.

Fixpoint unescape_fuel (fuel : nat) (attribute : bool) (s : bytes) : bytes :=
  match fuel with
  | O => s
  | S f =>
    match s with
    | [] => []
    | c :: s' =>
      if c =? AMP then let (o, rest) := unescape_entity attribute s in o ++ unescape_fuel f attribute rest
      else c :: unescape_fuel f attribute s'
    end
  end.
Definition unescape (attribute : bool) (s : bytes) : bytes := unescape_fuel (S (length s)) attribute s.
