(* UGCPolicy allows rel on area only when it matches SpaceSeparatedTokens.  That regexp, as
   regenerated from helpers.go, is closed under what the link pass does to a rel value (checked over
   every residual of the regexp by the verified exploration of Regex/RegexInv.v), and accepts the
   values the pass writes itself. *)
From Coq Require Import List NArith Bool String.
Import ListNotations.
From BM Require Import Bytes Utf8 Strings Tokenizer Policy Url Style Attrs Regex RegexSem RegexInv Builder GenTables GenScripts UGCSpec C04Inst
  ForcedAttrs LinkProofs LinkCompose Utf8Props.
Open Scope N_scope.

Definition ugc_area_aps : amap (list (attr_policy smatcher)) :=
  match lookup (B"area") (elsAndAttrs ugc) with Some a => a | None => [] end.
Lemma ugc_area_lookup : lookup (B"area") (elsAndAttrs ugc) = Some ugc_area_aps.
Proof. vm_compute. reflexivity. Qed.

Definition sst_m : smatcher :=
  match lookup REL ugc_area_aps with Some [Some m] => m | _ => (""%string, Emp) end.
Lemma ugc_area_rel : lookup REL ugc_area_aps = Some [Some sst_m] /\ fst sst_m = "bm_SpaceSeparatedTokens"%string.
Proof. split; vm_compute; reflexivity. Qed.
Lemma ugc_global_no_rel : lookup REL (globalAttrs ugc) = None.
Proof. vm_compute. reflexivity. Qed.

Definition sst : re := snd sst_m.

Lemma sst_residuals :
  nullable true true (wrap sst) = false /\
  all_residuals (keeps_with_suffix (32 :: NOFOLLOW)) (wrap sst) 200 = Some true /\
  all_residuals (keeps_with_suffix (32 :: NOREFERRER)) (wrap sst) 200 = Some true.
Proof. split; [|split]; vm_compute; reflexivity. Qed.

Lemma word_ascii : Forall (fun c => c < 128) (32 :: NOFOLLOW) /\ Forall (fun c => c < 128) (32 :: NOREFERRER).
Proof. split; repeat constructor. Qed.

Lemma sst_suffix w v : Forall (fun c => c < 128) (32 :: w) -> all_residuals (keeps_with_suffix (32 :: w)) (wrap sst) 200 = Some true ->
  search sst (runes v) = true -> search sst (runes (v ++ 32 :: w)) = true.
Proof.
  intros Hw Hres Hv. rewrite runes_app_ascii by (cbn; inversion Hw; assumption). rewrite (runes_ascii _ Hw).
  unfold search in *. destruct sst_residuals as (Hn & _ & _). eapply suffix_closed; eauto.
Qed.

Lemma sst_add_word c w v : Forall (fun c => c < 128) (32 :: w) -> all_residuals (keeps_with_suffix (32 :: w)) (wrap sst) 200 = Some true ->
  search sst (runes v) = true -> search sst (runes (add_word c w v)) = true.
Proof.
  intros Hw Hres Hv. unfold add_word. destruct (c && negb (has_rel_token v w)); [|exact Hv].
  change (v ++ [32] ++ w) with (v ++ 32 :: w). apply sst_suffix; assumption.
Qed.

Theorem sst_closed_under_link_pass v c1 c2 : search sst (runes v) = true ->
  search sst (runes (add_word c2 NOREFERRER (add_word c1 NOFOLLOW v))) = true.
Proof.
  intros Hv. destruct sst_residuals as (_ & H1 & H2). destruct word_ascii as [A1 A2].
  apply sst_add_word; [exact A2 | exact H2|]. apply sst_add_word; [exact A1 | exact H1 | exact Hv].
Qed.

Theorem sst_accepts_added nf nr : nf || nr = true -> search sst (runes (added_rel_value nf nr)) = true.
Proof. destruct nf, nr; intros H; try discriminate H; vm_compute; reflexivity. Qed.

(* the filter's verdict on a rel attribute of area, for an interpretation that reads matchers as regexps *)
Section Filter.
  Variable I : interp smatcher unit unit.
  Hypothesis Hmm : forall m v, mmatch I m v = search (snd m) (runes v).

  Lemma Fa_area_rel v : filter_attr I ugc (B"area") ugc_area_aps false (REL, v) = if search sst (runes v) then [(REL, v)] else [].
  Proof.
    unfold filter_attr. destruct ugc_no_styles_no_data as (_ & _ & _ & Hd). rewrite Hd. cbn [andb]. rewrite andb_false_r.
    unfold rules_accept. cbn [akey aval fst snd]. destruct ugc_area_rel as [Hl _]. rewrite Hl, ugc_global_no_rel.
    cbn [existsb rule_accepts]. rewrite Hmm, orb_false_r. fold sst. destruct (search sst (runes v)); reflexivity.
  Qed.

  Lemma Fa_area_rel_mod v c1 c2 : filter_attr I ugc (B"area") ugc_area_aps false (REL, v) = [(REL, v)] ->
    filter_attr I ugc (B"area") ugc_area_aps false (REL, add_word c2 NOREFERRER (add_word c1 NOFOLLOW v))
      = [(REL, add_word c2 NOREFERRER (add_word c1 NOFOLLOW v))].
  Proof.
    rewrite !Fa_area_rel. destruct (search sst (runes v)) eqn:E; [|discriminate]. intros _.
    rewrite (sst_closed_under_link_pass v c1 c2 E). reflexivity.
  Qed.

  Lemma Fa_area_rel_app nf nr : nf || nr = true ->
    filter_attr I ugc (B"area") ugc_area_aps false (REL, added_rel_value nf nr) = [(REL, added_rel_value nf nr)].
  Proof. intros H. rewrite Fa_area_rel, (sst_accepts_added nf nr H). reflexivity. Qed.
End Filter.
