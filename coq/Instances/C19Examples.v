(* C19 obligation "examples" on the regenerated regexps, closed by reflection. *)
From Coq Require Import List Bool.
From BM Require Import C19Inst.
Lemma c19_all_examples : forallb ok_examples c19_matchers = true.
Proof. vm_compute. reflexivity. Qed.
