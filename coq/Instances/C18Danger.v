(* every hostile value (Spec/CssInert.v) contains one of the characters < > \ @ ( :  -- by
   reflection with the verified emptiness procedure; gives C18_keywords_inert its meaning *)
From Coq Require Import List NArith Bool.
Import ListNotations.
From BM Require Import Bytes Regex RegexSound RegexSem CssInert C18Inst.
Open Scope N_scope.

Definition danger_cset : cset := [(40, 40); (58, 58); (60, 60); (62, 62); (64, 64); (92, 92)].
Definition has_danger : re := contains_cls false danger_cset.
Definition part_needs_danger (k : nat) : bool := is_empty (And (nth k hostile_parts Emp) (Not has_danger)) 2000.

Lemma hostile_part0_needs_danger : part_needs_danger 0 = true. Proof. vm_compute. reflexivity. Qed.
Lemma hostile_part1_needs_danger : part_needs_danger 1 = true. Proof. vm_compute. reflexivity. Qed.
Lemma hostile_part2_needs_danger : part_needs_danger 2 = true. Proof. vm_compute. reflexivity. Qed.
Lemma hostile_part3_needs_danger : part_needs_danger 3 = true. Proof. vm_compute. reflexivity. Qed.

Lemma contains_cls_miss A : forall s b, Forall (fun c => cs_mem c A = false) s ->
  matches_at b (contains_cls false A) s = false.
Proof.
  induction s as [|c s IH]; intros b H; cbn [matches_at].
  - reflexivity.
  - inversion H as [|? ? Hc Hs]; subst. rewrite contains_cls_step. cbn [xorb]. rewrite Hc. apply IH. exact Hs.
Qed.

Theorem hostile_needs_danger s : matches hostile s = true -> matches has_danger s = true.
Proof.
  intros H. unfold hostile in H. rewrite matches_alts in H.
  assert (P : forall k, part_needs_danger k = true -> matches (nth k hostile_parts Emp) s = true -> matches has_danger s = true).
  { intros k Hk Hm. pose proof (is_empty_sound _ _ Hk s) as He. rewrite matches_And, matches_Not, Hm in He.
    cbn [andb] in He. apply negb_false_iff in He. exact He. }
  change hostile_parts with [nth 0 hostile_parts Emp; nth 1 hostile_parts Emp; nth 2 hostile_parts Emp; nth 3 hostile_parts Emp] in H.
  cbn [existsb] in H. repeat (apply orb_true_iff in H as [H|H]); try discriminate.
  - exact (P 0%nat hostile_part0_needs_danger H).
  - exact (P 1%nat hostile_part1_needs_danger H).
  - exact (P 2%nat hostile_part2_needs_danger H).
  - exact (P 3%nat hostile_part3_needs_danger H).
Qed.

(* a value without any of the six characters is not hostile *)
Corollary no_danger_not_hostile s : Forall (fun c => cs_mem c danger_cset = false) s -> matches hostile s = false.
Proof.
  intros H. destruct (matches hostile s) eqn:E; [|reflexivity].
  apply hostile_needs_danger in E. unfold has_danger, matches in E. rewrite (contains_cls_miss danger_cset s true H) in E. discriminate.
Qed.
