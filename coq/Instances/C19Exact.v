(* C19 obligation "exact" on the regenerated regexps, closed by reflection. *)
From Coq Require Import List Bool.
From BM Require Import C19Inst.
Lemma c19_all_exact : forallb ok_exact c19_matchers = true.
Proof. vm_compute. reflexivity. Qed.
