(* C18 obligations on the regenerated data of css/handlers.go (definitions and report; no proofs). *)
From Coq Require Import List NArith Bool String.
Import ListNotations.
From BM Require Import Bytes Regex CssInert GenRegex GenCss.
Open Scope N_scope.

Definition c18_fuel : nat := 20000.
Definition q18_inert (X : re) : re := And (wrap X) hostile.
Definition q18_whole (X : re) : re := And (wrap X) (Not X).
Definition ok18_inert (p : string * re) := forallb (fun h => is_empty (And (wrap (snd p)) h) c18_fuel) hostile_parts.
Definition ok18_inert_part (k : nat) (p : string * re) := is_empty (And (wrap (snd p)) (nth k hostile_parts Emp)) c18_fuel.
Definition ok18_whole (p : string * re) := is_empty (q18_whole (snd p)) c18_fuel.
(* a stripper must be anchored at the start and what it strips must be inert *)
Definition starts_with_bot (r : re) : bool := match r with Cat Bot _ => true | Bot => true | _ => false end.
Definition strip_anchor (r : re) : re := match r with Cat Bot x => x | x => x end.
Definition ok18_stripper (p : string * re) :=
  starts_with_bot (snd p) && forallb (fun h => is_empty (And (strip_anchor (snd p)) h) c18_fuel) hostile_parts.
Definition ok18_keywords (p : string * list bytes) := forallb word_inert (snd p).

Definition c18_report : list (string * list (string * option (option (list N)))) :=
  map (fun p => (fst p, map (fun h => ("inert"%string, witness (And (wrap (snd p)) h) c18_fuel)) hostile_parts ++ [("whole"%string, witness (q18_whole (snd p)) c18_fuel)])) css_acceptors ++
  map (fun p => (fst p, [("stripper"%string, if starts_with_bot (snd p) then (if ok18_stripper p then Some None else Some (Some [1])) else Some (Some []))])) css_strippers ++
  map (fun p => (fst p, [("keywords"%string, if ok18_keywords p then Some None else Some (Some (List.concat (List.filter (fun w => negb (word_inert w)) (snd p)))))])) css_keyword_lists.
