(* C18 obligation on the regenerated regexps of css/handlers.go (hostile part 0), closed by reflection. *)
From Coq Require Import List Bool.
From BM Require Import GenCss C18Inst.
Lemma c18_all_inert0 : forallb (ok18_inert_part 0) css_acceptors = true.
Proof. vm_compute. reflexivity. Qed.
