(* C18 obligation on the regenerated data of css/handlers.go, closed by reflection. *)
From Coq Require Import List Bool.
From BM Require Import GenCss C18Inst.
Lemma c18_all_kw : forallb ok18_keywords css_keyword_lists = true.
Proof. vm_compute. reflexivity. Qed.
