(* C18 obligation on the regenerated regexps of css/handlers.go (hostile part 2), closed by reflection. *)
From Coq Require Import List Bool.
From BM Require Import GenCss C18Inst.
Lemma c18_all_inert2 : forallb (ok18_inert_part 2) css_acceptors = true.
Proof. vm_compute. reflexivity. Qed.
