(* the keyword handlers of css/handlers.go (shape recognised by gen, Generated/GenCss.css_kw_handlers):
   the six characters every hostile value needs are "marked" characters in the sense of
   Proofs/DangerBytes.v, and no keyword of these handlers contains one *)
From Coq Require Import List NArith Bool String Lia ZifyN ZifyBool.
Import ListNotations.
From BM Require Import Bytes Utf8 GenUnicode Strings Regex GenRegex GenCss KwHandler DangerBytes KwHandlerProofs C18Danger.
Open Scope N_scope.

Definition dmk (c : N) : bool := cs_mem c danger_cset.

Lemma dmk_cases c : dmk c = true -> c = 40 \/ c = 58 \/ c = 60 \/ c = 62 \/ c = 64 \/ c = 92.
Proof.
  unfold dmk, danger_cset, cs_mem. cbn [existsb fst snd]. intros H.
  repeat (apply orb_true_iff in H as [H|H]); try discriminate; apply andb_true_iff in H as [H1 H2]; apply N.leb_le in H1, H2; lia.
Qed.
Lemma dmk_ascii c : dmk c = true -> c < 128.
Proof. intros H. destruct (dmk_cases c H) as [->|[->|[->|[->|[->| ->]]]]]; lia. Qed.
Lemma dmk_not_upper c : dmk c = true -> is_upper c = false.
Proof. intros H. destruct (dmk_cases c H) as [->|[->|[->|[->|[->| ->]]]]]; reflexivity. Qed.
Lemma dmk_not_lower c : is_lower c = true -> dmk c = false.
Proof.
  intros H. destruct (dmk c) eqn:E; [|reflexivity]. destruct (dmk_cases c E) as [->|[->|[->|[->|[->| ->]]]]]; discriminate H.
Qed.
Lemma dmk_table : forallb (fun pr => negb (dmk (snd pr))) lower_pairs = true.
Proof. vm_compute. reflexivity. Qed.
Lemma dmk_space r : is_space_rune r = true -> dmk r = false.
Proof.
  intros H. destruct (dmk r) eqn:E; [|reflexivity]. destruct (dmk_cases r E) as [->|[->|[->|[->|[->| ->]]]]]; discriminate H.
Qed.
Lemma dmk_comma : dmk 44 = false. Proof. reflexivity. Qed.

Lemma D_nil_clean s : D dmk s = [] -> Forall (fun c => cs_mem c danger_cset = false) s.
Proof.
  induction s as [|c s IH]; intros H; [constructor|]. unfold D in H. cbn [filter] in H. fold (D dmk s) in H.
  destruct (dmk c) eqn:E; [discriminate|]. constructor; [exact E | apply IH; exact H].
Qed.

(* no keyword of a keyword handler contains one of the six characters *)
Lemma kw_handlers_keywords_clean :
  forallb (fun h => forallb (fun k => forallb (fun c => negb (dmk c)) k) (snd (snd h))) css_kw_handlers = true.
Proof. vm_compute. reflexivity. Qed.
Lemma forallb_D_nil k : forallb (fun c => negb (dmk c)) k = true -> D dmk k = [].
Proof.
  induction k as [|c k IH]; [reflexivity|]. cbn [forallb]. intros H. apply andb_true_iff in H as [Hc Hk].
  unfold D. cbn [filter]. apply negb_true_iff in Hc. rewrite Hc. apply IH. exact Hk.
Qed.

(* every acceptor a keyword handler names is one of the file's acceptor regexps *)
Lemma kw_handlers_acceptors_known :
  forallb (fun h => forallb (fun nm => existsb (fun a => String.eqb (fst a) nm) css_acceptors) (fst (snd h))) css_kw_handlers = true.
Proof. vm_compute. reflexivity. Qed.

(* how much of the default handler table these handlers serve *)
Definition kw_handler_entries : nat :=
  List.length (filter (fun e => existsb (fun h => String.eqb (fst h) (snd e)) css_kw_handlers) default_style_handlers).
(* 99 of the 213 entries on the pinned tree; stated as a lower bound so that adding handlers does not break it *)
Lemma kw_handler_coverage : Nat.leb 90 kw_handler_entries = true.
Proof. vm_compute. reflexivity. Qed.

Theorem kw_handler_clean fn h v : In (fn, h) css_kw_handlers -> kw_handler (snd h) v = true ->
  Forall (fun c => cs_mem c danger_cset = false) v.
Proof.
  intros Hin H. apply D_nil_clean.
  apply (kw_handler_marked dmk dmk_ascii dmk_not_upper dmk_not_lower dmk_table dmk_space dmk_comma (snd h) v); [|exact H].
  intros k Hk. apply forallb_D_nil.
  pose proof kw_handlers_keywords_clean as T. rewrite forallb_forall in T. specialize (T _ Hin). cbn [snd] in T.
  rewrite forallb_forall in T. exact (T k Hk).
Qed.
