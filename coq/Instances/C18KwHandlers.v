(* the keyword handlers of css/handlers.go (shape recognised by gen, Generated/GenCss.css_kw_handlers):
   the six characters every hostile value needs are "marked" characters in the sense of
   Proofs/DangerBytes.v, and no keyword of these handlers contains one *)
From Coq Require Import List NArith Bool String Lia ZifyN ZifyBool.
Import ListNotations.
From BM Require Import Bytes Utf8 GenUnicode Strings Regex GenRegex GenCss KwHandler DangerBytes KwHandlerProofs C18Danger.
Open Scope N_scope.

Definition dmk (c : N) : bool := cs_mem c danger_cset.

Lemma dmk_cases c : dmk c = true -> c = 40 \/ c = 58 \/ c = 60 \/ c = 62 \/ c = 64 \/ c = 92.
Proof.
  unfold dmk, danger_cset, cs_mem. cbn [existsb fst snd]. intros H.
  repeat (apply orb_true_iff in H as [H|H]); try discriminate; apply andb_true_iff in H as [H1 H2]; apply N.leb_le in H1, H2; lia.
Qed.
Lemma dmk_ascii c : dmk c = true -> c < 128.
Proof. intros H. destruct (dmk_cases c H) as [->|[->|[->|[->|[->| ->]]]]]; lia. Qed.
Lemma dmk_not_upper c : dmk c = true -> is_upper c = false.
Proof. intros H. destruct (dmk_cases c H) as [->|[->|[->|[->|[->| ->]]]]]; reflexivity. Qed.
Lemma dmk_not_lower c : is_lower c = true -> dmk c = false.
Proof.
  intros H. destruct (dmk c) eqn:E; [|reflexivity]. destruct (dmk_cases c E) as [->|[->|[->|[->|[->| ->]]]]]; discriminate H.
Qed.
Lemma dmk_table : forallb (fun pr => negb (dmk (snd pr))) lower_pairs = true.
Proof. vm_compute. reflexivity. Qed.
Lemma dmk_space r : is_space_rune r = true -> dmk r = false.
Proof.
  intros H. destruct (dmk r) eqn:E; [|reflexivity]. destruct (dmk_cases r E) as [->|[->|[->|[->|[->| ->]]]]]; discriminate H.
Qed.
Lemma dmk_comma : dmk 44 = false. Proof. reflexivity. Qed.

Lemma D_nil_clean s : D dmk s = [] -> Forall (fun c => cs_mem c danger_cset = false) s.
Proof.
  induction s as [|c s IH]; intros H; [constructor|]. unfold D in H. cbn [filter] in H. fold (D dmk s) in H.
  destruct (dmk c) eqn:E; [discriminate|]. constructor; [exact E | apply IH; exact H].
Qed.

Lemma dmk_blank : dmk 32 = false. Proof. reflexivity. Qed.

(* no keyword of a recognised handler contains one of the six characters *)
Definition cond_keywords (c : hcond) : list bytes := match c with CIn kw | CInSpace kw | CExact kw | CInSep _ kw => kw | _ => [] end.
Definition cond_sep_ok (c : hcond) : bool := match c with CRec sep _ _ | CInSep sep _ => negb (dmk sep) | _ => true end.
Definition clean_word (k : bytes) : bool := forallb (fun c => negb (dmk c)) k.
Lemma handler_keywords_clean :
  forallb (fun h => forallb (fun c => forallb clean_word (cond_keywords c)) (snd h)) css_handler_defs = true.
Proof. vm_compute. reflexivity. Qed.
Lemma handler_separators_unmarked : forallb (fun h => forallb cond_sep_ok (snd h)) css_handler_defs = true.
Proof. vm_compute. reflexivity. Qed.
Lemma forallb_D_nil k : clean_word k = true -> D dmk k = [].
Proof.
  unfold clean_word. induction k as [|c k IH]; [reflexivity|]. cbn [forallb]. intros H. apply andb_true_iff in H as [Hc Hk].
  unfold D. cbn [filter]. apply negb_true_iff in Hc. rewrite Hc. apply IH. exact Hk.
Qed.

(* every acceptor a recognised handler names is one of the file's acceptor regexps, and every call goes to an earlier entry *)
Lemma handler_acceptors_known :
  forallb (fun h => forallb (fun c => match c with CRx nm => existsb (fun a => String.eqb (fst a) nm) css_acceptors | _ => true end) (snd h)) css_handler_defs = true.
Proof. vm_compute. reflexivity. Qed.
Lemma handler_calls_resolved : calls_resolved css_handler_defs [] = true.
Proof. vm_compute. reflexivity. Qed.

(* how much of the default handler table the recognised handlers serve *)
Definition handler_entries : nat :=
  List.length (filter (fun e => existsb (fun h => String.eqb (fst h) (snd e)) css_handler_defs) default_style_handlers).
(* 157 of the 213 entries, 122 functions on the pinned tree; stated as a lower bound so that adding handlers does not break it *)
Lemma handler_coverage_recognised : Nat.leb 150 handler_entries = true.
Proof. vm_compute. reflexivity. Qed.

Theorem cin_clean kw v : forallb clean_word kw = true -> kw_handler kw v = true -> Forall (fun c => cs_mem c danger_cset = false) v.
Proof.
  intros Hk H. apply D_nil_clean.
  apply (kw_handler_marked dmk dmk_ascii dmk_not_upper dmk_not_lower dmk_table dmk_space dmk_comma kw v); [|exact H].
  intros k Hin. apply forallb_D_nil. rewrite forallb_forall in Hk. exact (Hk k Hin).
Qed.
Theorem cinspace_clean kw v : forallb clean_word kw = true -> in_list (split v [32]) kw = true -> Forall (fun c => cs_mem c danger_cset = false) v.
Proof.
  intros Hk H. apply D_nil_clean.
  apply (in_space_marked dmk) with (kw := kw); auto using dmk_ascii, dmk_not_upper, dmk_not_lower, dmk_table, dmk_space, dmk_comma, dmk_blank.
  intros k Hin. apply forallb_D_nil. rewrite forallb_forall in Hk. exact (Hk k Hin).
Qed.
