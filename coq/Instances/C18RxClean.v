(* which acceptor regexps of css/handlers.go accept only values without one of the six characters
   < > \ @ ( :  -- decided by the verified emptiness procedure: X /\ "contains one of them" is empty *)
From Coq Require Import List NArith Bool String.
Import ListNotations.
From BM Require Import Bytes Utf8 Regex RegexSound RegexSem GenRegex GenCss KwHandler DangerBytes C18Danger C18Inst C18KwHandlers.
Open Scope N_scope.

Definition rx_is_clean (X : re) : bool := is_empty (And (wrap X) has_danger) 2000.
Definition rx_clean_names : list string :=
  Eval vm_compute in map fst (filter (fun a => rx_is_clean (snd a)) css_acceptors).

Lemma rx_clean_names_ok : forallb (fun nm => match find (fun a => String.eqb (fst a) nm) css_acceptors with
                                              | Some a => rx_is_clean (snd a) | None => true end) rx_clean_names = true.
Proof. vm_compute. reflexivity. Qed.

Lemma no_danger_rune_D_at : forall s b, matches_at b has_danger s = false -> D dmk s = [].
Proof.
  unfold D. induction s as [|c s IH]; intros b H; [reflexivity|]. cbn [filter].
  destruct (dmk c) eqn:E.
  - exfalso. unfold has_danger in H. change (c :: s) with ([] ++ c :: s) in H.
    rewrite contains_cls_hit in H; [discriminate|]. cbn [xorb]. unfold dmk in E. rewrite E. reflexivity.
  - apply (IH false). unfold has_danger in *. cbn [matches_at] in H. rewrite contains_cls_step in H. cbn [xorb] in H.
    unfold dmk in E. rewrite E in H. exact H.
Qed.
Lemma no_danger_rune_D s : matches has_danger s = false -> D dmk s = [].
Proof. apply no_danger_rune_D_at. Qed.

Theorem rx_clean_sound nm : existsb (String.eqb nm) rx_clean_names = true ->
  forall v, acceptor css_acceptors nm v = true -> D dmk v = [].
Proof.
  intros Hnm v H. unfold acceptor in H. destruct (find (fun a => String.eqb (fst a) nm) css_acceptors) as [a|] eqn:Ef; [|discriminate].
  pose proof rx_clean_names_ok as T. rewrite forallb_forall in T.
  apply existsb_exists in Hnm as (nm' & Hin & Heq). apply String.eqb_eq in Heq. subst nm'.
  specialize (T nm Hin). rewrite Ef in T. unfold rx_is_clean in T.
  pose proof (is_empty_sound _ _ T (runes v)) as He. rewrite matches_And in He. unfold search in H. rewrite H in He. cbn [andb] in He.
  rewrite <- (D_runes dmk dmk_ascii v). apply no_danger_rune_D. exact He.
Qed.

(* the definitions kept for the whole-handler theorem, and the handlers they denote (also extracted for the correspondence run) *)
Definition css_defs_kept : list (string * list hcond) := fst (keep_defs rx_clean_names css_handler_defs [] []).
Definition css_handlers : henv := build_handlers css_acceptors css_defs_kept [].
