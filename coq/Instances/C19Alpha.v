(* C19 obligation "alpha" on the regenerated regexps, closed by reflection. *)
From Coq Require Import List Bool.
From BM Require Import C19Inst.
Lemma c19_all_alpha : forallb ok_alpha c19_matchers = true.
Proof. vm_compute. reflexivity. Qed.
