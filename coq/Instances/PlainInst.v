(* StrictPolicy and UGCPolicy (as regenerated from policies.go / helpers.go) are in the class of the
   round-trip theorem: no AllowUnsafe, no raw-text element allowed (and they keep no comments).  Non-vacuity of
   every theorem stated under plain_policy. *)
From Coq Require Import List NArith Bool String.
Import ListNotations.
From BM Require Import Bytes Strings Regex Tokenizer Policy Attrs Loop Builder LoopInv LoopProps SanRoundTrip
                       GenScripts C04Inst.
Open Scope N_scope.

Section PlainInst.
  Variable I : interp smatcher unit unit.

  Lemma strict_nothing : forall n, elem_allowed I strict n = false.
  Proof.
    destruct strict_nothing_allowed as (E1 & E2 & _). intros n. unfold elem_allowed. rewrite E1, E2. reflexivity.
  Qed.

  Lemma strict_plain : plain_policy I strict.
  Proof.
    split; [exact strict_safe|]. intros n _. apply strict_nothing.
  Qed.

  Lemma ugc_plain : plain_policy I ugc.
  Proof.
    split; [exact ugc_safe|]. intros n Hn.
    unfold elem_allowed. rewrite ugc_no_patterns. cbn [existsb]. rewrite orb_false_r.
    unfold is_raw_name in Hn. apply existsb_exists in Hn as (x & Hx & E). apply beqb_eq in E. subst x.
    pose proof ugc_raw_not_allowed as T. rewrite forallb_forall in T. specialize (T n Hx).
    apply negb_true_iff in T. exact T.
  Qed.

  Lemma strict_no_comments : allowComments strict = false.
  Proof. destruct strict_nothing_allowed as (_ & _ & E3 & _). exact E3. Qed.
End PlainInst.
