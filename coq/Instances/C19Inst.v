(* C19 obligations over the regenerated regexps of helpers.go: definitions and the
   diagnostic report (no proofs here, so that the report can still be computed when
   an obligation fails). *)
From Coq Require Import List NArith Bool String.
Import ListNotations.
From BM Require Import Bytes Regex Matchers GenRegex.
Open Scope N_scope.

Definition c19_matchers : list (re * matcher_spec) :=
  [ (bm_CellAlign, CellAlign_spec); (bm_CellVerticalAlign, CellVerticalAlign_spec);
    (bm_Direction, Direction_spec); (bm_ImageAlign, ImageAlign_spec); (bm_Integer, Integer_spec);
    (bm_ISO8601, ISO8601_spec); (bm_ListType, ListType_spec);
    (bm_SpaceSeparatedTokens, SpaceSeparatedTokens_spec); (bm_Number, Number_spec);
    (bm_NumberOrPercent, NumberOrPercent_spec); (bm_Paragraph, Paragraph_spec) ].

Definition c19_fuel : nat := 200000.

Definition q_whole (X : re) : re := And (wrap X) (Not X).
Definition q_alpha (X : re) (A : cset) : re := And (wrap X) (contains_cls true A).
Definition q_exact1 (X D : re) : re := And (wrap X) (Not D).
Definition q_exact2 (X D : re) : re := And D (Not (wrap X)).

Definition ok_whole (p : re * matcher_spec) := is_empty (q_whole (fst p)) c19_fuel.
Definition ok_alpha (p : re * matcher_spec) := is_empty (q_alpha (fst p) (ms_alphabet (snd p))) c19_fuel.
Definition ok_exact (p : re * matcher_spec) :=
  match ms_exact (snd p) with
  | None => true
  | Some D => is_empty (q_exact1 (fst p) D) c19_fuel && is_empty (q_exact2 (fst p) D) c19_fuel
  end.
Definition ok_examples (p : re * matcher_spec) :=
  forallb (fun e => search (fst p) (bytes_of_string e)) (ms_examples (snd p)).

(* report: per matcher, per obligation, the procedure's answer
   (Some None = holds, Some (Some w) = fails with witness w, None = out of fuel) *)
Definition c19_report : list (string * list (string * option (option (list N)))) :=
  map (fun p =>
    (ms_name (snd p),
     [ ("whole"%string, witness (q_whole (fst p)) c19_fuel);
       ("alphabet"%string, witness (q_alpha (fst p) (ms_alphabet (snd p))) c19_fuel) ] ++
     match ms_exact (snd p) with
     | None => []
     | Some D => [ ("exact_sub"%string, witness (q_exact1 (fst p) D) c19_fuel);
                   ("exact_sup"%string, witness (q_exact2 (fst p) D) c19_fuel) ]
     end ++
     map (fun e => ("example"%string,
                    if search (fst p) (bytes_of_string e) then Some None else Some (Some (bytes_of_string e))))
         (ms_examples (snd p))))
    c19_matchers.
