(* C04: the shipped policies as built by the model from the regenerated builder scripts, and the
   facts about their tables (closed by computation on the regenerated scripts). *)
From Coq Require Import List NArith Bool String.
Import ListNotations.
From BM Require Import Bytes Strings Regex Tokenizer Policy Builder GenTables GenRegex GenScripts Forced UGCSpec.
Open Scope N_scope.

Definition no_default : bytes -> smatcher := fun _ => ("BaseHandler"%string, Emp).
Definition ugc : policy smatcher unit unit := build no_default ugc_script.
Definition strict : policy smatcher unit unit := build no_default strict_script.

Definition keys {V} (m : amap V) : list bytes := map fst m.
Definition subset_keys (a b : list bytes) : bool := forallb (fun x => mem x b) a.

Definition ugc_tables_ok : bool :=
  (* exactly the documented elements, no element patterns *)
  same_set (keys (elsAndAttrs ugc)) (keys ugc_vocabulary) &&
  match elsMatchingAndAttrs ugc with [] => true | _ => false end &&
  (* per element exactly the documented attribute names *)
  forallb (fun e => match lookup (fst e) ugc_vocabulary with
                    | Some attrs => same_set (keys (snd e)) attrs
                    | None => false end) (elsAndAttrs ugc) &&
  same_set (keys (globalAttrs ugc)) ugc_global_attrs &&
  (* nothing forbidden *)
  forallb (fun f => negb (mem f (keys (elsAndAttrs ugc)))) ugc_forbidden_elements &&
  forallb (fun e => forallb (fun k => negb (event_or_style_attr k)) (keys (snd e))) (elsAndAttrs ugc) &&
  forallb (fun k => negb (event_or_style_attr k)) (keys (globalAttrs ugc)) &&
  (* no style rules, no data attributes, no comments, not unsafe *)
  match elsAndStyles ugc, elsMatchingAndStyles ugc, globalStyles ugc with [], [], [] => true | _, _, _ => false end &&
  negb (allowDataAttributes ugc) && negb (allowComments ugc) && negb (allowUnsafe ugc) && negb (addSpaces ugc) &&
  (* URL handling: parseable, relative allowed, nofollow, exactly mailto/http/https without custom checks, no scheme patterns, no rewriter *)
  requireParseableURLs ugc && allowRelativeURLs ugc && requireNoFollow ugc &&
  same_set (keys (allowURLSchemes ugc)) ugc_schemes &&
  forallb (fun e => match snd e with [] => true | _ => false end) (allowURLSchemes ugc) &&
  match allowURLSchemeRegexps ugc, srcRewriter ugc with [], None => true | _, _ => false end &&
  (* defaults untouched *)
  same_set (elsSkipContent ugc) default_skip_content.

Definition strict_tables_ok : bool :=
  match elsAndAttrs strict, elsMatchingAndAttrs strict, globalAttrs strict with [], [], [] => true | _, _, _ => false end &&
  negb (allowComments strict) && negb (allowUnsafe strict) && negb (addSpaces strict).

Lemma ugc_tables_documented : ugc_tables_ok = true.
Proof. vm_compute. reflexivity. Qed.
Lemma strict_tables_empty : strict_tables_ok = true.
Proof. vm_compute. reflexivity. Qed.

(* the facts used by the theorems, separately *)
Lemma ugc_elements_documented : subset (keys (elsAndAttrs ugc)) (keys ugc_vocabulary) = true.
Proof. vm_compute. reflexivity. Qed.
Lemma ugc_no_patterns : elsMatchingAndAttrs ugc = [].
Proof. vm_compute. reflexivity. Qed.
Lemma ugc_nothing_forbidden : forallb (fun f => negb (mem f (keys (elsAndAttrs ugc)))) ugc_forbidden_elements = true.
Proof. vm_compute. reflexivity. Qed.
Lemma ugc_safe : allowUnsafe ugc = false. Proof. vm_compute. reflexivity. Qed.
Lemma strict_safe : allowUnsafe strict = false. Proof. vm_compute. reflexivity. Qed.
Lemma strict_nothing_allowed : elsAndAttrs strict = [] /\ elsMatchingAndAttrs strict = [] /\ allowComments strict = false /\ addSpaces strict = false.
Proof. vm_compute. repeat split. Qed.

(* both shipped policies are in the class of the round-trip theorem (Proofs/SanRoundTrip.v):
   no comments, no AllowUnsafe, no raw-text element allowed *)
Lemma ugc_no_comments : allowComments ugc = false. Proof. vm_compute. reflexivity. Qed.
Lemma ugc_raw_not_allowed : forallb (fun x => negb (has_key x (elsAndAttrs ugc))) raw_names = true.
Proof. vm_compute. reflexivity. Qed.
Lemma ugc_attr_names_documented :
  forallb (fun e => match lookup (fst e) ugc_vocabulary with
                    | Some attrs => subset (keys (snd e)) attrs
                    | None => false end) (elsAndAttrs ugc) = true.
Proof. vm_compute. reflexivity. Qed.
Lemma ugc_global_names_documented : subset (keys (globalAttrs ugc)) ugc_global_attrs = true.
Proof. vm_compute. reflexivity. Qed.
Lemma ugc_no_event_or_style_names :
  forallb (fun e => forallb (fun k => negb (event_or_style_attr k)) (keys (snd e))) (elsAndAttrs ugc) = true /\
  forallb (fun k => negb (event_or_style_attr k)) (keys (globalAttrs ugc)) = true.
Proof. vm_compute. split; reflexivity. Qed.
Lemma ugc_no_styles_no_data :
  elsAndStyles ugc = [] /\ elsMatchingAndStyles ugc = [] /\ globalStyles ugc = [] /\ allowDataAttributes ugc = false.
Proof. vm_compute. repeat split. Qed.
Lemma ugc_url_settings :
  requireParseableURLs ugc = true /\ allowRelativeURLs ugc = true /\ allowURLSchemeRegexps ugc = [] /\ srcRewriter ugc = None /\
  subset (keys (allowURLSchemes ugc)) ugc_schemes = true /\
  forallb (fun e => match snd e with [] => true | _ => false end) (allowURLSchemes ugc) = true.
Proof. vm_compute. repeat split. Qed.
