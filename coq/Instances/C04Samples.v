(* C04, converse direction, attribute values: with the regexps as regenerated from helpers.go and
   run by the verified matcher, every documented (element, attribute, sample value) is accepted by
   UGCPolicy's rules for that element or by its global rules.  A pattern swapped between two
   attributes, or tightened, breaks this lemma. *)
From Coq Require Import List NArith Bool String.
Import ListNotations.
From BM Require Import Bytes Utf8 Strings Regex Tokenizer Policy Attrs Builder GenTables GenRegex GenScripts UGCSpec C04Inst.
Open Scope N_scope.

(* the matcher interpretation for policies whose matchers are regexp ASTs *)
Definition rx_interp : interp smatcher unit unit :=
  {| mmatch := fun m v => Regex.search (snd m) (runes v); upol := fun _ _ => true; rewrite := fun _ b => b;
     url_parse := fun _ => None; css_decls := fun _ => None |}.

Definition samples_for (e a : bytes) : list bytes :=
  match filter (fun o => beqb (fst (fst o)) e && beqb (snd (fst o)) a) ugc_value_overrides with
  | o :: _ => snd o
  | [] => match lookup a ugc_value_samples with Some vs => vs | None => [] end
  end.

Definition attr_sample_ok (e a v : bytes) : bool :=
  match lookup e (elsAndAttrs ugc) with
  | Some aps => rules_accept rx_interp aps (a, v) || rules_accept rx_interp (globalAttrs ugc) (a, v)
  | None => false
  end.

Definition ugc_samples_ok : bool :=
  forallb (fun ea =>
    let e := fst ea in
    forallb (fun a => if mem a ugc_url_attrs then true else forallb (attr_sample_ok e a) (samples_for e a))
            (snd ea ++ ugc_global_attrs))
    ugc_vocabulary.

Lemma ugc_samples_accepted : ugc_samples_ok = true.
Proof. vm_compute. reflexivity. Qed.

(* the samples are really consulted: a few of them, spelled out *)
Example ugc_sample_instances :
  attr_sample_ok (B"tr") (B"valign") (B"top") = true /\ attr_sample_ok (B"td") (B"align") (B"justify") = true /\
  attr_sample_ok (B"ol") (B"type") (B"I") = true /\ attr_sample_ok (B"tr") (B"valign") (B"left") = false /\
  List.length (flat_map (fun ea => flat_map (fun a => samples_for (fst ea) a) (snd ea ++ ugc_global_attrs)) ugc_vocabulary) = 515%nat.
Proof. vm_compute. repeat split. Qed.
