(* C18 obligation on the regenerated data of css/handlers.go, closed by reflection. *)
From Coq Require Import List Bool.
From BM Require Import GenCss C18Inst.
Lemma c18_all_whole : forallb ok18_whole css_acceptors = true.
Proof. vm_compute. reflexivity. Qed.
