(* Facts about the regenerated constant tables of sanitize.go / policy.go that the property
   theorems need; closed by computation on the regenerated data, so an edited case list is
   re-checked on every run. *)
From Coq Require Import List NArith Bool.
Import ListNotations.
From BM Require Import Bytes Forced GenTables.
Open Scope N_scope.

Lemma crossorigin_table_documented : same_set crossorigin_elements crossorigin_documented = true.
Proof. vm_compute. reflexivity. Qed.
Lemma iframe_not_crossorigin : mem (B"iframe") crossorigin_elements = false.
Proof. vm_compute. reflexivity. Qed.
(* the SandboxValue constants map one-to-one, in iota order, onto the fourteen documented tokens *)
Lemma sandbox_table_documented : map snd sandbox_values = sandbox_documented /\ map fst sandbox_values = map N.of_nat (seq 0 14).
Proof. vm_compute. split; reflexivity. Qed.
Lemma link_rel_table_documented : subset link_rel_documented link_rel_elements = true.
Proof. vm_compute. reflexivity. Qed.
(* every documented URL position is gated by linkable() and listed in the URL switch *)
Lemma url_positions_covered :
  subset href_documented href_elements && subset cite_documented cite_elements && subset src_documented src_elements &&
  subset (href_documented ++ cite_documented ++ src_documented) linkable_elements = true.
Proof. vm_compute. reflexivity. Qed.
Lemma link_rel_linkable : subset link_rel_elements linkable_elements = true.
Proof. vm_compute. reflexivity. Qed.
