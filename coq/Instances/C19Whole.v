(* C19 obligation "whole" on the regenerated regexps, closed by reflection. *)
From Coq Require Import List Bool.
From BM Require Import C19Inst.
Lemma c19_all_whole : forallb ok_whole c19_matchers = true.
Proof. vm_compute. reflexivity. Qed.
