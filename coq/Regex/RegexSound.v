(* Soundness of the emptiness procedure of Regex.v:
   witness r fuel = Some None  ->  no string matches r. *)
From Coq Require Import List NArith Bool Lia.
Import ListNotations.
From BM Require Import Regex.
Open Scope N_scope.

Lemma cset_eqb_eq : forall x y : cset, cset_eqb x y = true -> x = y.
Proof.
  induction x as [|[a1 a2] x IH]; destruct y as [|[b1 b2] y]; simpl; intros H; try discriminate; auto.
  apply andb_true_iff in H as [H H3]. apply andb_true_iff in H as [H1 H2].
  apply N.eqb_eq in H1, H2. subst. f_equal. auto.
Qed.

Lemma re_eqb_eq : forall a b, re_eqb a b = true -> a = b.
Proof.
  induction a; destruct b; simpl; intros H; try discriminate; auto;
    try (apply andb_true_iff in H as [H1 H2]; f_equal; auto; fail);
    try (f_equal; auto; fail).
  apply andb_true_iff in H as [H1 H2]. apply eqb_prop in H1. apply cset_eqb_eq in H2. subst; auto.
Qed.

(* representative: greatest element of (0 :: bs) that is <= c *)
Fixpoint repf (bs : list N) (c : N) : N :=
  match bs with
  | [] => 0
  | b :: bs' => let r := repf bs' c in if (b <=? c) && (r <=? b) then b else r
  end.

Lemma repf_le : forall bs c, repf bs c <= c.
Proof.
  induction bs as [|a bs IH]; simpl; intros c; [lia|].
  destruct (a <=? c) eqn:E; simpl; auto.
  destruct (repf bs c <=? a); auto. apply N.leb_le in E; auto.
Qed.

Lemma repf_ge : forall bs c b, In b bs -> b <= c -> b <= repf bs c.
Proof.
  induction bs as [|a bs IH]; simpl; intros c b Hin Hle; [contradiction|]. destruct Hin as [->|Hin].
  - apply N.leb_le in Hle as E. rewrite E. simpl.
    destruct (repf bs c <=? b) eqn:F; [lia|]. apply N.leb_gt in F. lia.
  - specialize (IH c b Hin Hle). destruct (a <=? c) eqn:E; simpl; auto.
    destruct (repf bs c <=? a) eqn:F; auto. apply N.leb_le in F. lia.
Qed.

Lemma repf_in : forall bs c, In (repf bs c) (0 :: bs).
Proof.
  induction bs as [|a bs IH]; simpl; intros c; auto.
  destruct ((a <=? c) && (repf bs c <=? a)); auto. destruct (IH c); auto.
Qed.

Lemma cs_mem_rep : forall s bs c,
  incl (flat_map (fun p => [fst p; snd p + 1]) s) bs -> cs_mem c s = cs_mem (repf bs c) s.
Proof.
  induction s as [|[lo hi] s IH]; simpl; intros bs c Hincl; auto.
  assert (Hlo : In lo bs) by (apply Hincl; simpl; auto).
  assert (Hhi : In (hi + 1) bs) by (apply Hincl; simpl; auto).
  rewrite (IH bs c) by (intros x Hx; apply Hincl; simpl; auto).
  f_equal.
  pose proof (repf_le bs c) as Hle.
  destruct (lo <=? c) eqn:E1; destruct (c <=? hi) eqn:E2; simpl.
  - apply N.leb_le in E1, E2. pose proof (repf_ge bs c lo Hlo E1).
    assert (lo <=? repf bs c = true) as -> by (apply N.leb_le; lia).
    assert (repf bs c <=? hi = true) as -> by (apply N.leb_le; lia). auto.
  - apply N.leb_le in E1. apply N.leb_gt in E2. assert (H0 : hi + 1 <= c) by lia.
    pose proof (repf_ge bs c (hi+1) Hhi H0).
    assert (repf bs c <=? hi = false) as -> by (apply N.leb_gt; lia). rewrite andb_false_r. auto.
  - apply N.leb_gt in E1. assert (lo <=? repf bs c = false) as -> by (apply N.leb_gt; lia). auto.
  - apply N.leb_gt in E1. assert (lo <=? repf bs c = false) as -> by (apply N.leb_gt; lia). auto.
Qed.

Lemma deriv_rep : forall r bs b c, incl (bounds r) bs -> deriv b c r = deriv b (repf bs c) r.
Proof.
  induction r; simpl; intros bs b c Hincl; auto.
  - rewrite (cs_mem_rep s bs c Hincl). auto.
  - rewrite (IHr1 bs b c), (IHr2 bs b c); auto; intros x Hx; apply Hincl; apply in_or_app; auto.
  - rewrite (IHr1 bs b c), (IHr2 bs b c); auto; intros x Hx; apply Hincl; apply in_or_app; auto.
  - rewrite (IHr1 bs b c), (IHr2 bs b c); auto; intros x Hx; apply Hincl; apply in_or_app; auto.
  - rewrite (IHr bs b c); auto.
  - rewrite (IHr bs b c); auto.
Qed.

Lemma incl_nil_any {A} (l : list A) : incl [] l. Proof. intros x []. Qed.
Ltac inc := first [apply incl_nil_any | apply incl_refl | apply incl_appl, incl_refl | apply incl_appr, incl_refl].
Lemma bounds_mkCat a b : incl (bounds (mkCat a b)) (bounds a ++ bounds b).
Proof. unfold mkCat. destruct (is_emp a || is_emp b); simpl; [inc|]. destruct (is_eps a); [inc|]. destruct (is_eps b); [inc|]. simpl; inc. Qed.
Lemma bounds_alt_ins a b : incl (bounds (alt_ins a b)) (bounds a ++ bounds b).
Proof. unfold alt_ins. repeat match goal with |- context [if ?x then _ else _] => destruct x; [inc|] end. simpl; inc. Qed.
Lemma bounds_mkAlt a b : incl (bounds (mkAlt a b)) (bounds a ++ bounds b).
Proof.
  induction a; try apply bounds_alt_ins.
  cbn [mkAlt]. eapply incl_tran; [apply bounds_alt_ins|]. simpl.
  apply incl_app.
  - rewrite <- app_assoc. inc.
  - eapply incl_tran; [apply IHa2|]. rewrite <- app_assoc. apply incl_appr, incl_refl.
Qed.
Lemma bounds_mkAnd a b : incl (bounds (mkAnd a b)) (bounds a ++ bounds b).
Proof. unfold mkAnd. repeat match goal with |- context [if ?x then _ else _] => destruct x; [simpl; inc|] end. simpl; inc. Qed.
Lemma bounds_mkNot a : incl (bounds (mkNot a)) (bounds a).
Proof. destruct a; simpl; inc. Qed.

Lemma bounds_deriv : forall r b c, incl (bounds (deriv b c r)) (bounds r).
Proof.
  induction r; simpl; intros b c; try inc.
  - destruct (xorb neg (cs_mem c s)); simpl; inc.
  - assert (H1 : incl (bounds (mkCat (deriv b c r1) r2)) (bounds r1 ++ bounds r2)).
    { eapply incl_tran; [apply bounds_mkCat|]. apply incl_app; [apply incl_appl, IHr1 | inc]. }
    destruct (nullable b false r1); auto.
    eapply incl_tran; [apply bounds_mkAlt|]. apply incl_app; auto. apply incl_appr, IHr2.
  - eapply incl_tran; [apply bounds_mkAlt|]. apply incl_app; [apply incl_appl, IHr1 | apply incl_appr, IHr2].
  - eapply incl_tran; [apply bounds_mkAnd|]. apply incl_app; [apply incl_appl, IHr1 | apply incl_appr, IHr2].
  - eapply incl_tran; [apply bounds_mkNot|]. apply IHr.
  - eapply incl_tran; [apply bounds_mkCat|]. simpl. apply incl_app; [apply IHr | inc].
Qed.

Lemma dedup_in : forall l x, In x l -> In x (dedup l).
Proof.
  induction l as [|a l IH]; simpl; intros x H; auto.
  destruct (existsb (N.eqb a) l) eqn:E.
  - destruct H as [->|H]; auto. apply IH. apply existsb_exists in E as [y [Hy Ey]].
    apply N.eqb_eq in Ey. subst; auto.
  - destruct H as [->|H]; simpl; auto.
Qed.

(* closed sets of non-start-position residuals *)
Definition closed (rp : list N) (S : list re) :=
  forall r, In r S -> nullable false true r = false /\ forall c, In c rp -> In (deriv false c r) S.

Lemma closed_no_match : forall bs rp S, (forall x, In x (0 :: bs) -> In x rp) -> closed rp S ->
  forall s r, In r S -> incl (bounds r) bs -> matches_at false r s = false.
Proof.
  intros bs rp S Hrp HS. induction s as [|c s IH]; intros r Hr Hb; simpl.
  - apply HS; auto.
  - rewrite (deriv_rep r bs false c Hb). apply IH.
    + apply HS; auto. apply Hrp, repf_in.
    + eapply incl_tran; [apply bounds_deriv | auto].
Qed.

Lemma mem_re_in x l : mem_re x l = true -> In x l.
Proof. unfold mem_re. intros H. apply existsb_exists in H as [y [Hy E]]. apply re_eqb_eq in E. subst; auto. Qed.

Definition winv (rp : list N) (todo : list (re * list N)) (seen : list re) :=
  forall r, In r seen -> nullable false true r = false /\
    forall c, In c rp -> In (deriv false c r) seen \/ In (deriv false c r) (map fst todo).

Lemma mem_fst_in x l : mem_fst x l = true -> In x (map fst l).
Proof.
  unfold mem_fst. intros H. apply existsb_exists in H as [y [Hy E]]. apply re_eqb_eq in E. subst.
  apply in_map; auto.
Qed.

Lemma dd_acc : forall b rp r w seen pend acc x, In x acc -> In x (dd b rp r w seen pend acc).
Proof.
  intros b. induction rp as [|c rp IH]; simpl; intros; auto.
  destruct (mem_re _ seen || mem_fst _ pend || mem_fst _ acc); apply IH; simpl; auto.
Qed.

Lemma dd_spec : forall b rp r w seen pend acc c, In c rp ->
  In (deriv b c r) seen \/ In (deriv b c r) (map fst pend) \/
  In (deriv b c r) (map fst (dd b rp r w seen pend acc)).
Proof.
  intros b. induction rp as [|c0 rp IH]; simpl; intros r w seen pend acc c Hc; [contradiction|].
  destruct Hc as [->|Hc].
  - destruct (mem_re (deriv b c r) seen) eqn:E1; [left; apply mem_re_in; auto|].
    destruct (mem_fst (deriv b c r) pend) eqn:E2; [right; left; apply mem_fst_in; auto|].
    destruct (mem_fst (deriv b c r) acc) eqn:E3; simpl.
    + right; right. apply mem_fst_in in E3. apply in_map_iff in E3 as (p & Hp & Hin).
      apply in_map_iff. exists p. split; auto. apply dd_acc; auto.
    + right; right. apply in_map_iff. exists (deriv b c r, c :: w). split; auto. apply dd_acc. simpl; auto.
  - destruct (mem_re _ seen || mem_fst _ pend || mem_fst _ acc); apply IH; auto.
Qed.

Lemma explore_sound : forall fuel rp todo seen,
  winv rp todo seen -> explore fuel rp todo seen = Some None ->
  exists S, closed rp S /\ incl seen S /\ incl (map fst todo) S.
Proof.
  induction fuel; simpl; intros rp todo seen Hinv H; [discriminate|].
  destruct todo as [|[r w] rest].
  - exists seen. split; [|split; [apply incl_refl | apply incl_nil_any]].
    intros r Hr. destruct (Hinv r Hr) as [Hn Hd]. split; auto. intros c Hc. destruct (Hd c Hc) as [|[]]; auto.
  - destruct (nullable false true r) eqn:Hn; [discriminate|].
    destruct (mem_re r seen) eqn:Hm.
    + apply IHfuel in H.
      * destruct H as [S [HS [H1 H2]]]. exists S. split; auto. split; auto.
        simpl. intros x [<-|Hx]; auto. apply H1. apply mem_re_in; auto.
      * intros r' Hr'. destruct (Hinv r' Hr') as [Hn' Hd]. split; auto. intros c Hc.
        destruct (Hd c Hc) as [|Hin]; auto. simpl in Hin. destruct Hin as [<-|]; auto. left. apply mem_re_in; auto.
    + apply IHfuel in H.
      * destruct H as [S [HS [H1 H2]]]. exists S. split; auto. split.
        -- intros x Hx. apply H1. simpl; auto.
        -- simpl. intros x [<-|Hx]. apply H1; simpl; auto. apply H2. rewrite map_app. apply in_or_app; auto.
      * intros r' [<-|Hr'].
        -- split; auto. intros c Hc.
           destruct (dd_spec false rp r w (r :: seen) rest [] c Hc) as [Hs|[Hp|Hd]].
           ++ left; auto.
           ++ right. rewrite map_app. apply in_or_app. left; auto.
           ++ right. rewrite map_app. apply in_or_app. right; auto.
        -- destruct (Hinv r' Hr') as [Hn' Hd]. split; auto. intros c Hc.
           destruct (Hd c Hc) as [|Hin]; [left; simpl; auto|]. simpl in Hin. destruct Hin as [<-|Hin]; [left; simpl; auto|].
           right. rewrite map_app. apply in_or_app; auto.
Qed.

Theorem witness_none_sound : forall r fuel, witness r fuel = Some None -> forall s, matches r s = false.
Proof.
  intros r fuel H s. unfold witness in H.
  destruct (nullable true true r) eqn:Hn; [discriminate|].
  apply explore_sound in H; [|intros x []].
  destruct H as [S [HS [_ H2]]].
  unfold matches. destruct s as [|c s]; simpl; auto.
  rewrite (deriv_rep r (bounds r) true c (incl_refl _)).
  eapply closed_no_match with (bs := bounds r) (rp := reps r) (S := S); eauto.
  - intros x Hx. unfold reps. apply dedup_in. exact Hx.
  - apply H2.
    destruct (dd_spec true (reps r) r [] [] [] [] (repf (bounds r) c)) as [[]|[[]|Hd]]; auto.
    unfold reps. apply dedup_in. apply repf_in.
  - apply bounds_deriv.
Qed.

Theorem is_empty_sound : forall r fuel, is_empty r fuel = true -> forall s, matches r s = false.
Proof.
  intros r fuel H. unfold is_empty in H.
  destruct (witness r fuel) as [[w|]|] eqn:E; try discriminate.
  eapply witness_none_sound; eauto.
Qed.
