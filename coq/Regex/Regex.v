(* Regular expressions over runes with begin/end-of-text assertions, intersection and
   complement; Brzozowski-derivative matcher; Go `MatchString` (unanchored search) semantics.
   Definitions only (proofs are in RegexSound.v). *)
From Coq Require Import List NArith Bool.
Import ListNotations.
Open Scope N_scope.

(* a rune set: list of inclusive ranges *)
Definition cset := list (N * N).
Definition cs_mem (c : N) (s : cset) : bool :=
  existsb (fun r => (fst r <=? c) && (c <=? snd r)) s.

Inductive re :=
| Emp | Eps
| Chr (neg : bool) (s : cset)      (* one rune in s (neg=false) / not in s (neg=true) *)
| Bot | Eot                        (* \A and \z : empty string at begin / end of the text *)
| Cat (a b : re) | Alt (a b : re) | And (a b : re) | Not (a : re) | Star (a : re).

(* nullable b e r: r matches the empty string at a position that is the beginning of the
   text iff b, and the end of the text iff e *)
Fixpoint nullable (b e : bool) (r : re) : bool :=
  match r with
  | Emp => false | Eps => true | Chr _ _ => false
  | Bot => b | Eot => e
  | Cat x y => nullable b e x && nullable b e y
  | Alt x y => nullable b e x || nullable b e y
  | And x y => nullable b e x && nullable b e y
  | Not x => negb (nullable b e x)
  | Star _ => true
  end.

Fixpoint cset_eqb (x y : cset) : bool :=
  match x, y with
  | [], [] => true
  | (a1, a2) :: x', (b1, b2) :: y' => (a1 =? b1) && (a2 =? b2) && cset_eqb x' y'
  | _, _ => false
  end.

Fixpoint re_eqb (a b : re) : bool :=
  match a, b with
  | Emp, Emp | Eps, Eps | Bot, Bot | Eot, Eot => true
  | Chr n s, Chr n' s' => Bool.eqb n n' && cset_eqb s s'
  | Cat a1 a2, Cat b1 b2 | Alt a1 a2, Alt b1 b2 | And a1 a2, And b1 b2 => re_eqb a1 b1 && re_eqb a2 b2
  | Not a1, Not b1 | Star a1, Star b1 => re_eqb a1 b1
  | _, _ => false
  end.

(* smart constructors: keep the set of derivatives finite and small *)
Definition is_emp r := match r with Emp => true | _ => false end.
Definition is_eps r := match r with Eps => true | _ => false end.
Definition is_top r := match r with Not Emp => true | _ => false end.
Definition mkCat a b :=
  if is_emp a || is_emp b then Emp else if is_eps a then b else if is_eps b then a else Cat a b.
(* alternation is kept right-nested and duplicate-free (ACI), so iterated derivatives stay finite *)
Fixpoint alt_mem (x r : re) : bool :=
  match r with
  | Alt y r' => re_eqb x y || alt_mem x r'
  | _ => re_eqb x r
  end.
Definition alt_ins (a b : re) : re :=
  if is_emp a then b else if is_emp b then a else if is_top a then a else if is_top b then b
  else if alt_mem a b then b else Alt a b.
Fixpoint mkAlt (a b : re) : re :=
  match a with
  | Alt x y => alt_ins x (mkAlt y b)
  | _ => alt_ins a b
  end.
Definition mkAnd a b :=
  if is_emp a || is_emp b then Emp else if is_top a then b else if is_top b then a
  else if re_eqb a b then a else And a b.
Definition mkNot a := match a with Not x => x | _ => Not a end.

(* derivative by rune c at a position that is the beginning of the text iff b
   (the position is never the end of the text: c follows) *)
Fixpoint deriv (b : bool) (c : N) (r : re) : re :=
  match r with
  | Emp | Eps | Bot | Eot => Emp
  | Chr n s => if xorb n (cs_mem c s) then Eps else Emp
  | Cat x y => let d := mkCat (deriv b c x) y in
               if nullable b false x then mkAlt d (deriv b c y) else d
  | Alt x y => mkAlt (deriv b c x) (deriv b c y)
  | And x y => mkAnd (deriv b c x) (deriv b c y)
  | Not x => mkNot (deriv b c x)
  | Star x => mkCat (deriv b c x) (Star x)
  end.

(* whole-text match, the text starting at a position that is the text's beginning iff b *)
Fixpoint matches_at (b : bool) (r : re) (s : list N) : bool :=
  match s with
  | [] => nullable b true r
  | c :: s' => matches_at false (deriv b c r) s'
  end.
Definition matches (r : re) (s : list N) : bool := matches_at true r s.

Definition any : re := Chr true [].
Definition top : re := Not Emp.          (* every string *)
Definition wrap (r : re) : re := Cat top (Cat r top).
(* Go's Regexp.MatchString on the decoded runes: is there a match anywhere *)
Definition search (r : re) (s : list N) : bool := matches (wrap r) s.

(* ---- emptiness / witness search ------------------------------------------------------ *)
Fixpoint bounds (r : re) : list N :=
  match r with
  | Chr _ s => flat_map (fun p => [fst p; snd p + 1]) s
  | Cat a b | Alt a b | And a b => bounds a ++ bounds b
  | Not a | Star a => bounds a
  | _ => []
  end.

Fixpoint dedup (l : list N) : list N :=
  match l with
  | [] => []
  | x :: l' => if existsb (N.eqb x) l' then dedup l' else x :: dedup l'
  end.
Definition reps (r : re) : list N := dedup (0 :: bounds r).

Definition mem_re (x : re) (l : list re) := existsb (re_eqb x) l.

Definition mem_fst (x : re) (l : list (re * list N)) := existsb (fun p => re_eqb x (fst p)) l.

(* the distinct derivatives of r that are neither seen nor pending *)
Fixpoint dd (b : bool) (rp : list N) (r : re) (w : list N) (seen : list re) (pend acc : list (re * list N))
  : list (re * list N) :=
  match rp with
  | [] => acc
  | c :: rp' =>
    let d := deriv b c r in
    if mem_re d seen || mem_fst d pend || mem_fst d acc then dd b rp' r w seen pend acc
    else dd b rp' r w seen pend ((d, c :: w) :: acc)
  end.

Fixpoint explore (fuel : nat) (rp : list N) (todo : list (re * list N)) (seen : list re)
  : option (option (list N)) :=
  match fuel with
  | O => None
  | S f =>
    match todo with
    | [] => Some None
    | (r, w) :: rest =>
      if nullable false true r then Some (Some (rev w)) else
      if mem_re r seen then explore f rp rest seen else
      explore f rp (rest ++ dd false rp r w (r :: seen) rest []) (r :: seen)
    end
  end.

(* None: out of fuel; Some None: no string matches r; Some (Some w): w matches r *)
Definition witness (r : re) (fuel : nat) : option (option (list N)) :=
  if nullable true true r then Some (Some []) else
  explore fuel (reps r) (dd true (reps r) r [] [] [] []) [].

Definition is_empty (r : re) (fuel : nat) : bool :=
  match witness r fuel with Some None => true | _ => false end.

(* ---- handy builders for specs ---------------------------------------------------------- *)
Definition ch (c : N) := Chr false [(c, c)].
Definition rng (a b : N) := Chr false [(a, b)].
Definition opt r := Alt r Eps.
Definition plus r := Cat r (Star r).
Fixpoint lit (s : list N) : re := match s with [] => Eps | c :: s' => Cat (ch c) (lit s') end.
Fixpoint alts (l : list re) : re := match l with [] => Emp | [x] => x | x :: l' => Alt x (alts l') end.
(* contains a rune of class (neg, s) somewhere *)
Definition contains_cls (neg : bool) (s : cset) : re := Cat top (Cat (Chr neg s) top).
Definition contains (r : re) : re := Cat top (Cat r top).
(* every rune is in s *)
Definition all_in (s : cset) : re := Star (Chr false s).
