(* Semantic lemmas about the derivative matcher: the boolean connectives mean what they say,
   so that statements built with And / Not / Alt / contains_cls can be read off as
   statements about strings. *)
From Coq Require Import List NArith Bool Lia.
Import ListNotations.
From BM Require Import Regex RegexSound.
Open Scope N_scope.

Lemma matches_at_Emp : forall s b, matches_at b Emp s = false.
Proof. induction s; simpl; auto. Qed.

Lemma matches_at_top : forall s b, matches_at b top s = true.
Proof. induction s; intros b; simpl; auto. Qed.

Lemma is_emp_eq r : is_emp r = true -> r = Emp.
Proof. destruct r; simpl; congruence. Qed.
Lemma is_top_eq r : is_top r = true -> r = top.
Proof. destruct r; simpl; try congruence. destruct r; simpl; try congruence. reflexivity. Qed.

Section Sem.
  (* everything below is by induction on the string; the connective lemmas for the string s
     are needed for the smart constructors at s, which are needed for the connective lemmas
     at (c :: s) *)

  Definition AndP (s : list N) := forall b x y, matches_at b (And x y) s = matches_at b x s && matches_at b y s.
  Definition AltP (s : list N) := forall b x y, matches_at b (Alt x y) s = matches_at b x s || matches_at b y s.
  Definition NotP (s : list N) := forall b x, matches_at b (Not x) s = negb (matches_at b x s).

  Lemma mkAnd_sem s : AndP s -> forall b x y, matches_at b (mkAnd x y) s = matches_at b x s && matches_at b y s.
  Proof.
    intros HA b x y. unfold mkAnd.
    destruct (is_emp x) eqn:Ex; [apply is_emp_eq in Ex; subst; simpl; now rewrite matches_at_Emp|].
    destruct (is_emp y) eqn:Ey; [apply is_emp_eq in Ey; subst; simpl; now rewrite matches_at_Emp, andb_false_r|].
    simpl.
    destruct (is_top x) eqn:Tx; [apply is_top_eq in Tx; subst; now rewrite matches_at_top|].
    destruct (is_top y) eqn:Ty; [apply is_top_eq in Ty; subst; now rewrite matches_at_top, andb_true_r|].
    destruct (re_eqb x y) eqn:E; [apply re_eqb_eq in E; subst; now rewrite andb_diag|].
    apply HA.
  Qed.

  Lemma alt_mem_sem s : AltP s -> forall r x b, alt_mem x r = true -> matches_at b x s = true -> matches_at b r s = true.
  Proof.
    intros HA. induction r; simpl; intros x b H Hm; try (apply re_eqb_eq in H; subst; auto; fail).
    rewrite HA. apply orb_true_iff in H as [H|H].
    - apply re_eqb_eq in H. subst. rewrite Hm. auto.
    - rewrite (IHr2 x b H Hm). apply orb_true_r.
  Qed.

  Lemma alt_ins_sem s : AltP s -> forall b x y, matches_at b (alt_ins x y) s = matches_at b x s || matches_at b y s.
  Proof.
    intros HA b x y. unfold alt_ins.
    destruct (is_emp x) eqn:Ex; [apply is_emp_eq in Ex; subst; now rewrite matches_at_Emp|].
    destruct (is_emp y) eqn:Ey; [apply is_emp_eq in Ey; subst; now rewrite matches_at_Emp, orb_false_r|].
    destruct (is_top x) eqn:Tx; [apply is_top_eq in Tx; subst; now rewrite matches_at_top|].
    destruct (is_top y) eqn:Ty; [apply is_top_eq in Ty; subst; now rewrite matches_at_top, orb_true_r|].
    destruct (alt_mem x y) eqn:E; [|apply HA].
    destruct (matches_at b x s) eqn:Hx; simpl; auto.
    eapply alt_mem_sem; eauto.
  Qed.

  Lemma mkAlt_sem s : AltP s -> forall x b y, matches_at b (mkAlt x y) s = matches_at b x s || matches_at b y s.
  Proof.
    intros HA. induction x; intros b y; try apply (alt_ins_sem s HA).
    cbn [mkAlt]. rewrite (alt_ins_sem s HA), IHx2, HA. now rewrite orb_assoc.
  Qed.

  Lemma mkNot_sem s : NotP s -> forall b x, matches_at b (mkNot x) s = negb (matches_at b x s).
  Proof.
    intros HN b x. destruct x; try apply HN. simpl. rewrite HN. now rewrite negb_involutive.
  Qed.

  Lemma conn_sem : forall s, AndP s /\ AltP s /\ NotP s.
  Proof.
    induction s as [|c s (IA & IO & IN)].
    - repeat split; intros b x; intros; simpl; auto.
    - repeat split.
      + intros b x y. simpl. apply mkAnd_sem; auto.
      + intros b x y. simpl. apply mkAlt_sem; auto.
      + intros b x. simpl. apply mkNot_sem; auto.
  Qed.
End Sem.

Lemma matches_at_And b x y s : matches_at b (And x y) s = matches_at b x s && matches_at b y s.
Proof. apply conn_sem. Qed.
Lemma matches_at_Alt b x y s : matches_at b (Alt x y) s = matches_at b x s || matches_at b y s.
Proof. apply conn_sem. Qed.
Lemma matches_at_Not b x s : matches_at b (Not x) s = negb (matches_at b x s).
Proof. apply conn_sem. Qed.
Lemma matches_And x y s : matches (And x y) s = matches x s && matches y s.
Proof. apply matches_at_And. Qed.
Lemma matches_Alt x y s : matches (Alt x y) s = matches x s || matches y s.
Proof. apply matches_at_Alt. Qed.
Lemma matches_Not x s : matches (Not x) s = negb (matches x s).
Proof. apply matches_at_Not. Qed.

(* a string containing a rune of the class is matched by contains_cls *)
Lemma contains_cls_step neg A b c :
  deriv b c (contains_cls neg A) = if xorb neg (cs_mem c A) then top else contains_cls neg A.
Proof.
  unfold contains_cls. cbn [deriv nullable top negb].
  destruct (xorb neg (cs_mem c A)); reflexivity.
Qed.

Lemma contains_cls_hit neg A : forall s1 c s2 b, xorb neg (cs_mem c A) = true ->
  matches_at b (contains_cls neg A) (s1 ++ c :: s2) = true.
Proof.
  induction s1 as [|x s1 IH]; intros c s2 b H; cbn [app matches_at]; rewrite contains_cls_step.
  - rewrite H. apply matches_at_top.
  - destruct (xorb neg (cs_mem x A)); [apply matches_at_top | apply IH; auto].
Qed.

(* the reading of an "alphabet" emptiness fact *)
Lemma alphabet_from_empty r A :
  (forall s, matches (And r (contains_cls true A)) s = false) ->
  forall s, matches r s = true -> forallb (fun c => cs_mem c A) s = true.
Proof.
  intros He s Hm. apply forallb_forall. intros c Hc.
  destruct (cs_mem c A) eqn:E; auto. exfalso.
  apply in_split in Hc as (s1 & s2 & ->).
  specialize (He (s1 ++ c :: s2)). rewrite matches_And, Hm in He. simpl in He.
  unfold matches in He. rewrite contains_cls_hit in He; [discriminate|]. rewrite E. reflexivity.
Qed.

(* the reading of an inclusion fact *)
Lemma incl_from_empty r1 r2 :
  (forall s, matches (And r1 (Not r2)) s = false) ->
  forall s, matches r1 s = true -> matches r2 s = true.
Proof.
  intros He s Hm. specialize (He s). rewrite matches_And, matches_Not, Hm in He. simpl in He.
  destruct (matches r2 s); auto; discriminate.
Qed.

Lemma matches_alts l s : matches (alts l) s = existsb (fun r => matches r s) l.
Proof.
  induction l as [|x l IH]; simpl.
  - unfold matches. apply matches_at_Emp.
  - destruct l as [|y l].
    + simpl. rewrite orb_false_r. reflexivity.
    + rewrite matches_Alt, IH. reflexivity.
Qed.
