(* An invariant of every residual: if a boolean property holds of every derivative of r that the
   exploration reaches (all of them, up to the representative characters), it holds of the
   residual of r by every non-empty string.  Used for closure properties such as "whatever
   matches still matches with a fixed suffix appended". *)
From Coq Require Import List NArith Bool Lia.
Import ListNotations.
From BM Require Import Regex RegexSem RegexSound.
Open Scope N_scope.

Fixpoint derivs (r : re) (s : list N) : re :=
  match s with [] => r | c :: s' => derivs (deriv false c r) s' end.

Lemma matches_at_derivs : forall s1 r s2, matches_at false r (s1 ++ s2) = matches_at false (derivs r s1) s2.
Proof. induction s1 as [|c s1 IH]; intros r s2; cbn [app derivs matches_at]; [reflexivity | apply IH]. Qed.

Lemma matches_at_nullable : forall s r, matches_at false r s = nullable false true (derivs r s).
Proof. induction s as [|c s IH]; intros r; cbn [derivs matches_at]; [reflexivity | apply IH]. Qed.

Fixpoint explore_inv (P : re -> bool) (fuel : nat) (rp : list N) (todo : list (re * list N)) (seen : list re) : option bool :=
  match fuel with
  | O => None
  | S f =>
    match todo with
    | [] => Some true
    | (r, w) :: rest =>
      if negb (P r) then Some false else
      if mem_re r seen then explore_inv P f rp rest seen else
      explore_inv P f rp (rest ++ dd false rp r w (r :: seen) rest []) (r :: seen)
    end
  end.

(* Some true: P holds of every residual of r by a non-empty string *)
Definition all_residuals (P : re -> bool) (r : re) (fuel : nat) : option bool :=
  explore_inv P fuel (reps r) (dd true (reps r) r [] [] [] []) [].

Section Sound.
  Variable P : re -> bool.

  Definition closedP (rp : list N) (S : list re) :=
    forall r, In r S -> P r = true /\ forall c, In c rp -> In (deriv false c r) S.

  Lemma closedP_all : forall bs rp S, (forall x, In x (0 :: bs) -> In x rp) -> closedP rp S ->
    forall s r, In r S -> incl (bounds r) bs -> P (derivs r s) = true.
  Proof.
    intros bs rp S Hrp HS. induction s as [|c s IH]; intros r Hr Hb; cbn [derivs].
    - apply HS; auto.
    - rewrite (deriv_rep r bs false c Hb). apply IH.
      + apply HS; auto. apply Hrp, repf_in.
      + eapply incl_tran; [apply bounds_deriv | auto].
  Qed.

  Definition winvP (rp : list N) (todo : list (re * list N)) (seen : list re) :=
    forall r, In r seen -> P r = true /\
      forall c, In c rp -> In (deriv false c r) seen \/ In (deriv false c r) (map fst todo).

  Lemma explore_inv_sound : forall fuel rp todo seen,
    winvP rp todo seen -> explore_inv P fuel rp todo seen = Some true ->
    exists S, closedP rp S /\ incl seen S /\ incl (map fst todo) S.
  Proof.
    induction fuel; simpl; intros rp todo seen Hinv H; [discriminate|].
    destruct todo as [|[r w] rest].
    - exists seen. split; [|split; [apply incl_refl | apply incl_nil_any]].
      intros r Hr. destruct (Hinv r Hr) as [Hn Hd]. split; auto. intros c Hc. destruct (Hd c Hc) as [|[]]; auto.
    - destruct (P r) eqn:Hn; cbn [negb] in H; [|discriminate].
      destruct (mem_re r seen) eqn:Hm.
      + apply IHfuel in H.
        * destruct H as [S [HS [H1 H2]]]. exists S. split; auto. split; auto.
          simpl. intros x [<-|Hx]; auto. apply H1. apply mem_re_in; auto.
        * intros r' Hr'. destruct (Hinv r' Hr') as [Hn' Hd]. split; auto. intros c Hc.
          destruct (Hd c Hc) as [|Hin]; auto. simpl in Hin. destruct Hin as [<-|]; auto. left. apply mem_re_in; auto.
      + apply IHfuel in H.
        * destruct H as [S [HS [H1 H2]]]. exists S. split; auto. split.
          -- intros x Hx. apply H1. simpl; auto.
          -- simpl. intros x [<-|Hx]. apply H1; simpl; auto. apply H2. rewrite map_app. apply in_or_app; auto.
        * intros r' [<-|Hr'].
          -- split; auto. intros c Hc.
             destruct (dd_spec false rp r w (r :: seen) rest [] c Hc) as [Hs|[Hp|Hd]].
             ++ left; auto.
             ++ right. rewrite map_app. apply in_or_app. left; auto.
             ++ right. rewrite map_app. apply in_or_app. right; auto.
          -- destruct (Hinv r' Hr') as [Hn' Hd]. split; auto. intros c Hc.
             destruct (Hd c Hc) as [|Hin]; [left; simpl; auto|]. simpl in Hin. destruct Hin as [<-|Hin]; [left; simpl; auto|].
             right. rewrite map_app. apply in_or_app; auto.
  Qed.

  Theorem all_residuals_sound : forall r fuel, all_residuals P r fuel = Some true ->
    forall c s, P (derivs (deriv true c r) s) = true.
  Proof.
    intros r fuel H c s. unfold all_residuals in H.
    apply explore_inv_sound in H; [|intros x []].
    destruct H as [S [HS [_ H2]]].
    rewrite (deriv_rep r (bounds r) true c (incl_refl _)).
    eapply closedP_all with (bs := bounds r) (rp := reps r) (S := S); eauto.
    - intros x Hx. unfold reps. apply dedup_in. exact Hx.
    - apply H2.
      destruct (dd_spec true (reps r) r [] [] [] [] (repf (bounds r) c)) as [[]|[[]|Hd]]; auto.
      unfold reps. apply dedup_in. apply repf_in.
    - apply bounds_deriv.
  Qed.
End Sound.

(* closure under a fixed suffix *)
Definition keeps_with_suffix (w : list N) (q : re) : bool := implb (nullable false true q) (matches_at false q w).

Theorem suffix_closed : forall r w fuel,
  nullable true true r = false -> all_residuals (keeps_with_suffix w) r fuel = Some true ->
  forall v, matches r v = true -> matches r (v ++ w) = true.
Proof.
  intros r w fuel Hn H v Hv. unfold matches in *. destruct v as [|c v]; [cbn in Hv; congruence|].
  cbn [app matches_at] in *. rewrite matches_at_derivs.
  pose proof (all_residuals_sound _ r fuel H c v) as HP. unfold keeps_with_suffix in HP.
  rewrite matches_at_nullable in Hv. rewrite Hv in HP. exact HP.
Qed.
