(* sanitizeStyles and removeUnicode (sanitize.go).  douceur's declaration parser is an
   oracle: [css_decls] of the interpretation. *)
From Coq Require Import List NArith Bool.
Import ListNotations.
From BM Require Import Bytes Utf8 Strings Policy GenTables.
Open Scope N_scope.
Set Implicit Arguments.

(* cssUnicodeChar = \\[0-9a-f]{1,6} ?   : leftmost match, greedy *)
Definition is_lhex (c : N) : bool := is_digit c || ((97 <=? c) && (c <=? 102)).
Fixpoint take_hex (n : nat) (s : bytes) : bytes * bytes :=
  match n with
  | O => ([], s)
  | S k => match s with
           | c :: s' => if is_lhex c then let (a, r) := take_hex k s' in (c :: a, r) else ([], s)
           | [] => ([], [])
           end
  end.
(* find the first escape: (prefix, hex digits, had trailing space, rest) *)
Fixpoint find_escape (s : bytes) : option (bytes * bytes * bool * bytes) :=
  match s with
  | [] => None
  | c :: s' =>
    let continue :=
      match find_escape s' with
      | Some (pre, h, sp, r) => Some (c :: pre, h, sp, r)
      | None => None
      end in
    if c =? 92 then
      match take_hex 6 s' with
      | ([], _) => continue
      | (h, r) => match r with
                  | d :: r' => if d =? 32 then Some ([], h, true, r') else Some ([], h, false, r)
                  | [] => Some ([], h, false, [])
                  end
      end
    else continue
  end.

Definition hex_value (h : bytes) : N :=
  fold_left (fun acc c => 16 * acc + (if is_digit c then c - 48 else c - 87)) h 0.

(* the replacement for one escape, or None when removeUnicode gives up and returns "" *)
Definition escape_replacement (h : bytes) : option bytes :=
  (* character := the hex digits (TrimSpace removes the optional blank); pad to 4, or strip
     leading zeros down to 4; more than 4 significant digits => "" => Unquote fails *)
  let fix strip (n : nat) (h : bytes) : option bytes :=
      match n with
      | O => Some h
      | S k => match h with
               | c :: h' => if Nat.leb (length h) 4 then Some h
                            else if c =? 48 then strip k h' else None
               | [] => Some h
               end
      end in
  match strip 3%nat h with
  | None => None
  | Some h4 =>
    let r := hex_value h4 in
    (* strconv.Unquote of \uXXXX fails on surrogate halves *)
    if (55296 <=? r) && (r <=? 57343) then None
    else Some (trim_space (encode1 r))
  end.

Fixpoint remove_unicode_fuel (fuel : nat) (s : bytes) : bytes :=
  match fuel with
  | O => s
  | S f =>
    match find_escape s with
    | None => s
    | Some (pre, h, _, rest) =>
      match escape_replacement h with
      | None => []
      | Some rep => remove_unicode_fuel f (pre ++ rep ++ rest)
      end
    end
  end.
Definition remove_unicode (s : bytes) : bytes := remove_unicode_fuel (S (length s)) s.

Definition style_prefixes : list bytes := gen_style_prefixes.
Definition style_prefixes_documented : list bytes :=
  [B"-webkit-"; B"-moz-"; B"-ms-"; B"-o-"; B"mso-"; B"-xv-"; B"-atsc-"; B"-wap-"; B"-khtml-";
   B"prince-"; B"-ah-"; B"-hp-"; B"-ro-"; B"-rim-"; B"-tc-"].

(* stringInSlice *)
Definition string_in_slice (needle : bytes) (hay : list bytes) : bool :=
  existsb (fun straw => equal_fold straw needle) hay.

Section Style.
  Variables M U R : Type.
  Variable I : interp M U R.
  Variable p : policy M U R.

  Definition style_accepts (v : bytes) (sp : style_policy M) : bool :=
    match sp with
    | SPHandler h => mmatch I h v
    | SPEnum e => string_in_slice v e
    | SPRegexp r => mmatch I r v
    end.

  (* merge of the style maps of all matching element patterns: sps[k] = append(sps[k], v...) *)
  Definition merge_maps (V : Type) (maps : list (amap (list V))) : amap (list V) :=
    fold_left (fun acc m => fold_left (fun acc' kv => upsert (fst kv) (fun o => match o with Some l => l ++ snd kv | None => snd kv end) acc') m acc)
              maps [].

  Definition element_styles (elem : bytes) : amap (list (style_policy M)) :=
    match lookup elem (elsAndStyles p) with
    | Some sps => match sps with
                  | _ :: _ => sps
                  | [] => merge_maps (map snd (filter (fun e => mmatch I (snd (fst e)) elem) (elsMatchingAndStyles p)))
                  end
    | None => merge_maps (map snd (filter (fun e => mmatch I (snd (fst e)) elem) (elsMatchingAndStyles p)))
    end.

  (* the value ends in an unterminated escape (an odd number of trailing backslashes) or in an escaped semicolon: rebuilt
     into "prop: value; ..." it would not be read back as the same declaration (fix F18) *)
  Fixpoint count_prefix (c : N) (l : bytes) : nat :=
    match l with x :: l' => if x =? c then S (count_prefix c l') else O | [] => O end.
  Definition unterminated (val : bytes) : bool :=
    Nat.odd (count_prefix 92 (rev val)) || (match rev val with c :: _ => c =? 59 | [] => false end).

  Definition decl_allowed (sps : amap (list (style_policy M))) (prop val : bytes) : bool :=
    let tprop := fold_left (fun acc pre => trim_prefix acc pre) style_prefixes (to_lower prop) in
    let tval := remove_unicode (to_lower val) in
    (* an undecodable escape empties the value: the declaration is dropped (fix F16) *)
    (negb ((match tval with [] => true | _ => false end) && negb (match val with [] => true | _ => false end)) &&
     negb (unterminated val)) &&
    ((match lookup tprop sps with Some spl => existsb (style_accepts tval) spl | None => false end) ||
     (match lookup tprop (globalStyles p) with Some spl => existsb (style_accepts tval) spl | None => false end)).

  (* returns the new value of the style attribute ("" = drop it) *)
  Definition sanitize_styles (elem : bytes) (val : bytes) : bytes :=
    let sps := element_styles elem in
    let v := trim_right_sp val in
    let v := match rev v with
             | [] => v
             | c :: _ => if c =? 59 then v else v ++ [59]
             end in
    match css_decls I v with
    | None => []
    | Some decs =>
      let clean := map (fun d => fst d ++ [58; 32] ++ snd d)
                       (filter (fun d => decl_allowed sps (fst d) (snd d)) decs) in
      join clean [59; 32]
    end.
End Style.
