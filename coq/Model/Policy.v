(* The Policy value of policy.go as an immutable record.  Go maps are association lists
   (every consumer is order-independent, see Proofs/Perm.v); regexps, CSS handlers and the
   user callbacks are values of abstract types interpreted by the functions of [interp],
   so theorems quantify over all of them.  Definitions only. *)
From Coq Require Import List NArith Bool.
Import ListNotations.
From BM Require Import Bytes.
Open Scope N_scope.
Set Implicit Arguments.

(* a parsed URL as far as bluemonday looks at it (net/url is an oracle, see Url.v) *)
Record url := {
  u_scheme : bytes; u_host : bytes; u_opaque : bytes; u_rawquery : bytes; u_fragment : bytes;
  u_string : bytes                                  (* u.String() *)
}.

Section Policy.
  Variable M : Type.        (* value matchers: regexps and CSS handlers *)
  Variable U : Type.        (* custom URL policies  func(u) bool on a parsed URL *)
  Variable R : Type.        (* src rewriters        func(u) on a parsed URL *)

  Definition attr_policy := option M.                    (* attrPolicy{regexp}; None = no regexp *)
  Inductive style_policy :=                              (* stylePolicy: exactly one strategy is set *)
  | SPHandler (h : M) | SPEnum (e : list bytes) | SPRegexp (r : M).

  Definition amap (V : Type) := list (bytes * V).        (* map[string]V *)
  Definition rmap (V : Type) := list (N * M * V).        (* map keyed by regexp pointer, keyed by pointer id *)

  Record policy := {
    addSpaces : bool;
    requireNoFollow : bool;
    requireNoFollowFQ : bool;
    requireNoReferrer : bool;
    requireNoReferrerFQ : bool;
    requireCrossOrigin : bool;
    requireSandbox : option (list bytes);                (* nil map vs set of allowed tokens *)
    addTargetBlank : bool;
    requireParseableURLs : bool;
    allowRelativeURLs : bool;
    allowDataAttributes : bool;
    allowComments : bool;
    elsAndAttrs : amap (amap (list attr_policy));
    elsMatchingAndAttrs : rmap (amap (list attr_policy));
    globalAttrs : amap (list attr_policy);
    elsAndStyles : amap (amap (list style_policy));
    elsMatchingAndStyles : rmap (amap (list style_policy));
    globalStyles : amap (list style_policy);
    allowURLSchemes : amap (list U);
    allowURLSchemeRegexps : list M;
    srcRewriter : option R;
    elsNoAttrs : list bytes;                              (* setOfElementsAllowedWithoutAttrs *)
    elsMatchingNoAttrs : list M;                          (* setOfElementsMatchingAllowedWithoutAttrs *)
    elsSkipContent : list bytes;                          (* setOfElementsToSkipContent *)
    allowUnsafe : bool
  }.

  Fixpoint lookup (V : Type) (k : bytes) (m : amap V) : option V :=
    match m with
    | [] => None
    | (k', v) :: m' => if beqb k' k then Some v else lookup k m'
    end.
  Definition has_key (V : Type) (k : bytes) (m : amap V) : bool :=
    match lookup k m with Some _ => true | None => false end.

  (* m[k] = f(m[k])  (insert when absent, update in place when present) *)
  Fixpoint upsert (V : Type) (k : bytes) (f : option V -> V) (m : amap V) : amap V :=
    match m with
    | [] => [(k, f None)]
    | (k', v) :: m' => if beqb k' k then (k', f (Some v)) :: m' else (k', v) :: upsert k f m'
    end.
  Fixpoint remove_key (V : Type) (k : bytes) (m : amap V) : amap V :=
    match m with
    | [] => []
    | (k', v) :: m' => if beqb k' k then remove_key k m' else (k', v) :: remove_key k m'
    end.

  Fixpoint rlookup (V : Type) (id : N) (m : rmap V) : option V :=
    match m with
    | [] => None
    | (i, _, v) :: m' => if i =? id then Some v else rlookup id m'
    end.
  Fixpoint rupsert (V : Type) (id : N) (r : M) (f : option V -> V) (m : rmap V) : rmap V :=
    match m with
    | [] => [(id, r, f None)]
    | (i, r', v) :: m' => if i =? id then (i, r', f (Some v)) :: m' else (i, r', v) :: rupsert id r f m'
    end.

  (* interpretation of the abstract components, and the oracles for code outside /repo *)
  Record interp := {
    mmatch : M -> bytes -> bool;                 (* regexp.MatchString / handler(value) *)
    upol : U -> url -> bool;                     (* custom URL policy *)
    rewrite : R -> bytes -> bytes;               (* url.Parse(u); f(parsed); parsed.String() *)
    url_parse : bytes -> option url;             (* net/url.Parse (None = error) *)
    css_decls : bytes -> option (list (bytes * bytes))   (* douceur parser.ParseDeclarations: (Property, Value) *)
  }.
End Policy.

Arguments SPHandler {M} h.
Arguments SPEnum {M} e.
Arguments SPRegexp {M} r.
