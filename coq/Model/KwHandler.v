(* css/handlers.go: the keyword handlers.  splitValues and in, and the handler shape
     [if R.MatchString(value) { return true }]*  values := []string{..}; splitVals := splitValues(value); return in(splitVals, values)
   (gen recognises the shape and compares the two helpers with their expected source text).  Definitions only. *)
From Coq Require Import List NArith Bool String.
Import ListNotations.
From BM Require Import Bytes Utf8 Strings Regex.

(* strings.Split(value, ","), each part TrimSpace'd and lower-cased *)
Definition split_values (v : bytes) : list bytes := map (fun x => to_lower (trim_space x)) (split v [44%N]).
(* in(value, arr): every element of value is an element of arr *)
Definition in_list (l kw : list bytes) : bool := forallb (fun x => mem x kw) l.
Definition kw_handler (kw : list bytes) (v : bytes) : bool := in_list (split_values v) kw.

Definition acceptor (acceptors : list (string * re)) (nm : string) (v : bytes) : bool :=
  match find (fun a => String.eqb (fst a) nm) acceptors with
  | Some a => search (snd a) (runes v)
  | None => false
  end.
Definition kw_shape_handler (acceptors : list (string * re)) (h : list string * list bytes) (v : bytes) : bool :=
  existsb (fun nm => acceptor acceptors nm v) (fst h) || kw_handler (snd h) v.
