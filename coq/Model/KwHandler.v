(* css/handlers.go: the keyword handlers.  splitValues and in, and the handler shape
     [if R.MatchString(value) { return true }]*  values := []string{..}; splitVals := splitValues(value); return in(splitVals, values)
   (gen recognises the shape and compares the two helpers with their expected source text).  Definitions only. *)
From Coq Require Import List NArith Bool String.
Import ListNotations.
From BM Require Import Bytes Utf8 Strings Regex RecCheck.

(* strings.Split(value, ","), each part TrimSpace'd and lower-cased *)
Definition split_values (v : bytes) : list bytes := map (fun x => to_lower (trim_space x)) (split v [44%N]).
(* in(value, arr): every element of value is an element of arr *)
Definition in_list (l kw : list bytes) : bool := forallb (fun x => mem x kw) l.
Definition kw_handler (kw : list bytes) (v : bytes) : bool := in_list (split_values v) kw.

Definition acceptor (acceptors : list (string * re)) (nm : string) (v : bytes) : bool :=
  match find (fun a => String.eqb (fst a) nm) acceptors with
  | Some a => search (snd a) (runes v)
  | None => false
  end.
Definition kw_shape_handler (acceptors : list (string * re)) (h : list string * list bytes) (v : bytes) : bool :=
  existsb (fun nm => acceptor acceptors nm v) (fst h) || kw_handler (snd h) v.

(* ---- handlers whose body is a disjunction of conditions on the value ---- *)
Inductive hcond :=
| CRx (nm : string)               (* R.MatchString(value) *)
| CCall (fn : string)             (* OtherHandler(value), defined earlier in the list *)
| CIn (kw : list bytes)           (* in(splitValues(value), kw) *)
| CInSpace (kw : list bytes)      (* in(strings.Split(value, " "), kw) *)
| CExact (kw : list bytes)        (* in([]string{value}, kw) *)
| CRec (sep : N) (maxlen : option nat) (fns : list string)
                                  (* [if len(splitVals) > maxlen { return false }] recursiveCheck(strings.Split(value, sep), fns) *)
| CInSep (sep : N) (kw : list bytes).
                                  (* in(strings.Split(value, sep), kw) for a one-byte separator other than the blank *)

Definition henv := list (string * (bytes -> bool)).
Definition call_env (env : henv) (fn : string) (v : bytes) : bool :=
  match find (fun e => String.eqb (fst e) fn) env with Some e => snd e v | None => false end.
Definition eval_cond (acceptors : list (string * re)) (env : henv) (c : hcond) (v : bytes) : bool :=
  match c with
  | CRx nm => acceptor acceptors nm v
  | CCall fn => call_env env fn v
  | CIn kw => kw_handler kw v
  | CInSpace kw => in_list (split v [32%N]) kw
  | CExact kw => mem v kw
  | CRec sep mx fns =>
    let parts := split v [sep] in
    (match mx with Some k => Nat.leb (List.length parts) k | None => true end) &&
    recursive_check parts (map (call_env env) fns)
  | CInSep sep kw => in_list (split v [sep]) kw
  end.
Definition eval_def (acceptors : list (string * re)) (env : henv) (d : list hcond) (v : bytes) : bool :=
  existsb (fun c => eval_cond acceptors env c v) d.
Fixpoint build_handlers (acceptors : list (string * re)) (defs : list (string * list hcond)) (env : henv) : henv :=
  match defs with
  | [] => env
  | (n, d) :: rest => build_handlers acceptors rest (env ++ [(n, eval_def acceptors env d)])
  end.
(* every call goes to a handler defined earlier: then the model's "not found = false" never applies *)
Fixpoint calls_resolved (defs : list (string * list hcond)) (seen : list string) : bool :=
  match defs with
  | [] => true
  | (n, d) :: rest =>
    forallb (fun c => match c with
                      | CCall fn => existsb (String.eqb fn) seen
                      | CRec _ _ fns => forallb (fun fn => existsb (String.eqb fn) seen) fns
                      | _ => true
                      end) d && calls_resolved rest (n :: seen)
  end.

(* the definitions that can be proved: a recursiveCheck may only use sub-handlers already known to accept nothing but
   "clean" values (no marked character); rxclean lists the acceptor regexps with that property.  Returns the admitted
   definitions and the names of the clean ones. *)
Definition cond_clean (rxclean clset : list string) (c : hcond) : bool :=
  match c with
  | CRx nm => existsb (String.eqb nm) rxclean
  | CCall fn => existsb (String.eqb fn) clset
  | CIn _ | CInSpace _ | CExact _ | CInSep _ _ => true
  | CRec _ _ fns => forallb (fun fn => existsb (String.eqb fn) clset) fns
  end.
Definition cond_admissible (kept clset : list string) (c : hcond) : bool :=
  match c with
  | CCall fn => existsb (String.eqb fn) kept
  | CRec _ _ fns => forallb (fun fn => existsb (String.eqb fn) clset) fns
  | _ => true
  end.
Fixpoint keep_defs (rxclean : list string) (defs : list (string * list hcond)) (kept clset : list string)
  : list (string * list hcond) * list string :=
  match defs with
  | [] => ([], clset)
  | (n, d) :: rest =>
    if forallb (cond_admissible kept clset) d && negb (existsb (String.eqb n) kept) then
      let clset' := if forallb (cond_clean rxclean clset) d then n :: clset else clset in
      let (l, cs) := keep_defs rxclean rest (n :: kept) clset' in ((n, d) :: l, cs)
    else keep_defs rxclean rest kept clset
  end.
