(* css/handlers.go recursiveCheck: can the space-separated components of a shorthand value be cut into
   consecutive groups, each accepted by one of the sub-handlers?  The search is memoised (fix F8):
   failed[k] records that value[k:] cannot be cut.  Definitions only; the state carries a counter of
   sub-handler calls. *)
From Coq Require Import List NArith Bool Arith.
Import ListNotations.
From BM Require Import Bytes Strings.
Local Open Scope nat_scope.

Record rstate := { failed : list nat; calls : nat }.
Definition is_failed (k : nat) (st : rstate) : bool := existsb (Nat.eqb k) (failed st).
Definition tick (st : rstate) : rstate := {| failed := failed st; calls := S (calls st) |}.
Definition mark (st : rstate) (k : nat) : rstate := {| failed := k :: failed st; calls := calls st |}.

Section RecCheck.
  Variable value : list bytes.
  Variable funcs : list (bytes -> bool).

  (* strings.Join(value[start:i+1], " ") *)
  Definition tempval (start i : nat) : bytes := join (firstn (i + 1 - start) (skipn start value)) [32%N].

  (* the inner loop over the sub-handlers, for one end position i; (true, _) = "return true" *)
  Fixpoint loop_j (rec : nat -> rstate -> bool * rstate) (start i : nat) (js : list (bytes -> bool)) (st : rstate) : bool * rstate :=
    match js with
    | [] => (false, st)
    | j :: js' =>
      let st1 := tick st in
      if negb (j (tempval start i)) then loop_j rec start i js' st1
      else if Nat.eqb (i + 1) (length value) then (true, st1)
      else if is_failed (i + 1) st1 then loop_j rec start i js' st1
      else let (r, st2) := rec (i + 1) st1 in
           if r then (true, st2) else loop_j rec start i js' (mark st2 (i + 1))
    end.

  (* the outer loop over the end positions *)
  Fixpoint loop_i (rec : nat -> rstate -> bool * rstate) (start : nat) (is : list nat) (st : rstate) : bool * rstate :=
    match is with
    | [] => (false, st)
    | i :: is' =>
      let (r, st1) := loop_j rec start i funcs st in
      if r then (true, st1) else loop_i rec start is' st1
    end.

  (* check(start), the recursion depth bounded by fuel *)
  Fixpoint check (fuel : nat) (start : nat) (st : rstate) : bool * rstate :=
    match fuel with
    | O => (false, st)
    | S f => loop_i (check f) start (seq start (length value - start)) st
    end.

  Definition recursive_check_run : bool * rstate := check (S (length value)) 0 {| failed := []; calls := 0 |}.
  Definition recursive_check : bool := fst recursive_check_run.
End RecCheck.

(* for the correspondence driver: sub-handlers given as finite sets of accepted strings *)
Definition set_func (l : list bytes) : bytes -> bool := fun s => mem s l.
Definition rc_sets (value : list bytes) (sets : list (list bytes)) : bool * nat :=
  let r := recursive_check_run value (map set_func sets) in (fst r, calls (snd r)).
