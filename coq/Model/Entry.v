(* The four entry points of sanitize.go over abstract readers and writers. Definitions only. *)
From Coq Require Import List NArith Bool.
Import ListNotations.
From BM Require Import Bytes Utf8 Strings Tokenizer Policy Loop.
Open Scope N_scope.
Set Implicit Arguments.

(* a source: the bytes it delivers before it ends, and how it ends (true = io.EOF,
   false = some other error).  How the bytes are split into Read calls is immaterial to the
   model: the tokenizer of x/net/html buffers the concatenation (validated by the
   chunking runs of the correspondence). *)
Record source := { src_data : bytes; src_eof : bool }.

(* a destination: does the k-th Write/WriteString call (k = 0,1,..) succeed *)
Definition sink := nat -> bool.

Inductive err := ErrNone | ErrRead | ErrWrite | ErrPanic.

Section Entry.
  Variables M U R : Type.
  Variable I : interp M U R.
  Variable p : policy M U R.

  (* offer the chunks to the sink in order: (accepted chunks, number of write calls made,
     whether a checked write failed) *)
  Fixpoint offer (w : sink) (k : nat) (cs : list chunk) : list bytes * nat * bool :=
    match cs with
    | [] => ([], k, false)
    | c :: cs' =>
      if w k then let '(acc, k', failed) := offer w (S k) cs' in (data c :: acc, k', failed)
      else if checked c then ([], S k, true)
      else offer w (S k) cs'            (* the error of this write is not looked at *)
    end.

  (* SanitizeReaderToWriter: (bytes accepted by the sink, write calls made, returned error) *)
  Definition sanitize_rw (r : source) (w : sink) : list bytes * nat * err :=
    let (cs, panicked) := run I p (tokenize (src_data r)) in
    let '(acc, k, failed) := offer w O cs in
    (acc, k, if failed then ErrWrite else if panicked then ErrPanic else if src_eof r then ErrNone else ErrRead).

  Definition ok_sink : sink := fun _ => true.

  (* sanitizeWithBuff: a bytes.Buffer never fails; any error yields an empty buffer *)
  Definition sanitize_with_buff (r : source) : bytes :=
    let '(acc, _, e) := sanitize_rw r ok_sink in
    match e with ErrNone => concat acc | _ => [] end.

  Definition is_blank (s : bytes) : bool := match trim_space s with [] => true | _ => false end.

  Definition Sanitize (s : bytes) : bytes :=
    if is_blank s then s else sanitize_with_buff {| src_data := s; src_eof := true |}.
  Definition SanitizeBytes (s : bytes) : bytes :=
    if is_blank s then s else sanitize_with_buff {| src_data := s; src_eof := true |}.
  Definition SanitizeReader (r : source) : bytes := sanitize_with_buff r.
  Definition SanitizeReaderToWriter := sanitize_rw.
End Entry.
