(* sanitizeAttrs, allowNoAttrs, matchRegex, linkable, isDataAttribute (sanitize.go),
   transcribed pass by pass.  Definitions only. *)
From Coq Require Import List NArith Bool.
Import ListNotations.
From BM Require Import Bytes Utf8 Strings Tokenizer Policy Url Style GenTables.
Open Scope N_scope.
Set Implicit Arguments.

(* dataAttribute = ^data-.+ ; dataAttributeXMLPrefix = ^xml.+ ; dataAttributeInvalidChars = [A-Z;]+
   ('.' does not match a newline) *)
Definition starts_with_then_any (pre s : bytes) : bool :=
  has_prefix s pre &&
  match decode1 (skipn (length pre) s) with Some (r, _) => negb (r =? 10) | None => false end.
Definition is_data_attribute (k : bytes) : bool :=
  if negb (starts_with_then_any (B"data-") k) then false else
  let rest := trim_prefix k (B"data-") in
  if starts_with_then_any (B"xml") rest then false
  else negb (existsb (fun c => is_upper c || (c =? 59)) rest).

(* hasRelToken: ASCII-white-space separated tokens compared with strings.EqualFold *)
Definition is_ascii_ws (c : N) : bool := (c =? 32) || (c =? 9) || (c =? 10) || (c =? 12) || (c =? 13).
Fixpoint ascii_fields_go (s cur : bytes) : list bytes :=
  match s with
  | [] => match cur with [] => [] | _ => [rev cur] end
  | c :: s' => if is_ascii_ws c then (match cur with [] => ascii_fields_go s' [] | _ => rev cur :: ascii_fields_go s' [] end)
               else ascii_fields_go s' (c :: cur)
  end.
Definition ascii_fields (s : bytes) : list bytes := ascii_fields_go s [].
Definition has_rel_token (v tok : bytes) : bool := existsb (fun t => equal_fold t tok) (ascii_fields v).

Definition linkable (elem : bytes) : bool := mem elem linkable_elements.

Definition akey (a : attr) := fst a.
Definition aval (a : attr) := snd a.
Definition key_is (s : bytes) (a : attr) : bool := beqb (akey a) s.

Section Attrs.
  Variables M U R : Type.
  Variable I : interp M U R.
  Variable p : policy M U R.

  Definition allow_no_attrs (elem : bytes) : bool :=
    mem elem (elsNoAttrs p) || existsb (fun r => mmatch I r elem) (elsMatchingNoAttrs p).

  (* matchRegex: merged attribute policies of all matching element patterns *)
  Definition matching_entries (elem : bytes) := filter (fun e => mmatch I (snd (fst e)) elem) (elsMatchingAndAttrs p).
  Definition match_regex (elem : bytes) : amap (list (attr_policy M)) * bool :=
    let ms := matching_entries elem in
    (merge_maps (map snd ms), match ms with [] => false | _ => true end).

  Definition has_style_policies (elem : bytes) : bool :=
    (match globalStyles p with [] => false | _ => true end) ||
    (match lookup elem (elsAndStyles p) with Some (_ :: _) => true | _ => false end) ||
    existsb (fun e => mmatch I (snd (fst e)) elem && match snd e with [] => false | _ => true end) (elsMatchingAndStyles p).

  Definition rule_accepts (v : bytes) (ap : attr_policy M) : bool :=
    match ap with Some r => mmatch I r v | None => true end.
  Definition rules_accept (rules : amap (list (attr_policy M))) (a : attr) : bool :=
    match lookup (akey a) rules with Some apl => existsb (rule_accepts (aval a)) apl | None => false end.

  (* attrsLoop *)
  Definition filter_attr (elem : bytes) (aps : amap (list (attr_policy M))) (hsp : bool) (a : attr) : list attr :=
    if allowDataAttributes p && is_data_attribute (akey a) then [a]
    else if key_is (B"style") a && hsp then
      match sanitize_styles I p elem (aval a) with
      | [] => []
      | v => [(akey a, v)]
      end
    else if rules_accept aps a then [a]
    else if rules_accept (globalAttrs p) a then [a]
    else [].

  (* the requireParseableURLs pass *)
  Definition url_attr_of (elem : bytes) : option bytes :=
    if mem elem href_elements then Some (B"href")
    else if mem elem cite_elements then Some (B"cite")
    else if mem elem src_elements then Some (B"src")
    else None.
  Definition url_pass_attr (elem : bytes) (a : attr) : list attr :=
    match url_attr_of elem with
    | None => [a]
    | Some k =>
      if key_is k a then
        match valid_url I p (aval a) with
        | Some u =>
          let u' := if beqb k (B"src") then match srcRewriter p with Some f => rewrite I f u | None => u end else u in
          [(akey a, u')]
        | None => []
        end
      else [a]
    end.

  (* link hardening *)
  Definition href_external (attrs : list attr) : bool * bool :=      (* hrefFound, externalLink *)
    fold_left (fun st a =>
      if key_is (B"href") a then
        (true, snd st || match url_parse I (aval a) with Some u => match u_host u with [] => false | _ => true end | None => false end)
      else st) attrs (false, false).

  Definition add_word (cond : bool) (w v : bytes) : bytes :=
    if cond && negb (has_rel_token v w) then v ++ [32] ++ w else v.

  (* first loop: returns (tmpAttrs, noFollowFound, noReferrerFound, targetBlankFound); the three
     flags are threaded through the iteration *)
  Fixpoint link_pass1 (is_a addNoFollow addNoReferrer addTargetBlank : bool) (attrs : list attr) (nf nr tb : bool)
    : list attr * bool * bool * bool :=
    match attrs with
    | [] => ([], nf, nr, tb)
    | a :: rest =>
      if key_is (B"rel") a && (addNoFollow || addNoReferrer) then
        let v := add_word addNoReferrer (B"noreferrer") (add_word addNoFollow (B"nofollow") (aval a)) in
        let '(r, nf', nr', tb') := link_pass1 is_a addNoFollow addNoReferrer addTargetBlank rest addNoFollow addNoReferrer tb in
        ((akey a, v) :: r, nf', nr', tb')
      else if is_a && key_is (B"target") a then
        let tb1 := tb || beqb (aval a) (B"_blank") in
        if addTargetBlank && negb tb1 then
          let '(r, nf', nr', tb') := link_pass1 is_a addNoFollow addNoReferrer addTargetBlank rest nf nr true in
          ((akey a, B"_blank") :: r, nf', nr', tb')
        else
          let '(r, nf', nr', tb') := link_pass1 is_a addNoFollow addNoReferrer addTargetBlank rest nf nr tb1 in
          (a :: r, nf', nr', tb')
      else
        let '(r, nf', nr', tb') := link_pass1 is_a addNoFollow addNoReferrer addTargetBlank rest nf nr tb in
        (a :: r, nf', nr', tb')
    end.

  Definition noopener_pass (attrs : list attr) : list attr :=
    let has_rel := existsb (key_is (B"rel")) attrs in
    if has_rel then
      map (fun a => if key_is (B"rel") a
                    then (if has_rel_token (aval a) (B"noopener") then a else (akey a, aval a ++ B" noopener"))
                    else a) attrs
    else attrs ++ [(B"rel", B"noopener")].

  Definition link_pass (elem : bytes) (attrs : list attr) : list attr :=
    if (requireNoFollow p || requireNoFollowFQ p || requireNoReferrer p || requireNoReferrerFQ p || addTargetBlank p)
       && (match attrs with [] => false | _ => true end) && mem elem link_rel_elements then
      let '(hrefFound, ext) := href_external attrs in
      if hrefFound then
        let is_a := beqb elem (B"a") in
        let addNoFollow := requireNoFollow p || (ext && requireNoFollowFQ p) in
        let addNoReferrer := requireNoReferrer p || (ext && requireNoReferrerFQ p) in
        let addTB := ext && addTargetBlank p in
        let '(tmp, nf, nr, tb) := link_pass1 is_a addNoFollow addNoReferrer addTB attrs false false false in
        let attrs1 := if nf || nr || tb then tmp else attrs in
        let attrs2 :=
          if (addNoFollow && negb nf) || (addNoReferrer && negb nr) then
            let v1 := if addNoFollow then B"nofollow" else [] in
            let v2 := if addNoReferrer then (match v1 with [] => [] | _ => v1 ++ [32] end) ++ B"noreferrer" else v1 in
            attrs1 ++ [(B"rel", v2)]
          else attrs1 in
        let '(attrs3, tb') :=
          if is_a && addTB && negb tb then (attrs2 ++ [(B"target", B"_blank")], true) else (attrs2, tb) in
        if tb' then noopener_pass attrs3 else attrs3
      else attrs
    else attrs.

  (* crossorigin *)
  Definition crossorigin_pass (elem : bytes) (attrs : list attr) : list attr :=
    if requireCrossOrigin p && (match attrs with [] => false | _ => true end) && mem elem crossorigin_elements then
      if existsb (key_is (B"crossorigin")) attrs
      then map (fun a => if key_is (B"crossorigin") a then (akey a, B"anonymous") else a) attrs
      else attrs ++ [(B"crossorigin", B"anonymous")]
    else attrs.

  (* sandbox *)
  Fixpoint dedup_keep (allowed seen : list bytes) (ws : list bytes) : list bytes :=
    match ws with
    | [] => []
    | w :: ws' => if mem w allowed && negb (mem w seen) then w :: dedup_keep allowed (w :: seen) ws'
                  else dedup_keep allowed seen ws'
    end.
  Definition sandbox_pass (elem : bytes) (attrs : list attr) : list attr :=
    match requireSandbox p with
    | Some allowed =>
      if beqb elem (B"iframe") then
        if existsb (key_is (B"sandbox")) attrs
        then map (fun a => if key_is (B"sandbox") a
                           then (akey a, join (dedup_keep allowed [] (fields (aval a))) [32]) else a) attrs
        else attrs ++ [(B"sandbox", [])]
      else attrs
    | None => attrs
    end.

  Definition sanitize_attrs (elem : bytes) (attrs : list attr) (aps : amap (list (attr_policy M))) : list attr :=
    match attrs with
    | [] => []
    | _ =>
      let hsp := has_style_policies elem in
      let clean := flat_map (filter_attr elem aps hsp) attrs in
      match clean with
      | [] => []
      | _ =>
        let clean1 :=
          if linkable elem then
            let c := if requireParseableURLs p then flat_map (url_pass_attr elem) clean else clean in
            link_pass elem c
          else clean in
        sandbox_pass elem (crossorigin_pass elem clean1)
      end
    end.
End Attrs.
