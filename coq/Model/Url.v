(* validURL (sanitize.go).  net/url is an oracle: [url_parse] of the interpretation. *)
From Coq Require Import List NArith Bool.
Import ListNotations.
From BM Require Import Bytes Strings Policy.
Open Scope N_scope.
Set Implicit Arguments.

(* dataURIbase64Prefix.FindString: ^data:[^,]*;base64,  -- the class cannot cross a comma, so
   the match, if any, is the input up to and including its first comma *)
Fixpoint upto_comma (s : bytes) : option (bytes * bytes) :=   (* (before incl. comma, after) *)
  match s with
  | [] => None
  | c :: s' => if c =? 44 then Some ([c], s')
               else match upto_comma s' with Some (a, r) => Some (c :: a, r) | None => None end
  end.
Definition data_b64_prefix (s : bytes) : option (bytes * bytes) :=
  match upto_comma s with
  | Some (pre, rest) =>
    if has_prefix pre (B"data:") && has_suffix pre (B";base64,") && Nat.leb 13 (length pre)
    then Some (pre, rest) else None
  | None => None
  end.

Section Url.
  Variables M U R : Type.
  Variable I : interp M U R.
  Variable p : policy M U R.

  Definition valid_url (rawurl : bytes) : option bytes :=
    if requireParseableURLs p then
      let raw := trim_space rawurl in
      let has_ws := contains raw [32] || contains raw [9] || contains raw [10] in
      if has_ws && negb (has_prefix raw (B"data:")) then None else
      let raw' :=
        if has_ws then
          match data_b64_prefix raw with
          | Some (pre, rest) => pre ++ replace_all (replace_all rest [13] []) [10] []
          | None => raw
          end
        else raw in
      match url_parse I raw' with
      | None => None
      | Some u =>
        match u_scheme u with
        | _ :: _ =>
          match lookup (u_scheme u) (allowURLSchemes p) with
          | None => if existsb (fun r => mmatch I r (u_scheme u)) (allowURLSchemeRegexps p)
                    then Some (u_string u) else None
          | Some [] => Some (u_string u)
          | Some pols => if existsb (fun f => upol I f u) pols then Some (u_string u) else None
          end
        | [] =>
          if allowRelativeURLs p then
            match u_string u with [] => None | s => Some s end
          else None
        end
      end
    else Some rawurl.
End Url.
