(* Hand models of the one closure in helpers.go (AllowDataURIImages' URL policy). *)
From Coq Require Import List NArith Bool.
Import ListNotations.
From BM Require Import Bytes Strings Policy.
Open Scope N_scope.

(* dataURIImagePrefix = ^image/(gif|jpeg|png|svg\+xml|webp);base64, *)
Definition data_image_prefixes : list bytes :=
  map (fun t => B"image/" ++ t ++ B";base64,") [B"gif"; B"jpeg"; B"png"; B"svg+xml"; B"webp"].
Definition match_image_prefix (s : bytes) : option bytes :=      (* the remainder after the prefix *)
  fold_left (fun acc pre => match acc with Some _ => acc | None => if has_prefix s pre then Some (skipn (length pre) s) else None end)
            data_image_prefixes None.

(* base64.StdEncoding.DecodeString succeeds: CR and LF are ignored, groups of four alphabet
   characters, padding only in the final group ('xx==' or 'xxx='), no trailing garbage;
   StdEncoding is strict about padding but not about the unused trailing bits *)
Definition is_b64 (c : N) : bool := is_letter c || is_digit c || (c =? 43) || (c =? 47).
Fixpoint b64_ok_fuel (fuel : nat) (s : bytes) : bool :=
  match fuel with
  | O => false
  | S f =>
    match s with
    | [] => true
    | a :: b :: c :: d :: rest =>
      if is_b64 a && is_b64 b then
        if is_b64 c then
          if is_b64 d then b64_ok_fuel f rest
          else (d =? 61) && match rest with [] => true | _ => false end
        else (c =? 61) && (d =? 61) && match rest with [] => true | _ => false end
      else false
    | _ => false
    end
  end.
Definition b64_valid (s : bytes) : bool :=
  let s' := filter (fun c => negb ((c =? 13) || (c =? 10))) s in
  b64_ok_fuel (S (length s')) s'.

Definition data_uri_image_policy (u : url) : bool :=
  match u_rawquery u, u_fragment u with
  | [], [] => match match_image_prefix (u_opaque u) with
              | Some rest => b64_valid rest
              | None => false
              end
  | _, _ => false
  end.
