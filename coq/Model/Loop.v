(* The token loop of sanitize() (sanitize.go), with every WriteString as an explicit chunk.
   Definitions only. *)
From Coq Require Import List NArith ZArith Bool.
Import ListNotations.
From BM Require Import Bytes Utf8 Strings Escape Tokenizer Policy Url Style Attrs GenTables.
Open Scope N_scope.
Set Implicit Arguments.

(* normaliseElementName: ToLower(QuoteToASCII(s)) with one leading and one trailing quote
   trimmed (the quoted body never begins or ends with a bare quote character of its own
   that the trims could remove: a quote in the input is written as backslash-quote, and
   TrimPrefix/TrimSuffix remove exactly the delimiters) *)
Definition normalise (n : bytes) : bytes :=
  let q := lower_ascii ([34] ++ quote_to_ascii_body n ++ [34]) in
  trim_suffix (trim_prefix q [34]) [34].

Definition script_name : bytes := B"script".
Definition style_name : bytes := B"style".
Definition is_void (n : bytes) : bool := mem n void_elements.
Definition is_script_or_style (n : bytes) : bool :=
  let m := normalise n in beqb m script_name || beqb m style_name.

Record lstate := {
  skip : bool;                 (* skipElementContent *)
  skipCount : Z;               (* skippingElementsCount (int64; may go negative) *)
  skipClosing : bool;          (* skipClosingTag *)
  stack : list (bytes * nat);  (* closingTagToSkipStack paired with keptSameNameStack, top first *)
  recent : bytes               (* mostRecentlyStartedToken *)
}.
Definition init_state : lstate :=
  {| skip := false; skipCount := 0%Z; skipClosing := false; stack := []; recent := [] |}.

(* what the loop emits, one item per WriteString call *)
Inductive item :=
| ISpace                       (* the blank of AddSpaceWhenStrippingTag *)
| ITag (t : token)             (* a kept start / end / self-closing tag: token.String() *)
| IText (d : bytes)            (* a text token, written escaped *)
| IRawText (d : bytes)         (* script / style text under AllowUnsafe: token.Data as is *)
| IComment (d : bytes).        (* a kept comment *)
Definition render_item (it : item) : bytes :=
  match it with
  | ISpace => [32]
  | ITag t => render1 t
  | IText d => escape d
  | IRawText d => d
  | IComment d => render1 (TComment d)
  end.

(* a write: checked = the code inspects the error of this WriteString (all of them do) *)
Record chunk := { checked : bool; data : bytes }.
Definition wr (d : bytes) : chunk := {| checked := true; data := d |}.
Definition chunk_of (it : item) : chunk := wr (render_item it).

Inductive step_out :=
| Ok (st : lstate) (out : list item)
| Panic.                        (* index out of range on closingTagToSkipStack *)

Section Loop.
  Variables M U R : Type.
  Variable I : interp M U R.
  Variable p : policy M U R.

  Definition space_if_adding : list item := if addSpaces p then [ISpace] else [].

  (* the element's attribute policies: explicit entry, else merged pattern entries *)
  Definition element_policies (n : bytes) : option (amap (list (attr_policy M))) :=
    match lookup n (elsAndAttrs p) with
    | Some aps => Some aps
    | None => let (aa, matched) := match_regex I p n in if matched then Some aa else None
    end.

  Definition clean_attrs (n : bytes) (a : list attr) (aps : amap (list (attr_policy M))) : list attr :=
    match a with [] => [] | _ => sanitize_attrs I p n a aps end.

  Definition set_recent (st : lstate) (r : bytes) : lstate :=
    {| skip := skip st; skipCount := skipCount st; skipClosing := skipClosing st; stack := stack st; recent := r |}.

  (* a start tag that is kept: counted when it is nested in a dropped element of the same name *)
  Definition kept_start (st : lstate) (n : bytes) (c : item) : step_out :=
    let out := if skip st then [] else [c] in
    if skipClosing st && negb (is_void n) then
      match stack st with
      | [] => Panic
      | (top, k) :: rest =>
        if beqb top n
        then Ok {| skip := skip st; skipCount := skipCount st; skipClosing := skipClosing st;
                   stack := (top, S k) :: rest; recent := recent st |} out
        else Ok st out
      end
    else Ok st out.

  (* the part of the EndTagToken case after the skip-stack test *)
  Definition end_tail (st : lstate) (n : bytes) : step_out :=
    match lookup n (elsAndAttrs p) with
    | Some _ => Ok st (if skip st then [] else [ITag (TEnd n)])
    | None =>
      let matched := existsb (fun e => mmatch I (snd (fst e)) n) (elsMatchingAndAttrs p) in
      let '(cnt, skip2) :=
        if mem n (elsSkipContent p) && negb matched
        then ((skipCount st - 1)%Z, if Z.eqb (skipCount st - 1) 0 then false else skip st)
        else (skipCount st, skip st) in
      let st' := {| skip := skip2; skipCount := cnt; skipClosing := skipClosing st; stack := stack st; recent := recent st |} in
      if matched then Ok st' (if skip2 then [] else [ITag (TEnd n)])
      else Ok st' space_if_adding
    end.

  Definition step (st : lstate) (t : token) : step_out :=
    match t with
    | TDoctype _ => Ok st []
    | TComment d =>
      if allowComments p && negb (skip st) then Ok st [IComment d] else Ok st []
    | TStart n a =>
      let st := set_recent st (normalise n) in
      if is_script_or_style n && negb (allowUnsafe p) then Ok st [] else
      match element_policies n with
      | None =>
        let st' := if mem n (elsSkipContent p) && negb (is_void n)
                   then {| skip := true; skipCount := skipCount st + 1; skipClosing := skipClosing st;
                           stack := stack st; recent := recent st |}
                   else st in
        Ok st' space_if_adding
      | Some aps =>
        let a' := clean_attrs n a aps in
        if (match a' with [] => true | _ => false end) && negb (allow_no_attrs I p n) then
          Ok (if is_void n then st
              else {| skip := skip st; skipCount := skipCount st; skipClosing := true; stack := (n, O) :: stack st; recent := recent st |})
             space_if_adding
        else kept_start st n (ITag (TStart n a'))
      end
    | TEnd n =>
      let st := if beqb (recent st) (normalise n) then set_recent st [] else st in
      if is_script_or_style n && negb (allowUnsafe p) then Ok st [] else
      if skipClosing st then
        match stack st with
        | [] => Panic
        | (top, k) :: rest =>
          if beqb top n then
            match k with
            | S k' =>
              (* the end tag of a kept element nested in the dropped element of the same name *)
              end_tail {| skip := skip st; skipCount := skipCount st; skipClosing := skipClosing st;
                          stack := (top, k') :: rest; recent := recent st |} n
            | O =>
              Ok {| skip := skip st; skipCount := skipCount st;
                    skipClosing := match rest with [] => false | _ => true end;
                    stack := rest; recent := recent st |} space_if_adding
            end
          else end_tail st n
        end
      else end_tail st n
    | TSelf n a =>
      let st := set_recent st (normalise n) in
      if is_script_or_style n && negb (allowUnsafe p) then Ok st [] else
      match element_policies n with
      | None => Ok st space_if_adding
      | Some aps =>
        let a' := clean_attrs n a aps in
        match a' with
        | [] =>
          if negb (allow_no_attrs I p n) then Ok st space_if_adding
          else Ok st (if skip st then [] else [ITag (TSelf n a')])
        | _ => Ok st (if skip st then [] else [ITag (TSelf n a')])
        end
      end
    | TText d =>
      if skip st then Ok st [] else
      if beqb (recent st) script_name || beqb (recent st) style_name then
        Ok st (if allowUnsafe p then [IRawText d] else [])
      else Ok st [IText d]
    end.

  (* all items of a fault-free run; the flag tells whether the run ended in a panic *)
  Fixpoint run_from (st : lstate) (ts : list token) : list item * bool :=
    match ts with
    | [] => ([], false)
    | t :: ts' =>
      match step st t with
      | Panic => ([], true)
      | Ok st' out => let (rest, pn) := run_from st' ts' in (out ++ rest, pn)
      end
    end.
  Definition run_items (ts : list token) : list item * bool := run_from init_state ts.
  Definition emitted (ts : list token) : list item := fst (run_items ts).
  Definition run (ts : list token) : list chunk * bool :=
    let (its, pn) := run_items ts in (map chunk_of its, pn).

  Definition sanitize_tokens (ts : list token) : bytes := concat (map render_item (emitted ts)).
  Definition sanitize_bytes (s : bytes) : bytes := sanitize_tokens (tokenize s).
End Loop.
