(* The exported builder API of policy.go as operations on the immutable policy value.
   One [op] is one complete builder chain, e.g.
     AllowAttrs(names...).Matching(r).AllowNoAttrs().OnElements(els...)
   (re-binding a half-built builder value is the same as repeating the op).
   Definitions only. *)
From Coq Require Import List NArith Bool.
Import ListNotations.
From BM Require Import Bytes Strings Policy GenTables.
Open Scope N_scope.
Set Implicit Arguments.

Section Builder.
  Variables M U R : Type.
  Variable default_handler : bytes -> M.       (* css.GetDefaultHandler(property) *)

  Inductive scope :=
  | OnElements (els : list bytes)
  | OnElementsMatching (id : N) (r : M)
  | Globally.

  Inductive op :=
  | OAllowAttrs (names : list bytes) (re : option M) (noattrs : bool) (sc : scope)
      (* AllowAttrs(names)[.Matching(re)][.AllowNoAttrs()].<scope>   /   AllowNoAttrs().<scope> when names = [] *)
  | OAllowStyles (props : list bytes) (handler : option M) (enum : list bytes) (re : option M) (sc : scope)
  | OAllowElements (names : list bytes)
  | OAllowElementsMatching (id : N) (r : M)
  | OAllowDataAttributes
  | OAllowComments
  | OAllowURLSchemes (schemes : list bytes)
  | OAllowURLSchemeWithCustomPolicy (scheme : bytes) (f : U)
  | OAllowURLSchemesMatching (r : M)
  | ORewriteSrc (f : R)
  | ORequireNoFollowOnLinks (b : bool)
  | ORequireNoFollowOnFullyQualifiedLinks (b : bool)
  | ORequireNoReferrerOnLinks (b : bool)
  | ORequireNoReferrerOnFullyQualifiedLinks (b : bool)
  | ORequireCrossOriginAnonymous (b : bool)
  | OAddTargetBlankToFullyQualifiedLinks (b : bool)
  | ORequireParseableURLs (b : bool)
  | OAllowRelativeURLs (b : bool)
  | ORequireSandboxOnIFrame (vals : list N)
  | OAddSpaceWhenStrippingTag (b : bool)
  | OSkipElementsContent (names : list bytes)
  | OAllowElementsContent (names : list bytes)
  | OAllowUnsafe (b : bool).

  Notation pol := (policy M U R).

  Definition new_policy : pol :=
    {| addSpaces := false; requireNoFollow := false; requireNoFollowFQ := false; requireNoReferrer := false;
       requireNoReferrerFQ := false; requireCrossOrigin := false; requireSandbox := None; addTargetBlank := false;
       requireParseableURLs := false; allowRelativeURLs := false; allowDataAttributes := false; allowComments := false;
       elsAndAttrs := []; elsMatchingAndAttrs := []; globalAttrs := [];
       elsAndStyles := []; elsMatchingAndStyles := []; globalStyles := [];
       allowURLSchemes := []; allowURLSchemeRegexps := []; srcRewriter := None;
       elsNoAttrs := default_els_no_attrs; elsMatchingNoAttrs := []; elsSkipContent := default_skip_content;
       allowUnsafe := false |}.

  (* record update helpers (one per field that the builder writes) *)
  Definition set_elsAndAttrs (p : pol) v : pol :=
    {| addSpaces := addSpaces p; requireNoFollow := requireNoFollow p; requireNoFollowFQ := requireNoFollowFQ p;
       requireNoReferrer := requireNoReferrer p; requireNoReferrerFQ := requireNoReferrerFQ p;
       requireCrossOrigin := requireCrossOrigin p; requireSandbox := requireSandbox p; addTargetBlank := addTargetBlank p;
       requireParseableURLs := requireParseableURLs p; allowRelativeURLs := allowRelativeURLs p;
       allowDataAttributes := allowDataAttributes p; allowComments := allowComments p;
       elsAndAttrs := v; elsMatchingAndAttrs := elsMatchingAndAttrs p; globalAttrs := globalAttrs p;
       elsAndStyles := elsAndStyles p; elsMatchingAndStyles := elsMatchingAndStyles p; globalStyles := globalStyles p;
       allowURLSchemes := allowURLSchemes p; allowURLSchemeRegexps := allowURLSchemeRegexps p; srcRewriter := srcRewriter p;
       elsNoAttrs := elsNoAttrs p; elsMatchingNoAttrs := elsMatchingNoAttrs p; elsSkipContent := elsSkipContent p;
       allowUnsafe := allowUnsafe p |}.
  Definition set_elsMatchingAndAttrs (p : pol) v : pol :=
    {| addSpaces := addSpaces p; requireNoFollow := requireNoFollow p; requireNoFollowFQ := requireNoFollowFQ p;
       requireNoReferrer := requireNoReferrer p; requireNoReferrerFQ := requireNoReferrerFQ p;
       requireCrossOrigin := requireCrossOrigin p; requireSandbox := requireSandbox p; addTargetBlank := addTargetBlank p;
       requireParseableURLs := requireParseableURLs p; allowRelativeURLs := allowRelativeURLs p;
       allowDataAttributes := allowDataAttributes p; allowComments := allowComments p;
       elsAndAttrs := elsAndAttrs p; elsMatchingAndAttrs := v; globalAttrs := globalAttrs p;
       elsAndStyles := elsAndStyles p; elsMatchingAndStyles := elsMatchingAndStyles p; globalStyles := globalStyles p;
       allowURLSchemes := allowURLSchemes p; allowURLSchemeRegexps := allowURLSchemeRegexps p; srcRewriter := srcRewriter p;
       elsNoAttrs := elsNoAttrs p; elsMatchingNoAttrs := elsMatchingNoAttrs p; elsSkipContent := elsSkipContent p;
       allowUnsafe := allowUnsafe p |}.
  Definition set_globalAttrs (p : pol) v : pol :=
    {| addSpaces := addSpaces p; requireNoFollow := requireNoFollow p; requireNoFollowFQ := requireNoFollowFQ p;
       requireNoReferrer := requireNoReferrer p; requireNoReferrerFQ := requireNoReferrerFQ p;
       requireCrossOrigin := requireCrossOrigin p; requireSandbox := requireSandbox p; addTargetBlank := addTargetBlank p;
       requireParseableURLs := requireParseableURLs p; allowRelativeURLs := allowRelativeURLs p;
       allowDataAttributes := allowDataAttributes p; allowComments := allowComments p;
       elsAndAttrs := elsAndAttrs p; elsMatchingAndAttrs := elsMatchingAndAttrs p; globalAttrs := v;
       elsAndStyles := elsAndStyles p; elsMatchingAndStyles := elsMatchingAndStyles p; globalStyles := globalStyles p;
       allowURLSchemes := allowURLSchemes p; allowURLSchemeRegexps := allowURLSchemeRegexps p; srcRewriter := srcRewriter p;
       elsNoAttrs := elsNoAttrs p; elsMatchingNoAttrs := elsMatchingNoAttrs p; elsSkipContent := elsSkipContent p;
       allowUnsafe := allowUnsafe p |}.
  Definition set_styles (p : pol) es ems gs : pol :=
    {| addSpaces := addSpaces p; requireNoFollow := requireNoFollow p; requireNoFollowFQ := requireNoFollowFQ p;
       requireNoReferrer := requireNoReferrer p; requireNoReferrerFQ := requireNoReferrerFQ p;
       requireCrossOrigin := requireCrossOrigin p; requireSandbox := requireSandbox p; addTargetBlank := addTargetBlank p;
       requireParseableURLs := requireParseableURLs p; allowRelativeURLs := allowRelativeURLs p;
       allowDataAttributes := allowDataAttributes p; allowComments := allowComments p;
       elsAndAttrs := elsAndAttrs p; elsMatchingAndAttrs := elsMatchingAndAttrs p; globalAttrs := globalAttrs p;
       elsAndStyles := es; elsMatchingAndStyles := ems; globalStyles := gs;
       allowURLSchemes := allowURLSchemes p; allowURLSchemeRegexps := allowURLSchemeRegexps p; srcRewriter := srcRewriter p;
       elsNoAttrs := elsNoAttrs p; elsMatchingNoAttrs := elsMatchingNoAttrs p; elsSkipContent := elsSkipContent p;
       allowUnsafe := allowUnsafe p |}.
  Definition set_noattrs (p : pol) na mna : pol :=
    {| addSpaces := addSpaces p; requireNoFollow := requireNoFollow p; requireNoFollowFQ := requireNoFollowFQ p;
       requireNoReferrer := requireNoReferrer p; requireNoReferrerFQ := requireNoReferrerFQ p;
       requireCrossOrigin := requireCrossOrigin p; requireSandbox := requireSandbox p; addTargetBlank := addTargetBlank p;
       requireParseableURLs := requireParseableURLs p; allowRelativeURLs := allowRelativeURLs p;
       allowDataAttributes := allowDataAttributes p; allowComments := allowComments p;
       elsAndAttrs := elsAndAttrs p; elsMatchingAndAttrs := elsMatchingAndAttrs p; globalAttrs := globalAttrs p;
       elsAndStyles := elsAndStyles p; elsMatchingAndStyles := elsMatchingAndStyles p; globalStyles := globalStyles p;
       allowURLSchemes := allowURLSchemes p; allowURLSchemeRegexps := allowURLSchemeRegexps p; srcRewriter := srcRewriter p;
       elsNoAttrs := na; elsMatchingNoAttrs := mna; elsSkipContent := elsSkipContent p;
       allowUnsafe := allowUnsafe p |}.
  (* all the scalar options, URL tables and the skip set in one update *)
  Record opts := {
    o_addSpaces : bool; o_nf : bool; o_nffq : bool; o_nr : bool; o_nrfq : bool; o_co : bool;
    o_sandbox : option (list bytes); o_tb : bool; o_parse : bool; o_rel : bool; o_data : bool; o_comments : bool;
    o_schemes : amap (list U); o_schemeres : list M; o_rewriter : option R; o_skip : list bytes; o_unsafe : bool }.
  Definition get_opts (p : pol) : opts :=
    {| o_addSpaces := addSpaces p; o_nf := requireNoFollow p; o_nffq := requireNoFollowFQ p; o_nr := requireNoReferrer p;
       o_nrfq := requireNoReferrerFQ p; o_co := requireCrossOrigin p; o_sandbox := requireSandbox p; o_tb := addTargetBlank p;
       o_parse := requireParseableURLs p; o_rel := allowRelativeURLs p; o_data := allowDataAttributes p;
       o_comments := allowComments p; o_schemes := allowURLSchemes p; o_schemeres := allowURLSchemeRegexps p;
       o_rewriter := srcRewriter p; o_skip := elsSkipContent p; o_unsafe := allowUnsafe p |}.
  Definition set_opts (p : pol) (o : opts) : pol :=
    {| addSpaces := o_addSpaces o; requireNoFollow := o_nf o; requireNoFollowFQ := o_nffq o;
       requireNoReferrer := o_nr o; requireNoReferrerFQ := o_nrfq o;
       requireCrossOrigin := o_co o; requireSandbox := o_sandbox o; addTargetBlank := o_tb o;
       requireParseableURLs := o_parse o; allowRelativeURLs := o_rel o;
       allowDataAttributes := o_data o; allowComments := o_comments o;
       elsAndAttrs := elsAndAttrs p; elsMatchingAndAttrs := elsMatchingAndAttrs p; globalAttrs := globalAttrs p;
       elsAndStyles := elsAndStyles p; elsMatchingAndStyles := elsMatchingAndStyles p; globalStyles := globalStyles p;
       allowURLSchemes := o_schemes o; allowURLSchemeRegexps := o_schemeres o; srcRewriter := o_rewriter o;
       elsNoAttrs := elsNoAttrs p; elsMatchingNoAttrs := elsMatchingNoAttrs p; elsSkipContent := o_skip o;
       allowUnsafe := o_unsafe o |}.

  (* append one policy to m[k] *)
  Definition app_rule (V : Type) (k : bytes) (v : V) (m : amap (list V)) : amap (list V) :=
    upsert k (fun o => match o with Some l => l ++ [v] | None => [v] end) m.
  (* m[el] exists afterwards *)
  Definition ensure (V : Type) (k : bytes) (m : amap (amap V)) : amap (amap V) :=
    upsert k (fun o => match o with Some x => x | None => [] end) m.
  Definition add_set (k : bytes) (s : list bytes) : list bytes := if mem k s then s else s ++ [k].

  Definition bind_attrs (names : list bytes) (ap : attr_policy M) (noattrs : bool) (sc : scope) (p : pol) : pol :=
    match sc with
    | OnElements els =>
      fold_left (fun p el =>
        let el := to_lower el in
        let p1 := fold_left (fun p a =>
                    set_elsAndAttrs p (upsert el (fun o => app_rule a ap (match o with Some m => m | None => [] end)) (elsAndAttrs p)))
                  names p in
        if noattrs then set_elsAndAttrs (set_noattrs p1 (add_set el (elsNoAttrs p1)) (elsMatchingNoAttrs p1)) (ensure el (elsAndAttrs p1))
        else p1) els p
    | OnElementsMatching id r =>
      let p1 := fold_left (fun p a =>
                  set_elsMatchingAndAttrs p (rupsert id r (fun o => app_rule a ap (match o with Some m => m | None => [] end)) (elsMatchingAndAttrs p)))
                names p in
      if noattrs then
        set_elsMatchingAndAttrs (set_noattrs p1 (elsNoAttrs p1) (elsMatchingNoAttrs p1 ++ [r]))
          (rupsert id r (fun o => match o with Some m => m | None => [] end) (elsMatchingAndAttrs p1))
      else p1
    | Globally =>
      fold_left (fun p a => set_globalAttrs p (app_rule a ap (globalAttrs p))) names p
    end.

  Definition bind_styles (props : list bytes) (handler : option M) (enum : list bytes) (re : option M) (sc : scope) (p : pol) : pol :=
    let sp_for (prop : bytes) : style_policy M :=
      match handler with
      | Some h => SPHandler h
      | None => match enum with
                | _ :: _ => SPEnum enum
                | [] => match re with Some r => SPRegexp r | None => SPHandler (default_handler prop) end
                end
      end in
    match sc with
    | OnElements els =>
      fold_left (fun p el =>
        let el := to_lower el in
        fold_left (fun p a =>
          set_styles p (upsert el (fun o => app_rule a (sp_for a) (match o with Some m => m | None => [] end)) (elsAndStyles p))
                     (elsMatchingAndStyles p) (globalStyles p)) props p) els p
    | OnElementsMatching id r =>
      fold_left (fun p a =>
        set_styles p (elsAndStyles p)
                   (rupsert id r (fun o => app_rule a (sp_for a) (match o with Some m => m | None => [] end)) (elsMatchingAndStyles p))
                   (globalStyles p)) props p
    | Globally =>
      fold_left (fun p a => set_styles p (elsAndStyles p) (elsMatchingAndStyles p) (app_rule a (sp_for a) (globalStyles p))) props p
    end.

  Definition sandbox_token (v : N) : list bytes :=
    flat_map (fun e => if (fst e =? v) && negb (match snd e with [] => true | _ => false end) then [snd e] else []) sandbox_values.

  Definition upd (p : pol) (f : opts -> opts) : pol := set_opts p (f (get_opts p)).

  Definition apply (p : pol) (o : op) : pol :=
    match o with
    | OAllowAttrs names re noattrs sc => bind_attrs (map to_lower names) re noattrs sc p
    | OAllowStyles props h e re sc => bind_styles (map to_lower props) h e re sc p
    | OAllowElements names =>
      fold_left (fun p el => set_elsAndAttrs p (ensure (to_lower el) (elsAndAttrs p))) names p
    | OAllowElementsMatching id r =>
      set_elsMatchingAndAttrs p (rupsert id r (fun o => match o with Some m => m | None => [] end) (elsMatchingAndAttrs p))
    | OAllowDataAttributes => upd p (fun o => {| o_addSpaces := o_addSpaces o; o_nf := o_nf o; o_nffq := o_nffq o; o_nr := o_nr o; o_nrfq := o_nrfq o; o_co := o_co o; o_sandbox := o_sandbox o; o_tb := o_tb o; o_parse := o_parse o; o_rel := o_rel o; o_data := true; o_comments := o_comments o; o_schemes := o_schemes o; o_schemeres := o_schemeres o; o_rewriter := o_rewriter o; o_skip := o_skip o; o_unsafe := o_unsafe o |})
    | OAllowComments => upd p (fun o => {| o_addSpaces := o_addSpaces o; o_nf := o_nf o; o_nffq := o_nffq o; o_nr := o_nr o; o_nrfq := o_nrfq o; o_co := o_co o; o_sandbox := o_sandbox o; o_tb := o_tb o; o_parse := o_parse o; o_rel := o_rel o; o_data := o_data o; o_comments := true; o_schemes := o_schemes o; o_schemeres := o_schemeres o; o_rewriter := o_rewriter o; o_skip := o_skip o; o_unsafe := o_unsafe o |})
    | OAllowURLSchemes schemes => upd p (fun o => {| o_addSpaces := o_addSpaces o; o_nf := o_nf o; o_nffq := o_nffq o; o_nr := o_nr o; o_nrfq := o_nrfq o; o_co := o_co o; o_sandbox := o_sandbox o; o_tb := o_tb o; o_parse := true; o_rel := o_rel o; o_data := o_data o; o_comments := o_comments o;
        o_schemes := fold_left (fun m s => upsert (to_lower s) (fun _ => []) m) schemes (o_schemes o);
        o_schemeres := o_schemeres o; o_rewriter := o_rewriter o; o_skip := o_skip o; o_unsafe := o_unsafe o |})
    | OAllowURLSchemeWithCustomPolicy s f => upd p (fun o => {| o_addSpaces := o_addSpaces o; o_nf := o_nf o; o_nffq := o_nffq o; o_nr := o_nr o; o_nrfq := o_nrfq o; o_co := o_co o; o_sandbox := o_sandbox o; o_tb := o_tb o; o_parse := true; o_rel := o_rel o; o_data := o_data o; o_comments := o_comments o;
        o_schemes := app_rule (to_lower s) f (o_schemes o);
        o_schemeres := o_schemeres o; o_rewriter := o_rewriter o; o_skip := o_skip o; o_unsafe := o_unsafe o |})
    | OAllowURLSchemesMatching r => upd p (fun o => {| o_addSpaces := o_addSpaces o; o_nf := o_nf o; o_nffq := o_nffq o; o_nr := o_nr o; o_nrfq := o_nrfq o; o_co := o_co o; o_sandbox := o_sandbox o; o_tb := o_tb o; o_parse := o_parse o; o_rel := o_rel o; o_data := o_data o; o_comments := o_comments o; o_schemes := o_schemes o; o_schemeres := o_schemeres o ++ [r]; o_rewriter := o_rewriter o; o_skip := o_skip o; o_unsafe := o_unsafe o |})
    | ORewriteSrc f => upd p (fun o => {| o_addSpaces := o_addSpaces o; o_nf := o_nf o; o_nffq := o_nffq o; o_nr := o_nr o; o_nrfq := o_nrfq o; o_co := o_co o; o_sandbox := o_sandbox o; o_tb := o_tb o; o_parse := o_parse o; o_rel := o_rel o; o_data := o_data o; o_comments := o_comments o; o_schemes := o_schemes o; o_schemeres := o_schemeres o; o_rewriter := Some f; o_skip := o_skip o; o_unsafe := o_unsafe o |})
    | ORequireNoFollowOnLinks b => upd p (fun o => {| o_addSpaces := o_addSpaces o; o_nf := b; o_nffq := o_nffq o; o_nr := o_nr o; o_nrfq := o_nrfq o; o_co := o_co o; o_sandbox := o_sandbox o; o_tb := o_tb o; o_parse := true; o_rel := o_rel o; o_data := o_data o; o_comments := o_comments o; o_schemes := o_schemes o; o_schemeres := o_schemeres o; o_rewriter := o_rewriter o; o_skip := o_skip o; o_unsafe := o_unsafe o |})
    | ORequireNoFollowOnFullyQualifiedLinks b => upd p (fun o => {| o_addSpaces := o_addSpaces o; o_nf := o_nf o; o_nffq := b; o_nr := o_nr o; o_nrfq := o_nrfq o; o_co := o_co o; o_sandbox := o_sandbox o; o_tb := o_tb o; o_parse := true; o_rel := o_rel o; o_data := o_data o; o_comments := o_comments o; o_schemes := o_schemes o; o_schemeres := o_schemeres o; o_rewriter := o_rewriter o; o_skip := o_skip o; o_unsafe := o_unsafe o |})
    | ORequireNoReferrerOnLinks b => upd p (fun o => {| o_addSpaces := o_addSpaces o; o_nf := o_nf o; o_nffq := o_nffq o; o_nr := b; o_nrfq := o_nrfq o; o_co := o_co o; o_sandbox := o_sandbox o; o_tb := o_tb o; o_parse := true; o_rel := o_rel o; o_data := o_data o; o_comments := o_comments o; o_schemes := o_schemes o; o_schemeres := o_schemeres o; o_rewriter := o_rewriter o; o_skip := o_skip o; o_unsafe := o_unsafe o |})
    | ORequireNoReferrerOnFullyQualifiedLinks b => upd p (fun o => {| o_addSpaces := o_addSpaces o; o_nf := o_nf o; o_nffq := o_nffq o; o_nr := o_nr o; o_nrfq := b; o_co := o_co o; o_sandbox := o_sandbox o; o_tb := o_tb o; o_parse := true; o_rel := o_rel o; o_data := o_data o; o_comments := o_comments o; o_schemes := o_schemes o; o_schemeres := o_schemeres o; o_rewriter := o_rewriter o; o_skip := o_skip o; o_unsafe := o_unsafe o |})
    | ORequireCrossOriginAnonymous b => upd p (fun o => {| o_addSpaces := o_addSpaces o; o_nf := o_nf o; o_nffq := o_nffq o; o_nr := o_nr o; o_nrfq := o_nrfq o; o_co := b; o_sandbox := o_sandbox o; o_tb := o_tb o; o_parse := o_parse o; o_rel := o_rel o; o_data := o_data o; o_comments := o_comments o; o_schemes := o_schemes o; o_schemeres := o_schemeres o; o_rewriter := o_rewriter o; o_skip := o_skip o; o_unsafe := o_unsafe o |})
    | OAddTargetBlankToFullyQualifiedLinks b => upd p (fun o => {| o_addSpaces := o_addSpaces o; o_nf := o_nf o; o_nffq := o_nffq o; o_nr := o_nr o; o_nrfq := o_nrfq o; o_co := o_co o; o_sandbox := o_sandbox o; o_tb := b; o_parse := true; o_rel := o_rel o; o_data := o_data o; o_comments := o_comments o; o_schemes := o_schemes o; o_schemeres := o_schemeres o; o_rewriter := o_rewriter o; o_skip := o_skip o; o_unsafe := o_unsafe o |})
    | ORequireParseableURLs b => upd p (fun o => {| o_addSpaces := o_addSpaces o; o_nf := o_nf o; o_nffq := o_nffq o; o_nr := o_nr o; o_nrfq := o_nrfq o; o_co := o_co o; o_sandbox := o_sandbox o; o_tb := o_tb o; o_parse := b; o_rel := o_rel o; o_data := o_data o; o_comments := o_comments o; o_schemes := o_schemes o; o_schemeres := o_schemeres o; o_rewriter := o_rewriter o; o_skip := o_skip o; o_unsafe := o_unsafe o |})
    | OAllowRelativeURLs b => upd p (fun o => {| o_addSpaces := o_addSpaces o; o_nf := o_nf o; o_nffq := o_nffq o; o_nr := o_nr o; o_nrfq := o_nrfq o; o_co := o_co o; o_sandbox := o_sandbox o; o_tb := o_tb o; o_parse := true; o_rel := b; o_data := o_data o; o_comments := o_comments o; o_schemes := o_schemes o; o_schemeres := o_schemeres o; o_rewriter := o_rewriter o; o_skip := o_skip o; o_unsafe := o_unsafe o |})
    | ORequireSandboxOnIFrame vals => upd p (fun o => {| o_addSpaces := o_addSpaces o; o_nf := o_nf o; o_nffq := o_nffq o; o_nr := o_nr o; o_nrfq := o_nrfq o; o_co := o_co o; o_sandbox := Some (flat_map sandbox_token vals); o_tb := o_tb o; o_parse := o_parse o; o_rel := o_rel o; o_data := o_data o; o_comments := o_comments o; o_schemes := o_schemes o; o_schemeres := o_schemeres o; o_rewriter := o_rewriter o; o_skip := o_skip o; o_unsafe := o_unsafe o |})
    | OAddSpaceWhenStrippingTag b => upd p (fun o => {| o_addSpaces := b; o_nf := o_nf o; o_nffq := o_nffq o; o_nr := o_nr o; o_nrfq := o_nrfq o; o_co := o_co o; o_sandbox := o_sandbox o; o_tb := o_tb o; o_parse := o_parse o; o_rel := o_rel o; o_data := o_data o; o_comments := o_comments o; o_schemes := o_schemes o; o_schemeres := o_schemeres o; o_rewriter := o_rewriter o; o_skip := o_skip o; o_unsafe := o_unsafe o |})
    | OSkipElementsContent names => upd p (fun o => {| o_addSpaces := o_addSpaces o; o_nf := o_nf o; o_nffq := o_nffq o; o_nr := o_nr o; o_nrfq := o_nrfq o; o_co := o_co o; o_sandbox := o_sandbox o; o_tb := o_tb o; o_parse := o_parse o; o_rel := o_rel o; o_data := o_data o; o_comments := o_comments o; o_schemes := o_schemes o; o_schemeres := o_schemeres o; o_rewriter := o_rewriter o;
        o_skip := fold_left (fun s n => add_set (to_lower n) s) names (o_skip o); o_unsafe := o_unsafe o |})
    | OAllowElementsContent names => upd p (fun o => {| o_addSpaces := o_addSpaces o; o_nf := o_nf o; o_nffq := o_nffq o; o_nr := o_nr o; o_nrfq := o_nrfq o; o_co := o_co o; o_sandbox := o_sandbox o; o_tb := o_tb o; o_parse := o_parse o; o_rel := o_rel o; o_data := o_data o; o_comments := o_comments o; o_schemes := o_schemes o; o_schemeres := o_schemeres o; o_rewriter := o_rewriter o;
        o_skip := fold_left (fun s n => filter (fun x => negb (beqb x (to_lower n))) s) names (o_skip o); o_unsafe := o_unsafe o |})
    | OAllowUnsafe b => upd p (fun o => {| o_addSpaces := o_addSpaces o; o_nf := o_nf o; o_nffq := o_nffq o; o_nr := o_nr o; o_nrfq := o_nrfq o; o_co := o_co o; o_sandbox := o_sandbox o; o_tb := o_tb o; o_parse := o_parse o; o_rel := o_rel o; o_data := o_data o; o_comments := o_comments o; o_schemes := o_schemes o; o_schemeres := o_schemeres o; o_rewriter := o_rewriter o; o_skip := o_skip o; o_unsafe := b |})
    end.

  Definition build (h : list op) : pol := fold_left apply h new_policy.
End Builder.
