(* Byte strings as lists of N, conversions from Coq string literals. *)
From Coq Require Import List NArith Bool Ascii String.
Export String.StringSyntax.
Import ListNotations.
Open Scope N_scope.

Definition bytes := list N.

Fixpoint bytes_of_string (s : string) : bytes :=
  match s with
  | EmptyString => []
  | String a s' => N_of_ascii a :: bytes_of_string s'
  end.
Arguments bytes_of_string _%string.
Notation "'B' s" := (bytes_of_string s) (at level 0, s at level 0, only parsing).

Fixpoint beqb (a b : bytes) : bool :=
  match a, b with
  | [], [] => true
  | x :: a', y :: b' => (x =? y) && beqb a' b'
  | _, _ => false
  end.

Lemma beqb_eq : forall a b, beqb a b = true <-> a = b.
Proof.
  induction a as [|x a IH]; destruct b as [|y b]; simpl; split; intros H; try discriminate; auto.
  - apply andb_true_iff in H as [H1 H2]. apply N.eqb_eq in H1. apply IH in H2. subst; auto.
  - inversion H; subst. rewrite N.eqb_refl. simpl. apply IH. auto.
Qed.
Lemma beqb_refl a : beqb a a = true. Proof. apply beqb_eq; auto. Qed.

Definition mem (x : bytes) (l : list bytes) : bool := existsb (beqb x) l.
Lemma mem_In x l : mem x l = true <-> In x l.
Proof.
  unfold mem. rewrite existsb_exists. split.
  - intros (y & Hy & E). apply beqb_eq in E. subst; auto.
  - intros H. exists x. split; auto. apply beqb_refl.
Qed.
