(* Go's UTF-8 decoding (unicode/utf8.DecodeRune: an invalid or truncated sequence yields
   U+FFFD and consumes one byte) and encoding (utf8.EncodeRune / AppendRune). *)
From Coq Require Import List NArith Bool.
Import ListNotations.
From BM Require Import Bytes.
Open Scope N_scope.

Definition rune_error : N := 65533.
Definition in_rng (lo hi c : N) : bool := (lo <=? c) && (c <=? hi).
Definition cont (c : N) : bool := in_rng 128 191 c.

(* decode one rune: (rune, rest) *)
Definition decode1 (s : bytes) : option (N * bytes) :=
  match s with
  | [] => None
  | c0 :: r0 =>
    if c0 <? 128 then Some (c0, r0) else
    let bad := Some (rune_error, r0) in
    if in_rng 194 223 c0 then
      match r0 with
      | c1 :: r1 => if cont c1 then Some ((c0 - 192) * 64 + (c1 - 128), r1) else bad
      | _ => bad
      end
    else if in_rng 224 239 c0 then
      match r0 with
      | c1 :: c2 :: r2 =>
        let lo := if c0 =? 224 then 160 else 128 in
        let hi := if c0 =? 237 then 159 else 191 in
        if in_rng lo hi c1 && cont c2 then Some ((c0 - 224) * 4096 + (c1 - 128) * 64 + (c2 - 128), r2) else bad
      | _ => bad
      end
    else if in_rng 240 244 c0 then
      match r0 with
      | c1 :: c2 :: c3 :: r3 =>
        let lo := if c0 =? 240 then 144 else 128 in
        let hi := if c0 =? 244 then 143 else 191 in
        if in_rng lo hi c1 && cont c2 && cont c3
        then Some ((c0 - 240) * 262144 + (c1 - 128) * 4096 + (c2 - 128) * 64 + (c3 - 128), r3) else bad
      | _ => bad
      end
    else bad
  end.

Fixpoint decode_fuel (fuel : nat) (s : bytes) : list N :=
  match fuel with
  | O => []
  | S f => match decode1 s with
           | None => []
           | Some (r, rest) => r :: decode_fuel f rest
           end
  end.
(* the runes of a string, as `for _, r := range s` sees them *)
Definition runes (s : bytes) : list N := decode_fuel (length s) s.

Definition encode1 (r : N) : bytes :=
  let r := if (in_rng 55296 57343 r) || (1114111 <? r) then rune_error else r in
  if r <? 128 then [r]
  else if r <? 2048 then [192 + r / 64; 128 + r mod 64]
  else if r <? 65536 then [224 + r / 4096; 128 + (r / 64) mod 64; 128 + r mod 64]
  else [240 + r / 262144; 128 + (r / 4096) mod 64; 128 + (r / 64) mod 64; 128 + r mod 64].
Definition encode (rs : list N) : bytes := flat_map encode1 rs.
