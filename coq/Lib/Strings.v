(* The Go string functions that bluemonday calls, over byte lists.
   Each is a model of the named function of package strings / strconv / unicode
   (Go 1.23 semantics); they are validated against the real functions by the
   correspondence runs.  Definitions only. *)
From Coq Require Import List NArith Bool.
Import ListNotations.
From BM Require Import Bytes Utf8 GenUnicode.
Open Scope N_scope.

Definition is_upper (c : N) := (65 <=? c) && (c <=? 90).
Definition is_lower (c : N) := (97 <=? c) && (c <=? 122).
Definition is_letter (c : N) := is_upper c || is_lower c.
Definition is_digit (c : N) := (48 <=? c) && (c <=? 57).
Definition lowerc (c : N) := if is_upper c then c + 32 else c.
(* ASCII-only lower-casing (x/net/html `lower`) *)
Definition lower_ascii (s : bytes) : bytes := map lowerc s.

Fixpoint assoc (k : N) (l : list (N * N)) : option N :=
  match l with
  | [] => None
  | (a, b) :: l' => if a =? k then Some b else assoc k l'
  end.

(* unicode.ToLower *)
Definition lower_rune (r : N) : N :=
  if r <? 128 then lowerc r else match assoc r lower_pairs with Some l => l | None => r end.
(* strings.ToLower: ASCII fast path, otherwise strings.Map(unicode.ToLower, s), which
   re-encodes and turns invalid bytes into U+FFFD *)
Definition is_ascii (s : bytes) : bool := forallb (fun c => c <? 128) s.
Definition to_lower (s : bytes) : bytes :=
  if is_ascii s then lower_ascii s else encode (map lower_rune (runes s)).

(* strings.EqualFold: rune-wise comparison under simple case folding *)
Definition fold_canon (r : N) : N := match assoc r fold_pairs with Some c => c | None => r end.
Fixpoint list_eqb (a b : list N) : bool :=
  match a, b with
  | [], [] => true
  | x :: a', y :: b' => (x =? y) && list_eqb a' b'
  | _, _ => false
  end.
Definition equal_fold (a b : bytes) : bool :=
  list_eqb (map fold_canon (runes a)) (map fold_canon (runes b)).

(* unicode.IsSpace *)
Definition is_space_rune (r : N) : bool :=
  ((9 <=? r) && (r <=? 13)) || (r =? 32) || (r =? 133) || (r =? 160) || (r =? 5760) ||
  ((8192 <=? r) && (r <=? 8202)) || (r =? 8232) || (r =? 8233) || (r =? 8239) || (r =? 8287) || (r =? 12288).

(* strings.TrimSpace: trims leading and trailing unicode.IsSpace runes; an invalid byte
   decodes to U+FFFD which is not a space *)
Fixpoint trim_left_fuel (fuel : nat) (s : bytes) : bytes :=
  match fuel with
  | O => s
  | S f => match decode1 s with
           | Some (r, rest) => if is_space_rune r then trim_left_fuel f rest else s
           | None => s
           end
  end.
Definition trim_left_space (s : bytes) : bytes := trim_left_fuel (length s) s.

(* trailing: work on the rune list paired with encodings; a trailing space rune is always
   validly encoded, so trimming the rune list from the right and re-measuring is exact:
   we drop from the byte string the encoded length of each trailing space rune *)
Fixpoint drop_trailing_spaces (rs : list N) : list N :=   (* rs reversed *)
  match rs with
  | r :: rs' => if is_space_rune r then drop_trailing_spaces rs' else rs
  | [] => []
  end.
Definition count_trailing_space_bytes (s : bytes) : nat :=
  let rs := rev (runes s) in
  let kept := drop_trailing_spaces rs in
  length (encode (firstn (length rs - length kept) rs)).
Definition trim_right_space (s : bytes) : bytes := firstn (length s - count_trailing_space_bytes s) s.
Definition trim_space (s : bytes) : bytes := trim_right_space (trim_left_space s).

(* strings.TrimRight(s, " ") *)
Fixpoint trim_right_sp_rev (s : bytes) : bytes :=
  match s with c :: s' => if c =? 32 then trim_right_sp_rev s' else s | [] => [] end.
Definition trim_right_sp (s : bytes) : bytes := rev (trim_right_sp_rev (rev s)).

Fixpoint has_prefix (s p : bytes) : bool :=
  match p with
  | [] => true
  | x :: p' => match s with y :: s' => (x =? y) && has_prefix s' p' | [] => false end
  end.
Definition trim_prefix (s p : bytes) : bytes := if has_prefix s p then skipn (length p) s else s.
Definition has_suffix (s p : bytes) : bool := has_prefix (rev s) (rev p).
Definition trim_suffix (s p : bytes) : bytes := if has_suffix s p then firstn (length s - length p) s else s.

(* strings.Contains *)
Fixpoint contains (s sub : bytes) : bool :=
  has_prefix s sub || match s with [] => false | _ :: s' => contains s' sub end.

(* strings.Index-based split: strings.Split(s, sep) for non-empty sep *)
Fixpoint split_fuel (fuel : nat) (s sep cur : bytes) : list bytes :=
  match fuel with
  | O => [rev cur]
  | S f =>
    match s with
    | [] => [rev cur]
    | c :: s' => if has_prefix s sep then rev cur :: split_fuel f (skipn (length sep) s) sep []
                 else split_fuel f s' sep (c :: cur)
    end
  end.
Definition split (s sep : bytes) : list bytes :=
  match sep with
  | [] => map (fun r => encode1 r) (runes s)     (* not used by the modelled code *)
  | _ => split_fuel (S (length s)) s sep []
  end.

(* strings.Join *)
Fixpoint join (l : list bytes) (sep : bytes) : bytes :=
  match l with
  | [] => []
  | [x] => x
  | x :: l' => x ++ sep ++ join l' sep
  end.

(* strings.Replace(s, old, new, -1) for non-empty old *)
Definition replace_all (s old new : bytes) : bytes := join (split s old) new.

(* strings.Fields: split around runs of unicode.IsSpace *)
Fixpoint fields_fuel (fuel : nat) (s cur : bytes) : list bytes :=
  let flush (l : list bytes) := match cur with [] => l | _ => rev cur :: l end in
  match fuel with
  | O => flush []
  | S f =>
    match decode1 s with
    | None => flush []
    | Some (r, rest) =>
      if is_space_rune r then flush (fields_fuel f rest [])
      else fields_fuel f rest (rev (firstn (length s - length rest) s) ++ cur)
    end
  end.
Definition fields (s : bytes) : list bytes := fields_fuel (S (length s)) s [].

(* strings.Repeat("0", n) *)
Fixpoint repeat_byte (c : N) (n : nat) : bytes := match n with O => [] | S k => c :: repeat_byte c k end.

(* hex digits *)
Definition hex_digit (d : N) : N := if d <? 10 then 48 + d else 87 + d.      (* lower case *)
Definition hex2 (c : N) : bytes := [hex_digit (c / 16); hex_digit (c mod 16)].
Definition hex4 (r : N) : bytes := [hex_digit (r / 4096); hex_digit ((r / 256) mod 16); hex_digit ((r / 16) mod 16); hex_digit (r mod 16)].
Definition hex8 (r : N) : bytes := hex4 (r / 65536) ++ hex4 (r mod 65536).

(* strconv.QuoteToASCII without the surrounding quotes, rune by rune.
   invalid bytes are \xNN, non-ASCII runes \uXXXX / \UXXXXXXXX *)
Definition quote_rune (r : N) (raw : bytes) : bytes :=
  let bs := 92 in
  if (r =? rune_error) && (Nat.eqb (length raw) 1) then bs :: 120 :: hex2 (hd 0 raw)
  else if r =? 34 then [bs; 34]
  else if r =? 92 then [bs; bs]
  else if (32 <=? r) && (r <? 127) then [r]
  else if r =? 7 then [bs; 97] else if r =? 8 then [bs; 98] else if r =? 12 then [bs; 102]
  else if r =? 10 then [bs; 110] else if r =? 13 then [bs; 114] else if r =? 9 then [bs; 116]
  else if r =? 11 then [bs; 118]
  else if r <? 32 then bs :: 120 :: hex2 r
  else if r =? 127 then bs :: 120 :: hex2 r
  else if r <? 65536 then bs :: 117 :: hex4 r
  else bs :: 85 :: hex8 r.
Fixpoint quote_fuel (fuel : nat) (s : bytes) : bytes :=
  match fuel with
  | O => []
  | S f => match decode1 s with
           | None => []
           | Some (r, rest) => quote_rune r (firstn (length s - length rest) s) ++ quote_fuel f rest
           end
  end.
Definition quote_to_ascii_body (s : bytes) : bytes := quote_fuel (length s) s.
