(* recursiveCheck computes what it is meant to: the value can be cut into consecutive groups each
   accepted by a sub-handler (the memo table never hides a solution). *)
From Coq Require Import List NArith Bool Arith Lia.
Import ListNotations.
From BM Require Import Bytes Strings RecCheck.
Local Open Scope nat_scope.

Section Correct.
  Variable value : list bytes.
  Variable funcs : list (bytes -> bool).
  Let n := length value.
  Notation tv := (tempval value).

  Inductive good : nat -> Prop :=
  | good_intro start i j : start <= i -> i < n -> In j funcs -> j (tv start i) = true ->
      (i + 1 = n \/ good (i + 1)) -> good start.

  Definition Inv (st : rstate) : Prop := forall k, is_failed k st = true -> ~ good k.

  Lemma Inv_tick st : Inv st -> Inv (tick st).
  Proof. intros H k Hk. apply H. exact Hk. Qed.
  Lemma Inv_mark st k : Inv st -> ~ good k -> Inv (mark st k).
  Proof.
    intros H Hk k' Hf. unfold is_failed, mark in Hf. cbn [failed existsb] in Hf. apply orb_true_iff in Hf as [Hf|Hf].
    - apply Nat.eqb_eq in Hf. subst k'. exact Hk.
    - apply H. exact Hf.
  Qed.

  Definition rec_ok (rec : nat -> rstate -> bool * rstate) (lo : nat) : Prop :=
    forall s st, lo <= s -> s < n -> Inv st ->
      Inv (snd (rec s st)) /\ (fst (rec s st) = true -> good s) /\ (fst (rec s st) = false -> ~ good s).

  Lemma loop_j_ok rec start i : rec_ok rec (i + 1) -> start <= i -> i < n ->
    forall js st, (forall j, In j js -> In j funcs) -> Inv st ->
    Inv (snd (loop_j value rec start i js st)) /\
    (fst (loop_j value rec start i js st) = true -> good start) /\
    (fst (loop_j value rec start i js st) = false -> forall j, In j js -> j (tv start i) = true -> i + 1 <> n /\ ~ good (i + 1)).
  Proof.
    intros Hrec Hs Hi. induction js as [|j js IH]; intros st Hjs Hinv; cbn [loop_j].
    - cbn [fst snd]. split; [exact Hinv|]. split; [discriminate|]. intros _ j Hj. destruct Hj.
    - assert (Hjs' : forall j0, In j0 js -> In j0 funcs) by (intros j0 H0; apply Hjs; right; exact H0).
      pose proof (Inv_tick st Hinv) as Hinv1.
      destruct (j (tv start i)) eqn:Ej; cbn [negb].
      + fold n. destruct (Nat.eqb (i + 1) n) eqn:En.
        * cbn [fst snd]. split; [exact Hinv1|]. split; [|discriminate]. intros _. apply Nat.eqb_eq in En.
          apply (good_intro start i j); auto. apply Hjs. left. reflexivity.
        * apply Nat.eqb_neq in En. destruct (is_failed (i + 1) (tick st)) eqn:Ef.
          -- destruct (IH (tick st) Hjs' Hinv1) as (I1 & I2 & I3). split; [exact I1|]. split; [exact I2|].
             intros Hr j0 [<-|Hj0] Hacc; [split; [exact En | apply Hinv1; exact Ef] | exact (I3 Hr j0 Hj0 Hacc)].
          -- assert (Hlt : i + 1 < n) by lia.
             destruct (Hrec (i + 1) (tick st) (le_n _) Hlt Hinv1) as (R1 & R2 & R3).
             destruct (rec (i + 1) (tick st)) as [r st2]. cbn [fst snd] in *. destruct r.
             ++ cbn [fst snd]. split; [exact R1|]. split; [|discriminate]. intros _.
                apply (good_intro start i j); auto. apply Hjs. left. reflexivity.
             ++ specialize (R3 eq_refl).
                destruct (IH (mark st2 (i + 1)) Hjs' (Inv_mark st2 (i + 1) R1 R3)) as (I1 & I2 & I3).
                split; [exact I1|]. split; [exact I2|].
                intros Hr j0 [<-|Hj0] Hacc; [split; assumption | exact (I3 Hr j0 Hj0 Hacc)].
      + destruct (IH (tick st) Hjs' Hinv1) as (I1 & I2 & I3). split; [exact I1|]. split; [exact I2|].
        intros Hr j0 [<-|Hj0] Hacc; [congruence | exact (I3 Hr j0 Hj0 Hacc)].
  Qed.

  Lemma loop_i_ok rec start : rec_ok rec (start + 1) ->
    forall is st, (forall i, In i is -> start <= i /\ i < n) -> Inv st ->
    Inv (snd (loop_i value funcs rec start is st)) /\
    (fst (loop_i value funcs rec start is st) = true -> good start) /\
    (fst (loop_i value funcs rec start is st) = false ->
       forall i j, In i is -> In j funcs -> j (tv start i) = true -> i + 1 <> n /\ ~ good (i + 1)).
  Proof.
    intros Hrec. induction is as [|i is IH]; intros st His Hinv; cbn [loop_i].
    - cbn [fst snd]. split; [exact Hinv|]. split; [discriminate|]. intros _ i j Hi. destruct Hi.
    - destruct (His i (or_introl eq_refl)) as [Hs Hi].
      assert (Hrec' : rec_ok rec (i + 1)).
      { intros s st0 Hs0 Hn0 H0. apply Hrec; [lia | exact Hn0 | exact H0]. }
      destruct (loop_j_ok rec start i Hrec' Hs Hi funcs st (fun j H => H) Hinv) as (J1 & J2 & J3).
      destruct (loop_j value rec start i funcs st) as [r st1]. cbn [fst snd] in *. destruct r.
      + cbn [fst snd]. split; [exact J1|]. split; [intros _; apply J2; reflexivity | discriminate].
      + assert (His' : forall i0, In i0 is -> start <= i0 /\ i0 < n) by (intros i0 H0; apply His; right; exact H0).
        destruct (IH st1 His' J1) as (I1 & I2 & I3). split; [exact I1|]. split; [exact I2|].
        intros Hr i0 j [<-|Hi0] Hj Hacc; [apply (J3 eq_refl j Hj Hacc) | apply (I3 Hr i0 j Hi0 Hj Hacc)].
  Qed.

  Lemma check_ok : forall fuel start st, n - start < fuel -> Inv st ->
    Inv (snd (check value funcs fuel start st)) /\
    (fst (check value funcs fuel start st) = true -> good start) /\
    (fst (check value funcs fuel start st) = false -> ~ good start).
  Proof.
    induction fuel as [|f IH]; intros start st Hf Hinv; [lia|]. cbn [check]. fold n.
    assert (Hrec : rec_ok (check value funcs f) (start + 1)).
    { intros s st0 Hs Hn H0. apply IH; [lia | exact H0]. }
    destruct (loop_i_ok (check value funcs f) start Hrec (seq start (n - start)) st) as (L1 & L2 & L3).
    - intros i Hi. apply in_seq in Hi. lia.
    - exact Hinv.
    - split; [exact L1|]. split; [exact L2|]. intros Hr Hg. inversion Hg as [s i j Hs Hi Hj Hacc Hrest]; subst.
      destruct (L3 Hr i j) as [N1 N2]; [apply in_seq; lia | exact Hj | exact Hacc|].
      destruct Hrest as [E|G]; [exact (N1 E) | exact (N2 G)].
  Qed.

  Theorem recursive_check_correct : recursive_check value funcs = true <-> good 0.
  Proof.
    unfold recursive_check, recursive_check_run. fold n.
    destruct (check_ok (S n) 0 {| failed := []; calls := 0 |}) as (_ & C2 & C3); [lia | intros k Hk; discriminate Hk|].
    split; [exact C2|]. intros Hg. destruct (fst (check value funcs (S n) 0 _)) eqn:E; [reflexivity|]. exfalso. exact (C3 eq_refl Hg).
  Qed.
End Correct.
