(* Decoding a string followed by ASCII bytes: the runes of the string, then the runes of the rest.
   (An ASCII byte never continues a multi-byte sequence, so a truncated sequence at the end of the
   first part decodes to the same replacement characters either way.) *)
From Coq Require Import List NArith Bool Lia Arith.
Import ListNotations.
From BM Require Import Bytes Utf8.
Open Scope N_scope.

Definition ascii_head (w : bytes) : Prop := match w with [] => True | c :: _ => c < 128 end.

Lemma decode1_length s r rest : decode1 s = Some (r, rest) -> (length rest < length s)%nat.
Proof.
  unfold decode1. destruct s as [|c0 r0]; [discriminate|].
  destruct (c0 <? 128); [intros H; inversion H; subst; cbn; lia|].
  destruct (in_rng 194 223 c0).
  { destruct r0 as [|c1 r1]; [intros H; inversion H; subst; cbn; lia|].
    destruct (cont c1); intros H; inversion H; subst; cbn; lia. }
  destruct (in_rng 224 239 c0).
  { destruct r0 as [|c1 [|c2 r2]]; try (intros H; inversion H; subst; cbn; lia).
    destruct (_ && _); intros H; inversion H; subst; cbn; lia. }
  destruct (in_rng 240 244 c0).
  { destruct r0 as [|c1 [|c2 [|c3 r3]]]; try (intros H; inversion H; subst; cbn; lia).
    destruct (_ && _ && _); intros H; inversion H; subst; cbn; lia. }
  intros H; inversion H; subst; cbn; lia.
Qed.

Lemma decode_fuel_enough : forall f s, (length s <= f)%nat -> decode_fuel f s = decode_fuel (length s) s.
Proof.
  induction f as [f IH] using lt_wf_ind. intros s Hl.
  destruct f as [|f]; [destruct s; [reflexivity | exfalso; cbn [length] in Hl; lia]|].
  destruct s as [|c s']; [reflexivity|].
  cbn [decode_fuel length]. destruct (decode1 (c :: s')) as [[r rest]|] eqn:E; [|reflexivity].
  pose proof (decode1_length _ _ _ E) as Hr. cbn [length] in Hr. f_equal.
  cbn [length] in Hl. assert (H1 : (f < S f)%nat) by lia. assert (H2 : (length rest <= f)%nat) by lia.
  rewrite (IH f H1 rest H2). symmetry. apply IH; lia.
Qed.

Lemma runes_unfold s : runes s = match decode1 s with None => [] | Some (r, rest) => r :: runes rest end.
Proof.
  unfold runes. destruct s as [|c s']; [reflexivity|]. cbn [length decode_fuel].
  destruct (decode1 (c :: s')) as [[r rest]|] eqn:E; [|reflexivity]. f_equal.
  apply decode_fuel_enough. pose proof (decode1_length _ _ _ E) as Hr. cbn [length] in Hr. lia.
Qed.

Lemma ascii_not_ge a lo : a < 128 -> 128 <= lo -> (lo <=? a) = false.
Proof. intros. apply N.leb_gt. lia. Qed.
Lemma ascii_not_cont a : a < 128 -> cont a = false.
Proof. intros H. unfold cont, in_rng. rewrite (ascii_not_ge a 128 H) by lia. reflexivity. Qed.
Lemma ascii_not_rng a lo hi : a < 128 -> 128 <= lo -> in_rng lo hi a = false.
Proof. intros H Hl. unfold in_rng. rewrite (ascii_not_ge a lo H Hl). reflexivity. Qed.

Lemma decode1_app_ascii c0 r0 w : ascii_head w ->
  decode1 ((c0 :: r0) ++ w) = match decode1 (c0 :: r0) with Some (r, rest) => Some (r, rest ++ w) | None => None end.
Proof.
  intros Hw. cbn [app]. unfold decode1.
  destruct (c0 <? 128); [reflexivity|].
  destruct (in_rng 194 223 c0).
  { destruct r0 as [|c1 r1]; cbn [app].
    - destruct w as [|a w']; [reflexivity|]. cbn in Hw. rewrite (ascii_not_cont a Hw). reflexivity.
    - destruct (cont c1); reflexivity. }
  destruct (in_rng 224 239 c0).
  { set (lo := if c0 =? 224 then 160 else 128). set (hi := if c0 =? 237 then 159 else 191).
    assert (Hlo : 128 <= lo) by (subst lo; destruct (c0 =? 224); lia).
    destruct r0 as [|c1 [|c2 r2]]; cbn [app].
    - destruct w as [|a [|b w']]; try reflexivity. cbn in Hw. rewrite (ascii_not_rng a lo hi Hw Hlo). reflexivity.
    - destruct w as [|a w']; [reflexivity|]. cbn in Hw. rewrite (ascii_not_cont a Hw), andb_false_r. reflexivity.
    - destruct (_ && _); reflexivity. }
  destruct (in_rng 240 244 c0).
  { set (lo := if c0 =? 240 then 144 else 128). set (hi := if c0 =? 244 then 143 else 191).
    assert (Hlo : 128 <= lo) by (subst lo; destruct (c0 =? 240); lia).
    destruct r0 as [|c1 [|c2 [|c3 r3]]]; cbn [app].
    - destruct w as [|a [|b [|d w']]]; try reflexivity. cbn in Hw. rewrite (ascii_not_rng a lo hi Hw Hlo). reflexivity.
    - destruct w as [|a [|b w']]; try reflexivity. cbn in Hw. rewrite (ascii_not_cont a Hw), andb_false_r. reflexivity.
    - destruct w as [|a w']; [reflexivity|]. cbn in Hw. rewrite (ascii_not_cont a Hw), andb_false_r. reflexivity.
    - destruct (_ && _ && _); reflexivity. }
  reflexivity.
Qed.

Lemma decode1_cons c s : decode1 (c :: s) <> None.
Proof.
  unfold decode1. destruct (c <? 128); [discriminate|].
  destruct (in_rng 194 223 c). { destruct s as [|c1 r1]; [discriminate|]. destruct (cont c1); discriminate. }
  destruct (in_rng 224 239 c). { destruct s as [|c1 [|c2 r2]]; try discriminate. destruct (_ && _); discriminate. }
  destruct (in_rng 240 244 c). { destruct s as [|c1 [|c2 [|c3 r3]]]; try discriminate. destruct (_ && _ && _); discriminate. }
  discriminate.
Qed.

Theorem runes_app_ascii : forall v w, ascii_head w -> runes (v ++ w) = runes v ++ runes w.
Proof.
  intros v. remember (length v) as n eqn:Hn. revert v Hn.
  induction n as [n IH] using lt_wf_ind. intros v Hn w Hw.
  destruct v as [|c0 r0]; [rewrite (runes_unfold []); reflexivity|].
  rewrite (runes_unfold ((c0 :: r0) ++ w)), (runes_unfold (c0 :: r0)), (decode1_app_ascii c0 r0 w Hw).
  destruct (decode1 (c0 :: r0)) as [[r rest]|] eqn:E; [|exfalso; exact (decode1_cons _ _ E)].
  pose proof (decode1_length _ _ _ E) as Hr. cbn [app]. f_equal.
  apply (IH (length rest)); [subst n; exact Hr | reflexivity | exact Hw].
Qed.

Lemma runes_ascii : forall w, Forall (fun c => c < 128) w -> runes w = w.
Proof.
  induction w as [|c w IH]; intros H; [reflexivity|]. inversion H as [|? ? Hc Hw]; subst.
  rewrite runes_unfold. unfold decode1. apply N.ltb_lt in Hc. rewrite Hc. f_equal. apply IH. exact Hw.
Qed.

(* a rune below 128 is a byte of the string: multi-byte sequences decode to 128 or more, errors to U+FFFD *)
From Coq Require Import ZifyN ZifyBool.
Lemma decode1_small s r rest : decode1 s = Some (r, rest) -> r < 128 -> exists c tl, s = c :: tl /\ r = c.
Proof.
  unfold decode1. destruct s as [|c0 r0]; [discriminate|].
  destruct (c0 <? 128) eqn:E0; [intros H _; inversion H; subst; eauto|].
  intros H Hr. exfalso. apply N.ltb_ge in E0.
  assert (Hbad : Some (rune_error, r0) = Some (r, rest) -> False) by (intros X; inversion X; subst; unfold rune_error in Hr; lia).
  unfold cont, in_rng in H.
  destruct ((194 <=? c0) && (c0 <=? 223)) eqn:E1.
  { destruct r0 as [|c1 r1]; [exact (Hbad H)|]. destruct ((128 <=? c1) && (c1 <=? 191)) eqn:Ec; [|exact (Hbad H)].
    inversion H; subst. lia. }
  destruct ((224 <=? c0) && (c0 <=? 239)) eqn:E2.
  { destruct r0 as [|c1 [|c2 r2]]; try exact (Hbad H).
    destruct (c0 =? 224) eqn:E224; destruct (c0 =? 237) eqn:E237;
      match type of H with (if ?c then _ else _) = _ => destruct c eqn:Ec end; try exact (Hbad H); inversion H; subst; lia. }
  destruct ((240 <=? c0) && (c0 <=? 244)) eqn:E3.
  { destruct r0 as [|c1 [|c2 [|c3 r3]]]; try exact (Hbad H).
    destruct (c0 =? 240) eqn:E240; destruct (c0 =? 244) eqn:E244;
      match type of H with (if ?c then _ else _) = _ => destruct c eqn:Ec end; try exact (Hbad H); inversion H; subst; lia. }
  exact (Hbad H).
Qed.

Lemma decode1_suffix s r rest : decode1 s = Some (r, rest) -> exists pre, s = pre ++ rest.
Proof.
  unfold decode1. destruct s as [|c0 q0]; [discriminate|].
  destruct (c0 <? 128); [intros H; injection H as _ <-; exists [c0]; reflexivity|].
  destruct (in_rng 194 223 c0).
  { destruct q0 as [|c1 q1]; [intros H; injection H as _ <-; exists [c0]; reflexivity|].
    destruct (cont c1); intros H; injection H as _ <-; [exists [c0; c1] | exists [c0]]; reflexivity. }
  destruct (in_rng 224 239 c0).
  { destruct q0 as [|c1 [|c2 q2]]; try (intros H; injection H as _ <-; exists [c0]; reflexivity).
    destruct (_ && _); intros H; injection H as _ <-; [exists [c0; c1; c2] | exists [c0]]; reflexivity. }
  destruct (in_rng 240 244 c0).
  { destruct q0 as [|c1 [|c2 [|c3 q3]]]; try (intros H; injection H as _ <-; exists [c0]; reflexivity).
    destruct (_ && _ && _); intros H; injection H as _ <-; [exists [c0; c1; c2; c3] | exists [c0]]; reflexivity. }
  intros H; injection H as _ <-; exists [c0]; reflexivity.
Qed.

Theorem runes_small_in : forall s r, In r (runes s) -> r < 128 -> In r s.
Proof.
  intros s. remember (length s) as n eqn:Hn. revert s Hn.
  induction n as [n IH] using lt_wf_ind. intros s Hn r Hin Hr.
  rewrite runes_unfold in Hin. destruct (decode1 s) as [[r0 rest]|] eqn:E; [|contradiction].
  pose proof (decode1_length _ _ _ E) as Hl. destruct Hin as [<-|Hin].
  - destruct (decode1_small _ _ _ E Hr) as (c & tl & -> & ->). left. reflexivity.
  - assert (Hrest : In r rest) by (apply (IH (length rest)); [subst n; exact Hl | reflexivity | exact Hin | exact Hr]).
    destruct (decode1_suffix _ _ _ E) as [pre ->]. apply in_or_app. right. exact Hrest.
Qed.
