(* Provenance of every attribute in the list sanitizeAttrs returns (C02 for the final list):
   it carries one of the four keys the sanitizer itself forces (rel, target, crossorigin, sandbox),
   or it is an attribute that survived the filtering loop unchanged, or it is such an attribute
   whose value the URL pass replaced by the validated URL. *)
From Coq Require Import List NArith Bool Lia.
Import ListNotations.
From BM Require Import Bytes Utf8 Strings Tokenizer Policy Url Style Attrs GenTables AttrsSound.
Open Scope N_scope.

Definition forced_key (k : bytes) : bool :=
  beqb k (B"rel") || beqb k (B"target") || beqb k (B"crossorigin") || beqb k (B"sandbox").

Section Prov.
  Variables M U R : Type.
  Variable I : interp M U R.
  Variable p : policy M U R.
  Variable P : attr -> Prop.
  Hypothesis Hforced : forall k v, forced_key k = true -> P (k, v).

  Definition PA (l : list attr) : Prop := Forall P l.

  Lemma PA_map (f : attr -> attr) l : (forall a, P a -> P (f a)) -> PA l -> PA (map f l).
  Proof. intros Hf. induction 1 as [|a l Ha Hl IH]; cbn; constructor; [apply Hf; exact Ha | exact IH]. Qed.
  Lemma PA_app l1 l2 : PA l1 -> PA l2 -> PA (l1 ++ l2).
  Proof. intros. apply Forall_app; auto. Qed.

  Lemma key_rel a v : key_is (B"rel") a = true -> P (akey a, v).
  Proof. intros H. apply Hforced. unfold forced_key. unfold key_is in H. rewrite H. reflexivity. Qed.
  Lemma key_target a v : key_is (B"target") a = true -> P (akey a, v).
  Proof. intros H. apply Hforced. unfold forced_key. unfold key_is in H. rewrite H. apply orb_true_iff. left. apply orb_true_iff. left. apply orb_true_r. Qed.
  Lemma key_cross a v : key_is (B"crossorigin") a = true -> P (akey a, v).
  Proof. intros H. apply Hforced. unfold forced_key. unfold key_is in H. rewrite H. apply orb_true_iff. left. apply orb_true_r. Qed.
  Lemma key_sandbox a v : key_is (B"sandbox") a = true -> P (akey a, v).
  Proof. intros H. apply Hforced. unfold forced_key. unfold key_is in H. rewrite H. apply orb_true_r. Qed.

  Lemma link_pass1_prov is_a nfq nrq tbq : forall attrs nf nr tb r nf' nr' tb',
    link_pass1 is_a nfq nrq tbq attrs nf nr tb = (r, nf', nr', tb') -> PA attrs -> PA r.
  Proof.
    induction attrs as [|a rest IH]; intros nf nr tb r nf' nr' tb' H Hq; cbn [link_pass1] in H.
    - inversion H; subst. constructor.
    - inversion Hq as [|? ? Ha Hrest]; subst.
      destruct (key_is (B"rel") a && (nfq || nrq)) eqn:E1.
      + apply andb_true_iff in E1 as [E1 _].
        destruct (link_pass1 is_a nfq nrq tbq rest nfq nrq tb) as [[[r0 x] y] z] eqn:E. inversion H; subst.
        constructor; [apply key_rel; exact E1 | eapply IH; eauto].
      + destruct (is_a && key_is (B"target") a) eqn:E2.
        * apply andb_true_iff in E2 as [_ E2].
          destruct (tbq && negb (tb || beqb (aval a) (B"_blank"))).
          -- destruct (link_pass1 is_a nfq nrq tbq rest nf nr true) as [[[r0 x] y] z] eqn:E. inversion H; subst.
             constructor; [apply key_target; exact E2 | eapply IH; eauto].
          -- destruct (link_pass1 is_a nfq nrq tbq rest nf nr (tb || beqb (aval a) (B"_blank"))) as [[[r0 x] y] z] eqn:E. inversion H; subst.
             constructor; [exact Ha | eapply IH; eauto].
        * destruct (link_pass1 is_a nfq nrq tbq rest nf nr tb) as [[[r0 x] y] z] eqn:E. inversion H; subst.
          constructor; [exact Ha | eapply IH; eauto].
  Qed.

  Lemma noopener_pass_prov attrs : PA attrs -> PA (noopener_pass attrs).
  Proof.
    intros Hq. unfold noopener_pass. destruct (existsb (key_is (B"rel")) attrs).
    - apply PA_map; auto. intros a Ha. destruct (key_is (B"rel") a) eqn:E; [destruct (has_rel_token _ _)|]; auto.
      apply key_rel; exact E.
    - apply PA_app; auto. constructor; [|constructor]. apply Hforced. reflexivity.
  Qed.

  Lemma link_pass_prov elem attrs : PA attrs -> PA (link_pass I p elem attrs).
  Proof.
    intros Hq. unfold link_pass.
    match goal with |- PA (if ?c then _ else _) => destruct c end; [|exact Hq].
    destruct (href_external I attrs) as [hf ext]. destruct hf; [|exact Hq].
    match goal with |- context [link_pass1 ?a ?b ?c ?d attrs false false false] =>
      destruct (link_pass1 a b c d attrs false false false) as [[[tmp nf] nr] tb] eqn:E end.
    pose proof (link_pass1_prov _ _ _ _ _ _ _ _ _ _ _ _ E Hq) as Ht.
    set (attrs1 := if nf || nr || tb then tmp else attrs).
    assert (H1 : PA attrs1) by (subst attrs1; destruct (nf || nr || tb); auto).
    match goal with |- context [if ?c then attrs1 ++ ?x else attrs1] => set (attrs2 := if c then attrs1 ++ x else attrs1) end.
    assert (H2 : PA attrs2).
    { subst attrs2. match goal with |- PA (if ?c then _ else _) => destruct c end; auto. apply PA_app; auto.
      constructor; [|constructor]. apply Hforced. reflexivity. }
    match goal with |- context [if ?c then (attrs2 ++ ?x, true) else (attrs2, tb)] => destruct c end.
    - apply noopener_pass_prov. apply PA_app; auto. constructor; [|constructor]. apply Hforced. reflexivity.
    - destruct tb; [apply noopener_pass_prov|]; auto.
  Qed.

  Lemma crossorigin_pass_prov elem attrs : PA attrs -> PA (crossorigin_pass p elem attrs).
  Proof.
    intros Hq. unfold crossorigin_pass.
    match goal with |- PA (if ?c then _ else _) => destruct c end; [|exact Hq].
    destruct (existsb (key_is (B"crossorigin")) attrs).
    - apply PA_map; auto. intros a Ha. destruct (key_is _ a) eqn:E; auto. apply key_cross; exact E.
    - apply PA_app; auto. constructor; [|constructor]. apply Hforced. reflexivity.
  Qed.

  Lemma sandbox_pass_prov elem attrs : PA attrs -> PA (sandbox_pass p elem attrs).
  Proof.
    intros Hq. unfold sandbox_pass. destruct (requireSandbox p); [|exact Hq].
    destruct (beqb elem (B"iframe")); [|exact Hq].
    destruct (existsb (key_is (B"sandbox")) attrs).
    - apply PA_map; auto. intros a Ha. destruct (key_is _ a) eqn:E; auto. apply key_sandbox; exact E.
    - apply PA_app; auto. constructor; [|constructor]. apply Hforced. reflexivity.
  Qed.
End Prov.

Section Final.
  Variables M U R : Type.
  Variable I : interp M U R.
  Variable p : policy M U R.

  (* the value the URL pass writes for an attribute it keeps *)
  Definition url_rewritten (elem : bytes) (a1 a : attr) : Prop :=
    linkable elem = true /\ requireParseableURLs p = true /\
    exists k u, url_attr_of elem = Some k /\ key_is k a1 = true /\ valid_url I p (aval a1) = Some u /\
      a = (akey a1, if beqb k (B"src") then match srcRewriter p with Some f => rewrite I f u | None => u end else u).

  (* does the URL pass look at this attribute of this element? *)
  Definition url_checked (elem : bytes) (a : attr) : bool :=
    linkable elem && requireParseableURLs p &&
    match url_attr_of elem with Some k => key_is k a | None => false end.

  Definition from_filter (elem : bytes) (attrs : list attr) (aps : amap (list (attr_policy M))) (a : attr) : Prop :=
    exists a0 a1, In a0 attrs /\ In a1 (filter_attr I p elem aps (has_style_policies I p elem) a0) /\
                  ((a = a1 /\ url_checked elem a1 = false) \/ (url_checked elem a1 = true /\ url_rewritten elem a1 a)).

  Definition provenance (elem : bytes) (attrs : list attr) (aps : amap (list (attr_policy M))) (a : attr) : Prop :=
    forced_key (akey a) = true \/ from_filter elem attrs aps a.

  Theorem sanitize_attrs_provenance elem attrs aps a :
    In a (sanitize_attrs I p elem attrs aps) -> provenance elem attrs aps a.
  Proof.
    revert a. apply Forall_forall.
    unfold sanitize_attrs. destruct attrs as [|x xs]; [constructor|].
    remember (x :: xs) as attrs0 eqn:Eat. clear Eat x xs.
    set (P := provenance elem attrs0 aps).
    assert (HP : forall k v, forced_key k = true -> P (k, v)) by (intros k v H; left; exact H).
    set (clean := flat_map _ attrs0).
    assert (Hc : Forall (fun a => exists a0, In a0 attrs0 /\ In a (filter_attr I p elem aps (has_style_policies I p elem) a0)) clean).
    { apply Forall_forall. intros a Ha. subst clean. apply in_flat_map in Ha. exact Ha. }
    assert (Hc0 : (forall a, url_checked elem a = false) -> Forall P clean).
    { intros Hnc. eapply Forall_impl; [|exact Hc]. intros a (a0 & H0 & H1). right. exists a0, a. split; [exact H0 | split; [exact H1 | left; split; [reflexivity | apply Hnc]]]. }
    destruct clean as [|c0 cl] eqn:Ec; [constructor|]. rewrite <- Ec in *.
    apply sandbox_pass_prov; [exact HP|]. apply crossorigin_pass_prov; [exact HP|].
    destruct (linkable elem) eqn:El; [|apply Hc0; intros a0; unfold url_checked; rewrite El; reflexivity]. apply link_pass_prov; [exact HP|].
    destruct (requireParseableURLs p) eqn:Er; [|apply Hc0; intros a0; unfold url_checked; rewrite El, Er; reflexivity].
    apply Forall_forall. intros a Ha. apply in_flat_map in Ha as (a1 & Ha1 & Ha).
    rewrite Forall_forall in Hc. destruct (Hc _ Ha1) as (a0 & H0 & H1).
    unfold url_pass_attr in Ha. destruct (url_attr_of elem) as [k|] eqn:Ek.
    - destruct (key_is k a1) eqn:Ekey.
      + destruct (valid_url I p (aval a1)) as [u|] eqn:Ev; [|contradiction]. destruct Ha as [<-|[]].
        right. exists a0, a1. split; [exact H0|]. split; [exact H1|]. right.
        split; [unfold url_checked; rewrite El, Er, Ek, Ekey; reflexivity|].
        split; [exact El|]. split; [exact Er|]. exists k, u. auto.
      + destruct Ha as [<-|[]]. right. exists a0, a1. split; [exact H0 | split; [exact H1 | left; split; [reflexivity|]]].
        unfold url_checked. rewrite El, Er, Ek, Ekey. reflexivity.
    - destruct Ha as [<-|[]]. right. exists a0, a1. split; [exact H0 | split; [exact H1 | left; split; [reflexivity|]]].
      unfold url_checked. rewrite El, Er, Ek. reflexivity.
  Qed.

  (* with the justification of the filtering loop: the full C02 statement for one attribute *)
  Corollary sanitize_attrs_justified elem attrs aps a :
    In a (sanitize_attrs I p elem attrs aps) ->
    forced_key (akey a) = true \/
    exists a0 a1, In a0 attrs /\ attr_justified I p elem aps a0 a1 /\
      ((a = a1 /\ url_checked elem a1 = false) \/ (url_checked elem a1 = true /\ url_rewritten elem a1 a)).
  Proof.
    intros H. destruct (sanitize_attrs_provenance _ _ _ _ H) as [Hf|(a0 & a1 & H0 & H1 & H2)]; [left; exact Hf|].
    right. exists a0, a1. split; [exact H0|]. split; [|exact H2].
    eapply filter_attr_sound; [reflexivity | exact H1].
  Qed.
End Final.
Arguments sanitize_attrs_provenance {M U R} I p elem attrs aps a.
Arguments sanitize_attrs_justified {M U R} I p elem attrs aps a.
Arguments url_rewritten {M U R} I p elem a1 a.
Arguments url_checked {M U R} p elem a.
