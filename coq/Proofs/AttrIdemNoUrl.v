(* Idempotence of sanitizeAttrs on a tag whose URL attribute (href / cite / src, by element) does not
   survive the first pass: without an href the link-hardening pass does nothing, nothing is
   normalised, and what the filter kept once it keeps again.  No condition on patterns, on the
   forced attributes or on net/url is needed; the crossorigin and sandbox passes must be inactive
   for the element.  (UGCPolicy: del / ins whose patterned cite does not survive, area without a
   surviving href.) *)
From Coq Require Import List NArith Bool Lia.
Import ListNotations.
From BM Require Import Bytes Utf8 Strings Tokenizer Policy Url Style Attrs Loop GenTables ForcedAttrs LinkProofs LinkCompose
  AttrProvenance AttrIdem AttrIdemLinks LinkIdem AttrIdemAccepted.
Open Scope N_scope.

Lemma link_rel_are_href e : mem e link_rel_elements = true -> url_attr_of e = Some HREF.
Proof. intros H. unfold url_attr_of. change (mem e href_elements) with (mem e link_rel_elements). rewrite H. reflexivity. Qed.

Section NoUrl.
  Variables M U R : Type.
  Variable I : interp M U R.
  Variable p : policy M U R.
  Variable elem : bytes.
  Variable aps : amap (list (attr_policy M)).

  Notation Fa := (filter_attr I p elem aps (has_style_policies I p elem)).

  Hypothesis Hstyle : style_stable M U R I p elem.
  Hypothesis Hnosandbox : forall l, sandbox_pass p elem l = l.
  Hypothesis Hnocross : forall l, crossorigin_pass p elem l = l.

  Definition no_url_attr (l : list attr) : Prop :=
    match url_attr_of elem with Some k => forall a, In a l -> key_is k a = false | None => True end.

  Lemma link_pass_no_href l : (mem elem link_rel_elements = true -> forall a, In a l -> key_is HREF a = false) ->
    link_pass I p elem l = l.
  Proof.
    intros H. destruct (link_pass_cases M U R I p elem l) as [E | (_ & _ & He & ext & Hh)]; [exact E|]. exfalso.
    specialize (H He).
    assert (Hf : filter (key_is HREF) l = []).
    { clear Hh. induction l as [|a l IH]; [reflexivity|]. cbn [filter]. rewrite (H a (or_introl eq_refl)). apply IH. intros b Hb. apply H. right. exact Hb. }
    unfold href_external in Hh. rewrite href_external_filter, Hf in Hh. cbn in Hh. discriminate.
  Qed.

  (* the URL pass on a list without the URL attribute *)
  Lemma U_no_url l : no_url_attr l -> flat_map (url_pass_attr I p elem) l = l.
  Proof.
    unfold no_url_attr, url_pass_attr. destruct (url_attr_of elem) as [k|].
    - intros H. induction l as [|a l IH]; [reflexivity|]. cbn [flat_map]. rewrite (H a (or_introl eq_refl)). cbn [app].
      rewrite IH; [reflexivity|]. intros b Hb. apply H. right. exact Hb.
    - intros _. induction l as [|a l IH]; [reflexivity|]. cbn [flat_map app]. rewrite IH. reflexivity.
  Qed.

  (* what the URL pass leaves without the URL attribute was there before, unchanged *)
  Lemma U_incl l b : In b (flat_map (url_pass_attr I p elem) l) ->
    (match url_attr_of elem with Some k => key_is k b = false | None => True end) -> In b l.
  Proof.
    intros Hb Hk. apply in_flat_map in Hb as (a & Ha & Hb). unfold url_pass_attr in Hb.
    destruct (url_attr_of elem) as [k|].
    - destruct (key_is k a) eqn:E.
      + destruct (valid_url I p (aval a)); [|contradiction]. destruct Hb as [<-|[]].
        change (key_is k (akey a, ?v)) with (key_is k a) in Hk. congruence.
      + destruct Hb as [<-|[]]. exact Ha.
    - destruct Hb as [<-|[]]. exact Ha.
  Qed.

  Theorem sanitize_attrs_idem_no_url attrs :
    no_url_attr (sanitize_attrs I p elem attrs aps) ->
    sanitize_attrs I p elem (sanitize_attrs I p elem attrs aps) aps = sanitize_attrs I p elem attrs aps.
  Proof.
    pose proof (sanitize_attrs_unfold M U R I p elem aps Hnosandbox) as Unf.
    rewrite (Unf attrs). destruct attrs as [|a0 ar]; [reflexivity|].
    remember (flat_map Fa (a0 :: ar)) as c0 eqn:Ec0.
    assert (S0 : Forall (kept M U R I p elem aps) c0) by (subst c0; apply F_kept; exact Hstyle).
    destruct c0 as [|x xs] eqn:Ecc; [reflexivity|]. rewrite <- Ecc in *. clear Ecc x xs.
    rewrite Hnocross. intros Hno.
    set (c := if linkable elem then (if requireParseableURLs p then flat_map (url_pass_attr I p elem) c0 else c0) else c0) in *.
    assert (Hmid : mid_passes M U R I p elem c0 = if linkable elem then link_pass I p elem c else c).
    { unfold mid_passes. subst c. destruct (linkable elem); reflexivity. }
    rewrite Hmid in *.
    (* the link pass did nothing: its result has no href *)
    assert (Hlp : (if linkable elem then link_pass I p elem c else c) = c).
    { destruct (linkable elem); [|reflexivity]. apply link_pass_no_href. intros He a Ha.
      assert (Ef : filter (key_is HREF) (link_pass I p elem c) = filter (key_is HREF) c) by (apply link_pass_others; reflexivity).
      unfold no_url_attr in Hno. rewrite (link_rel_are_href elem He) in Hno.
      destruct (key_is HREF a) eqn:E; [|reflexivity]. exfalso.
      assert (Hin : In a (filter (key_is HREF) c)) by (apply filter_In; split; assumption).
      rewrite <- Ef in Hin. apply filter_In in Hin as [Hin _]. specialize (Hno a Hin). congruence. }
    rewrite Hlp in *.
    (* c: kept by the filter, no URL attribute *)
    assert (Kc : Forall (kept M U R I p elem aps) c).
    { subst c. destruct (linkable elem); [|exact S0]. destruct (requireParseableURLs p); [|exact S0].
      rewrite Forall_forall in *. intros b Hb. apply S0. apply (U_incl c0 b Hb).
      unfold no_url_attr in Hno. destruct (url_attr_of elem); [apply Hno; exact Hb | exact Logic.I]. }
    rewrite (Unf c). destruct c as [|y ys] eqn:Ecv; [reflexivity|]. rewrite <- Ecv in *.
    rewrite (F_of_kept M U R I p elem aps c Kc).
    assert (Hm : forall X : list attr, match c with [] => [] | _ :: _ => X end = X) by (intros X; rewrite Ecv; reflexivity).
    rewrite Hm. clear Hm. rewrite Hnocross. unfold mid_passes. destruct (linkable elem) eqn:El; [|reflexivity].
    assert (EU : (if requireParseableURLs p then flat_map (url_pass_attr I p elem) c else c) = c).
    { destruct (requireParseableURLs p); [apply U_no_url; exact Hno | reflexivity]. }
    rewrite EU. exact Hlp.
  Qed.
End NoUrl.
Arguments sanitize_attrs_idem_no_url {M U R} I p elem aps.

Section Decide.
  Variables M U R : Type.
  Variable p : policy M U R.
  Definition no_cross_b (elem : bytes) : bool := negb (requireCrossOrigin p) || negb (mem elem crossorigin_elements).
  Lemma no_cross_sound elem : no_cross_b elem = true -> forall l, crossorigin_pass p elem l = l.
  Proof.
    intros H l. unfold crossorigin_pass. unfold no_cross_b in H. apply orb_true_iff in H as [H|H]; apply negb_true_iff in H; rewrite H;
      [reflexivity | rewrite andb_false_r; reflexivity].
  Qed.
End Decide.
