(* unescape (escape d) = d : text written by the sanitiser is read back unchanged. *)
From Coq Require Import List NArith Bool Lia.
Import ListNotations.
From BM Require Import Bytes Utf8 Strings GenEntities Escape.
Open Scope N_scope.

Lemma entity_amp : entity [97;109;112;59] = Some [38]. Proof. vm_compute. reflexivity. Qed.
Lemma entity_lt : entity [108;116;59] = Some [60]. Proof. vm_compute. reflexivity. Qed.
Lemma entity_gt : entity [103;116;59] = Some [62]. Proof. vm_compute. reflexivity. Qed.

Lemma unescape_entity_amp b rest : unescape_entity b ([38;97;109;112;59] ++ rest) = ([38], rest).
Proof. destruct b; cbn -[entity]; change SEMI with 59; rewrite entity_amp; reflexivity. Qed.
Lemma unescape_entity_lt b rest : unescape_entity b ([38;108;116;59] ++ rest) = ([60], rest).
Proof. destruct b; cbn -[entity]; change SEMI with 59; rewrite entity_lt; reflexivity. Qed.
Lemma unescape_entity_gt b rest : unescape_entity b ([38;103;116;59] ++ rest) = ([62], rest).
Proof. destruct b; cbn -[entity]; change SEMI with 59; rewrite entity_gt; reflexivity. Qed.
Lemma unescape_entity_39 b rest : unescape_entity b ([38;35;51;57;59] ++ rest) = ([39], rest).
Proof. destruct b; reflexivity. Qed.
Lemma unescape_entity_34 b rest : unescape_entity b ([38;35;51;52;59] ++ rest) = ([34], rest).
Proof. destruct b; reflexivity. Qed.
Lemma unescape_entity_13 b rest : unescape_entity b ([38;35;49;51;59] ++ rest) = ([13], rest).
Proof. destruct b; reflexivity. Qed.

Lemma esc_byte_cases c :
  (c = 38 /\ esc_byte c = [38;97;109;112;59]) \/ (c = 39 /\ esc_byte c = [38;35;51;57;59]) \/
  (c = 60 /\ esc_byte c = [38;108;116;59]) \/ (c = 62 /\ esc_byte c = [38;103;116;59]) \/
  (c = 34 /\ esc_byte c = [38;35;51;52;59]) \/ (c = 13 /\ esc_byte c = [38;35;49;51;59]) \/
  (c <> 38 /\ esc_byte c = [c]).
Proof.
  unfold esc_byte.
  destruct (c =? 38) eqn:E1; [apply N.eqb_eq in E1; auto|].
  destruct (c =? 39) eqn:E2; [apply N.eqb_eq in E2; auto 10|].
  destruct (c =? 60) eqn:E3; [apply N.eqb_eq in E3; auto 10|].
  destruct (c =? 62) eqn:E4; [apply N.eqb_eq in E4; auto 10|].
  destruct (c =? 34) eqn:E5; [apply N.eqb_eq in E5; auto 10|].
  destruct (c =? 13) eqn:E6; [apply N.eqb_eq in E6; auto 10|].
  apply N.eqb_neq in E1. auto 10.
Qed.

Lemma unescape_fuel_escape : forall b d fuel, (length d < fuel)%nat -> unescape_fuel fuel b (escape d) = d.
Proof.
  intros b. induction d as [|c d IH]; intros fuel Hf.
  - destruct fuel; [lia|]. reflexivity.
  - destruct fuel as [|fuel]; [simpl in Hf; lia|].
    assert (Hf' : (length d < fuel)%nat) by (simpl in Hf; lia).
    unfold escape. cbn [flat_map]. fold (escape d).
    destruct (esc_byte_cases c) as [[-> ->]|[[-> ->]|[[-> ->]|[[-> ->]|[[-> ->]|[[-> ->]|[Hne ->]]]]]]].
    + change (unescape_fuel (S fuel) b ([38;97;109;112;59] ++ escape d))
        with (let (o, rest) := unescape_entity b ([38;97;109;112;59] ++ escape d) in o ++ unescape_fuel fuel b rest).
      rewrite unescape_entity_amp. cbn [app]. rewrite IH; auto.
    + change (unescape_fuel (S fuel) b ([38;35;51;57;59] ++ escape d))
        with (let (o, rest) := unescape_entity b ([38;35;51;57;59] ++ escape d) in o ++ unescape_fuel fuel b rest).
      rewrite unescape_entity_39. cbn [app]. rewrite IH; auto.
    + change (unescape_fuel (S fuel) b ([38;108;116;59] ++ escape d))
        with (let (o, rest) := unescape_entity b ([38;108;116;59] ++ escape d) in o ++ unescape_fuel fuel b rest).
      rewrite unescape_entity_lt. cbn [app]. rewrite IH; auto.
    + change (unescape_fuel (S fuel) b ([38;103;116;59] ++ escape d))
        with (let (o, rest) := unescape_entity b ([38;103;116;59] ++ escape d) in o ++ unescape_fuel fuel b rest).
      rewrite unescape_entity_gt. cbn [app]. rewrite IH; auto.
    + change (unescape_fuel (S fuel) b ([38;35;51;52;59] ++ escape d))
        with (let (o, rest) := unescape_entity b ([38;35;51;52;59] ++ escape d) in o ++ unescape_fuel fuel b rest).
      rewrite unescape_entity_34. cbn [app]. rewrite IH; auto.
    + change (unescape_fuel (S fuel) b ([38;35;49;51;59] ++ escape d))
        with (let (o, rest) := unescape_entity b ([38;35;49;51;59] ++ escape d) in o ++ unescape_fuel fuel b rest).
      rewrite unescape_entity_13. cbn [app]. rewrite IH; auto.
    + cbn [app unescape_fuel]. assert ((c =? AMP) = false) as -> by (apply N.eqb_neq; exact Hne).
      rewrite IH; auto.
Qed.

Lemma escape_length d : (length d <= length (escape d))%nat.
Proof.
  induction d as [|c d IH]; simpl; auto. rewrite app_length.
  assert (1 <= length (esc_byte c))%nat.
  { destruct (esc_byte_cases c) as [[_ ->]|[[_ ->]|[[_ ->]|[[_ ->]|[[_ ->]|[[_ ->]|[_ ->]]]]]]]; simpl; lia. }
  lia.
Qed.

(* html.UnescapeString(html.EscapeString(d)) = d, for every byte string *)
Theorem unescape_escape_gen : forall b d, unescape b (escape d) = d.
Proof.
  intros b d. unfold unescape. apply unescape_fuel_escape. pose proof (escape_length d). lia.
Qed.

Theorem unescape_escape : forall d, unescape false (escape d) = d.
Proof. apply unescape_escape_gen. Qed.

(* the escaped form contains none of the characters that could start or end markup *)
Theorem escape_inert : forall d c, In c (escape d) -> c <> 60 /\ c <> 62 /\ c <> 34 /\ c <> 39 /\ c <> 13.
Proof.
  induction d as [|x d IH]; simpl; intros c Hin; [contradiction|].
  apply in_app_or in Hin as [Hin|Hin]; [|apply IH; auto].
  destruct (esc_byte_cases x) as [[_ E]|[[_ E]|[[_ E]|[[_ E]|[[_ E]|[[_ E]|[Hne E]]]]]]]; rewrite E in Hin; simpl in Hin;
    try (repeat (destruct Hin as [<-|Hin]; [repeat split; discriminate|]); contradiction).
  destruct Hin as [<-|[]]. unfold esc_byte in E.
  destruct (x =? 38) eqn:E1; [discriminate E|].
  destruct (x =? 39) eqn:E2; [discriminate E|].
  destruct (x =? 60) eqn:E3; [discriminate E|].
  destruct (x =? 62) eqn:E4; [discriminate E|].
  destruct (x =? 34) eqn:E5; [discriminate E|].
  destruct (x =? 13) eqn:E6; [discriminate E|].
  apply N.eqb_neq in E2, E3, E4, E5, E6. repeat split; auto.
Qed.

(* ---- comments: unescape undoes escapeCommentString as well ---- *)
Lemma escape_comment_from_length : forall d prev, (length d <= length (escape_comment_from prev d))%nat.
Proof.
  induction d as [|c d IH]; intros prev; cbn [escape_comment_from]; [lia|]. rewrite app_length. specialize (IH (Some c)).
  destruct (c =? 38); [cbn; lia|]. destruct ((c =? 62) && _); cbn; lia.
Qed.

Lemma unescape_fuel_escape_comment : forall b d prev fuel, (length d < fuel)%nat ->
  unescape_fuel fuel b (escape_comment_from prev d) = d.
Proof.
  intros b. induction d as [|c d IH]; intros prev fuel Hf.
  - destruct fuel; [lia|]. reflexivity.
  - destruct fuel as [|fuel]; [simpl in Hf; lia|].
    assert (Hf' : (length d < fuel)%nat) by (simpl in Hf; lia).
    cbn [escape_comment_from]. destruct (c =? 38) eqn:Ea.
    + apply N.eqb_eq in Ea. subst c.
      change (unescape_fuel (S fuel) b ([38;97;109;112;59] ++ escape_comment_from (Some 38) d))
        with (let (o, rest) := unescape_entity b ([38;97;109;112;59] ++ escape_comment_from (Some 38) d) in o ++ unescape_fuel fuel b rest).
      rewrite unescape_entity_amp. cbn [app]. rewrite IH; auto.
    + destruct ((c =? 62) && match prev with None => true | Some p => (p =? 33) || (p =? 45) end) eqn:Eg.
      * apply andb_true_iff in Eg as [Eg _]. apply N.eqb_eq in Eg. subst c.
        change (unescape_fuel (S fuel) b ([38;103;116;59] ++ escape_comment_from (Some 62) d))
          with (let (o, rest) := unescape_entity b ([38;103;116;59] ++ escape_comment_from (Some 62) d) in o ++ unescape_fuel fuel b rest).
        rewrite unescape_entity_gt. cbn [app]. rewrite IH; auto.
      * cbn [app unescape_fuel]. change AMP with 38. rewrite Ea. rewrite IH; auto.
Qed.

Theorem unescape_escape_comment : forall b d, unescape b (escape_comment d) = d.
Proof.
  intros b d. unfold unescape, escape_comment. apply unescape_fuel_escape_comment.
  pose proof (escape_comment_from_length d None). lia.
Qed.
