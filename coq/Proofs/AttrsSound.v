(* Soundness of the attribute filter (C02), the URL gate (C03) and the style filter (C10):
   characterisations obtained by unfolding the model, for all inputs and policies. *)
From Coq Require Import List NArith Bool Lia.
Import ListNotations.
From BM Require Import Bytes Utf8 Strings Tokenizer Policy Url Style Attrs GenTables ForcedAttrs.
Open Scope N_scope.

Section Sound.
  Variables M U R : Type.
  Variable I : interp M U R.
  Variable p : policy M U R.

  (* ---- C10: the style filter ---------------------------------------------------------------- *)
  (* the rules consulted for a declaration: the element's (explicit entry, else merged pattern
     entries) then the global ones; the value is judged lower-cased with CSS escapes removed, the
     property lower-cased with vendor prefixes stripped *)
  Definition norm_prop (prop : bytes) : bytes := fold_left (fun acc pre => trim_prefix acc pre) style_prefixes (to_lower prop).
  Definition seen_value (v : bytes) : bytes := remove_unicode (to_lower v).
  Definition rules_for (elem prop : bytes) : list (style_policy M) :=
    (match lookup (norm_prop prop) (element_styles I p elem) with Some l => l | None => [] end) ++
    (match lookup (norm_prop prop) (globalStyles p) with Some l => l | None => [] end).

  (* a value that an undecodable escape has emptied is never judged (fix F16) *)
  Definition decodable (val : bytes) : bool :=
    negb ((match seen_value val with [] => true | _ => false end) && negb (match val with [] => true | _ => false end)) &&
    negb (unterminated val).

  Lemma decl_allowed_spec elem prop val :
    decl_allowed I p (element_styles I p elem) prop val =
    decodable val && existsb (style_accepts I (seen_value val)) (rules_for elem prop).
  Proof.
    unfold decl_allowed, rules_for, norm_prop, decodable, seen_value. rewrite existsb_app.
    destruct (lookup _ (element_styles I p elem)); destruct (lookup _ (globalStyles p)); reflexivity.
  Qed.

  Definition style_input (val : bytes) : bytes :=
    let v := trim_right_sp val in match rev v with [] => v | c :: _ => if c =? 59 then v else v ++ [59] end.

  Theorem sanitize_styles_spec elem val :
    sanitize_styles I p elem val =
    match css_decls I (style_input val) with
    | None => []
    | Some decs => join (map (fun d => fst d ++ [58; 32] ++ snd d)
                             (filter (fun d => decodable (snd d) && existsb (style_accepts I (seen_value (snd d))) (rules_for elem (fst d))) decs)) [59; 32]
    end.
  Proof.
    unfold sanitize_styles, style_input. destruct (css_decls I _) as [decs|]; [|reflexivity].
    f_equal. f_equal. apply filter_ext. intros d. apply decl_allowed_spec.
  Qed.

  (* a property without any rule is never kept *)
  Corollary unruled_property_dropped elem prop val : rules_for elem prop = [] ->
    decl_allowed I p (element_styles I p elem) prop val = false.
  Proof. intros H. rewrite decl_allowed_spec, H. apply andb_false_r. Qed.

  (* ---- C03: the URL gate ------------------------------------------------------------------- *)
  Definition scheme_ok (u : url) : Prop :=
    match lookup (u_scheme u) (allowURLSchemes p) with
    | None => existsb (fun r => mmatch I r (u_scheme u)) (allowURLSchemeRegexps p) = true
    | Some [] => True
    | Some pols => existsb (fun f => upol I f u) pols = true
    end.

  Definition scheme_gate (u : url) : option bytes :=
    match u_scheme u with
    | _ :: _ =>
      match lookup (u_scheme u) (allowURLSchemes p) with
      | None => if existsb (fun r => mmatch I r (u_scheme u)) (allowURLSchemeRegexps p) then Some (u_string u) else None
      | Some [] => Some (u_string u)
      | Some pols => if existsb (fun f => upol I f u) pols then Some (u_string u) else None
      end
    | [] => if allowRelativeURLs p then match u_string u with [] => None | s => Some s end else None
    end.

  Lemma scheme_gate_sound u out : scheme_gate u = Some out ->
    out = u_string u /\ (u_scheme u <> [] -> scheme_ok u) /\ (u_scheme u = [] -> allowRelativeURLs p = true /\ out <> []).
  Proof.
    unfold scheme_gate, scheme_ok. intros H.
    destruct (u_scheme u) as [|c sc] eqn:Es.
    - destruct (allowRelativeURLs p); [|discriminate]. destruct (u_string u) eqn:Est; [discriminate|].
      inversion H; subst. split; [reflexivity|]. split; [congruence|]. intros _. split; [reflexivity | discriminate].
    - destruct (lookup (c :: sc) (allowURLSchemes p)) as [[|f pols]|].
      + inversion H; subst. split; [reflexivity|]. split; [auto | discriminate].
      + destruct (existsb _ (f :: pols)) eqn:Ex; inversion H; subst. split; [reflexivity|]. split; [auto | discriminate].
      + destruct (existsb _ (allowURLSchemeRegexps p)) eqn:Ex; inversion H; subst. split; [reflexivity|]. split; [auto | discriminate].
  Qed.

  Theorem valid_url_sound raw out : requireParseableURLs p = true -> valid_url I p raw = Some out ->
    exists parsed u, url_parse I parsed = Some u /\ out = u_string u /\
      (u_scheme u <> [] -> scheme_ok u) /\
      (u_scheme u = [] -> allowRelativeURLs p = true /\ out <> []) /\
      (* white space survives only in data: values (the data-URI branch of validURL) *)
      (contains (trim_space raw) [32] || contains (trim_space raw) [9] || contains (trim_space raw) [10] = true ->
         has_prefix (trim_space raw) (B"data:") = true).
  Proof.
    intros Hp H. unfold valid_url in H. rewrite Hp in H.
    set (t := trim_space raw) in *.
    destruct (contains t [32] || contains t [9] || contains t [10]) eqn:Ews.
    - destruct (has_prefix t (B"data:")) eqn:Ed; cbn [negb andb] in H; [|discriminate].
      set (parsed := match data_b64_prefix t with Some (pre, rest) => pre ++ replace_all (replace_all rest [13] []) [10] [] | None => t end) in *.
      destruct (url_parse I parsed) as [u|] eqn:Eu; [|discriminate].
      exists parsed, u. split; [exact Eu|].
      destruct (scheme_gate_sound u out H) as (H1 & H2 & H3). split; [exact H1|]. split; [exact H2|]. split; [exact H3|]. intros _. reflexivity.
    - cbn [andb] in H.
      destruct (url_parse I t) as [u|] eqn:Eu; [|discriminate].
      exists t, u. split; [exact Eu|].
      destruct (scheme_gate_sound u out H) as (H1 & H2 & H3). split; [exact H1|]. split; [exact H2|]. split; [exact H3|]. intros Hc. discriminate.
  Qed.

  (* at a URL position the URL pass keeps an attribute only with the gate's (re-serialised, possibly
     rewritten) value; other attributes are untouched *)
  Theorem url_pass_attr_spec elem a :
    url_pass_attr I p elem a =
    match url_attr_of elem with
    | Some k => if key_is k a then
                  match valid_url I p (aval a) with
                  | Some u => [(akey a, if beqb k (B"src") then match srcRewriter p with Some f => rewrite I f u | None => u end else u)]
                  | None => []
                  end
                else [a]
    | None => [a]
    end.
  Proof. unfold url_pass_attr. destruct (url_attr_of elem); reflexivity. Qed.

  (* ---- C02: the attribute filter ----------------------------------------------------------- *)
  Definition attr_justified (elem : bytes) (aps : amap (list (attr_policy M))) (a0 a : attr) : Prop :=
    (allowDataAttributes p = true /\ is_data_attribute (akey a0) = true /\ a = a0) \/
    (key_is (B"style") a0 = true /\ has_style_policies I p elem = true /\
       akey a = akey a0 /\ aval a = sanitize_styles I p elem (aval a0) /\ aval a <> []) \/
    (rules_accept I aps a0 = true /\ a = a0) \/
    (rules_accept I (globalAttrs p) a0 = true /\ a = a0).

  Theorem filter_attr_sound elem aps hsp a0 a : hsp = has_style_policies I p elem ->
    In a (filter_attr I p elem aps hsp a0) -> attr_justified elem aps a0 a.
  Proof.
    intros -> Hin. unfold filter_attr in Hin. unfold attr_justified.
    destruct (allowDataAttributes p && is_data_attribute (akey a0)) eqn:Ed.
    - apply andb_true_iff in Ed as [E1 E2]. destruct Hin as [<-|[]]. left; auto.
    - destruct (key_is (B"style") a0 && has_style_policies I p elem) eqn:Es.
      + apply andb_true_iff in Es as [E1 E2]. right; left.
        destruct (sanitize_styles I p elem (aval a0)) eqn:Ev; [contradiction|]. destruct Hin as [<-|[]].
        split; [exact E1|]. split; [exact E2|]. split; [reflexivity|]. split; [reflexivity | cbn; discriminate].
      + destruct (rules_accept I aps a0) eqn:Er; [destruct Hin as [<-|[]]; right; right; left; auto|].
        destruct (rules_accept I (globalAttrs p) a0) eqn:Eg; [destruct Hin as [<-|[]]; right; right; right; auto|].
        contradiction.
  Qed.

  (* a rule accepts: the key has a rule list and some rule has no pattern or its pattern accepts the value *)
  Lemma rules_accept_spec rules a : rules_accept I rules a = true <->
    exists apl ap, lookup (akey a) rules = Some apl /\ In ap apl /\
                   match ap with None => True | Some r => mmatch I r (aval a) = true end.
  Proof.
    unfold rules_accept. destruct (lookup (akey a) rules) as [apl|]; split.
    - intros H. apply existsb_exists in H as (ap & Hin & Hacc). exists apl, ap. repeat split; auto.
      destruct ap; simpl in Hacc; auto.
    - intros (apl' & ap & E & Hin & Hacc). inversion E; subst. apply existsb_exists. exists ap. split; auto.
      destruct ap; simpl; auto.
    - discriminate.
    - intros (apl' & ap & E & _). discriminate.
  Qed.
End Sound.

Arguments norm_prop prop.
Arguments seen_value v.
Arguments rules_for {M U R} I p elem prop.
Arguments style_input val.
Arguments sanitize_styles_spec {M U R} I p elem val.
Arguments unruled_property_dropped {M U R} I p elem prop val.
Arguments scheme_ok {M U R} I p u.
Arguments valid_url_sound {M U R} I p raw out.
Arguments url_pass_attr_spec {M U R} I p elem a.
Arguments attr_justified {M U R} I p elem aps a0 a.
Arguments filter_attr_sound {M U R} I p elem aps hsp a0 a.
Arguments rules_accept_spec {M U R} I rules a.
