(* The keys of the attributes returned by sanitizeAttrs are keys of the input attributes or one of
   the four forced keys: any predicate on keys that holds of rel, target, crossorigin, sandbox is
   preserved. *)
From Coq Require Import List NArith Bool Lia.
Import ListNotations.
From BM Require Import Bytes Utf8 Strings Tokenizer Policy Url Style Attrs GenTables.
Open Scope N_scope.

Section Keys.
  Variables M U R : Type.
  Variable I : interp M U R.
  Variable p : policy M U R.
  Variable Q : bytes -> Prop.
  Hypothesis Qrel : Q (B"rel").
  Hypothesis Qtarget : Q (B"target").
  Hypothesis Qcross : Q (B"crossorigin").
  Hypothesis Qsandbox : Q (B"sandbox").

  Definition QA (l : list attr) : Prop := Forall (fun kv => Q (fst kv)) l.

  Lemma QA_flat_map (f : attr -> list attr) l : (forall a, Q (fst a) -> QA (f a)) -> QA l -> QA (flat_map f l).
  Proof.
    intros Hf. induction 1 as [|a l Ha Hl IH]; cbn; [constructor|]. apply Forall_app. split; [apply Hf; exact Ha | exact IH].
  Qed.
  Lemma QA_map (f : attr -> attr) l : (forall a, Q (fst a) -> Q (fst (f a))) -> QA l -> QA (map f l).
  Proof. intros Hf. induction 1 as [|a l Ha Hl IH]; cbn; constructor; [apply Hf; exact Ha | exact IH]. Qed.
  Lemma QA_app l1 l2 : QA l1 -> QA l2 -> QA (l1 ++ l2).
  Proof. intros. apply Forall_app; auto. Qed.

  Lemma filter_attr_keys elem aps hsp a : Q (fst a) -> QA (filter_attr I p elem aps hsp a).
  Proof.
    intros Ha. unfold filter_attr.
    destruct (allowDataAttributes p && is_data_attribute (akey a)); [repeat constructor; auto|].
    destruct (key_is (B"style") a && hsp).
    - destruct (sanitize_styles I p elem (aval a)); repeat constructor; auto.
    - destruct (rules_accept I aps a); [repeat constructor; auto|].
      destruct (rules_accept I (globalAttrs p) a); repeat constructor; auto.
  Qed.

  Lemma url_pass_attr_keys elem a : Q (fst a) -> QA (url_pass_attr I p elem a).
  Proof.
    intros Ha. unfold url_pass_attr. destruct (url_attr_of elem); [|repeat constructor; auto].
    destruct (key_is b a); [|repeat constructor; auto].
    destruct (valid_url I p (aval a)); repeat constructor; auto.
  Qed.

  Lemma link_pass1_keys is_a nfq nrq tbq : forall attrs nf nr tb r nf' nr' tb',
    link_pass1 is_a nfq nrq tbq attrs nf nr tb = (r, nf', nr', tb') -> QA attrs -> QA r.
  Proof.
    induction attrs as [|a rest IH]; intros nf nr tb r nf' nr' tb' H Hq; cbn [link_pass1] in H.
    - inversion H; subst. constructor.
    - inversion Hq as [|? ? Ha Hrest]; subst.
      destruct (key_is (B"rel") a && (nfq || nrq)).
      + destruct (link_pass1 is_a nfq nrq tbq rest nfq nrq tb) as [[[r0 x] y] z] eqn:E. inversion H; subst.
        constructor; [exact Ha | eapply IH; eauto].
      + destruct (is_a && key_is (B"target") a).
        * destruct (tbq && negb (tb || beqb (aval a) (B"_blank"))).
          -- destruct (link_pass1 is_a nfq nrq tbq rest nf nr true) as [[[r0 x] y] z] eqn:E. inversion H; subst.
             constructor; [exact Ha | eapply IH; eauto].
          -- destruct (link_pass1 is_a nfq nrq tbq rest nf nr (tb || beqb (aval a) (B"_blank"))) as [[[r0 x] y] z] eqn:E. inversion H; subst.
             constructor; [exact Ha | eapply IH; eauto].
        * destruct (link_pass1 is_a nfq nrq tbq rest nf nr tb) as [[[r0 x] y] z] eqn:E. inversion H; subst.
          constructor; [exact Ha | eapply IH; eauto].
  Qed.

  Lemma noopener_pass_keys attrs : QA attrs -> QA (noopener_pass attrs).
  Proof.
    intros Hq. unfold noopener_pass. destruct (existsb (key_is (B"rel")) attrs).
    - apply QA_map; auto. intros a Ha. destruct (key_is (B"rel") a); [destruct (has_rel_token _ _)|]; auto.
    - apply QA_app; auto. repeat constructor; auto.
  Qed.

  Lemma link_pass_keys elem attrs : QA attrs -> QA (link_pass I p elem attrs).
  Proof.
    intros Hq. unfold link_pass.
    match goal with |- QA (if ?c then _ else _) => destruct c end; [|exact Hq].
    destruct (href_external I attrs) as [hf ext]. destruct hf; [|exact Hq].
    match goal with |- context [link_pass1 ?a ?b ?c ?d attrs false false false] =>
      destruct (link_pass1 a b c d attrs false false false) as [[[tmp nf] nr] tb] eqn:E end.
    pose proof (link_pass1_keys _ _ _ _ _ _ _ _ _ _ _ _ E Hq) as Ht.
    set (attrs1 := if nf || nr || tb then tmp else attrs).
    assert (H1 : QA attrs1) by (subst attrs1; destruct (nf || nr || tb); auto).
    match goal with |- context [if ?c then attrs1 ++ ?x else attrs1] => set (attrs2 := if c then attrs1 ++ x else attrs1) end.
    assert (H2 : QA attrs2).
    { subst attrs2. match goal with |- QA (if ?c then _ else _) => destruct c end; auto. apply QA_app; auto. repeat constructor; auto. }
    match goal with |- context [if ?c then (attrs2 ++ ?x, true) else (attrs2, tb)] => destruct c end.
    - apply noopener_pass_keys. apply QA_app; auto. repeat constructor; auto.
    - destruct tb; [apply noopener_pass_keys|]; auto.
  Qed.

  Lemma crossorigin_pass_keys elem attrs : QA attrs -> QA (crossorigin_pass p elem attrs).
  Proof.
    intros Hq. unfold crossorigin_pass.
    match goal with |- QA (if ?c then _ else _) => destruct c end; [|exact Hq].
    destruct (existsb (key_is (B"crossorigin")) attrs).
    - apply QA_map; auto. intros a Ha. destruct (key_is _ a); auto.
    - apply QA_app; auto. repeat constructor; auto.
  Qed.

  Lemma sandbox_pass_keys elem attrs : QA attrs -> QA (sandbox_pass p elem attrs).
  Proof.
    intros Hq. unfold sandbox_pass. destruct (requireSandbox p); [|exact Hq].
    destruct (beqb elem (B"iframe")); [|exact Hq].
    destruct (existsb (key_is (B"sandbox")) attrs).
    - apply QA_map; auto. intros a Ha. destruct (key_is _ a); auto.
    - apply QA_app; auto. repeat constructor; auto.
  Qed.

  Theorem sanitize_attrs_keys elem attrs aps : QA attrs -> QA (sanitize_attrs I p elem attrs aps).
  Proof.
    intros Hq. unfold sanitize_attrs. destruct attrs as [|a0 attrs0]; [constructor|].
    set (clean := flat_map _ _).
    assert (Hc : QA clean) by (subst clean; apply QA_flat_map; auto using filter_attr_keys).
    destruct clean as [|c0 cl] eqn:Ec; [constructor|]. rewrite <- Ec in *.
    apply sandbox_pass_keys, crossorigin_pass_keys.
    destruct (linkable elem); auto. apply link_pass_keys.
    destruct (requireParseableURLs p); auto. apply QA_flat_map; auto using url_pass_attr_keys.
  Qed.
End Keys.
