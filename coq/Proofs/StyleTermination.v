(* removeUnicode makes progress: every escape it decodes is replaced by something strictly shorter,
   so the loop ends on every input and the fuel of the model is never exhausted (C14). *)
From Coq Require Import List Arith NArith Bool Lia.
Import ListNotations.
From BM Require Import Bytes Utf8 Strings Style.
Open Scope N_scope.

Definition lhex (c : N) : Prop := is_lhex c = true.

Lemma take_hex_spec : forall n s a r, take_hex n s = (a, r) -> s = a ++ r /\ (length a <= n)%nat /\ Forall lhex a.
Proof.
  induction n as [|n IH]; intros s a r H; cbn [take_hex] in H.
  - inversion H; subst. split; [reflexivity|]. split; [cbn; lia | constructor].
  - destruct s as [|c s']; [inversion H; subst; split; [reflexivity|]; split; [cbn; lia | constructor]|].
    destruct (is_lhex c) eqn:E.
    + destruct (take_hex n s') as [a' r'] eqn:E'. inversion H; subst. destruct (IH _ _ _ E') as (-> & Hl & Hf).
      split; [reflexivity|]. split; [cbn; lia | constructor; [exact E | exact Hf]].
    + inversion H; subst. split; [reflexivity|]. split; [cbn; lia | constructor].
Qed.

(* what find_escape returns: the string is prefix, backslash, 1..6 hex digits, optional blank, rest *)
Lemma find_escape_spec : forall s pre h sp rest, find_escape s = Some (pre, h, sp, rest) ->
  length s = (length pre + 1 + length h + (if sp then 1 else 0) + length rest)%nat /\
  (1 <= length h <= 6)%nat /\ Forall lhex h.
Proof.
  induction s as [|c s IH]; intros pre h sp rest H; cbn [find_escape] in H; [discriminate|].
  assert (Hcont : match find_escape s with Some (pre0, h0, sp0, r0) => Some (c :: pre0, h0, sp0, r0) | None => None end = Some (pre, h, sp, rest) ->
            length (c :: s) = (length pre + 1 + length h + (if sp then 1 else 0) + length rest)%nat /\ (1 <= length h <= 6)%nat /\ Forall lhex h).
  { intros H'. destruct (find_escape s) as [[[[pre0 h0] sp0] r0]|] eqn:E; [|discriminate]. inversion H'; subst.
    destruct (IH _ _ _ _ eq_refl) as (L & B0 & F). split; [cbn [length]; lia | split; assumption]. }
  destruct (c =? 92); [|exact (Hcont H)].
  destruct (take_hex 6 s) as [hx r] eqn:Et. destruct (take_hex_spec _ _ _ _ Et) as (-> & Hl & Hf).
  destruct hx as [|x hx']; [exact (Hcont H)|].
  destruct r as [|d r'].
  - inversion H; subst. split; [cbn [length]; rewrite !app_length; cbn; lia|]. split; [cbn [length] in *; lia | exact Hf].
  - destruct (d =? 32); inversion H; subst; (split; [cbn [length]; rewrite !app_length; cbn [length]; lia|]); (split; [cbn [length] in *; lia | exact Hf]).
Qed.

Lemma hex_digit_small c : lhex c -> (if is_digit c then c - 48 else c - 87) < 16.
Proof.
  unfold lhex, is_lhex, is_digit. intros H. destruct ((48 <=? c) && (c <=? 57)) eqn:E.
  - apply andb_true_iff in E as [E1 E2]. apply N.leb_le in E1, E2. lia.
  - cbn [orb] in H. apply andb_true_iff in H as [H1 H2]. apply N.leb_le in H1, H2. lia.
Qed.

Definition dv (c : N) : N := if is_digit c then c - 48 else c - 87.

(* at most four hex digits: the value is below 16^length, and its UTF-8 form is no longer than the digits *)
Lemma encode_short h4 : (length h4 <= 4)%nat -> h4 <> [] -> Forall lhex h4 ->
  (55296 <=? hex_value h4) && (hex_value h4 <=? 57343) = false ->
  (length (encode1 (hex_value h4)) <= length h4)%nat.
Proof.
  intros Hl Hne Hf Hs.
  assert (Hlen : forall r, r < 65536 -> (55296 <=? r) && (r <=? 57343) = false ->
            (length (encode1 r) <= (if (r <? 128)%N then 1 else if (r <? 2048)%N then 2 else 3))%nat).
  { intros r Hr Hsr. unfold encode1, in_rng. rewrite Hsr. assert ((1114111 <? r) = false) as -> by (apply N.ltb_ge; lia). cbn [orb].
    destruct (r <? 128); [cbn; lia|]. destruct (r <? 2048); [cbn; lia|].
    assert ((r <? 65536) = true) as -> by (apply N.ltb_lt; exact Hr). cbn; lia. }
  destruct h4 as [|a [|b [|c [|d [|e t]]]]]; [congruence| | | | |cbn in Hl; lia].
  - inversion Hf as [|? ? Ha _]; subst. pose proof (hex_digit_small a Ha) as Da. fold (dv a) in Da.
    assert (E : hex_value [a] = dv a) by (unfold hex_value, dv; cbn; lia).
    rewrite E in *. assert (B0 : dv a < 65536) by lia. pose proof (Hlen _ B0 Hs) as L.
    assert ((dv a <? 128) = true) as Hx by (apply N.ltb_lt; lia). rewrite Hx in L. exact L.
  - inversion Hf as [|? ? Ha Hf1]; subst. inversion Hf1 as [|? ? Hb _]; subst.
    pose proof (hex_digit_small a Ha) as Da. pose proof (hex_digit_small b Hb) as Db. fold (dv a) in Da. fold (dv b) in Db.
    assert (E : hex_value [a; b] = 16 * dv a + dv b) by (unfold hex_value, dv; cbn; lia).
    rewrite E in *. assert (B0 : 16 * dv a + dv b < 65536) by lia. pose proof (Hlen _ B0 Hs) as L.
    destruct (16 * dv a + dv b <? 128); [cbn [length]; lia|].
    assert ((16 * dv a + dv b <? 2048) = true) as Hx by (apply N.ltb_lt; lia). rewrite Hx in L. exact L.
  - inversion Hf as [|? ? Ha Hf1]; subst. inversion Hf1 as [|? ? Hb Hf2]; subst. inversion Hf2 as [|? ? Hc _]; subst.
    pose proof (hex_digit_small a Ha) as Da. pose proof (hex_digit_small b Hb) as Db. pose proof (hex_digit_small c Hc) as Dc.
    fold (dv a) in Da. fold (dv b) in Db. fold (dv c) in Dc.
    assert (E : hex_value [a; b; c] = 16 * (16 * dv a + dv b) + dv c) by (unfold hex_value, dv; cbn; lia).
    rewrite E in *. assert (B0 : 16 * (16 * dv a + dv b) + dv c < 65536) by lia. pose proof (Hlen _ B0 Hs) as L.
    destruct (_ <? 128); [cbn [length]; lia|]. destruct (_ <? 2048); cbn [length]; lia.
  - inversion Hf as [|? ? Ha Hf1]; subst. inversion Hf1 as [|? ? Hb Hf2]; subst. inversion Hf2 as [|? ? Hc Hf3]; subst. inversion Hf3 as [|? ? Hd _]; subst.
    pose proof (hex_digit_small a Ha) as Da. pose proof (hex_digit_small b Hb) as Db. pose proof (hex_digit_small c Hc) as Dc. pose proof (hex_digit_small d Hd) as Dd.
    fold (dv a) in Da. fold (dv b) in Db. fold (dv c) in Dc. fold (dv d) in Dd.
    assert (E : hex_value [a; b; c; d] = 16 * (16 * (16 * dv a + dv b) + dv c) + dv d) by (unfold hex_value, dv; cbn; lia).
    rewrite E in *. assert (B0 : 16 * (16 * (16 * dv a + dv b) + dv c) + dv d < 65536) by lia. pose proof (Hlen _ B0 Hs) as L.
    destruct (_ <? 128); [cbn [length]; lia|]. destruct (_ <? 2048); cbn [length]; lia.
Qed.

(* ---- trimming never lengthens ---- *)
Lemma decode1_rest_shorter s r rest : decode1 s = Some (r, rest) -> (length rest < length s)%nat.
Proof.
  unfold decode1. destruct s as [|c0 r0]; [discriminate|]. intros H.
  destruct (c0 <? 128); [inversion H; subst; cbn; lia|].
  assert (Hbad : Some (rune_error, r0) = Some (r, rest) -> (length rest < length (c0 :: r0))%nat) by (intros E; inversion E; subst; cbn; lia).
  destruct (in_rng 194 223 c0).
  { destruct r0 as [|c1 r1]; [exact (Hbad H)|]. destruct (cont c1); [inversion H; subst; cbn; lia | exact (Hbad H)]. }
  destruct (in_rng 224 239 c0).
  { destruct r0 as [|c1 [|c2 r2]]; try exact (Hbad H). destruct (_ && _); [inversion H; subst; cbn; lia | exact (Hbad H)]. }
  destruct (in_rng 240 244 c0).
  { destruct r0 as [|c1 [|c2 [|c3 r3]]]; try exact (Hbad H). destruct (_ && _ && _); [inversion H; subst; cbn; lia | exact (Hbad H)]. }
  exact (Hbad H).
Qed.

Lemma trim_left_fuel_length : forall fuel s, (length (trim_left_fuel fuel s) <= length s)%nat.
Proof.
  induction fuel as [|f IH]; intros s; cbn [trim_left_fuel]; [lia|].
  destruct (decode1 s) as [[r rest]|] eqn:E; [|lia]. destruct (is_space_rune r); [|lia].
  pose proof (decode1_rest_shorter _ _ _ E). pose proof (IH rest). lia.
Qed.

Lemma trim_space_length s : (length (trim_space s) <= length s)%nat.
Proof.
  unfold trim_space, trim_right_space, trim_left_space. rewrite firstn_length.
  pose proof (trim_left_fuel_length (length s) s). lia.
Qed.

(* ---- one step of the loop strictly shortens the value ---- *)
Fixpoint strip_zeros (n : nat) (h : bytes) : option bytes :=
  match n with
  | O => Some h
  | S k => match h with
           | c :: h' => if Nat.leb (length h) 4 then Some h else if c =? 48 then strip_zeros k h' else None
           | [] => Some h
           end
  end.
Lemma escape_replacement_unfold h :
  escape_replacement h = match strip_zeros 3 h with
                         | None => None
                         | Some h4 => if (55296 <=? hex_value h4) && (hex_value h4 <=? 57343) then None
                                      else Some (trim_space (encode1 (hex_value h4)))
                         end.
Proof. reflexivity. Qed.

Lemma strip_zeros_spec : forall n x h4, (length x <= 4 + n)%nat -> Forall lhex x -> x <> [] -> strip_zeros n x = Some h4 ->
  (length h4 <= 4)%nat /\ (length h4 <= length x)%nat /\ Forall lhex h4 /\ h4 <> [].
Proof.
  induction n as [|n IHn]; intros x h4 Hx Hfx Hne Hs; cbn [strip_zeros] in Hs.
  - inversion Hs; subst. repeat split; auto; lia.
  - destruct x as [|c x']; [congruence|]. destruct (Nat.leb (length (c :: x')) 4) eqn:E.
    + inversion Hs; subst. apply Nat.leb_le in E. repeat split; auto.
    + apply Nat.leb_gt in E. destruct (c =? 48); [|discriminate Hs]. inversion Hfx; subst.
      assert (Hx' : x' <> []) by (destruct x'; [cbn in E; lia | discriminate]).
      assert (Hlen : (length x' <= 4 + n)%nat) by (cbn in Hx; lia).
      destruct (IHn x' h4 Hlen H2 Hx' Hs) as (A & B0 & C & D). repeat split; auto. cbn; lia.
Qed.

Lemma replacement_short h rep : (1 <= length h <= 6)%nat -> Forall lhex h -> escape_replacement h = Some rep ->
  (length rep <= length h)%nat.
Proof.
  intros Hl Hf H. rewrite escape_replacement_unfold in H.
  destruct (strip_zeros 3 h) as [h4|] eqn:Es; [|discriminate H].
  assert (Hne : h <> []) by (destruct h; [cbn in Hl; lia | discriminate]).
  assert (Hlen : (length h <= 4 + 3)%nat) by lia.
  destruct (strip_zeros_spec 3%nat h h4 Hlen Hf Hne Es) as (A & B0 & C & D).
  destruct ((55296 <=? hex_value h4) && (hex_value h4 <=? 57343)) eqn:Esur; [discriminate H|].
  inversion H; subst. pose proof (trim_space_length (encode1 (hex_value h4))). pose proof (encode_short h4 A D C Esur). lia.
Qed.

Lemma step_shrinks s pre h sp rest rep : find_escape s = Some (pre, h, sp, rest) -> escape_replacement h = Some rep ->
  (length (pre ++ rep ++ rest) < length s)%nat.
Proof.
  intros Hf Hr. destruct (find_escape_spec _ _ _ _ _ Hf) as (L & B0 & F).
  pose proof (replacement_short h rep B0 F Hr). rewrite !app_length. destruct sp; lia.
Qed.

(* ---- the loop ends with no escape left (or gives the value up), and never for lack of fuel ---- *)
Theorem remove_unicode_fuel_enough : forall fuel s, (length s < fuel)%nat ->
  remove_unicode_fuel fuel s = [] \/ find_escape (remove_unicode_fuel fuel s) = None.
Proof.
  induction fuel as [|f IH]; intros s Hlt; [lia|]. cbn [remove_unicode_fuel].
  destruct (find_escape s) as [[[[pre h] sp] rest]|] eqn:E; [|right; exact E].
  destruct (escape_replacement h) as [rep|] eqn:Er; [|left; reflexivity].
  apply IH. pose proof (step_shrinks _ _ _ _ _ _ E Er). lia.
Qed.

Corollary remove_unicode_complete s : remove_unicode s = [] \/ find_escape (remove_unicode s) = None.
Proof. apply remove_unicode_fuel_enough. lia. Qed.

(* more fuel changes nothing: the model is the unbounded loop *)
Theorem remove_unicode_fuel_irrelevant : forall f1 f2 s, (length s < f1)%nat -> (length s < f2)%nat ->
  remove_unicode_fuel f1 s = remove_unicode_fuel f2 s.
Proof.
  induction f1 as [|f1 IH]; intros f2 s H1 H2; [lia|]. destruct f2 as [|f2]; [lia|]. cbn [remove_unicode_fuel].
  destruct (find_escape s) as [[[[pre h] sp] rest]|] eqn:E; [|reflexivity].
  destruct (escape_replacement h) as [rep|] eqn:Er; [|reflexivity].
  pose proof (step_shrinks _ _ _ _ _ _ E Er). apply IH; lia.
Qed.
