(* Idempotence of sanitizeAttrs, two more cases, stated with the attributes a pass can force ON THE
   ELEMENT AT HAND (rel on a/area/base/link, target on a, crossorigin on audio/img/link/script/video):
   (1) the policy allows none of those (whatever it does with the other forced names, which no pass
       touches on this element);
   (2) link: rel allowed without a pattern, crossorigin not allowed: the forced crossorigin is the
       last attribute written, the second pass drops it and writes it again in the same place.
   With AttrIdemAccepted (all of them allowed) this covers every combination except those refuted
   by F15 (a: exactly one of rel / target allowed) and F17 (link: crossorigin allowed, rel not). *)
From Coq Require Import List NArith Bool Lia.
Import ListNotations.
From BM Require Import Bytes Utf8 Strings Tokenizer Policy Url Style Attrs Loop GenTables ForcedAttrs LinkProofs LinkCompose
  AttrProvenance AttrIdem AttrIdemLinks LinkIdem AttrIdemAccepted.
Open Scope N_scope.

Definition relevant (elem k : bytes) : bool :=
  (mem elem link_rel_elements && beqb k REL) || (beqb elem (B"a") && beqb k TARGET) || (mem elem crossorigin_elements && beqb k CROSSORIGIN).
Definition nonrel (elem : bytes) (a : attr) : bool := negb (relevant elem (akey a)).

Lemma nr_map elem (f : attr -> attr) l :
  (forall a, nonrel elem a = true -> f a = a) -> (forall a, nonrel elem a = false -> nonrel elem (f a) = false) ->
  filter (nonrel elem) (map f l) = filter (nonrel elem) l.
Proof.
  intros H1 H2. induction l as [|a l IH]; cbn [map filter]; [reflexivity|].
  destruct (nonrel elem a) eqn:E.
  - rewrite (H1 a E), E, IH. reflexivity.
  - rewrite (H2 a E), IH. reflexivity.
Qed.

Lemma nr_app elem l k v : relevant elem k = true -> filter (nonrel elem) (l ++ [(k, v)]) = filter (nonrel elem) l.
Proof. intros H. rewrite filter_app. cbn [filter]. unfold nonrel, akey. cbn [fst]. rewrite H. cbn. apply app_nil_r. Qed.

Lemma key_rel_nonrel elem k a : relevant elem k = true -> key_is k a = true -> nonrel elem a = false.
Proof. intros Hk Ha. unfold nonrel. unfold key_is in Ha. apply beqb_eq in Ha. rewrite Ha, Hk. reflexivity. Qed.
Lemma key_rel_nonrel_pair elem k a v : relevant elem k = true -> key_is k a = true -> nonrel elem (akey a, v) = false.
Proof. intros Hk Ha. unfold nonrel, akey. cbn [fst]. unfold key_is, akey in Ha. apply beqb_eq in Ha. rewrite Ha, Hk. reflexivity. Qed.

Lemma nr_key_map elem k (g : attr -> bytes) l : relevant elem k = true ->
  filter (nonrel elem) (map (fun a => if key_is k a then (akey a, g a) else a) l) = filter (nonrel elem) l.
Proof.
  intros Hk. apply nr_map.
  - intros a Ha. destruct (key_is k a) eqn:E; [|reflexivity]. rewrite (key_rel_nonrel elem k a Hk E) in Ha. discriminate.
  - intros a Ha. destruct (key_is k a) eqn:E; [apply (key_rel_nonrel_pair elem k a _ Hk E) | exact Ha].
Qed.

Section Passes.
  Variables M U R : Type.
  Variable I : interp M U R.
  Variable p : policy M U R.
  Variable elem : bytes.

  Lemma rel_REL : mem elem link_rel_elements = true -> relevant elem REL = true.
  Proof. intros H. unfold relevant. rewrite H. reflexivity. Qed.
  Lemma rel_TARGET : beqb elem (B"a") = true -> relevant elem TARGET = true.
  Proof. intros H. unfold relevant. rewrite H. apply orb_true_iff. left. apply orb_true_iff. right. reflexivity. Qed.
  Lemma rel_CO : mem elem crossorigin_elements = true -> relevant elem CROSSORIGIN = true.
  Proof. intros H. unfold relevant. rewrite H. apply orb_true_iff. right. reflexivity. Qed.

  Lemma lp1_nonrel nfq nrq tbq : mem elem link_rel_elements = true -> forall attrs nf nr tb r nf' nr' tb',
    link_pass1 (beqb elem (B"a")) nfq nrq tbq attrs nf nr tb = (r, nf', nr', tb') -> filter (nonrel elem) r = filter (nonrel elem) attrs.
  Proof.
    intros He. induction attrs as [|a rest IH]; intros nf nr tb r nf' nr' tb' H; cbn [link_pass1] in H.
    - inversion H; reflexivity.
    - destruct (key_is REL a && (nfq || nrq)) eqn:Erel.
      + apply andb_true_iff in Erel as [Ek _].
        destruct (link_pass1 (beqb elem (B"a")) nfq nrq tbq rest nfq nrq tb) as [[[r0 x] y] z] eqn:E0. inversion H; subst.
        cbn [filter]. rewrite (key_rel_nonrel_pair _ _ a _ (rel_REL He) Ek), (key_rel_nonrel _ _ a (rel_REL He) Ek). eapply IH; eauto.
      + destruct (beqb elem (B"a") && key_is TARGET a) eqn:Etg.
        * apply andb_true_iff in Etg as [Ea Ekt].
          destruct (tbq && negb (tb || beqb (aval a) BLANK)).
          -- destruct (link_pass1 (beqb elem (B"a")) nfq nrq tbq rest nf nr true) as [[[r0 x] y] z] eqn:E0. inversion H; subst.
             cbn [filter]. rewrite (key_rel_nonrel_pair _ _ a _ (rel_TARGET Ea) Ekt), (key_rel_nonrel _ _ a (rel_TARGET Ea) Ekt). eapply IH; eauto.
          -- destruct (link_pass1 (beqb elem (B"a")) nfq nrq tbq rest nf nr (tb || beqb (aval a) BLANK)) as [[[r0 x] y] z] eqn:E0. inversion H; subst.
             cbn [filter]. erewrite IH by eauto. reflexivity.
        * destruct (link_pass1 (beqb elem (B"a")) nfq nrq tbq rest nf nr tb) as [[[r0 x] y] z] eqn:E0. inversion H; subst.
          cbn [filter]. erewrite IH by eauto. reflexivity.
  Qed.

  Lemma noopener_nonrel l : mem elem link_rel_elements = true -> filter (nonrel elem) (noopener_pass l) = filter (nonrel elem) l.
  Proof.
    intros He. unfold noopener_pass. destruct (existsb (key_is REL) l).
    - apply nr_map.
      + intros a Ha. destruct (key_is REL a) eqn:E; [|reflexivity]. rewrite (key_rel_nonrel _ _ a (rel_REL He) E) in Ha. discriminate.
      + intros a Ha. destruct (key_is REL a) eqn:E; [|exact Ha]. destruct (has_rel_token _ _); [exact Ha | apply (key_rel_nonrel_pair _ _ a _ (rel_REL He) E)].
    - apply nr_app. apply rel_REL. exact He.
  Qed.

  Lemma link_pass_nonrel l : filter (nonrel elem) (link_pass I p elem l) = filter (nonrel elem) l.
  Proof.
    assert (D : forall b : bool, {b = true} + {b = false}) by (intros [|]; [left | right]; reflexivity).
    destruct (D (mem elem link_rel_elements)) as [He|He].
    2:{ unfold link_pass. rewrite He, andb_false_r. reflexivity. }
    unfold link_pass. match goal with |- context [if ?c then _ else l] => destruct c end; [|reflexivity].
    destruct (href_external I l) as [hf ext]. destruct hf; [|reflexivity].
    match goal with |- context [link_pass1 ?a ?b ?c ?d l false false false] =>
      destruct (link_pass1 a b c d l false false false) as [[[tmp nf] nr] tb] eqn:E end.
    pose proof (lp1_nonrel _ _ _ He _ _ _ _ _ _ _ _ E) as Ht.
    set (attrs1 := if nf || nr || tb then tmp else l).
    assert (H1 : filter (nonrel elem) attrs1 = filter (nonrel elem) l) by (subst attrs1; destruct (nf || nr || tb); [exact Ht | reflexivity]).
    match goal with |- context [if ?c then attrs1 ++ ?x else attrs1] => set (attrs2 := if c then attrs1 ++ x else attrs1) end.
    assert (H2 : filter (nonrel elem) attrs2 = filter (nonrel elem) l).
    { subst attrs2. match goal with |- context [if ?c then _ else _] => destruct c end; [|exact H1]. rewrite nr_app by (apply rel_REL; exact He). exact H1. }
    destruct (D (beqb elem (B"a"))) as [Ea|Ea]; rewrite Ea.
    - match goal with |- context [if ?c then (attrs2 ++ ?x, true) else (attrs2, tb)] => destruct c end.
      + rewrite noopener_nonrel by exact He. rewrite nr_app by (apply rel_TARGET; exact Ea). exact H2.
      + destruct tb; [rewrite noopener_nonrel by exact He|]; exact H2.
    - cbn [andb]. cbv iota beta. destruct tb; [rewrite noopener_nonrel by exact He|]; exact H2.
  Qed.

  Lemma crossorigin_nonrel l : filter (nonrel elem) (crossorigin_pass p elem l) = filter (nonrel elem) l.
  Proof.
    assert (D : forall b : bool, {b = true} + {b = false}) by (intros [|]; [left | right]; reflexivity).
    unfold crossorigin_pass. destruct (D (mem elem crossorigin_elements)) as [He|He]; rewrite He; [|rewrite andb_false_r; reflexivity].
    match goal with |- context [if ?c then _ else l] => destruct c end; [|reflexivity].
    destruct (existsb _ l); [apply (nr_key_map elem CROSSORIGIN (fun _ => B"anonymous")); apply rel_CO; exact He | apply nr_app; apply rel_CO; exact He].
  Qed.
End Passes.

(* ---- (1) none of the relevant forced attributes is allowed ---- *)
Section Rejected.
  Variables M U R : Type.
  Variable I : interp M U R.
  Variable p : policy M U R.
  Variable elem : bytes.
  Variable aps : amap (list (attr_policy M)).
  Notation Fa := (filter_attr I p elem aps (has_style_policies I p elem)).

  Hypothesis Hstyle : style_stable M U R I p elem.
  Hypothesis Hrej : forall k v, relevant elem k = true -> Fa (k, v) = [].
  Hypothesis Hurl : forall k v u, url_attr_of elem = Some k -> Fa (k, v) = [(k, v)] -> Fa (k, u) = [(k, u)].
  Hypothesis Hrw : srcRewriter p = None.
  Hypothesis Hstable : forall raw u, valid_url I p raw = Some u -> valid_url I p u = Some u.
  Hypothesis Hnosandbox : forall l, sandbox_pass p elem l = l.

  Definition rsettled (a : attr) : Prop := nonrel elem a = true /\ Fa a = [a].
  Definition rurl_settled (a : attr) : Prop := rsettled a /\ url_pass_attr I p elem a = [a].

  Lemma F_rsettled l : Forall rsettled (flat_map Fa l).
  Proof.
    apply Forall_forall. intros a Ha. apply in_flat_map in Ha as (a0 & _ & Ha).
    pose proof (filter_attr_kept M U R I p elem aps a0 a Hstyle Ha) as E. split; [|exact E].
    destruct (nonrel elem a) eqn:En; [reflexivity|]. exfalso. unfold nonrel in En. apply negb_false_iff in En.
    destruct a as [k v]. cbn [akey fst] in En. rewrite (Hrej k v En) in E. discriminate.
  Qed.

  Lemma U_rsettled l : Forall rsettled l -> Forall rurl_settled (flat_map (url_pass_attr I p elem) l).
  Proof.
    intros H. apply Forall_forall. intros a Ha. apply in_flat_map in Ha as (a0 & H0 & Ha).
    rewrite Forall_forall in H. destruct (H a0 H0) as [Hn Hf].
    unfold url_pass_attr in Ha. destruct (url_attr_of elem) as [k|] eqn:Ek.
    - destruct (key_is k a0) eqn:Eka.
      + destruct (valid_url I p (aval a0)) as [u|] eqn:Ev; [|contradiction]. destruct Ha as [<-|[]].
        rewrite Hrw. assert (Eu : (if beqb k (B"src") then u else u) = u) by (destruct (beqb k (B"src")); reflexivity). rewrite Eu.
        assert (Hk : akey a0 = k) by (unfold key_is in Eka; apply beqb_eq in Eka; exact Eka).
        split; [split|].
        * unfold nonrel in *. cbn [akey fst]. exact Hn.
        * rewrite Hk. apply (Hurl k (aval a0) u eq_refl). rewrite <- Hk. rewrite attr_eta. exact Hf.
        * unfold url_pass_attr. rewrite Ek. change (key_is k (akey a0, u)) with (key_is k a0). rewrite Eka. cbn [aval snd]. rewrite (Hstable _ _ Ev), Hrw, Eu. reflexivity.
      + destruct Ha as [<-|[]]. split; [split; assumption|]. unfold url_pass_attr. rewrite Ek, Eka. reflexivity.
    - destruct Ha as [<-|[]]. split; [split; assumption|]. unfold url_pass_attr. rewrite Ek. reflexivity.
  Qed.

  Lemma F_rel_nil a : nonrel elem a = false -> Fa a = [].
  Proof. intros H. unfold nonrel in H. apply negb_false_iff in H. destruct a as [k v]. apply Hrej. exact H. Qed.
  Lemma F_drop_rel : forall l, flat_map Fa l = flat_map Fa (filter (nonrel elem) l).
  Proof.
    induction l as [|a l IH]; cbn [flat_map filter]; [reflexivity|].
    destruct (nonrel elem a) eqn:E; cbn [flat_map]; [rewrite IH; reflexivity | rewrite (F_rel_nil a E), IH; reflexivity].
  Qed.
  Lemma F_of_rsettled : forall l, Forall rsettled l -> flat_map Fa l = l.
  Proof. induction 1 as [|a l [_ Ha] Hl IH]; cbn [flat_map]; [reflexivity|]. rewrite Ha, IH. reflexivity. Qed.
  Lemma nr_of_rsettled : forall l, Forall rsettled l -> filter (nonrel elem) l = l.
  Proof. induction 1 as [|a l [Ha _] Hl IH]; cbn [filter]; [reflexivity|]. rewrite Ha, IH. reflexivity. Qed.
  Lemma U_of_rsettled : forall l, Forall rurl_settled l -> flat_map (url_pass_attr I p elem) l = l.
  Proof. induction 1 as [|a l [_ Ha] Hl IH]; cbn [flat_map]; [reflexivity|]. rewrite Ha, IH. reflexivity. Qed.

  Theorem sanitize_attrs_idem_relevant_rejected attrs :
    sanitize_attrs I p elem (sanitize_attrs I p elem attrs aps) aps = sanitize_attrs I p elem attrs aps.
  Proof.
    pose proof (sanitize_attrs_unfold M U R I p elem aps Hnosandbox) as Unf.
    rewrite (Unf attrs). destruct attrs as [|a0 ar]; [reflexivity|].
    remember (flat_map Fa (a0 :: ar)) as c0 eqn:Ec0.
    assert (S0 : Forall rsettled c0) by (subst c0; apply F_rsettled).
    destruct c0 as [|x xs] eqn:Ecc; [reflexivity|]. rewrite <- Ecc in *. clear Ecc x xs.
    set (c := if linkable elem then (if requireParseableURLs p then flat_map (url_pass_attr I p elem) c0 else c0) else c0).
    assert (Sc : Forall rsettled c).
    { subst c. destruct (linkable elem); [|exact S0]. destruct (requireParseableURLs p); [|exact S0].
      eapply Forall_impl; [|apply U_rsettled; exact S0]. intros a [Ha _]. exact Ha. }
    assert (Uc : linkable elem = true -> requireParseableURLs p = true -> Forall rurl_settled c).
    { intros Hl Hp. subst c. rewrite Hl, Hp. apply U_rsettled. exact S0. }
    set (out1 := crossorigin_pass p elem (mid_passes M U R I p elem c0)).
    assert (Hmid : mid_passes M U R I p elem c0 = if linkable elem then link_pass I p elem c else c).
    { unfold mid_passes. subst c. destruct (linkable elem); reflexivity. }
    assert (Hnf : filter (nonrel elem) out1 = c).
    { subst out1. rewrite crossorigin_nonrel, Hmid. destruct (linkable elem); [rewrite link_pass_nonrel|]; apply nr_of_rsettled; exact Sc. }
    assert (HF : flat_map Fa out1 = c) by (rewrite F_drop_rel, Hnf; apply F_of_rsettled; exact Sc).
    rewrite (Unf out1). destruct out1 as [|o os] eqn:Eo; [reflexivity|]. rewrite <- Eo in *.
    rewrite HF. destruct c as [|y ys] eqn:Ecv.
    - exfalso. subst out1. rewrite Hmid in Eo.
      destruct (linkable elem); [rewrite (link_pass_nil M U R I p elem) in Eo|]; rewrite (crossorigin_pass_nil M U R p elem) in Eo; discriminate.
    - rewrite <- Ecv in *. subst out1. f_equal. rewrite Hmid. unfold mid_passes.
      destruct (linkable elem) eqn:El; [|reflexivity].
      destruct (requireParseableURLs p) eqn:Ep; [|reflexivity].
      rewrite (U_of_rsettled c (Uc eq_refl eq_refl)). reflexivity.
  Qed.
End Rejected.
Arguments sanitize_attrs_idem_relevant_rejected {M U R} I p elem aps.

(* ---- (2) link: rel allowed, crossorigin not ---- *)
Section RelOnly.
  Variables M U R : Type.
  Variable I : interp M U R.
  Variable p : policy M U R.
  Variable elem : bytes.
  Variable aps : amap (list (attr_policy M)).
  Notation Fa := (filter_attr I p elem aps (has_style_policies I p elem)).

  Hypothesis Hstyle : style_stable M U R I p elem.
  Hypothesis Hnot_a : beqb elem (B"a") = false.
  Hypothesis Hrel : forall v, Fa (REL, v) = [(REL, v)].
  Hypothesis Hcross : forall v, Fa (CROSSORIGIN, v) = [].
  Hypothesis Hurl : forall k v u, url_attr_of elem = Some k -> Fa (k, v) = [(k, v)] -> Fa (k, u) = [(k, u)].
  Hypothesis Hrw : srcRewriter p = None.
  Hypothesis Hstable : forall raw u, valid_url I p raw = Some u -> valid_url I p u = Some u.
  Hypothesis Hnosandbox : forall l, sandbox_pass p elem l = l.

  Notation kept := (kept M U R I p elem aps).
  Notation url_kept := (url_kept M U R I p elem aps).

  Lemma no_cross_of_kept l : Forall kept l -> existsb (key_is CROSSORIGIN) l = false.
  Proof.
    induction 1 as [|a l Ha Hl IH]; [reflexivity|]. cbn [existsb]. rewrite IH, orb_false_r.
    destruct (key_is CROSSORIGIN a) eqn:E; [|reflexivity]. exfalso. unfold AttrIdemAccepted.kept in Ha.
    destruct a as [k v]. unfold key_is, akey in E. cbn [fst] in E. apply beqb_eq in E. subst k. rewrite Hcross in Ha. discriminate.
  Qed.

  (* the crossorigin pass on a list without crossorigin: nothing, or one attribute appended *)
  Lemma crossorigin_pass_append l : existsb (key_is CROSSORIGIN) l = false ->
    crossorigin_pass p elem l = l \/ (l <> [] /\ crossorigin_pass p elem l = l ++ [(CROSSORIGIN, B"anonymous")]).
  Proof.
    intros Hn. unfold crossorigin_pass. destruct (requireCrossOrigin p && _ && _) eqn:Ec; [|left; reflexivity].
    rewrite Hn. right. split; [|reflexivity]. destruct l; [|discriminate]. rewrite andb_false_r in Ec. discriminate.
  Qed.

  Theorem sanitize_attrs_idem_rel_only attrs :
    sanitize_attrs I p elem (sanitize_attrs I p elem attrs aps) aps = sanitize_attrs I p elem attrs aps.
  Proof.
    pose proof (sanitize_attrs_unfold M U R I p elem aps Hnosandbox) as Unf.
    rewrite (Unf attrs). destruct attrs as [|a0 ar]; [reflexivity|].
    remember (flat_map Fa (a0 :: ar)) as c0 eqn:Ec0.
    assert (S0 : Forall kept c0) by (subst c0; apply F_kept; exact Hstyle).
    destruct c0 as [|x xs] eqn:Ecc; [reflexivity|]. rewrite <- Ecc in *. clear Ecc x xs.
    set (c := if linkable elem then (if requireParseableURLs p then flat_map (url_pass_attr I p elem) c0 else c0) else c0).
    assert (Hmid : mid_passes M U R I p elem c0 = if linkable elem then link_pass I p elem c else c).
    { unfold mid_passes. subst c. destruct (linkable elem); reflexivity. }
    set (y := mid_passes M U R I p elem c0).
    (* y: kept by the filter (rel is allowed, target is not written on this element), and by the URL pass *)
    assert (Kc : Forall kept c).
    { subst c. destruct (linkable elem); [|exact S0]. destruct (requireParseableURLs p); [|exact S0].
      eapply Forall_impl; [|apply (U_kept M U R I p elem aps Hurl Hrw Hstable); exact S0]. intros a [Ha _]. exact Ha. }
    assert (Ky : Forall kept y).
    { subst y. rewrite Hmid. destruct (linkable elem); [|exact Kc].
      apply (link_pass_prov2 M U R I p elem kept); [intros _ v; apply Hrel | intros Ha; congruence | exact Kc]. }
    assert (Ky2 : linkable elem = true -> requireParseableURLs p = true -> Forall url_kept y).
    { intros Hl Hp. subst y. rewrite Hmid, Hl.
      apply (link_pass_prov2 M U R I p elem url_kept).
      { intros _ v. split; [apply Hrel | apply url_pass_forced; reflexivity]. }
      { intros Ha. congruence. }
      subst c. rewrite Hl, Hp. apply (U_kept M U R I p elem aps Hurl Hrw Hstable). exact S0. }
    assert (Hlpy : (if linkable elem then link_pass I p elem y else y) = y).
    { subst y. rewrite Hmid. destruct (linkable elem); [apply link_pass_idem | reflexivity]. }
    (* the later passes applied to y give y back, up to the crossorigin pass *)
    assert (Hy2 : forall l, l = y -> mid_passes M U R I p elem l = y).
    { intros l ->. unfold mid_passes. destruct (linkable elem) eqn:El; [|reflexivity].
      assert (EU : (if requireParseableURLs p then flat_map (url_pass_attr I p elem) y else y) = y).
      { destruct (requireParseableURLs p) eqn:Ep; [|reflexivity]. apply (U_of_kept M U R I p elem aps). apply Ky2; reflexivity. }
      rewrite EU. exact Hlpy. }
    fold y. destruct (crossorigin_pass_append y (no_cross_of_kept y Ky)) as [E | [Hne E]]; rewrite E.
    - (* no crossorigin written *)
      rewrite (Unf y). destruct y as [|o os] eqn:Ey; [reflexivity|]. rewrite <- Ey in *.
      rewrite (F_of_kept M U R I p elem aps y Ky).
      assert (Hm : forall X : list attr, match y with [] => [] | _ :: _ => X end = X) by (intros X; rewrite Ey; reflexivity).
      etransitivity; [apply Hm|]. rewrite (Hy2 y eq_refl). exact E.
    - (* crossorigin appended: dropped by the second filter, appended again *)
      rewrite (Unf (y ++ [(CROSSORIGIN, B"anonymous")])).
      assert (HF : flat_map Fa (y ++ [(CROSSORIGIN, B"anonymous")]) = y).
      { rewrite flat_map_app. cbn [flat_map]. rewrite Hcross, !app_nil_r. apply (F_of_kept M U R I p elem aps). exact Ky. }
      rewrite HF. destruct y as [|o os] eqn:Ey; [congruence|]. rewrite <- Ey in *.
      assert (Hm : forall X : list attr, match y ++ [(CROSSORIGIN, B"anonymous")] with [] => [] | _ :: _ => X end = X) by (intros X; rewrite Ey; reflexivity).
      etransitivity; [apply Hm|]. assert (Hm2 : forall X : list attr, match y with [] => [] | _ :: _ => X end = X) by (intros X; rewrite Ey; reflexivity).
      try (etransitivity; [apply Hm2|]). rewrite (Hy2 y eq_refl). exact E.
  Qed.
End RelOnly.
Arguments sanitize_attrs_idem_rel_only {M U R} I p elem aps.

(* ---- decidable sufficient conditions ---- *)
Section Decide.
  Variables M U R : Type.
  Variable I : interp M U R.
  Variable p : policy M U R.

  Definition rejected_b (aps : amap (list (attr_policy M))) (k : bytes) : bool :=
    negb (has_key k aps) && negb (has_key k (globalAttrs p)).
  Definition relevant_rejected_b (elem : bytes) (aps : amap (list (attr_policy M))) : bool :=
    forallb (fun k => negb (relevant elem k) || rejected_b aps k) [REL; TARGET; CROSSORIGIN].
  Definition rel_only_b (elem : bytes) (aps : amap (list (attr_policy M))) : bool :=
    negb (beqb elem (B"a")) && accepted_b M U R p aps REL && rejected_b aps CROSSORIGIN.
  Definition elem_stable3_b (elem : bytes) (aps : amap (list (attr_policy M))) : bool :=
    elem_stable2_b p elem aps ||
    ((relevant_rejected_b elem aps || rel_only_b elem aps) && url_free_b M U R p elem aps && no_sandbox_b M U R p elem).

  Lemma rejected_sound elem aps hsp k v : is_data_attribute k = false -> key_is (B"style") (k, v) = false -> rejected_b aps k = true ->
    filter_attr I p elem aps hsp (k, v) = [].
  Proof.
    intros Hd Hsk Hb. unfold rejected_b in Hb. apply andb_true_iff in Hb as [H1 H2]. apply negb_true_iff in H1, H2.
    unfold has_key in H1, H2. unfold filter_attr, rules_accept. cbn [akey fst].
    rewrite Hd, Hsk, andb_false_r. cbn [andb].
    destruct (lookup k aps); [discriminate|]. destruct (lookup k (globalAttrs p)); [discriminate|]. reflexivity.
  Qed.

  Lemma relevant_cases elem k : relevant elem k = true -> k = REL \/ k = TARGET \/ k = CROSSORIGIN.
  Proof.
    unfold relevant. intros H. apply orb_true_iff in H as [H|H]; [apply orb_true_iff in H as [H|H]|];
      apply andb_true_iff in H as [_ H]; apply beqb_eq in H; auto.
  Qed.

  Lemma relevant_rejected_sound elem aps hsp : relevant_rejected_b elem aps = true ->
    forall k v, relevant elem k = true -> filter_attr I p elem aps hsp (k, v) = [].
  Proof.
    intros Hb k v Hk. unfold relevant_rejected_b in Hb. rewrite forallb_forall in Hb.
    assert (Hin : In k [REL; TARGET; CROSSORIGIN]) by (destruct (relevant_cases elem k Hk) as [->|[->| ->]]; cbn; auto).
    specialize (Hb k Hin). rewrite Hk in Hb. cbn [negb orb] in Hb.
    apply rejected_sound; [| |exact Hb];
    destruct (relevant_cases elem k Hk) as [->|[->| ->]]; vm_compute; reflexivity.
  Qed.

  Hypothesis Hrw : srcRewriter p = None.
  Hypothesis Hstable : forall raw u, valid_url I p raw = Some u -> valid_url I p u = Some u.

  Theorem elem_stable3_sound elem aps a : style_stable M U R I p elem -> elem_stable3_b elem aps = true ->
    clean_attrs I p elem (clean_attrs I p elem a aps) aps = clean_attrs I p elem a aps.
  Proof.
    intros Hs Hb. unfold elem_stable3_b in Hb. apply orb_true_iff in Hb as [Hb|Hb].
    - apply (elem_stable2_sound I p Hrw Hstable); assumption.
    - apply andb_true_iff in Hb as [Hb H3]. apply andb_true_iff in Hb as [H1 H2].
      assert (E : forall l, clean_attrs I p elem l aps = sanitize_attrs I p elem l aps).
      { intros l. unfold clean_attrs. destruct l; reflexivity. }
      rewrite !E. apply orb_true_iff in H1 as [H1|H1].
      + apply sanitize_attrs_idem_relevant_rejected; auto.
        * apply relevant_rejected_sound; exact H1.
        * apply (url_free_sound M U R I p); assumption.
        * apply (no_sandbox_sound M U R p); exact H3.
      + unfold rel_only_b in H1. apply andb_true_iff in H1 as [H1 Hc]. apply andb_true_iff in H1 as [Ha Hr]. apply negb_true_iff in Ha.
        apply sanitize_attrs_idem_rel_only; auto.
        * intros v. apply (accepted_sound M U R I p); [reflexivity | assumption].
        * intros v. apply rejected_sound; [vm_compute; reflexivity | reflexivity | exact Hc].
        * apply (url_free_sound M U R I p); assumption.
        * apply (no_sandbox_sound M U R p); exact H3.
  Qed.
End Decide.
Arguments elem_stable3_b {M U R} p elem aps.
Arguments elem_stable3_sound {M U R} I p Hrw Hstable elem aps a.

(* ---- the condition decides the class ---- *)
Section ClassDecided.
  Variables M U R : Type.
  Variable p : policy M U R.

  (* the policy treats the attribute without looking at its value: an unpatterned rule (element or global), or no rule *)
  Definition key_free_b (aps : amap (list (attr_policy M))) (k : bytes) : bool :=
    accepted_b M U R p aps k || rejected_b M U R p aps k.
  (* the class of C20, element by element: no value pattern decides about rel, target, crossorigin or the URL attribute,
     and the element is not an iframe under RequireSandboxOnIFrame *)
  Definition in_class_b (elem : bytes) (aps : amap (list (attr_policy M))) : bool :=
    key_free_b aps REL && key_free_b aps TARGET && key_free_b aps CROSSORIGIN && url_free_b M U R p elem aps && no_sandbox_b M U R p elem.
  (* the two shapes in which re-sanitising reorders attributes (findings F15, F17) *)
  Definition f15_shape_b (elem : bytes) (aps : amap (list (attr_policy M))) : bool :=
    beqb elem (B"a") && xorb (accepted_b M U R p aps REL) (accepted_b M U R p aps TARGET).
  Definition f17_shape_b (elem : bytes) (aps : amap (list (attr_policy M))) : bool :=
    mem elem link_rel_elements && mem elem crossorigin_elements && accepted_b M U R p aps CROSSORIGIN && rejected_b M U R p aps REL.

  Lemma a_is_link elem : beqb elem (B"a") = true -> mem elem link_rel_elements = true /\ mem elem crossorigin_elements = false.
  Proof. intros H. apply beqb_eq in H. subst elem. split; reflexivity. Qed.

  Lemma relevant_keys elem :
    relevant elem REL = mem elem link_rel_elements /\ relevant elem TARGET = beqb elem (B"a") /\ relevant elem CROSSORIGIN = mem elem crossorigin_elements.
  Proof.
    unfold relevant. change (beqb REL REL) with true. change (beqb REL TARGET) with false. change (beqb REL CROSSORIGIN) with false.
    change (beqb TARGET REL) with false. change (beqb TARGET TARGET) with true. change (beqb TARGET CROSSORIGIN) with false.
    change (beqb CROSSORIGIN REL) with false. change (beqb CROSSORIGIN TARGET) with false. change (beqb CROSSORIGIN CROSSORIGIN) with true.
    repeat split; destruct (mem elem link_rel_elements), (beqb elem (B"a")), (mem elem crossorigin_elements); reflexivity.
  Qed.

  Theorem class_decided elem aps : in_class_b elem aps = true ->
    elem_stable3_b p elem aps || f15_shape_b elem aps || f17_shape_b elem aps = true.
  Proof.
    intros Hc. unfold in_class_b in Hc.
    apply andb_true_iff in Hc as [Hc Hsb]. apply andb_true_iff in Hc as [Hc Hu]. apply andb_true_iff in Hc as [Hc Fc].
    apply andb_true_iff in Hc as [Fr Ft].
    unfold elem_stable3_b, elem_stable2_b, relevant_rejected_b, rel_only_b, forced_accepted_b, f15_shape_b, f17_shape_b.
    rewrite Hu, Hsb. cbn [forallb]. destruct (relevant_keys elem) as (-> & -> & ->).
    unfold key_free_b in Fr, Ft, Fc.
    destruct (beqb elem (B"a")) eqn:Ea.
    - destruct (a_is_link elem Ea) as [-> ->]. cbn [negb andb orb].
      destruct (accepted_b M U R p aps REL), (accepted_b M U R p aps TARGET), (rejected_b M U R p aps REL), (rejected_b M U R p aps TARGET);
        cbn in *; try discriminate; rewrite ?orb_true_r; reflexivity.
    - destruct (mem elem link_rel_elements), (mem elem crossorigin_elements);
      destruct (accepted_b M U R p aps REL), (accepted_b M U R p aps CROSSORIGIN), (rejected_b M U R p aps REL), (rejected_b M U R p aps CROSSORIGIN);
        cbn in *; try discriminate; rewrite ?orb_true_r; reflexivity.
  Qed.
End ClassDecided.
