(* Statements about the tokens an HTML tokenizer reads from the sanitized bytes (not just about the
   items the loop emitted), obtained from SanRoundTrip.retokenize_sanitize. *)
From Coq Require Import List NArith ZArith Bool Lia.
Import ListNotations.
From BM Require Import Bytes Utf8 Strings Escape Tokenizer Policy Url Style Attrs Loop LoopInv LoopProps
  RoundTrip Retokenize TokenizerWf SanRoundTrip.
Open Scope N_scope.

Definition tok_text (t : token) : bytes := match t with TText d => d | _ => [] end.
Definition text_of (ts : list token) : bytes := concat (map tok_text ts).
Definition item_text (it : item) : bytes :=
  match it with ISpace => [32] | IText d => d | ITag t => tok_text t | _ => [] end.
Definition item_texts (its : list item) : bytes := concat (map item_text its).

Lemma flushT_in t cur l : In t (flushT cur l) -> t = TText cur \/ In t l.
Proof. unfold flushT. destruct cur; cbn; intuition auto. Qed.

Lemma coalesce_in : forall its cur t, In t (coalesce its cur) ->
  (exists d, t = TText d) \/ In (ITag t) its \/ (exists d, t = TComment (comment_reread d) /\ In (IComment d) its).
Proof.
  induction its as [|it its IH]; intros cur t Hin; cbn [coalesce] in Hin.
  - apply flushT_in in Hin as [->|[]]. left; eauto.
  - assert (Hrec : forall cur', In t (coalesce its cur') ->
              (exists d, t = TText d) \/ In (ITag t) (it :: its) \/ (exists d, t = TComment (comment_reread d) /\ In (IComment d) (it :: its))).
    { intros cur' H. destruct (IH _ _ H) as [H1|[H1|(d & H1 & H2)]]; [left; exact H1 | right; left; right; exact H1 | right; right; exists d; split; [exact H1 | right; exact H2]]. }
    destruct it as [|t0|d|d|d].
    + apply Hrec in Hin. exact Hin.
    + apply flushT_in in Hin as [->|Hin]; [left; eauto|]. destruct Hin as [<-|Hin]; [right; left; left; reflexivity | apply Hrec in Hin; exact Hin].
    + apply Hrec in Hin. exact Hin.
    + apply Hrec in Hin. exact Hin.
    + apply flushT_in in Hin as [->|Hin]; [left; eauto|]. destruct Hin as [<-|Hin]; [right; right; exists d; split; [reflexivity | left; reflexivity] | apply Hrec in Hin; exact Hin].
Qed.

Lemma text_of_flushT cur l : text_of (flushT cur l) = cur ++ text_of l.
Proof. unfold flushT, text_of. destruct cur; reflexivity. Qed.

Lemma text_of_coalesce : forall its cur, text_of (coalesce its cur) = cur ++ item_texts its.
Proof.
  induction its as [|it its IH]; intros cur; cbn [coalesce].
  - rewrite text_of_flushT. reflexivity.
  - destruct it as [|t0|d|d|d]; unfold item_texts; cbn [map concat item_text]; fold (item_texts its).
    + rewrite IH. rewrite <- app_assoc. reflexivity.
    + rewrite text_of_flushT. unfold text_of at 1. cbn [map concat]. fold (text_of (coalesce its [])). rewrite IH. reflexivity.
    + rewrite IH. rewrite <- app_assoc. reflexivity.
    + rewrite IH. reflexivity.
    + rewrite text_of_flushT. unfold text_of at 1. cbn [map concat tok_text app]. fold (text_of (coalesce its [])). rewrite IH. reflexivity.
Qed.

Section TokenLevel.
  Variables M U R : Type.
  Variable I : interp M U R.
  Variable p : policy M U R.
  Hypothesis Hplain : plain_policy I p.

  Lemma plain_safe : allowUnsafe p = false.
  Proof. exact (proj1 Hplain). Qed.

  (* every token of the output comes from an emitted tag item, or is text *)
  Theorem output_token_provenance s t : In t (tokenize (sanitize_bytes I p s)) ->
    match t with
    | TText _ => True
    | TStart n a' =>
        elem_allowed I p n = true /\ is_script_or_style n = false /\
        exists a aps, In (TStart n a) (tokenize s) /\ element_policies I p n = Some aps /\
                      a' = clean_attrs I p n a aps /\ (a' = [] -> allow_no_attrs I p n = true)
    | TSelf n a' =>
        elem_allowed I p n = true /\ is_script_or_style n = false /\
        exists a aps, In (TSelf n a) (tokenize s) /\ element_policies I p n = Some aps /\
                      a' = clean_attrs I p n a aps /\ (a' = [] -> allow_no_attrs I p n = true)
    | TEnd n => In (TEnd n) (tokenize s) /\ elem_allowed I p n = true /\ is_script_or_style n = false
    | TComment d' => allowComments p = true /\ exists d, d' = comment_reread d /\ In (TComment d) (tokenize s)
    | TDoctype _ => False
    end.
  Proof.
    intros Hin. rewrite (retokenize_sanitize I p Hplain) in Hin.
    apply coalesce_in in Hin as [[d ->]|[Hin|(d & -> & Hin)]]; [exact Logic.I| |].
    2:{ destruct (emitted_justified I p plain_safe _ _ Hin) as (st & t0 & Ht0 & Hj). cbn [justified] in Hj.
        destruct Hj as (-> & Hc & _). split; [exact Hc|]. exists d. split; [reflexivity | exact Ht0]. }
    destruct (emitted_justified I p plain_safe _ _ Hin) as (st & t0 & Ht0 & Hj).
    destruct t as [d|n a|n|n a|d|d]; cbn [justified] in Hj; try contradiction; auto.
    - destruct Hj as (_ & Hs & a0 & aps & -> & Hp & Ha & Hb). split; [|split; [exact Hs|]].
      + rewrite element_policies_allowed, Hp. reflexivity.
      + exists a0, aps. auto.
    - destruct Hj as (-> & _ & Hs & Ha). auto.
    - destruct Hj as (_ & Hs & a0 & aps & -> & Hp & Ha & Hb). split; [|split; [exact Hs|]].
      + rewrite element_policies_allowed, Hp. reflexivity.
      + exists a0, aps. auto.
  Qed.

  (* ---- text preservation (C06) ---- *)
  Definition clean_tok (t : token) : bool :=
    match t with
    | TStart n _ | TEnd n | TSelf n _ => negb (is_script_or_style n) && negb (mem n (elsSkipContent p))
    | _ => true
    end.
  Definition calm (st : lstate) : Prop := skip st = false /\ recent_is_raw st = false.

  Lemma calm_init : calm init_state.
  Proof. split; reflexivity. Qed.

  (* what a token contributes to the text of the output: its data for a text token; nothing for a
     tag that is emitted; exactly one blank for a removed tag under AddSpaceWhenStrippingTag *)
  Definition contribution (t : token) (out : list item) : bytes :=
    match t with
    | TText d => d
    | TStart _ _ | TEnd _ | TSelf _ _ =>
      match out with [ITag _] => [] | _ => if addSpaces p then [32] else [] end
    | _ => []
    end.
  Fixpoint expected_text (st : lstate) (ts : list token) : bytes :=
    match ts with
    | [] => []
    | t :: r => match step I p st t with
                | Panic => []
                | Ok st' out => contribution t out ++ expected_text st' r
                end
    end.

  Lemma space_texts : item_texts (space_if_adding p) = if addSpaces p then [32] else [].
  Proof. unfold space_if_adding. destruct (addSpaces p); reflexivity. Qed.

  Definition tag_out (t : token) (out : list item) : Prop :=
    (exists tg, out = [ITag tg] /\ tok_text tg = []) \/ out = space_if_adding p.

  Lemma tag_out_texts t out : match t with TStart _ _ | TEnd _ | TSelf _ _ => True | _ => False end ->
    tag_out t out -> item_texts out = contribution t out.
  Proof.
    intros Ht [(tg & -> & Htg)| -> ].
    - destruct t; try contradiction; cbn; rewrite Htg; reflexivity.
    - rewrite space_texts. unfold space_if_adding. destruct t; try contradiction; cbn; destruct (addSpaces p); reflexivity.
  Qed.

  Lemma end_tail_calm st n st' out : skip st = false -> mem n (elsSkipContent p) = false ->
    end_tail I p st n = Ok st' out -> skip st' = false /\ recent st' = recent st /\ tag_out (TEnd n) out.
  Proof.
    intros Hs Hm. unfold end_tail. rewrite Hm. cbn [andb]. destruct (lookup n (elsAndAttrs p)).
    - intros H; inversion H; subst. rewrite Hs. split; [auto|]. split; [auto|]. left. eexists. split; reflexivity.
    - match goal with |- context [existsb ?f ?l] => destruct (existsb f l) end; intros H; inversion H; subst; cbn [skip recent].
      + rewrite Hs. split; [auto|]. split; [auto|]. left. eexists. split; reflexivity.
      + split; [auto|]. split; [auto|]. right. reflexivity.
  Qed.

  Lemma recent_raw_set st n : recent_is_raw (set_recent st (normalise n)) = is_script_or_style n.
  Proof. reflexivity. Qed.

  Lemma step_calm st t st' out : calm st -> clean_tok t = true -> step I p st t = Ok st' out ->
    calm st' /\ item_texts out = contribution t out.
  Proof.
    destruct Hplain as (Hu & _).
    intros [Hs Hr] Hcl H. destruct t as [d|n a|n|n a|d|d]; cbn [step] in H; cbn [clean_tok] in Hcl.
    - unfold recent_is_raw in Hr. rewrite Hs, Hr in H. inversion H; subst. split; [split; auto|]. cbn. apply app_nil_r.
    - apply andb_true_iff in Hcl as [Hn Hm]. apply negb_true_iff in Hn, Hm. rewrite Hn, Hm in H. cbn [andb] in H.
      assert (Hst : calm (set_recent st (normalise n))) by (split; [exact Hs | rewrite recent_raw_set; exact Hn]).
      destruct (element_policies I p n) as [aps|].
      + match type of H with context [if ?c then _ else _] => destruct c end.
        * inversion H; subst. split.
          -- destruct (is_void n); [exact Hst|]. destruct Hst as [H1 H2]. split; [exact H1 | exact H2].
          -- apply tag_out_texts; [exact Logic.I | right; reflexivity].
        * unfold kept_start in H. cbn [skip set_recent] in H. rewrite Hs in H.
          assert (Ho : item_texts [ITag (TStart n (clean_attrs I p n a aps))] = contribution (TStart n a) [ITag (TStart n (clean_attrs I p n a aps))]) by reflexivity.
          destruct (skipClosing (set_recent st (normalise n)) && negb (is_void n)).
          -- cbn [stack set_recent] in H. destruct (stack st) as [|[top k] rest]; [discriminate|].
             destruct (beqb top n); inversion H; subst; (split; [|exact Ho]); [|exact Hst].
             destruct Hst as [H1 H2]. split; [reflexivity | exact H2].
          -- inversion H; subst. split; [exact Hst | exact Ho].
      + inversion H; subst. split; [exact Hst|]. apply tag_out_texts; [exact Logic.I | right; reflexivity].
    - apply andb_true_iff in Hcl as [Hn Hm]. apply negb_true_iff in Hn, Hm. rewrite Hn in H. cbn [andb] in H.
      set (st1 := if beqb (recent st) (normalise n) then set_recent st [] else st) in H.
      assert (Hst : calm st1).
      { subst st1. destruct (beqb (recent st) (normalise n)); split; auto. }
      destruct Hst as [Hs1 Hr1].
      assert (Hfin : forall st2, skip st2 = false -> recent st2 = recent st1 -> end_tail I p st2 n = Ok st' out ->
                 calm st' /\ item_texts out = contribution (TEnd n) out).
      { intros st2 H2 H3 He. destruct (end_tail_calm _ _ _ _ H2 Hm He) as (A & B0 & C).
        split; [split; [exact A|]|apply tag_out_texts; [exact Logic.I | exact C]].
        unfold recent_is_raw in *. rewrite B0, H3. exact Hr1. }
      destruct (skipClosing st1).
      + destruct (stack st1) as [|[top k] rest]; [discriminate|].
        destruct (beqb top n); [destruct k|].
        * inversion H; subst. split; [split; [exact Hs1 | exact Hr1]|]. apply tag_out_texts; [exact Logic.I | right; reflexivity].
        * (eapply Hfin; [| |exact H]; [exact Hs1 | reflexivity]).
        * (eapply Hfin; [| |exact H]; [exact Hs1 | reflexivity]).
      + (eapply Hfin; [| |exact H]; [exact Hs1 | reflexivity]).
    - apply andb_true_iff in Hcl as [Hn Hm]. apply negb_true_iff in Hn, Hm. rewrite Hn in H. cbn [andb] in H.
      assert (Hst : calm (set_recent st (normalise n))) by (split; [exact Hs | rewrite recent_raw_set; exact Hn]).
      destruct (element_policies I p n) as [aps|]; [|inversion H; subst; split; [exact Hst|]; apply tag_out_texts; [exact Logic.I | right; reflexivity]].
      cbn [skip set_recent] in H. rewrite Hs in H.
      destruct (clean_attrs I p n a aps) as [|c0 cl].
      + destruct (negb (allow_no_attrs I p n)); inversion H; subst; (split; [exact Hst|]); [|reflexivity].
        apply tag_out_texts; [exact Logic.I | right; reflexivity].
      + inversion H; subst. split; [exact Hst | reflexivity].
    - destruct (allowComments p && negb (skip st)); inversion H; subst; (split; [split; auto | reflexivity]).
    - inversion H; subst. split; [split; auto | reflexivity].
  Qed.

  Lemma run_texts : forall ts st, calm st -> forallb clean_tok ts = true ->
    item_texts (fst (run_from I p st ts)) = expected_text st ts.
  Proof.
    induction ts as [|t ts IH]; intros st Hst Hcl; cbn [run_from expected_text]; [reflexivity|].
    cbn [forallb] in Hcl. apply andb_true_iff in Hcl as [Ht Hts].
    destruct (step I p st t) as [st' out|] eqn:E; [|reflexivity].
    destruct (step_calm _ _ _ _ Hst Ht E) as [Hst' Ho].
    specialize (IH st' Hst' Hts). destruct (run_from I p st' ts) as [rest pn]. cbn [fst] in *.
    unfold item_texts in *. rewrite map_app, concat_app. rewrite Ho, IH. reflexivity.
  Qed.

  (* the text a tokenizer reads from the output, for an input without script, style or
     skip-content elements *)
  Theorem output_text s : forallb clean_tok (tokenize s) = true ->
    text_of (tokenize (sanitize_bytes I p s)) = expected_text init_state (tokenize s).
  Proof.
    intros Hcl. rewrite (retokenize_sanitize I p Hplain). rewrite text_of_coalesce. cbn [app].
    unfold emitted, run_items. apply run_texts; [exact calm_init | exact Hcl].
  Qed.

  Lemma expected_text_nospace : addSpaces p = false -> forall ts st,
    snd (run_from I p st ts) = false -> expected_text st ts = text_of ts.
  Proof.
    intros Ha. induction ts as [|t ts IH]; intros st Hpn; cbn [expected_text run_from] in *; [reflexivity|].
    destruct (step I p st t) as [st' out|] eqn:E; [|discriminate].
    destruct (run_from I p st' ts) as [rest pn] eqn:Er. cbn [snd] in Hpn. subst pn.
    specialize (IH st'). rewrite Er in IH. specialize (IH eq_refl). rewrite IH.
    unfold text_of. cbn [map concat]. f_equal.
    unfold contribution. rewrite Ha. destruct t; try reflexivity; destruct out as [|[| | | |] [|? ?]]; reflexivity.
  Qed.

  Corollary output_text_equal s : addSpaces p = false -> forallb clean_tok (tokenize s) = true ->
    text_of (tokenize (sanitize_bytes I p s)) = text_of (tokenize s).
  Proof.
    intros Ha Hcl. rewrite output_text by exact Hcl. apply expected_text_nospace; [exact Ha|].
    apply (run_items_no_panic I p).
  Qed.
End TokenLevel.
