(* Policies as rule SETS (C13, C17): two policy values whose tables hold the same rules -- keys in
   any order, rule lists in any order and multiplicity, pattern entries in any order -- sanitize
   every input to the same bytes.  Go's maps iterate in random order and the builder appends in
   call order; neither can influence the result. *)
From Coq Require Import List NArith ZArith Bool Lia.
Import ListNotations.
From BM Require Import Bytes Utf8 Strings Escape Tokenizer Policy Url Style Attrs Loop MapProofs.
Open Scope N_scope.

Definition same_set {X} (l1 l2 : list X) : Prop := forall x, In x l1 <-> In x l2.
Definition opt_rel {A1 A2} (Rl : A1 -> A2 -> Prop) (o1 : option A1) (o2 : option A2) : Prop :=
  match o1, o2 with Some a, Some b => Rl a b | None, None => True | _, _ => False end.
Definition rules_eq {X} (m1 m2 : amap (list X)) : Prop := forall k, opt_rel same_set (lookup k m1) (lookup k m2).
Definition table_eq {X} (t1 t2 : amap (amap (list X))) : Prop := forall k, opt_rel rules_eq (lookup k t1) (lookup k t2).
Definition nodup_keys {V} (m : amap V) : Prop := NoDup (map fst m).

Lemma same_set_refl {X} (l : list X) : same_set l l. Proof. intros x; tauto. Qed.
Lemma same_set_sym {X} (a b : list X) : same_set a b -> same_set b a. Proof. intros H x. symmetry. apply H. Qed.
Lemma same_set_trans {X} (a b c : list X) : same_set a b -> same_set b c -> same_set a c.
Proof. intros H1 H2 x. rewrite (H1 x). apply H2. Qed.
Lemma same_set_nil {X} (l : list X) : same_set [] l -> l = [].
Proof. intros H. destruct l as [|x l]; [reflexivity|]. exfalso. apply (H x). left; reflexivity. Qed.

Lemma opt_rel_refl {A} (Rl : A -> A -> Prop) o : (forall a, Rl a a) -> opt_rel Rl o o.
Proof. intros H. destruct o; cbn; auto. Qed.
Lemma opt_rel_sym {A} (Rl : A -> A -> Prop) o1 o2 : (forall a b, Rl a b -> Rl b a) -> opt_rel Rl o1 o2 -> opt_rel Rl o2 o1.
Proof. intros H. destruct o1, o2; cbn; auto. Qed.
Lemma opt_rel_trans {A} (Rl : A -> A -> Prop) o1 o2 o3 : (forall a b c, Rl a b -> Rl b c -> Rl a c) ->
  opt_rel Rl o1 o2 -> opt_rel Rl o2 o3 -> opt_rel Rl o1 o3.
Proof. intros H. destruct o1, o2, o3; cbn; try tauto. apply H. Qed.

Lemma rules_eq_refl {X} (m : amap (list X)) : rules_eq m m.
Proof. intros k. apply opt_rel_refl. apply same_set_refl. Qed.
Lemma rules_eq_sym {X} (a b : amap (list X)) : rules_eq a b -> rules_eq b a.
Proof. intros H k. apply opt_rel_sym; [apply same_set_sym | apply H]. Qed.
Lemma rules_eq_trans {X} (a b c : amap (list X)) : rules_eq a b -> rules_eq b c -> rules_eq a c.
Proof. intros H1 H2 k. eapply opt_rel_trans; [apply same_set_trans | apply H1 | apply H2]. Qed.

Lemma table_eq_refl {X} (t : amap (amap (list X))) : table_eq t t.
Proof. intros k. apply opt_rel_refl. apply rules_eq_refl. Qed.
Lemma table_eq_sym {X} (a b : amap (amap (list X))) : table_eq a b -> table_eq b a.
Proof. intros H k. apply opt_rel_sym; [apply rules_eq_sym | apply H]. Qed.
Lemma table_eq_trans {X} (a b c : amap (amap (list X))) : table_eq a b -> table_eq b c -> table_eq a c.
Proof. intros H1 H2 k. eapply opt_rel_trans; [apply rules_eq_trans | apply H1 | apply H2]. Qed.

(* an empty map has no keys *)
Lemma rules_eq_nil {X} (m : amap (list X)) : rules_eq [] m -> m = [].
Proof.
  intros H. destruct m as [|[k v] m]; [reflexivity|]. exfalso. specialize (H k). cbn in H. rewrite beqb_refl in H. exact H.
Qed.
Lemma rules_eq_empty_iff {X} (m1 m2 : amap (list X)) : rules_eq m1 m2 ->
  match m1 with [] => true | _ => false end = match m2 with [] => true | _ => false end.
Proof.
  intros H. destruct m1 as [|e1 m1].
  - rewrite (rules_eq_nil m2 H). reflexivity.
  - destruct m2 as [|e2 m2]; [|reflexivity]. apply rules_eq_sym in H. apply rules_eq_nil in H. discriminate.
Qed.

Lemma existsb_same_set {X} (f : X -> bool) l1 l2 : same_set l1 l2 -> existsb f l1 = existsb f l2.
Proof.
  intros H. destruct (existsb f l1) eqn:E1; symmetry.
  - apply existsb_exists in E1 as (x & Hx & Hf). apply existsb_exists. exists x. split; [apply H; exact Hx | exact Hf].
  - destruct (existsb f l2) eqn:E2; [|reflexivity]. apply existsb_exists in E2 as (x & Hx & Hf).
    assert (existsb f l1 = true) by (apply existsb_exists; exists x; split; [apply H; exact Hx | exact Hf]). congruence.
Qed.
Lemma mem_same_set x l1 l2 : same_set l1 l2 -> mem x l1 = mem x l2.
Proof. intros H. unfold mem. apply existsb_same_set. exact H. Qed.

(* ---- merge_maps: the lookup of a key is the concatenation of the contributions ---- *)
Definition oset {X} (o : option (list X)) (x : X) : Prop := match o with Some l => In x l | None => False end.
Definition odef {X} (o : option (list X)) : Prop := o <> None.

Lemma opt_rel_same_set_iff {X} (o1 o2 : option (list X)) :
  opt_rel same_set o1 o2 <-> ((odef o1 <-> odef o2) /\ forall x, oset o1 x <-> oset o2 x).
Proof.
  unfold odef, oset. destruct o1 as [l1|], o2 as [l2|]; cbn.
  - split; [intros H; split; [split; intros _; discriminate | exact H] | intros [_ H]; exact H].
  - split; [contradiction|]. intros [[H _] _]. exact (H ltac:(discriminate) eq_refl).
  - split; [contradiction|]. intros [[_ H] _]. exact (H ltac:(discriminate) eq_refl).
  - split; [intros _; split; [tauto | intros x; tauto] | auto].
Qed.

Definition add_map {V} (m : amap (list V)) (acc : amap (list V)) : amap (list V) :=
  fold_left (fun acc' kv => upsert (fst kv) (fun o => match o with Some l => l ++ snd kv | None => snd kv end) acc') m acc.

Lemma merge_maps_fold {V} (maps : list (amap (list V))) : merge_maps maps = fold_left (fun acc m => add_map m acc) maps [].
Proof. reflexivity. Qed.

Definition add_opt {V} (o : option (list V)) (c : option (list V)) : option (list V) :=
  match c with Some l => Some (match o with Some l0 => l0 ++ l | None => l end) | None => o end.

Lemma lookup_none_notin {V} k (m : amap V) : ~ In k (map fst m) -> lookup k m = None.
Proof.
  induction m as [|[k' v] m IH]; cbn; [reflexivity|]. intros H.
  destruct (beqb k' k) eqn:E; [apply beqb_eq in E; subst; exfalso; apply H; left; reflexivity | apply IH; tauto].
Qed.

Lemma add_map_lookup {V} k : forall (m acc : amap (list V)), nodup_keys m ->
  lookup k (add_map m acc) = add_opt (lookup k acc) (lookup k m).
Proof.
  induction m as [|[k1 l1] m IH]; intros acc Hnd; [reflexivity|].
  unfold add_map. cbn [fold_left fst snd]. fold (add_map m (upsert k1 (fun o => match o with Some l => l ++ l1 | None => l1 end) acc)).
  inversion Hnd as [|? ? Hnotin Hnd']; subst. rewrite IH by exact Hnd'. cbn [lookup].
  destruct (beqb k1 k) eqn:E.
  - apply beqb_eq in E. subst k1. rewrite (lookup_none_notin k m Hnotin). cbn [add_opt].
    rewrite lookup_upsert_same. reflexivity.
  - rewrite lookup_upsert_other by exact E. reflexivity.
Qed.

Lemma merge_lookup {V} k : forall (maps : list (amap (list V))) acc, Forall nodup_keys maps ->
  lookup k (fold_left (fun acc m => add_map m acc) maps acc) =
  fold_left (fun o m => add_opt o (lookup k m)) maps (lookup k acc).
Proof.
  induction maps as [|m maps IH]; intros acc Hnd; [reflexivity|]. inversion Hnd; subst.
  cbn [fold_left]. rewrite IH by assumption. rewrite add_map_lookup by assumption. reflexivity.
Qed.

Lemma gather_spec {V} (cs : list (option (list V))) : forall o,
  let r := fold_left add_opt cs o in
  (odef r <-> odef o \/ exists c, In c cs /\ odef c) /\
  (forall x, oset r x <-> oset o x \/ exists c, In c cs /\ oset c x).
Proof.
  induction cs as [|c cs IH]; intros o; cbn [fold_left].
  - split; [|intros x]; split; try tauto; intros [H|(c & [] & _)]; exact H.
  - destruct (IH (add_opt o c)) as [D S]. cbv zeta in *. split.
    + rewrite D. split.
      * intros [H|(c' & Hc' & Hd)]; [|right; exists c'; split; [right; exact Hc' | exact Hd]].
        unfold add_opt, odef in *. destruct c; [right; exists (Some l); split; [left; reflexivity | discriminate] | left; exact H].
      * intros [H|(c' & [<-|Hc'] & Hd)]; [left | left | right; eauto].
        -- unfold add_opt, odef in *. destruct c; [discriminate | exact H].
        -- unfold add_opt, odef in *. destruct c; [discriminate | congruence].
    + intros x. rewrite S. split.
      * intros [H|(c' & Hc' & Hs)]; [|right; exists c'; split; [right; exact Hc' | exact Hs]].
        unfold add_opt, oset in *. destruct c as [l|]; [|left; exact H].
        destruct o as [l0|]; [apply in_app_or in H as [H|H]; [left; exact H|] |]; right; exists (Some l); split; try (left; reflexivity); exact H.
      * intros [H|(c' & [<-|Hc'] & Hs)]; [left | left | right; eauto].
        -- unfold add_opt, oset in *. destruct c as [l|]; [|exact H]. destruct o; [apply in_or_app; left; exact H | contradiction].
        -- unfold add_opt, oset in *. destruct c as [l|]; [|contradiction]. destruct o; [apply in_or_app; right; exact Hs | exact Hs].
Qed.

(* two lists of maps that contribute, for every key, the same rules *)
Definition maps_rel {V} (ms1 ms2 : list (amap (list V))) : Prop :=
  forall k, ((exists m, In m ms1 /\ odef (lookup k m)) <-> (exists m, In m ms2 /\ odef (lookup k m))) /\
            (forall x, (exists m, In m ms1 /\ oset (lookup k m) x) <-> (exists m, In m ms2 /\ oset (lookup k m) x)).

Lemma fold_add_opt_map {V} k (maps : list (amap (list V))) o :
  fold_left (fun o m => add_opt o (lookup k m)) maps o = fold_left add_opt (map (lookup k) maps) o.
Proof. revert o. induction maps as [|m maps IH]; intros o; cbn [fold_left map]; [reflexivity | apply IH]. Qed.

Lemma merge_maps_rel {V} (ms1 ms2 : list (amap (list V))) :
  Forall nodup_keys ms1 -> Forall nodup_keys ms2 -> maps_rel ms1 ms2 -> rules_eq (merge_maps ms1) (merge_maps ms2).
Proof.
  intros N1 N2 Hr k. rewrite !merge_maps_fold, !merge_lookup by assumption. rewrite !fold_add_opt_map.
  apply opt_rel_same_set_iff. destruct (Hr k) as [Hd Hs].
  destruct (gather_spec (map (lookup k) ms1) (lookup k [])) as [D1 S1].
  destruct (gather_spec (map (lookup k) ms2) (lookup k [])) as [D2 S2]. cbv zeta in *.
  assert (T : forall (ms : list (amap (list V))) (P : option (list V) -> Prop),
             (exists c, In c (map (lookup k) ms) /\ P c) <-> (exists m, In m ms /\ P (lookup k m))).
  { intros ms P. split.
    - intros (c & Hc & Hp). apply in_map_iff in Hc as (m & <- & Hm). eauto.
    - intros (m & Hm & Hp). exists (lookup k m). split; [apply in_map; exact Hm | exact Hp]. }
  split.
  - rewrite D1, D2. rewrite !T. rewrite Hd. tauto.
  - intros x. rewrite S1, S2. rewrite (T ms1 (fun c => oset c x)), (T ms2 (fun c => oset c x)). rewrite (Hs x). tauto.
Qed.
