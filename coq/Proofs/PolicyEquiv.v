(* Policies as rule SETS (C13, C17): two policy values whose tables hold the same rules -- keys in
   any order, rule lists in any order and multiplicity, pattern entries in any order -- sanitize
   every input to the same bytes.  Go's maps iterate in random order and the builder appends in
   call order; neither can influence the result. *)
From Coq Require Import List NArith ZArith Bool Lia.
Import ListNotations.
From BM Require Import Bytes Utf8 Strings Escape Tokenizer Policy Url Style Attrs Loop MapProofs.
Open Scope N_scope.

Definition same_set {X} (l1 l2 : list X) : Prop := forall x, In x l1 <-> In x l2.
Definition opt_rel {A1 A2} (Rl : A1 -> A2 -> Prop) (o1 : option A1) (o2 : option A2) : Prop :=
  match o1, o2 with Some a, Some b => Rl a b | None, None => True | _, _ => False end.
Definition rules_eq {X} (m1 m2 : amap (list X)) : Prop := forall k, opt_rel same_set (lookup k m1) (lookup k m2).
Definition table_eq {X} (t1 t2 : amap (amap (list X))) : Prop := forall k, opt_rel rules_eq (lookup k t1) (lookup k t2).
Definition nodup_keys {V} (m : amap V) : Prop := NoDup (map fst m).

Lemma same_set_refl {X} (l : list X) : same_set l l. Proof. intros x; tauto. Qed.
Lemma same_set_sym {X} (a b : list X) : same_set a b -> same_set b a. Proof. intros H x. symmetry. apply H. Qed.
Lemma same_set_trans {X} (a b c : list X) : same_set a b -> same_set b c -> same_set a c.
Proof. intros H1 H2 x. rewrite (H1 x). apply H2. Qed.
Lemma same_set_nil {X} (l : list X) : same_set [] l -> l = [].
Proof. intros H. destruct l as [|x l]; [reflexivity|]. exfalso. apply (H x). left; reflexivity. Qed.

Lemma opt_rel_refl {A} (Rl : A -> A -> Prop) o : (forall a, Rl a a) -> opt_rel Rl o o.
Proof. intros H. destruct o; cbn; auto. Qed.
Lemma opt_rel_sym {A} (Rl : A -> A -> Prop) o1 o2 : (forall a b, Rl a b -> Rl b a) -> opt_rel Rl o1 o2 -> opt_rel Rl o2 o1.
Proof. intros H. destruct o1, o2; cbn; auto. Qed.
Lemma opt_rel_trans {A} (Rl : A -> A -> Prop) o1 o2 o3 : (forall a b c, Rl a b -> Rl b c -> Rl a c) ->
  opt_rel Rl o1 o2 -> opt_rel Rl o2 o3 -> opt_rel Rl o1 o3.
Proof. intros H. destruct o1, o2, o3; cbn; try tauto. apply H. Qed.

Lemma rules_eq_refl {X} (m : amap (list X)) : rules_eq m m.
Proof. intros k. apply opt_rel_refl. apply same_set_refl. Qed.
Lemma rules_eq_sym {X} (a b : amap (list X)) : rules_eq a b -> rules_eq b a.
Proof. intros H k. apply opt_rel_sym; [apply same_set_sym | apply H]. Qed.
Lemma rules_eq_trans {X} (a b c : amap (list X)) : rules_eq a b -> rules_eq b c -> rules_eq a c.
Proof. intros H1 H2 k. eapply opt_rel_trans; [apply same_set_trans | apply H1 | apply H2]. Qed.

Lemma table_eq_refl {X} (t : amap (amap (list X))) : table_eq t t.
Proof. intros k. apply opt_rel_refl. apply rules_eq_refl. Qed.
Lemma table_eq_sym {X} (a b : amap (amap (list X))) : table_eq a b -> table_eq b a.
Proof. intros H k. apply opt_rel_sym; [apply rules_eq_sym | apply H]. Qed.
Lemma table_eq_trans {X} (a b c : amap (amap (list X))) : table_eq a b -> table_eq b c -> table_eq a c.
Proof. intros H1 H2 k. eapply opt_rel_trans; [apply rules_eq_trans | apply H1 | apply H2]. Qed.

(* an empty map has no keys *)
Lemma rules_eq_nil {X} (m : amap (list X)) : rules_eq [] m -> m = [].
Proof.
  intros H. destruct m as [|[k v] m]; [reflexivity|]. exfalso. specialize (H k). cbn in H. rewrite beqb_refl in H. exact H.
Qed.
Lemma rules_eq_empty_iff {X} (m1 m2 : amap (list X)) : rules_eq m1 m2 ->
  match m1 with [] => true | _ => false end = match m2 with [] => true | _ => false end.
Proof.
  intros H. destruct m1 as [|e1 m1].
  - rewrite (rules_eq_nil m2 H). reflexivity.
  - destruct m2 as [|e2 m2]; [|reflexivity]. apply rules_eq_sym in H. apply rules_eq_nil in H. discriminate.
Qed.

Lemma existsb_same_set {X} (f : X -> bool) l1 l2 : same_set l1 l2 -> existsb f l1 = existsb f l2.
Proof.
  intros H. destruct (existsb f l1) eqn:E1; symmetry.
  - apply existsb_exists in E1 as (x & Hx & Hf). apply existsb_exists. exists x. split; [apply H; exact Hx | exact Hf].
  - destruct (existsb f l2) eqn:E2; [|reflexivity]. apply existsb_exists in E2 as (x & Hx & Hf).
    assert (existsb f l1 = true) by (apply existsb_exists; exists x; split; [apply H; exact Hx | exact Hf]). congruence.
Qed.
Lemma mem_same_set x l1 l2 : same_set l1 l2 -> mem x l1 = mem x l2.
Proof. intros H. unfold mem. apply existsb_same_set. exact H. Qed.

(* ---- merge_maps: the lookup of a key is the concatenation of the contributions ---- *)
Definition oset {X} (o : option (list X)) (x : X) : Prop := match o with Some l => In x l | None => False end.
Definition odef {X} (o : option (list X)) : Prop := o <> None.

Lemma opt_rel_same_set_iff {X} (o1 o2 : option (list X)) :
  opt_rel same_set o1 o2 <-> ((odef o1 <-> odef o2) /\ forall x, oset o1 x <-> oset o2 x).
Proof.
  unfold odef, oset. destruct o1 as [l1|], o2 as [l2|]; cbn.
  - split; [intros H; split; [split; intros _; discriminate | exact H] | intros [_ H]; exact H].
  - split; [contradiction|]. intros [[H _] _]. exact (H ltac:(discriminate) eq_refl).
  - split; [contradiction|]. intros [[_ H] _]. exact (H ltac:(discriminate) eq_refl).
  - split; [intros _; split; [tauto | intros x; tauto] | auto].
Qed.

Definition add_map {V} (m : amap (list V)) (acc : amap (list V)) : amap (list V) :=
  fold_left (fun acc' kv => upsert (fst kv) (fun o => match o with Some l => l ++ snd kv | None => snd kv end) acc') m acc.

Lemma merge_maps_fold {V} (maps : list (amap (list V))) : merge_maps maps = fold_left (fun acc m => add_map m acc) maps [].
Proof. reflexivity. Qed.

Definition add_opt {V} (o : option (list V)) (c : option (list V)) : option (list V) :=
  match c with Some l => Some (match o with Some l0 => l0 ++ l | None => l end) | None => o end.

Lemma lookup_none_notin {V} k (m : amap V) : ~ In k (map fst m) -> lookup k m = None.
Proof.
  induction m as [|[k' v] m IH]; cbn; [reflexivity|]. intros H.
  destruct (beqb k' k) eqn:E; [apply beqb_eq in E; subst; exfalso; apply H; left; reflexivity | apply IH; tauto].
Qed.

Lemma add_map_lookup {V} k : forall (m acc : amap (list V)), nodup_keys m ->
  lookup k (add_map m acc) = add_opt (lookup k acc) (lookup k m).
Proof.
  induction m as [|[k1 l1] m IH]; intros acc Hnd; [reflexivity|].
  unfold add_map. cbn [fold_left fst snd]. fold (add_map m (upsert k1 (fun o => match o with Some l => l ++ l1 | None => l1 end) acc)).
  inversion Hnd as [|? ? Hnotin Hnd']; subst. rewrite IH by exact Hnd'. cbn [lookup].
  destruct (beqb k1 k) eqn:E.
  - apply beqb_eq in E. subst k1. rewrite (lookup_none_notin k m Hnotin). cbn [add_opt].
    rewrite lookup_upsert_same. reflexivity.
  - rewrite lookup_upsert_other by exact E. reflexivity.
Qed.

Lemma merge_lookup {V} k : forall (maps : list (amap (list V))) acc, Forall nodup_keys maps ->
  lookup k (fold_left (fun acc m => add_map m acc) maps acc) =
  fold_left (fun o m => add_opt o (lookup k m)) maps (lookup k acc).
Proof.
  induction maps as [|m maps IH]; intros acc Hnd; [reflexivity|]. inversion Hnd; subst.
  cbn [fold_left]. rewrite IH by assumption. rewrite add_map_lookup by assumption. reflexivity.
Qed.

Lemma gather_spec {V} (cs : list (option (list V))) : forall o,
  let r := fold_left add_opt cs o in
  (odef r <-> odef o \/ exists c, In c cs /\ odef c) /\
  (forall x, oset r x <-> oset o x \/ exists c, In c cs /\ oset c x).
Proof.
  induction cs as [|c cs IH]; intros o; cbn [fold_left].
  - split; [|intros x]; split; try tauto; intros [H|(c & [] & _)]; exact H.
  - destruct (IH (add_opt o c)) as [D S]. cbv zeta in *. split.
    + rewrite D. split.
      * intros [H|(c' & Hc' & Hd)]; [|right; exists c'; split; [right; exact Hc' | exact Hd]].
        unfold add_opt, odef in *. destruct c; [right; exists (Some l); split; [left; reflexivity | discriminate] | left; exact H].
      * intros [H|(c' & [<-|Hc'] & Hd)]; [left | left | right; eauto].
        -- unfold add_opt, odef in *. destruct c; [discriminate | exact H].
        -- unfold add_opt, odef in *. destruct c; [discriminate | congruence].
    + intros x. rewrite S. split.
      * intros [H|(c' & Hc' & Hs)]; [|right; exists c'; split; [right; exact Hc' | exact Hs]].
        unfold add_opt, oset in *. destruct c as [l|]; [|left; exact H].
        destruct o as [l0|]; [apply in_app_or in H as [H|H]; [left; exact H|] |]; right; exists (Some l); split; try (left; reflexivity); exact H.
      * intros [H|(c' & [<-|Hc'] & Hs)]; [left | left | right; eauto].
        -- unfold add_opt, oset in *. destruct c as [l|]; [|exact H]. destruct o; [apply in_or_app; left; exact H | contradiction].
        -- unfold add_opt, oset in *. destruct c as [l|]; [|contradiction]. destruct o; [apply in_or_app; right; exact Hs | exact Hs].
Qed.

(* two lists of maps that contribute, for every key, the same rules *)
Definition maps_rel {V} (ms1 ms2 : list (amap (list V))) : Prop :=
  forall k, ((exists m, In m ms1 /\ odef (lookup k m)) <-> (exists m, In m ms2 /\ odef (lookup k m))) /\
            (forall x, (exists m, In m ms1 /\ oset (lookup k m) x) <-> (exists m, In m ms2 /\ oset (lookup k m) x)).

Lemma fold_add_opt_map {V} k (maps : list (amap (list V))) o :
  fold_left (fun o m => add_opt o (lookup k m)) maps o = fold_left add_opt (map (lookup k) maps) o.
Proof. revert o. induction maps as [|m maps IH]; intros o; cbn [fold_left map]; [reflexivity | apply IH]. Qed.

Lemma merge_maps_rel {V} (ms1 ms2 : list (amap (list V))) :
  Forall nodup_keys ms1 -> Forall nodup_keys ms2 -> maps_rel ms1 ms2 -> rules_eq (merge_maps ms1) (merge_maps ms2).
Proof.
  intros N1 N2 Hr k. rewrite !merge_maps_fold, !merge_lookup by assumption. rewrite !fold_add_opt_map.
  apply opt_rel_same_set_iff. destruct (Hr k) as [Hd Hs].
  destruct (gather_spec (map (lookup k) ms1) (lookup k [])) as [D1 S1].
  destruct (gather_spec (map (lookup k) ms2) (lookup k [])) as [D2 S2]. cbv zeta in *.
  assert (T : forall (ms : list (amap (list V))) (P : option (list V) -> Prop),
             (exists c, In c (map (lookup k) ms) /\ P c) <-> (exists m, In m ms /\ P (lookup k m))).
  { intros ms P. split.
    - intros (c & Hc & Hp). apply in_map_iff in Hc as (m & <- & Hm). eauto.
    - intros (m & Hm & Hp). exists (lookup k m). split; [apply in_map; exact Hm | exact Hp]. }
  split.
  - rewrite D1, D2. rewrite !T. rewrite Hd. tauto.
  - intros x. rewrite S1, S2. rewrite (T ms1 (fun c => oset c x)), (T ms2 (fun c => oset c x)). rewrite (Hs x). tauto.
Qed.

(* ---- pattern tables: entries in any order, maps equal as rule sets ---- *)
Section RMap.
  Variables M X : Type.
  Notation rtab := (list (N * M * amap (list X))).

  Inductive rmap_eq : rtab -> rtab -> Prop :=
  | re_nil : rmap_eq [] []
  | re_cons i r m1 m2 t1 t2 : rules_eq m1 m2 -> rmap_eq t1 t2 -> rmap_eq ((i, r, m1) :: t1) ((i, r, m2) :: t2)
  | re_swap a b t : rmap_eq (a :: b :: t) (b :: a :: t)
  | re_trans t1 t2 t3 : rmap_eq t1 t2 -> rmap_eq t2 t3 -> rmap_eq t1 t3.

  Lemma rmap_eq_refl t : rmap_eq t t.
  Proof. induction t as [|[[i r] m] t IH]; [constructor | apply re_cons; [apply rules_eq_refl | exact IH]]. Qed.
  Lemma rmap_eq_sym t1 t2 : rmap_eq t1 t2 -> rmap_eq t2 t1.
  Proof.
    induction 1; [constructor | apply re_cons; [apply rules_eq_sym; assumption | assumption] | apply re_swap | eapply re_trans; eauto].
  Qed.

  (* what the code asks of a pattern table: a predicate on the pattern and on the map as a rule set *)
  Lemma rmap_eq_existsb (f : M -> bool) (h : amap (list X) -> bool) t1 t2 :
    (forall m1 m2, rules_eq m1 m2 -> h m1 = h m2) -> rmap_eq t1 t2 ->
    existsb (fun e => f (snd (fst e)) && h (snd e)) t1 = existsb (fun e => f (snd (fst e)) && h (snd e)) t2.
  Proof.
    intros Hh. induction 1 as [|i r m1 m2 t1 t2 Hm Ht IH|a b t|t1 t2 t3 H1 IH1 H2 IH2]; cbn [existsb fst snd].
    - reflexivity.
    - rewrite IH, (Hh m1 m2 Hm). reflexivity.
    - rewrite !orb_assoc. f_equal. apply orb_comm.
    - congruence.
  Qed.

  Lemma rmap_eq_maps_rel (f : M -> bool) t1 t2 : rmap_eq t1 t2 ->
    maps_rel (map snd (filter (fun e => f (snd (fst e))) t1)) (map snd (filter (fun e => f (snd (fst e))) t2)).
  Proof.
    induction 1 as [|i r m1 m2 t1 t2 Hm Ht IH|a b t|t1 t2 t3 H1 IH1 H2 IH2].
    - intros k. split; [|intros x]; tauto.
    - intros k. cbn [filter fst snd]. destruct (f r); [|apply IH]. cbn [map]. specialize (IH k) as [IHd IHs].
      specialize (Hm k). apply opt_rel_same_set_iff in Hm as [Hd Hs]. split.
      + split; intros (m & [<-|Hin] & Ho).
        * exists m2. split; [left; reflexivity | apply Hd; exact Ho].
        * destruct (proj1 IHd (ex_intro _ m (conj Hin Ho))) as (m' & Hin' & Ho'). exists m'. split; [right; exact Hin' | exact Ho'].
        * exists m1. split; [left; reflexivity | apply Hd; exact Ho].
        * destruct (proj2 IHd (ex_intro _ m (conj Hin Ho))) as (m' & Hin' & Ho'). exists m'. split; [right; exact Hin' | exact Ho'].
      + intros x. split; intros (m & [<-|Hin] & Ho).
        * exists m2. split; [left; reflexivity | apply Hs; exact Ho].
        * destruct (proj1 (IHs x) (ex_intro _ m (conj Hin Ho))) as (m' & Hin' & Ho'). exists m'. split; [right; exact Hin' | exact Ho'].
        * exists m1. split; [left; reflexivity | apply Hs; exact Ho].
        * destruct (proj2 (IHs x) (ex_intro _ m (conj Hin Ho))) as (m' & Hin' & Ho'). exists m'. split; [right; exact Hin' | exact Ho'].
    - intros k. cbn [filter]. destruct (f (snd (fst a))), (f (snd (fst b))); cbn [map]; split; try (intros x); try tauto;
        split; intros (m & Hin & Ho); exists m; (split; [|exact Ho]); cbn [In] in *; tauto.
    - intros k. destruct (IH1 k) as [A1 B1]. destruct (IH2 k) as [A2 B2]. split; [rewrite A1; exact A2 | intros x; rewrite (B1 x); apply B2].
  Qed.

  Definition nodup_tab (t : rtab) : Prop := Forall (fun e => nodup_keys (snd e)) t.

  Lemma nodup_tab_filter (f : N * M * amap (list X) -> bool) t : nodup_tab t -> Forall nodup_keys (map snd (filter f t)).
  Proof.
    intros H. apply Forall_forall. intros m Hm. apply in_map_iff in Hm as (e & <- & He). apply filter_In in He as [He _].
    unfold nodup_tab in H. rewrite Forall_forall in H. apply H. exact He.
  Qed.

  Lemma rmap_eq_merge (f : M -> bool) t1 t2 : rmap_eq t1 t2 -> nodup_tab t1 -> nodup_tab t2 ->
    rules_eq (merge_maps (map snd (filter (fun e => f (snd (fst e))) t1))) (merge_maps (map snd (filter (fun e => f (snd (fst e))) t2))).
  Proof.
    intros H N1 N2. apply merge_maps_rel; [apply nodup_tab_filter; exact N1 | apply nodup_tab_filter; exact N2 | apply rmap_eq_maps_rel; exact H].
  Qed.

  Lemma rmap_eq_filter_empty (f : M -> bool) t1 t2 : rmap_eq t1 t2 ->
    match filter (fun e => f (snd (fst e))) t1 with [] => false | _ => true end =
    match filter (fun e => f (snd (fst e))) t2 with [] => false | _ => true end.
  Proof.
    intros H. pose proof (rmap_eq_existsb f (fun _ => true) t1 t2 (fun _ _ _ => eq_refl) H) as E.
    assert (T : forall t : rtab, match filter (fun e => f (snd (fst e))) t with [] => false | _ => true end =
                       existsb (fun e => f (snd (fst e)) && true) t).
    { induction t as [|e t IH]; cbn [filter existsb]; [reflexivity|]. rewrite andb_true_r. destruct (f (snd (fst e))); [reflexivity | exact IH]. }
    rewrite !T. exact E.
  Qed.
End RMap.
Arguments rmap_eq {M X} _ _.
Arguments nodup_tab {M X} _.

(* ---- policies that hold the same rules ---- *)
Section Peq.
  Variables M U R : Type.
  Variable I : interp M U R.

  Record peq (p q : policy M U R) : Prop := {
    pe_addSpaces : addSpaces p = addSpaces q;
    pe_nf : requireNoFollow p = requireNoFollow q;
    pe_nffq : requireNoFollowFQ p = requireNoFollowFQ q;
    pe_nr : requireNoReferrer p = requireNoReferrer q;
    pe_nrfq : requireNoReferrerFQ p = requireNoReferrerFQ q;
    pe_co : requireCrossOrigin p = requireCrossOrigin q;
    pe_sandbox : opt_rel same_set (requireSandbox p) (requireSandbox q);
    pe_tb : addTargetBlank p = addTargetBlank q;
    pe_parse : requireParseableURLs p = requireParseableURLs q;
    pe_rel : allowRelativeURLs p = allowRelativeURLs q;
    pe_data : allowDataAttributes p = allowDataAttributes q;
    pe_comments : allowComments p = allowComments q;
    pe_ea : table_eq (elsAndAttrs p) (elsAndAttrs q);
    pe_ema : rmap_eq (elsMatchingAndAttrs p) (elsMatchingAndAttrs q);
    pe_ema_nd1 : nodup_tab (elsMatchingAndAttrs p);
    pe_ema_nd2 : nodup_tab (elsMatchingAndAttrs q);
    pe_ga : rules_eq (globalAttrs p) (globalAttrs q);
    pe_es : table_eq (elsAndStyles p) (elsAndStyles q);
    pe_ems : rmap_eq (elsMatchingAndStyles p) (elsMatchingAndStyles q);
    pe_ems_nd1 : nodup_tab (elsMatchingAndStyles p);
    pe_ems_nd2 : nodup_tab (elsMatchingAndStyles q);
    pe_gs : rules_eq (globalStyles p) (globalStyles q);
    pe_schemes : rules_eq (allowURLSchemes p) (allowURLSchemes q);
    pe_schemeres : same_set (allowURLSchemeRegexps p) (allowURLSchemeRegexps q);
    pe_rewriter : srcRewriter p = srcRewriter q;
    pe_na : same_set (elsNoAttrs p) (elsNoAttrs q);
    pe_mna : same_set (elsMatchingNoAttrs p) (elsMatchingNoAttrs q);
    pe_skip : same_set (elsSkipContent p) (elsSkipContent q);
    pe_unsafe : allowUnsafe p = allowUnsafe q
  }.

  Variables p q : policy M U R.
  Hypothesis E : peq p q.

  Lemma nonempty_rules_eq {X} (m1 m2 : amap (list X)) : rules_eq m1 m2 ->
    match m1 with [] => false | _ => true end = match m2 with [] => false | _ => true end.
  Proof. intros H. pose proof (rules_eq_empty_iff m1 m2 H) as T. destruct m1, m2; try reflexivity; discriminate. Qed.

  Lemma peq_allow_no_attrs n : allow_no_attrs I p n = allow_no_attrs I q n.
  Proof.
    unfold allow_no_attrs. rewrite (mem_same_set n _ _ (pe_na p q E)).
    rewrite (existsb_same_set (fun r => mmatch I r n) _ _ (pe_mna p q E)). reflexivity.
  Qed.

  Lemma peq_rules_accept (m1 m2 : amap (list (attr_policy M))) a : rules_eq m1 m2 -> rules_accept I m1 a = rules_accept I m2 a.
  Proof.
    intros H. unfold rules_accept. specialize (H (akey a)).
    destruct (lookup (akey a) m1), (lookup (akey a) m2); cbn in H; try contradiction; [|reflexivity].
    apply existsb_same_set. exact H.
  Qed.

  Lemma peq_element_policies n : opt_rel rules_eq (element_policies I p n) (element_policies I q n).
  Proof.
    unfold element_policies. pose proof (pe_ea p q E n) as T.
    destruct (lookup n (elsAndAttrs p)), (lookup n (elsAndAttrs q)); cbn in T; try contradiction; [exact T|].
    unfold match_regex, matching_entries.
    rewrite (rmap_eq_filter_empty M _ (fun r => mmatch I r n) _ _ (pe_ema p q E)).
    destruct (filter (fun e => mmatch I (snd (fst e)) n) (elsMatchingAndAttrs q)) eqn:Ef; [exact Logic.I|]. rewrite <- Ef.
    cbn. apply (rmap_eq_merge M _ (fun r => mmatch I r n)); [exact (pe_ema p q E) | exact (pe_ema_nd1 p q E) | exact (pe_ema_nd2 p q E)].
  Qed.

  Lemma peq_has_style_policies n : has_style_policies I p n = has_style_policies I q n.
  Proof.
    unfold has_style_policies. f_equal; [f_equal|].
    - apply nonempty_rules_eq. exact (pe_gs p q E).
    - pose proof (pe_es p q E n) as T. destruct (lookup n (elsAndStyles p)) as [m1|], (lookup n (elsAndStyles q)) as [m2|]; cbn in T; try contradiction; [|reflexivity].
      pose proof (nonempty_rules_eq m1 m2 T) as T2. destruct m1, m2; try reflexivity; discriminate.
    - apply (rmap_eq_existsb M _ (fun r => mmatch I r n) (fun m => match m with [] => false | _ => true end)); [|exact (pe_ems p q E)].
      intros m1 m2. apply nonempty_rules_eq.
  Qed.

  Lemma peq_element_styles n : rules_eq (element_styles I p n) (element_styles I q n).
  Proof.
    unfold element_styles.
    assert (Hm : rules_eq (merge_maps (map snd (filter (fun e => mmatch I (snd (fst e)) n) (elsMatchingAndStyles p))))
                          (merge_maps (map snd (filter (fun e => mmatch I (snd (fst e)) n) (elsMatchingAndStyles q))))).
    { apply (rmap_eq_merge M _ (fun r => mmatch I r n)); [exact (pe_ems p q E) | exact (pe_ems_nd1 p q E) | exact (pe_ems_nd2 p q E)]. }
    pose proof (pe_es p q E n) as T.
    destruct (lookup n (elsAndStyles p)) as [m1|], (lookup n (elsAndStyles q)) as [m2|]; cbn in T; try contradiction; [|exact Hm].
    pose proof (nonempty_rules_eq m1 m2 T) as T2. destruct m1, m2; try discriminate; [exact Hm | exact T].
  Qed.

  Lemma peq_decl_allowed sps1 sps2 prop val : rules_eq sps1 sps2 -> decl_allowed I p sps1 prop val = decl_allowed I q sps2 prop val.
  Proof.
    intros H. unfold decl_allowed.
    set (tprop := fold_left _ style_prefixes (to_lower prop)). set (tval := remove_unicode (to_lower val)).
    f_equal. f_equal.
    - specialize (H tprop). destruct (lookup tprop sps1), (lookup tprop sps2); cbn in H; try contradiction; [|reflexivity].
      apply existsb_same_set. exact H.
    - pose proof (pe_gs p q E tprop) as T. destruct (lookup tprop (globalStyles p)), (lookup tprop (globalStyles q)); cbn in T; try contradiction; [|reflexivity].
      apply existsb_same_set. exact T.
  Qed.

  Lemma peq_sanitize_styles n v : sanitize_styles I p n v = sanitize_styles I q n v.
  Proof.
    unfold sanitize_styles. destruct (css_decls I _) as [decs|]; [|reflexivity].
    f_equal. f_equal. apply filter_ext. intros d. apply peq_decl_allowed. apply peq_element_styles.
  Qed.

  Lemma peq_valid_url v : valid_url I p v = valid_url I q v.
  Proof.
    unfold valid_url. rewrite (pe_parse p q E). destruct (requireParseableURLs q); [|reflexivity].
    destruct (_ && _); [reflexivity|]. destruct (url_parse I _) as [u|]; [|reflexivity].
    destruct (u_scheme u) as [|c sc] eqn:Es.
    - rewrite (pe_rel p q E). reflexivity.
    - pose proof (pe_schemes p q E (c :: sc)) as T.
      destruct (lookup (c :: sc) (allowURLSchemes p)) as [l1|], (lookup (c :: sc) (allowURLSchemes q)) as [l2|]; cbn in T; try contradiction.
      + destruct l1 as [|x1 l1].
        * rewrite (same_set_nil l2 T). reflexivity.
        * destruct l2 as [|x2 l2]; [apply same_set_sym in T; apply same_set_nil in T; discriminate|].
          rewrite (existsb_same_set (fun f => upol I f u) _ _ T). reflexivity.
      + rewrite (existsb_same_set (fun r => mmatch I r (c :: sc)) _ _ (pe_schemeres p q E)). reflexivity.
  Qed.

  Lemma peq_filter_attr n aps1 aps2 a : rules_eq aps1 aps2 ->
    filter_attr I p n aps1 (has_style_policies I p n) a = filter_attr I q n aps2 (has_style_policies I q n) a.
  Proof.
    intros H. unfold filter_attr. rewrite (pe_data p q E), peq_has_style_policies, peq_sanitize_styles.
    rewrite (peq_rules_accept aps1 aps2 a H), (peq_rules_accept _ _ a (pe_ga p q E)). reflexivity.
  Qed.

  Lemma peq_url_pass_attr n a : url_pass_attr I p n a = url_pass_attr I q n a.
  Proof. unfold url_pass_attr. rewrite peq_valid_url, (pe_rewriter p q E). reflexivity. Qed.

  Lemma peq_link_pass n l : link_pass I p n l = link_pass I q n l.
  Proof.
    unfold link_pass. rewrite (pe_nf p q E), (pe_nffq p q E), (pe_nr p q E), (pe_nrfq p q E), (pe_tb p q E). reflexivity.
  Qed.

  Lemma peq_crossorigin_pass n l : crossorigin_pass p n l = crossorigin_pass q n l.
  Proof. unfold crossorigin_pass. rewrite (pe_co p q E). reflexivity. Qed.

  Lemma dedup_keep_same_set a1 a2 : same_set a1 a2 -> forall ws seen, dedup_keep a1 seen ws = dedup_keep a2 seen ws.
  Proof.
    intros H. induction ws as [|w ws IH]; intros seen; cbn [dedup_keep]; [reflexivity|].
    rewrite (mem_same_set w a1 a2 H). destruct (mem w a2 && negb (mem w seen)); rewrite ?IH; reflexivity.
  Qed.

  Lemma peq_sandbox_pass n l : sandbox_pass p n l = sandbox_pass q n l.
  Proof.
    unfold sandbox_pass. pose proof (pe_sandbox p q E) as T.
    destruct (requireSandbox p) as [a1|], (requireSandbox q) as [a2|]; cbn in T; try contradiction; [|reflexivity].
    destruct (beqb n (B"iframe")); [|reflexivity]. destruct (existsb _ l); [|reflexivity].
    apply map_ext. intros a. destruct (key_is _ a); [|reflexivity]. rewrite (dedup_keep_same_set a1 a2 T). reflexivity.
  Qed.

  Lemma peq_sanitize_attrs n attrs aps1 aps2 : rules_eq aps1 aps2 ->
    sanitize_attrs I p n attrs aps1 = sanitize_attrs I q n attrs aps2.
  Proof.
    intros H. unfold sanitize_attrs. destruct attrs as [|a0 ar]; [reflexivity|].
    remember (flat_map (filter_attr I p n aps1 (has_style_policies I p n)) (a0 :: ar)) as c1 eqn:E1.
    remember (flat_map (filter_attr I q n aps2 (has_style_policies I q n)) (a0 :: ar)) as c2 eqn:E2.
    assert (Hc : c1 = c2).
    { subst c1 c2. apply flat_map_ext. intros a. apply peq_filter_attr. exact H. }
    rewrite Hc. clear E1 E2 Hc c1. destruct c2 as [|c0 cl]; [reflexivity|].
    rewrite (pe_parse p q E).
    assert (Hu : flat_map (url_pass_attr I p n) (c0 :: cl) = flat_map (url_pass_attr I q n) (c0 :: cl)).
    { apply flat_map_ext. intros a. apply peq_url_pass_attr. }
    rewrite Hu. rewrite peq_sandbox_pass, peq_crossorigin_pass. destruct (linkable n); rewrite ?peq_link_pass; reflexivity.
  Qed.

  Lemma peq_clean_attrs n a aps1 aps2 : rules_eq aps1 aps2 -> clean_attrs I p n a aps1 = clean_attrs I q n a aps2.
  Proof. intros H. unfold clean_attrs. destruct a; [reflexivity|]. apply peq_sanitize_attrs. exact H. Qed.

  (* ---- the token loop ---- *)
  Lemma peq_space : space_if_adding p = space_if_adding q.
  Proof. unfold space_if_adding. rewrite (pe_addSpaces p q E). reflexivity. Qed.

  Lemma lookup_ea_iff n : match lookup n (elsAndAttrs p) with Some _ => true | None => false end =
                          match lookup n (elsAndAttrs q) with Some _ => true | None => false end.
  Proof. pose proof (pe_ea p q E n) as T. destruct (lookup n (elsAndAttrs p)), (lookup n (elsAndAttrs q)); cbn in T; try contradiction; reflexivity. Qed.

  Lemma existsb_ext_eq {A} (f g : A -> bool) l : (forall x, f x = g x) -> existsb f l = existsb g l.
  Proof. intros H. induction l as [|x l IH]; cbn; [reflexivity | rewrite H, IH; reflexivity]. Qed.

  Lemma peq_matched n :
    existsb (fun e => mmatch I (snd (fst e)) n) (elsMatchingAndAttrs p) = existsb (fun e => mmatch I (snd (fst e)) n) (elsMatchingAndAttrs q).
  Proof.
    rewrite (existsb_ext_eq _ (fun e => mmatch I (snd (fst e)) n && true) (elsMatchingAndAttrs p)) by (intros; rewrite andb_true_r; reflexivity).
    rewrite (existsb_ext_eq _ (fun e => mmatch I (snd (fst e)) n && true) (elsMatchingAndAttrs q)) by (intros; rewrite andb_true_r; reflexivity).
    apply (rmap_eq_existsb M _ (fun r => mmatch I r n) (fun _ => true)); [reflexivity | exact (pe_ema p q E)].
  Qed.

  Lemma peq_end_tail st n : end_tail I p st n = end_tail I q st n.
  Proof.
    unfold end_tail. pose proof (pe_ea p q E n) as T.
    rewrite peq_matched, (mem_same_set n _ _ (pe_skip p q E)), peq_space.
    destruct (lookup n (elsAndAttrs p)), (lookup n (elsAndAttrs q)); cbn in T; try contradiction; reflexivity.
  Qed.

  Lemma peq_step st t : step I p st t = step I q st t.
  Proof.
    destruct t as [d|n a|n|n a|d|d]; cbn [step].
    - rewrite (pe_unsafe p q E). reflexivity.
    - rewrite (pe_unsafe p q E). destruct (is_script_or_style n && negb (allowUnsafe q)); [reflexivity|].
      pose proof (peq_element_policies n) as T.
      destruct (element_policies I p n) as [aps1|], (element_policies I q n) as [aps2|]; cbn in T; try contradiction.
      + rewrite (peq_clean_attrs n a aps1 aps2 T), peq_allow_no_attrs, peq_space. reflexivity.
      + rewrite (mem_same_set n _ _ (pe_skip p q E)), peq_space. reflexivity.
    - rewrite (pe_unsafe p q E). destruct (is_script_or_style n && negb (allowUnsafe q)); [reflexivity|].
      set (st1 := if beqb (recent st) (normalise n) then set_recent st [] else st).
      destruct (skipClosing st1); [|apply peq_end_tail].
      destruct (stack st1) as [|[top k] rest]; [reflexivity|].
      destruct (beqb top n); [|apply peq_end_tail]. destruct k; [rewrite peq_space; reflexivity | apply peq_end_tail].
    - rewrite (pe_unsafe p q E). destruct (is_script_or_style n && negb (allowUnsafe q)); [reflexivity|].
      pose proof (peq_element_policies n) as T.
      destruct (element_policies I p n) as [aps1|], (element_policies I q n) as [aps2|]; cbn in T; try contradiction.
      + rewrite (peq_clean_attrs n a aps1 aps2 T), peq_allow_no_attrs, peq_space. reflexivity.
      + rewrite peq_space. reflexivity.
    - rewrite (pe_comments p q E). reflexivity.
    - reflexivity.
  Qed.

  Lemma peq_run_from : forall ts st, run_from I p st ts = run_from I q st ts.
  Proof.
    induction ts as [|t ts IH]; intros st; cbn [run_from]; [reflexivity|].
    rewrite peq_step. destruct (step I q st t) as [st' out|]; [|reflexivity]. rewrite IH. reflexivity.
  Qed.

  (* the same rules, the same bytes: for every input *)
  Theorem peq_sanitize s : sanitize_bytes I p s = sanitize_bytes I q s.
  Proof. unfold sanitize_bytes, sanitize_tokens, emitted, run_items. rewrite peq_run_from. reflexivity. Qed.

  Theorem peq_sanitize_tokens ts : run I p ts = run I q ts.
  Proof. unfold run, run_items. rewrite peq_run_from. reflexivity. Qed.
End Peq.
Arguments peq {M U R} p q.
Arguments peq_sanitize {M U R} I p q E s.
