(* Post-conditions of the link-hardening passes of sanitizeAttrs (C11). *)
From Coq Require Import List NArith Bool Lia.
Import ListNotations.
From BM Require Import Bytes Utf8 Strings Tokenizer Policy Url Style Attrs GenTables ForcedAttrs.
Open Scope N_scope.

(* ---- rel tokens --------------------------------------------------------------------------- *)
Definition ws_free (w : bytes) : Prop := Forall (fun c => is_ascii_ws c = false) w.

Lemma ascii_fields_go_word : forall w cur, ws_free w -> (w <> [] \/ cur <> []) ->
  ascii_fields_go w cur = [rev cur ++ w].
Proof.
  induction w as [|c w IH]; intros cur Hw Hne; simpl.
  - destruct cur; [destruct Hne; congruence|]. rewrite app_nil_r. reflexivity.
  - inversion Hw; subst. rewrite H1. rewrite IH; auto.
    + simpl. rewrite <- app_assoc. reflexivity.
    + right. discriminate.
Qed.

Lemma ascii_fields_go_app : forall v w cur, ws_free w -> w <> [] ->
  ascii_fields_go (v ++ 32 :: w) cur = ascii_fields_go v cur ++ [w].
Proof.
  induction v as [|c v IH]; intros w cur Hw Hne; simpl.
  - rewrite (ascii_fields_go_word w []); auto. destruct cur; reflexivity.
  - destruct (is_ascii_ws c).
    + destruct cur; rewrite IH; auto.
    + apply IH; auto.
Qed.

Lemma ascii_fields_app : forall v w, ws_free w -> w <> [] -> ascii_fields (v ++ 32 :: w) = ascii_fields v ++ [w].
Proof. intros. apply ascii_fields_go_app; auto. Qed.

Lemma list_eqb_refl l : list_eqb l l = true.
Proof. induction l; simpl; auto. rewrite N.eqb_refl. auto. Qed.
Lemma equal_fold_refl a : equal_fold a a = true.
Proof. apply list_eqb_refl. Qed.

Definition has_tok (w : bytes) (v : bytes) : Prop := has_rel_token v w = true.

Lemma has_tok_app_same v w : ws_free w -> w <> [] -> has_tok w (v ++ 32 :: w).
Proof.
  intros Hw Hne. unfold has_tok, has_rel_token. rewrite ascii_fields_app; auto.
  rewrite existsb_app. simpl. rewrite equal_fold_refl. rewrite orb_true_r. reflexivity.
Qed.
Lemma has_tok_app_keep v w t : ws_free w -> w <> [] -> has_tok t v -> has_tok t (v ++ 32 :: w).
Proof.
  intros Hw Hne H. unfold has_tok, has_rel_token in *. rewrite ascii_fields_app; auto.
  rewrite existsb_app, H. reflexivity.
Qed.

Lemma add_word_has w v : ws_free w -> w <> [] -> has_tok w (add_word true w v).
Proof.
  intros Hw Hne. unfold add_word. cbn [andb]. destruct (has_rel_token v w) eqn:E; cbn [negb]; [exact E|].
  apply has_tok_app_same; auto.
Qed.
Lemma add_word_keep c w v t : ws_free w -> w <> [] -> has_tok t v -> has_tok t (add_word c w v).
Proof.
  intros Hw Hne H. unfold add_word. destruct (c && negb (has_rel_token v w)); auto.
  apply has_tok_app_keep; auto.
Qed.
(* a required token is not added when already present as a token, and nothing is removed *)
Lemma add_word_nodup c w v : has_tok w v -> add_word c w v = v.
Proof. unfold has_tok, add_word. intros ->. rewrite andb_false_r. reflexivity. Qed.
Lemma add_word_extends c w v : exists suffix, add_word c w v = v ++ suffix.
Proof. unfold add_word. destruct (c && _); [eexists; reflexivity | exists []; rewrite app_nil_r; reflexivity]. Qed.

Lemma existsb_cons {A} (f : A -> bool) x l : existsb f (x :: l) = f x || existsb f l. Proof. reflexivity. Qed.
Lemma filter_cons {A} (f : A -> bool) x l : filter f (x :: l) = if f x then x :: filter f l else filter f l. Proof. reflexivity. Qed.
Lemma key_is_pair k (a : attr) v : key_is k (akey a, v) = key_is k a. Proof. reflexivity. Qed.
Ltac split7 := (split; [|split; [|split; [|split; [|split; [|split]]]]]).

Notation NOFOLLOW := (bytes_of_string "nofollow").
Notation NOREFERRER := (bytes_of_string "noreferrer").
Notation NOOPENER := (bytes_of_string "noopener").
Lemma words_ok : (ws_free NOFOLLOW /\ NOFOLLOW <> []) /\ (ws_free NOREFERRER /\ NOREFERRER <> []) /\ (ws_free NOOPENER /\ NOOPENER <> []).
Proof. repeat split; try discriminate; repeat constructor. Qed.

Section Link.
  Variables M U R : Type.
  Variable I : interp M U R.
  Variable p : policy M U R.

  Definition rel_all (P : bytes -> Prop) (l : list attr) : Prop := all_vals (B"rel") P l.
  Definition has_rel (l : list attr) : bool := has_key_attr (B"rel") l.

  (* ---- first loop ---- *)
  Section Pass1.
    Variables is_a addNF addNR addTB : bool.
    Notation lp1 := (link_pass1 is_a addNF addNR addTB).

    Lemma lp1_spec : forall attrs nf nr tb r nf' nr' tb',
      lp1 attrs nf nr tb = (r, nf', nr', tb') ->
      (* every rel of the result carries the tokens asked for *)
      ((addNF || addNR = true) -> rel_all (fun v => (addNF = true -> has_tok NOFOLLOW v) /\ (addNR = true -> has_tok NOREFERRER v)) r) /\
      (* the found flags: set as soon as a rel attribute was seen *)
      (if (addNF || addNR) && has_rel attrs then nf' = addNF /\ nr' = addNR else nf' = nf /\ nr' = nr) /\
      has_rel r = has_rel attrs /\
      (* href attributes are untouched *)
      filter (key_is (B"href")) r = filter (key_is (B"href")) attrs /\
      (* the target flag says whether the result (or the past) has a target _blank *)
      (is_a = true -> tb' = tb || existsb (fun a => key_is (B"target") a && beqb (aval a) (B"_blank")) r) /\
      (is_a = false -> tb' = tb) /\
      (* with addTargetBlank, if nothing was _blank before, the first target of the result is _blank *)
      (is_a = true -> addTB = true -> tb = false ->
         match filter (key_is (B"target")) r with [] => True | t :: _ => aval t = B"_blank" end).
    Proof.
      induction attrs as [|a rest IH]; intros nf nr tb r nf' nr' tb' H; cbn [link_pass1] in H.
      - inversion H; subst. unfold has_rel, has_key_attr, rel_all, all_vals. simpl.
        rewrite andb_false_r, orb_false_r. repeat split; auto; intros; contradiction.
      - destruct (key_is (B"rel") a && (addNF || addNR)) eqn:Erel.
        + apply andb_true_iff in Erel as [Ek Eadd].
          destruct (lp1 rest addNF addNR tb) as [[[r0 nf0] nr0] tb0] eqn:E0. inversion H; subst; clear H.
          destruct (IH _ _ _ _ _ _ _ E0) as (H1 & H2 & H3 & H4 & H5 & H6 & H7).
          assert (Hka : key_is (B"rel") (akey a, add_word addNR NOREFERRER (add_word addNF NOFOLLOW (aval a))) = true) by exact Ek.
          assert (Hnk : forall k, beqb k (B"rel") = false -> key_is k (akey a, add_word addNR NOREFERRER (add_word addNF NOFOLLOW (aval a))) = false).
          { intros k Hk. unfold key_is, akey in *. cbn [fst]. apply beqb_eq in Ek. rewrite Ek.
            destruct (beqb (B"rel") k) eqn:E; auto. apply beqb_eq in E. subst k. rewrite beqb_refl in Hk. discriminate. }
          assert (Hnk' : forall k, beqb k (B"rel") = false -> key_is k a = false).
          { intros k Hk. unfold key_is, akey in *. apply beqb_eq in Ek. rewrite Ek.
            destruct (beqb (B"rel") k) eqn:E; auto. apply beqb_eq in E. subst k. rewrite beqb_refl in Hk. discriminate. }
          split7.
          * intros _ b [<-|Hin] Hkb.
            -- cbn [aval snd]. destruct words_ok as ((W1 & W2) & (W3 & W4) & _). split; intros ->.
               ++ apply add_word_keep; auto. apply add_word_has; auto.
               ++ apply add_word_has; auto.
            -- apply H1; auto.
          * rewrite Eadd. unfold has_rel, has_key_attr. rewrite !existsb_cons, ?key_is_pair. rewrite Ek. cbn [orb andb].
            rewrite Eadd in H2. destruct (has_rel rest); cbn [andb] in H2; tauto.
          * unfold has_rel, has_key_attr in *. rewrite !existsb_cons, ?key_is_pair. rewrite H3. reflexivity.
          * rewrite !filter_cons, ?key_is_pair. rewrite (Hnk' (B"href")) by reflexivity. exact H4.
          * intros Ha. rewrite (H5 Ha). rewrite !existsb_cons, ?key_is_pair. rewrite (Hnk' (B"target")) by reflexivity. reflexivity.
          * exact H6.
          * intros Ha Ht Htb. rewrite !filter_cons, ?key_is_pair. rewrite (Hnk' (B"target")) by reflexivity. apply H7; auto.
        + destruct (is_a && key_is (B"target") a) eqn:Etg.
          * apply andb_true_iff in Etg as [Ea Ek].
            assert (Hnk : forall k v, beqb k (B"target") = false -> key_is k (akey a, v) = false).
            { intros k v Hk. unfold key_is, akey in *. cbn [fst]. apply beqb_eq in Ek. rewrite Ek.
              destruct (beqb (B"target") k) eqn:E; auto. apply beqb_eq in E. subst k. rewrite beqb_refl in Hk. discriminate. }
            assert (Hnk' : forall k, beqb k (B"target") = false -> key_is k a = false).
            { intros k Hk. unfold key_is, akey in *. apply beqb_eq in Ek. rewrite Ek.
              destruct (beqb (B"target") k) eqn:E; auto. apply beqb_eq in E. subst k. rewrite beqb_refl in Hk. discriminate. }
            destruct (addTB && negb (tb || beqb (aval a) (B"_blank"))) eqn:Eadd.
            -- destruct (lp1 rest nf nr true) as [[[r0 nf0] nr0] tb0] eqn:E0. inversion H; subst; clear H.
               destruct (IH _ _ _ _ _ _ _ E0) as (H1 & H2 & H3 & H4 & H5 & H6 & H7).
               split7.
               ++ intros Hadd b [<-|Hin] Hkb; [rewrite key_is_pair, (Hnk' (B"rel")) in Hkb by reflexivity; discriminate | apply H1; auto].
               ++ unfold has_rel, has_key_attr in *. rewrite !existsb_cons, ?key_is_pair. rewrite (Hnk' (B"rel")) by reflexivity. exact H2.
               ++ unfold has_rel, has_key_attr in *. rewrite !existsb_cons, ?key_is_pair. rewrite (Hnk' (B"rel")) by reflexivity. exact H3.
               ++ rewrite !filter_cons, ?key_is_pair. rewrite (Hnk' (B"href")) by reflexivity. exact H4.
               ++ intros _. rewrite (H5 ltac:(first [assumption | reflexivity])). rewrite !existsb_cons, ?key_is_pair. cbn [aval snd]. rewrite Ek, beqb_refl. cbn [andb orb]. rewrite orb_true_r. reflexivity.
               ++ intros Hf. congruence.
               ++ intros _ _ _. rewrite !filter_cons, ?key_is_pair. rewrite Ek. reflexivity.
            -- destruct (lp1 rest nf nr (tb || beqb (aval a) (B"_blank"))) as [[[r0 nf0] nr0] tb0] eqn:E0. inversion H; subst; clear H.
               destruct (IH _ _ _ _ _ _ _ E0) as (H1 & H2 & H3 & H4 & H5 & H6 & H7).
               split7.
               ++ intros Hadd b [<-|Hin] Hkb; [rewrite (Hnk' (B"rel")) in Hkb by reflexivity; discriminate | apply H1; auto].
               ++ unfold has_rel, has_key_attr in *. rewrite !existsb_cons, ?key_is_pair. rewrite (Hnk' (B"rel")) by reflexivity. exact H2.
               ++ unfold has_rel, has_key_attr in *. rewrite !existsb_cons, ?key_is_pair. rewrite (Hnk' (B"rel")) by reflexivity. exact H3.
               ++ rewrite !filter_cons, ?key_is_pair. rewrite (Hnk' (B"href")) by reflexivity. exact H4.
               ++ intros _. rewrite (H5 ltac:(first [assumption | reflexivity])). rewrite !existsb_cons, ?key_is_pair. rewrite Ek. cbn [andb]. rewrite orb_assoc. reflexivity.
               ++ intros Hf. congruence.
               ++ intros _ Ht Htb. rewrite !filter_cons, ?key_is_pair. rewrite Ek. subst tb. rewrite Ht in Eadd. cbn in Eadd.
                  apply negb_false_iff in Eadd. apply beqb_eq in Eadd. exact Eadd.
          * destruct (lp1 rest nf nr tb) as [[[r0 nf0] nr0] tb0] eqn:E0. inversion H; subst; clear H.
            destruct (IH _ _ _ _ _ _ _ E0) as (H1 & H2 & H3 & H4 & H5 & H6 & H7).
            assert (Hrel : (addNF || addNR = true) -> key_is (B"rel") a = false).
            { intros Hadd. rewrite Hadd, andb_true_r in Erel. exact Erel. }
            split7.
            ++ intros Hadd b [<-|Hin] Hkb; [rewrite (Hrel Hadd) in Hkb; discriminate | apply H1; auto].
            ++ unfold has_rel, has_key_attr in *. rewrite !existsb_cons, ?key_is_pair. destruct (addNF || addNR) eqn:Eadd.
               ** rewrite (Hrel eq_refl). exact H2.
               ** cbn [andb] in *. exact H2.
            ++ unfold has_rel, has_key_attr in *. rewrite !existsb_cons, ?key_is_pair. rewrite H3. reflexivity.
            ++ rewrite !filter_cons, ?key_is_pair. rewrite H4. reflexivity.
            ++ intros Ha. rewrite (H5 Ha). rewrite !existsb_cons, ?key_is_pair. rewrite Ha in Etg. cbn [andb] in Etg. rewrite Etg. reflexivity.
            ++ exact H6.
            ++ intros Ha Ht Htb. rewrite !filter_cons, ?key_is_pair. rewrite Ha in Etg. cbn [andb] in Etg. rewrite Etg. apply H7; auto.
    Qed.
  End Pass1.
End Link.

Section LinkPass.
  Variables M U R : Type.
  Variable I : interp M U R.
  Variable p : policy M U R.

  (* ---- noopener pass ---- *)
  Lemma noopener_pass_spec attrs :
    has_rel (noopener_pass attrs) = true /\ rel_all (has_tok NOOPENER) (noopener_pass attrs).
  Proof.
    destruct words_ok as (_ & _ & (W1 & W2)).
    unfold noopener_pass. destruct (existsb (key_is (B"rel")) attrs) eqn:Ex; split.
    - unfold has_rel, has_key_attr. rewrite existsb_map_key; auto. intros a. destruct (key_is _ a); [destruct (has_rel_token _ _)|]; reflexivity.
    - intros a Hin Hk. apply in_map_iff in Hin as (b & Hb & _). destruct (key_is (B"rel") b) eqn:Ekb.
      + destruct (has_rel_token (aval b) NOOPENER) eqn:Et; subst a; [exact Et|]. cbn [aval snd].
        change (B" noopener") with (32 :: NOOPENER). apply has_tok_app_same; auto.
      + subst a. congruence.
    - unfold has_rel, has_key_attr. rewrite existsb_app. simpl. try rewrite orb_true_r. reflexivity.
    - intros a Hin Hk. apply in_app_or in Hin as [Hin|[<-|[]]].
      + exfalso. assert (existsb (key_is (B"rel")) attrs = true) by (apply existsb_exists; eauto). congruence.
      + unfold has_tok, has_rel_token. vm_compute. reflexivity.
  Qed.

  (* tokens already on every rel attribute survive the noopener pass when a rel attribute exists *)
  Lemma noopener_pass_keeps attrs t : has_rel attrs = true -> rel_all (has_tok t) attrs -> rel_all (has_tok t) (noopener_pass attrs).
  Proof.
    destruct words_ok as (_ & _ & (W1 & W2)).
    intros Hr Ht. unfold noopener_pass. unfold has_rel, has_key_attr in Hr. rewrite Hr.
    intros a Hin Hk. apply in_map_iff in Hin as (b & Hb & Hinb). destruct (key_is (B"rel") b) eqn:Ekb.
    - destruct (has_rel_token (aval b) NOOPENER) eqn:Et; subst a; [apply Ht; auto|]. cbn [aval snd].
      change (B" noopener") with (32 :: NOOPENER). apply has_tok_app_keep; auto.
    - subst a. apply Ht; auto.
  Qed.
End LinkPass.
