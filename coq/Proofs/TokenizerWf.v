(* Every tag name and attribute key produced by the tokenizer model is well formed
   (as required by the re-reading theorem): names start with a letter and contain no white space,
   slash, '>' or ASCII upper case; keys are non-empty, contain none of white space, slash, '>'
   and '=' only in first position, and no ASCII upper case. *)
From Coq Require Import List NArith Bool Lia.
Import ListNotations.
From BM Require Import Bytes Utf8 Strings Escape Tokenizer RoundTrip.
Open Scope N_scope.

Lemma until_spec : forall p s a r, until p s = (a, r) ->
  Forall (fun x => p x = false) a /\ s = a ++ r /\ (r = [] \/ exists c r', r = c :: r' /\ p c = true).
Proof.
  induction s as [|c s IH]; simpl; intros a r H.
  - inversion H; subst. repeat split; auto.
  - destruct (p c) eqn:E.
    + inversion H; subst. repeat split; auto. right. eauto.
    + destruct (until p s) as [a' r'] eqn:Eu. inversion H; subst.
      destruct (IH a' r eq_refl) as (H1 & H2 & H3). repeat split; auto. rewrite H2 at 1. reflexivity.
Qed.

Definition rkey_ok (k : bytes) : Prop :=
  exists c k', k = c :: k' /\ is_ws c = false /\ c <> SLASH /\ c <> GT /\ Forall (fun x => key_stop x = false) k'.
Definition rname_ok (n : bytes) : Prop :=
  (exists c n', n = c :: n' /\ is_letter c = true) /\ Forall (fun c => name_stop c = false) n.

Lemma skip_ws_first s c r : skip_ws s = c :: r -> is_ws c = false.
Proof.
  induction s as [|x s IH]; simpl; [discriminate|]. destruct (is_ws x) eqn:E; auto.
  intros H. inversion H; subst. exact E.
Qed.

Lemma read_key_wf c s' k r : is_ws c = false -> c <> GT -> read_key (c :: s') = (k, r) -> k = [] \/ rkey_ok k.
Proof.
  intros Hws Hgt H. unfold read_key in H. destruct (c =? EQ) eqn:E.
  - destruct (until key_stop s') as [k' r'] eqn:Eu. inversion H; subst.
    destruct (until_spec _ _ _ _ Eu) as (H1 & _ & _). right. exists c, k'. repeat split; auto.
    apply N.eqb_eq in E. subst c. discriminate.
  - destruct (key_stop c) eqn:Ek.
    + simpl in H. rewrite Ek in H. inversion H; subst. left. reflexivity.
    + simpl in H. rewrite Ek in H. destruct (until key_stop s') as [k' r'] eqn:Eu. inversion H; subst.
      destruct (until_spec _ _ _ _ Eu) as (H1 & _ & _). right. exists c, k'. repeat split; auto.
      unfold key_stop in Ek. apply orb_false_iff in Ek as [Ek _]. apply orb_false_iff in Ek as [Ek _].
      apply orb_false_iff in Ek as [_ Ek]. apply N.eqb_neq in Ek. exact Ek.
Qed.

Lemma read_attrs_wf : forall fuel s l rest,
  (forall c r, s = c :: r -> is_ws c = false) ->
  read_attrs fuel s = Some (l, rest) -> Forall (fun kv => rkey_ok (fst kv)) l.
Proof.
  induction fuel as [|f IH]; intros s l rest Hs H; [discriminate|].
  destruct s as [|c s']; [discriminate|]. rewrite read_attrs_S in H.
  destruct (c =? GT) eqn:Eg; [inversion H; subst; constructor|].
  destruct (read_key (c :: s')) as [k r] eqn:Ek.
  destruct (read_val r) as [[v r2]|]; [|discriminate].
  destruct (skip_ws r2) as [|x r3] eqn:E3; [discriminate|].
  destruct (read_attrs f (x :: r3)) as [[l' rest']|] eqn:Er; [|discriminate].
  inversion H; subst.
  assert (Hl' : Forall (fun kv => rkey_ok (fst kv)) l').
  { eapply IH; [|exact Er]. intros c0 r0 E0. inversion E0; subst. eapply skip_ws_first; eauto. }
  destruct (read_key_wf c s' k r (Hs c s' eq_refl) ltac:(apply N.eqb_neq; exact Eg) Ek) as [->|Hk]; auto.
  destruct k; [auto | constructor; auto].
Qed.

Lemma read_tag_wf c s n a rest : is_letter c = true -> read_tag (c :: s) = Some (n, a, rest) ->
  rname_ok n /\ Forall (fun kv => rkey_ok (fst kv)) a.
Proof.
  intros Hc H. unfold read_tag in H.
  destruct (until name_stop (c :: s)) as [n0 r] eqn:Eu.
  destruct (skip_ws r) as [|x r2] eqn:E2; [discriminate|].
  destruct (read_attrs (S (length (x :: r2))) (x :: r2)) as [[a0 rest0]|] eqn:Er; [|discriminate].
  inversion H; subst. split.
  - destruct (until_spec _ _ _ _ Eu) as (H1 & H2 & _). split; auto.
    assert (Hns : name_stop c = false).
    { unfold name_stop, is_ws, is_letter, is_upper, is_lower in *.
      destruct (c =? SP) eqn:E1; [apply N.eqb_eq in E1; subst; discriminate|].
      destruct (c =? LF) eqn:E3; [apply N.eqb_eq in E3; subst; discriminate|].
      destruct (c =? CR) eqn:E4; [apply N.eqb_eq in E4; subst; discriminate|].
      destruct (c =? TAB) eqn:E5; [apply N.eqb_eq in E5; subst; discriminate|].
      destruct (c =? FF) eqn:E6; [apply N.eqb_eq in E6; subst; discriminate|].
      destruct (c =? SLASH) eqn:E7; [apply N.eqb_eq in E7; subst; discriminate|].
      destruct (c =? GT) eqn:E8; [apply N.eqb_eq in E8; subst; discriminate|]. reflexivity. }
    simpl in Eu. rewrite Hns in Eu. destruct (until name_stop s) as [n1 r1]. inversion Eu; subst. eauto.
  - eapply read_attrs_wf; [|exact Er]. intros c0 r0 E0. inversion E0; subst. eapply skip_ws_first; eauto.
Qed.

(* lower-casing *)
Lemma lowerc_not_upper c : is_upper (lowerc c) = false.
Proof.
  unfold lowerc. destruct (is_upper c) eqn:E; auto. unfold is_upper in *.
  apply andb_true_iff in E as [E1 E2]. apply N.leb_le in E1, E2.
  apply andb_false_iff. right. apply N.leb_gt. lia.
Qed.
Lemma lowerc_same_class c (P : N -> bool) :
  (forall x, is_upper x = true -> P x = false /\ P (x + 32) = false) -> P c = false -> P (lowerc c) = false.
Proof. intros H Hc. unfold lowerc. destruct (is_upper c) eqn:E; auto. apply H. exact E. Qed.

Lemma upper_not_stops x : is_upper x = true ->
  (name_stop x = false /\ name_stop (x + 32) = false) /\ (key_stop x = false /\ key_stop (x + 32) = false) /\
  (is_ws x = false /\ is_ws (x + 32) = false).
Proof.
  unfold is_upper. intros E. apply andb_true_iff in E as [E1 E2]. apply N.leb_le in E1, E2.
  assert (F : forall k, k < 65 -> (x =? k) = false /\ (x + 32 =? k) = false) by (intros k Hk; split; apply N.eqb_neq; lia).
  unfold name_stop, key_stop, is_ws, SP, LF, CR, TAB, FF, SLASH, GT, EQ.
  destruct (F 32 ltac:(lia)) as [-> ->], (F 10 ltac:(lia)) as [-> ->], (F 13 ltac:(lia)) as [-> ->], (F 9 ltac:(lia)) as [-> ->],
           (F 12 ltac:(lia)) as [-> ->], (F 47 ltac:(lia)) as [-> ->], (F 62 ltac:(lia)) as [-> ->], (F 61 ltac:(lia)) as [-> ->].
  repeat split; reflexivity.
Qed.

Lemma lower_name_ok n : rname_ok n -> name_ok (lower n).
Proof.
  intros [(c & n' & -> & Hc) Hf]. split.
  - exists (lowerc c), (lower n'). split; [reflexivity|].
    unfold lowerc. destruct (is_upper c) eqn:E; [|exact Hc].
    unfold is_letter, is_upper, is_lower in *. apply andb_true_iff in E as [E1 E2]. apply N.leb_le in E1, E2.
    apply orb_true_iff. right. apply andb_true_iff. split; apply N.leb_le; lia.
  - unfold lower, lower_ascii. apply Forall_forall. intros x Hx. apply in_map_iff in Hx as (y & <- & Hy).
    rewrite Forall_forall in Hf. split; [|apply lowerc_not_upper].
    apply lowerc_same_class; [intros z Hz; apply (upper_not_stops z Hz) | apply Hf; exact Hy].
Qed.

Lemma lower_key_ok k : rkey_ok k -> key_ok (lower k).
Proof.
  intros (c & k' & -> & Hws & Hs & Hg & Hk). split.
  - exists (lowerc c), (lower k'). split; [reflexivity|].
    assert (Hcu : is_upper c = true -> False \/ True) by auto.
    repeat split.
    + apply lowerc_same_class; [intros z Hz; apply (upper_not_stops z Hz) | exact Hws].
    + unfold lowerc. destruct (is_upper c) eqn:E; auto. unfold is_upper in E. apply andb_true_iff in E as [E1 E2].
      apply N.leb_le in E1, E2. unfold SLASH. lia.
    + unfold lowerc. destruct (is_upper c) eqn:E; auto. unfold is_upper in E. apply andb_true_iff in E as [E1 E2].
      apply N.leb_le in E1, E2. unfold GT. lia.
    + unfold lower, lower_ascii. apply Forall_forall. intros x Hx. apply in_map_iff in Hx as (y & <- & Hy).
      rewrite Forall_forall in Hk. apply lowerc_same_class; [intros z Hz; apply (upper_not_stops z Hz) | apply Hk; exact Hy].
  - unfold lower, lower_ascii. apply Forall_forall. intros x Hx. apply in_map_iff in Hx as (y & <- & Hy). apply lowerc_not_upper.
Qed.

(* raw tokens *)
Definition rtoken_wf (t : rtoken) : Prop :=
  match t with
  | RStart n a | RSelf n a => name_ok n /\ Forall (fun kv => rkey_ok (fst kv)) a
  | REnd n => name_ok n
  | _ => True
  end.

Lemma next_markup_wf s t rt rest : next_markup s = Tok t rt rest -> rtoken_wf t.
Proof.
  unfold next_markup. destruct s as [|x [|c s2]]; try discriminate.
  destruct (is_letter c) eqn:Hc.
  - destruct (read_tag (c :: s2)) as [[[n a] rest0]|] eqn:Er; [|discriminate].
    destruct (read_tag_wf c s2 n a rest0 Hc Er) as [Hn Ha].
    intros H. match type of H with Tok (if ?b then _ else _) _ _ = _ => destruct b end; inversion H; subst; split; auto using lower_name_ok.
  - destruct (c =? SLASH).
    + destruct s2 as [|d s3]; [intros H; inversion H; exact I|].
      destruct (d =? GT); [intros H; inversion H; exact I|].
      destruct (is_letter d) eqn:Hd.
      * destruct (read_tag (d :: s3)) as [[[n a] rest0]|] eqn:Er; [|discriminate].
        destruct (read_tag_wf d s3 n a rest0 Hd Er) as [Hn _]. intros H; inversion H; subst. apply lower_name_ok; auto.
      * destruct (until_gt (d :: s3)). intros H; inversion H; exact I.
    + destruct (c =? BANG).
      * destruct (read_markup s2) as [t0 r0] eqn:Em. intros H; inversion H; subst.
        unfold read_markup in Em. destruct s2 as [|c0 [|c1 s4]]; try (inversion Em; exact I).
        destruct ((c0 =? DASH) && (c1 =? DASH)); [destruct (read_comment s4 [] 0 true); inversion Em; exact I|].
        match type of Em with (match ?g with _ => _ end) = _ => destruct g as [[r|]|] end.
        -- destruct (skip_ws r); [inversion Em; exact I|]. destruct (until_gt _). inversion Em; exact I.
        -- inversion Em; exact I.
        -- destruct (until_gt _). inversion Em; exact I.
      * destruct (until_gt (c :: s2)). intros H; inversion H; exact I.
Qed.

Lemma next_wf rt s t rt' rest : next rt s = Tok t rt' rest -> rtoken_wf t.
Proof.
  unfold next. destruct s as [|c s]; [discriminate|].
  set (normal := fun s0 : bytes => match s0 with [] => Stop | _ => let (t0, r) := text_split s0 in match t0 with [] => next_markup r | _ => Tok (RText 0 t0) [] r end end).
  assert (Hn : forall s0, normal s0 = Tok t rt' rest -> rtoken_wf t).
  { intros s0. unfold normal. destruct s0; [discriminate|]. destruct (text_split (n :: s0)) as [t0 r].
    destruct t0; [apply next_markup_wf | intros H; inversion H; exact I]. }
  destruct rt as [|x rt0]; [exact (Hn (c :: s))|].
  destruct (beqb (x :: rt0) plaintext_tag); [intros H; inversion H; exact I|].
  match goal with |- context [firstn ?k ?l] => destruct (firstn k l) end; [exact (Hn (c :: s)) | intros H; inversion H; exact I].
Qed.

Lemma tokens_wf : forall fuel rt s, Forall rtoken_wf (tokens fuel rt s).
Proof.
  induction fuel as [|f IH]; intros rt s; cbn [tokens]; [constructor|].
  destruct (next rt s) as [t rt' rest|] eqn:E; [|constructor].
  constructor; [eapply next_wf; eauto | apply IH].
Qed.

(* decoded tokens *)
Definition token_wf (t : token) : Prop :=
  match t with
  | TStart n a | TSelf n a => name_ok n /\ Forall (fun kv => key_ok (fst kv)) a
  | TEnd n => name_ok n
  | _ => True
  end.

Lemma decode_wf t : rtoken_wf t -> token_wf (decode t).
Proof.
  destruct t as [k d|n a|n|n a|d|d]; cbn; auto; intros [Hn Ha]; split; auto;
    apply Forall_forall; intros kv Hkv; apply in_map_iff in Hkv as (kv0 & <- & Hin);
    rewrite Forall_forall in Ha; cbn; apply lower_key_ok; apply Ha; exact Hin.
Qed.

Theorem tokenize_wf : forall s, Forall token_wf (tokenize s).
Proof.
  intros s. unfold tokenize, raw_tokens. apply Forall_forall. intros t Ht.
  apply in_map_iff in Ht as (rt & <- & Hin). apply decode_wf.
  pose proof (tokens_wf (S (length s)) [] s) as H. rewrite Forall_forall in H. apply H. exact Hin.
Qed.
