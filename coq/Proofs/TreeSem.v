(* Well-formed documents as trees: a state-independent (denotational) description of what the
   token loop emits for them, and the frame property of the loop state.  Basis of C08 and C09. *)
From Coq Require Import List NArith ZArith Bool Lia.
Import ListNotations.
From BM Require Import Bytes Utf8 Strings Escape Tokenizer Policy Url Style Attrs Loop LoopInv LoopProps.
Open Scope N_scope.

Inductive node :=
| NText (d : bytes)
| NComment (d : bytes)
| NDoctype (d : bytes)
| NSelf (n : bytes) (a : list attr)            (* a self-closing tag *)
| NVoid (n : bytes) (a : list attr)            (* the start tag of a void element: no end tag *)
| NElem (n : bytes) (a : list attr) (kids : list node).

Section node_ind2.
  Variable P : node -> Prop.
  Hypothesis HText : forall d, P (NText d).
  Hypothesis HComment : forall d, P (NComment d).
  Hypothesis HDoctype : forall d, P (NDoctype d).
  Hypothesis HSelf : forall n a, P (NSelf n a).
  Hypothesis HVoid : forall n a, P (NVoid n a).
  Hypothesis HElem : forall n a kids, Forall P kids -> P (NElem n a kids).
  Fixpoint node_ind2 (nd : node) : P nd :=
    match nd with
    | NText d => HText d | NComment d => HComment d | NDoctype d => HDoctype d
    | NSelf n a => HSelf n a | NVoid n a => HVoid n a
    | NElem n a kids =>
      HElem n a kids ((fix go (l : list node) : Forall P l :=
                         match l with [] => Forall_nil P | x :: r => Forall_cons x (node_ind2 x) (go r) end) kids)
    end.
End node_ind2.

Fixpoint flatten (nd : node) : list token :=
  match nd with
  | NText d => [TText d] | NComment d => [TComment d] | NDoctype d => [TDoctype d]
  | NSelf n a => [TSelf n a] | NVoid n a => [TStart n a]
  | NElem n a kids => TStart n a :: flat_map flatten kids ++ [TEnd n]
  end.
Definition flatten_forest (f : list node) : list token := flat_map flatten f.

(* every non-void element is opened and closed; void elements have only a start tag *)
Fixpoint wf (nd : node) : bool :=
  match nd with
  | NVoid n _ => is_void n
  | NElem n _ kids => negb (is_void n) && forallb wf kids
  | _ => true
  end.
(* no script or style anywhere *)
Fixpoint plain (nd : node) : bool :=
  match nd with
  | NSelf n _ | NVoid n _ => negb (is_script_or_style n)
  | NElem n _ kids => negb (is_script_or_style n) && forallb plain kids
  | _ => true
  end.

(* well-nested item lists *)
Definition leaf_item (it : item) : Prop :=
  match it with
  | ITag (TStart n _) => is_void n = true
  | ITag (TEnd _) => False
  | _ => True
  end.
Inductive balanced : list item -> Prop :=
| bal_nil : balanced []
| bal_leaf it l : leaf_item it -> balanced l -> balanced (it :: l)
| bal_elem n a inner l : is_void n = false -> balanced inner -> balanced l ->
    balanced (ITag (TStart n a) :: inner ++ ITag (TEnd n) :: l).

Lemma balanced_app l1 l2 : balanced l1 -> balanced l2 -> balanced (l1 ++ l2).
Proof.
  intros H1 H2. induction H1 as [|it l Hl Hb IH|n a inner l Hv Hi IHi Hl IHl]; cbn [app]; [exact H2| |].
  - apply bal_leaf; auto.
  - rewrite <- app_assoc. cbn [app]. apply bal_elem; auto.
Qed.

Lemma balanced_spaces l : Forall (fun it => it = ISpace) l -> balanced l.
Proof. induction 1 as [|it l -> Hl IH]; [constructor | apply bal_leaf; [exact Logic.I | exact IH]]. Qed.

Lemma balanced_wrap n a inner : is_void n = false -> balanced inner -> balanced (ITag (TStart n a) :: inner ++ [ITag (TEnd n)]).
Proof. intros Hv Hi. apply (bal_elem n a inner [] Hv Hi bal_nil). Qed.

Section Tree.
  Variables M U R : Type.
  Variable I : interp M U R.
  Variable p : policy M U R.

  Notation sp := (space_if_adding p).

  (* running the loop with the final state *)
  Fixpoint exec (st : lstate) (ts : list token) : option (lstate * list item) :=
    match ts with
    | [] => Some (st, [])
    | t :: r =>
      match step I p st t with
      | Panic => None
      | Ok st' out => match exec st' r with Some (st'', o) => Some (st'', out ++ o) | None => None end
      end
    end.

  Lemma exec_app : forall l1 l2 st,
    exec st (l1 ++ l2) = match exec st l1 with
                         | Some (st1, o1) => match exec st1 l2 with Some (st2, o2) => Some (st2, o1 ++ o2) | None => None end
                         | None => None end.
  Proof.
    induction l1 as [|t l1 IH]; intros l2 st; cbn [app exec].
    - destruct (exec st l2) as [[st2 o2]|]; reflexivity.
    - destruct (step I p st t) as [st' out|]; [|reflexivity]. rewrite IH.
      destruct (exec st' l1) as [[st1 o1]|]; [|reflexivity].
      destruct (exec st1 l2) as [[st2 o2]|]; [|reflexivity]. rewrite app_assoc. reflexivity.
  Qed.

  Lemma exec_run : forall ts st st' o, exec st ts = Some (st', o) -> run_from I p st ts = (o, false).
  Proof.
    induction ts as [|t ts IH]; intros st st' o H; cbn [exec run_from] in *.
    - inversion H; reflexivity.
    - destruct (step I p st t) as [st1 out|]; [|discriminate].
      destruct (exec st1 ts) as [[st2 o2]|] eqn:E; [|discriminate]. inversion H; subst.
      rewrite (IH _ _ _ E). reflexivity.
  Qed.

  Lemma exec_one st t st' out : step I p st t = Ok st' out -> exec st [t] = Some (st', out).
  Proof. intros H. cbn [exec]. rewrite H. rewrite app_nil_r. reflexivity. Qed.

  (* ---- the denotation ---- *)
  Definition hidden_tag (n : bytes) : bool := is_script_or_style n && negb (allowUnsafe p).
  Definition dropped (n : bytes) (a : list attr) (aps : amap (list (attr_policy M))) : bool :=
    (match clean_attrs I p n a aps with [] => true | _ => false end) && negb (allow_no_attrs I p n).

  (* what a lone tag (self-closing, or the start tag of a void element) leaves outside skipped content *)
  Definition out_single (mk : bytes -> list attr -> token) (n : bytes) (a : list attr) : list item :=
    if hidden_tag n then [] else
    match element_policies I p n with
    | None => sp
    | Some aps => if dropped n a aps then sp else [ITag (mk n (clean_attrs I p n a aps))]
    end.
  (* ... and inside skipped content: only the blanks of removed tags *)
  Definition skipped_single (n : bytes) (a : list attr) : list item :=
    if hidden_tag n then [] else
    match element_policies I p n with
    | None => sp
    | Some aps => if dropped n a aps then sp else []
    end.

  Fixpoint skipped (nd : node) : list item :=
    match nd with
    | NText _ | NComment _ | NDoctype _ => []
    | NSelf n a | NVoid n a => skipped_single n a
    | NElem n a kids =>
      if hidden_tag n then flat_map skipped kids else
      match element_policies I p n with
      | None => sp ++ flat_map skipped kids ++ sp
      | Some aps => if dropped n a aps then sp ++ flat_map skipped kids ++ sp else flat_map skipped kids
      end
    end.

  Fixpoint out_node (nd : node) : list item :=
    match nd with
    | NText d => [IText d]
    | NComment d => if allowComments p then [IComment d] else []
    | NDoctype _ => []
    | NSelf n a => out_single TSelf n a
    | NVoid n a => out_single TStart n a
    | NElem n a kids =>
      match element_policies I p n with
      | None => if mem n (elsSkipContent p) then sp ++ flat_map skipped kids ++ sp
                else sp ++ flat_map out_node kids ++ sp
      | Some aps =>
        if dropped n a aps then sp ++ flat_map out_node kids ++ sp
        else ITag (TStart n (clean_attrs I p n a aps)) :: flat_map out_node kids ++ [ITag (TEnd n)]
      end
    end.

  Lemma sp_spaces : Forall (fun it => it = ISpace) sp.
  Proof. unfold space_if_adding. destruct (addSpaces p); repeat constructor. Qed.

  Lemma skipped_single_spaces n a : Forall (fun it => it = ISpace) (skipped_single n a).
  Proof.
    unfold skipped_single. destruct (hidden_tag n); [constructor|].
    destruct (element_policies I p n) as [aps|]; [destruct (dropped n a aps)|]; try apply sp_spaces; constructor.
  Qed.

  Lemma skipped_spaces : forall nd, Forall (fun it => it = ISpace) (skipped nd).
  Proof.
    apply node_ind2; intros; cbn [skipped]; try constructor; try apply skipped_single_spaces.
    assert (Hk : Forall (fun it => it = ISpace) (flat_map skipped kids)).
    { induction H as [|k ks Hk Hks IH]; cbn [flat_map]; [constructor | apply Forall_app; auto]. }
    destruct (hidden_tag n); [exact Hk|].
    destruct (element_policies I p n) as [aps|]; [destruct (dropped n a aps)|]; try exact Hk;
      (apply Forall_app; split; [apply sp_spaces | apply Forall_app; split; [exact Hk | apply sp_spaces]]).
  Qed.

  (* ---- the loop state on well-formed input ---- *)
  Definition nraw (r : bytes) : Prop := beqb r script_name || beqb r style_name = false.
  Definition Inv2 (st : lstate) : Prop :=
    Inv st /\ (0 <= skipCount st)%Z /\ skip st = negb (skipCount st =? 0)%Z /\
    Forall (fun e => element_policies I p (fst e) <> None) (stack st).

  Lemma inv2_init : Inv2 init_state.
  Proof. split; [apply inv_init|]. split; [cbn; lia|]. split; [reflexivity | constructor]. Qed.

  Lemma inv2_set_recent st r : Inv2 st -> Inv2 (set_recent st r).
  Proof. intros (A & B0 & C & D). split; [apply inv_set_recent; exact A|]. auto. Qed.

  Lemma mk_eq st sk sc scl stk r : sk = skip st -> sc = skipCount st -> scl = skipClosing st -> stk = stack st ->
    {| skip := sk; skipCount := sc; skipClosing := scl; stack := stk; recent := r |} = set_recent st r.
  Proof. intros -> -> -> ->. reflexivity. Qed.

  Lemma set_recent_id st : set_recent st (recent st) = st.
  Proof. destruct st; reflexivity. Qed.
  Lemma set_recent_twice st r r' : set_recent (set_recent st r) r' = set_recent st r'.
  Proof. reflexivity. Qed.

  Lemma nraw_nil : nraw [].
  Proof. reflexivity. Qed.
  Lemma nraw_normalise n : is_script_or_style n = false -> nraw (normalise n).
  Proof. intros H. exact H. Qed.

  (* the state after the recent-tag bookkeeping of an end tag *)
  Definition end_recent (r n : bytes) : bytes := if beqb r (normalise n) then [] else r.
  Lemma end_recent_state st r n :
    (if beqb (recent (set_recent st r)) (normalise n) then set_recent (set_recent st r) [] else set_recent st r)
    = set_recent st (end_recent r n).
  Proof. unfold end_recent. cbn [recent set_recent]. destruct (beqb r (normalise n)); reflexivity. Qed.
  Lemma end_recent_nraw r n : nraw r -> nraw (end_recent r n).
  Proof. unfold end_recent. destruct (beqb r (normalise n)); auto using nraw_nil. Qed.

  Lemma policies_none n : element_policies I p n = None ->
    lookup n (elsAndAttrs p) = None /\ existsb (fun e => mmatch I (snd (fst e)) n) (elsMatchingAndAttrs p) = false.
  Proof.
    intros H. pose proof (element_policies_allowed I p n) as E. rewrite H in E. unfold elem_allowed, has_key in E.
    apply orb_false_iff in E as [E1 E2]. split; [|exact E2]. destruct (lookup n (elsAndAttrs p)); [discriminate | reflexivity].
  Qed.
  Lemma policies_some n aps : element_policies I p n = Some aps ->
    lookup n (elsAndAttrs p) <> None \/
    (lookup n (elsAndAttrs p) = None /\ existsb (fun e => mmatch I (snd (fst e)) n) (elsMatchingAndAttrs p) = true).
  Proof.
    intros H. pose proof (element_policies_allowed I p n) as E. rewrite H in E. unfold elem_allowed, has_key in E.
    destruct (lookup n (elsAndAttrs p)); [left; discriminate | right]. split; [reflexivity | exact E].
  Qed.

  (* end_tail for an allowed element: the tag is written unless skipping; the state is unchanged *)
  Lemma end_tail_allowed st n aps : element_policies I p n = Some aps ->
    end_tail I p st n = Ok st (if skip st then [] else [ITag (TEnd n)]).
  Proof.
    intros H. unfold end_tail. destruct (policies_some n aps H) as [Hl|[Hl Hm]].
    - destruct (lookup n (elsAndAttrs p)); [reflexivity | congruence].
    - rewrite Hl, Hm. cbn [negb]. rewrite andb_false_r. destruct st; reflexivity.
  Qed.
  (* end_tail for a disallowed element that is not a skip-content element *)
  Lemma end_tail_plain st n : element_policies I p n = None -> mem n (elsSkipContent p) = false ->
    end_tail I p st n = Ok st sp.
  Proof.
    intros H Hm. unfold end_tail. destruct (policies_none n H) as [Hl He]. rewrite Hl, He, Hm. cbn [andb]. destruct st; reflexivity.
  Qed.
  Lemma end_tail_skip st n : element_policies I p n = None -> mem n (elsSkipContent p) = true ->
    end_tail I p st n = Ok {| skip := if Z.eqb (skipCount st - 1) 0 then false else skip st; skipCount := skipCount st - 1;
                               skipClosing := skipClosing st; stack := stack st; recent := recent st |} sp.
  Proof.
    intros H Hm. unfold end_tail. destruct (policies_none n H) as [Hl He]. rewrite Hl, He, Hm. reflexivity.
  Qed.

  (* the end-tag step when the top of the stack does not name the element (or the stack is empty) *)
  Lemma step_end_other st n : hidden_tag n = false -> Inv st ->
    match stack st with (top, _) :: _ => beqb top n = false | [] => True end ->
    step I p st (TEnd n) =
      end_tail I p (if beqb (recent st) (normalise n) then set_recent st [] else st) n.
  Proof.
    intros Hh Hi Htop. cbn [step]. unfold hidden_tag in Hh. rewrite Hh.
    set (st1 := if beqb (recent st) (normalise n) then set_recent st [] else st).
    assert (E1 : skipClosing st1 = skipClosing st) by (subst st1; destruct (beqb _ _); reflexivity).
    assert (E2 : stack st1 = stack st) by (subst st1; destruct (beqb _ _); reflexivity).
    rewrite E1, E2. destruct (skipClosing st) eqn:Es; [|reflexivity].
    destruct (stack st) as [|[top k] rest] eqn:Ek.
    - exfalso. destruct Hi as [Hi _]. apply (Hi Es). exact Ek.
    - rewrite Htop. reflexivity.
  Qed.

  (* ---- an element's start tag and end tag bracket its content ---- *)
  Inductive bclass (st : lstate) (n : bytes) (a : list attr) (stA : lstate) (oA oB : list item) : Prop :=
  | BHidden : hidden_tag n = true -> oA = [] -> oB = [] -> skip stA = skip st -> bclass st n a stA oA oB
  | BSkip : hidden_tag n = false -> element_policies I p n = None -> mem n (elsSkipContent p) = true ->
            oA = sp -> oB = sp -> skip stA = true -> bclass st n a stA oA oB
  | BNone : hidden_tag n = false -> element_policies I p n = None -> mem n (elsSkipContent p) = false ->
            oA = sp -> oB = sp -> skip stA = skip st -> recent stA = normalise n -> bclass st n a stA oA oB
  | BDropped aps : hidden_tag n = false -> element_policies I p n = Some aps -> dropped n a aps = true ->
            oA = sp -> oB = sp -> skip stA = skip st -> recent stA = normalise n -> bclass st n a stA oA oB
  | BKept aps : hidden_tag n = false -> element_policies I p n = Some aps -> dropped n a aps = false ->
            oA = (if skip st then [] else [ITag (TStart n (clean_attrs I p n a aps))]) ->
            oB = (if skip st then [] else [ITag (TEnd n)]) ->
            skip stA = skip st -> recent stA = normalise n -> bclass st n a stA oA oB.

  Lemma top_other st n : Inv2 st -> element_policies I p n = None ->
    match stack st with (top, _) :: _ => beqb top n = false | [] => True end.
  Proof.
    intros (_ & _ & _ & Hf) Hn. destruct (stack st) as [|[top k] rest]; [exact Logic.I|].
    inversion Hf as [|? ? Htop _]; subst. cbn [fst] in Htop.
    destruct (beqb top n) eqn:E; [|reflexivity]. apply beqb_eq in E. subst top. congruence.
  Qed.

  Lemma bracket n a st : Inv2 st -> is_void n = false ->
    exists stA oA oB,
      step I p st (TStart n a) = Ok stA oA /\ Inv2 stA /\
      (forall r, step I p (set_recent stA r) (TEnd n) = Ok (set_recent st (end_recent r n)) oB) /\
      bclass st n a stA oA oB.
  Proof.
    intros Hi2 Hv. pose proof Hi2 as (Hi & Hc0 & Hsk & Hf).
    destruct (hidden_tag n) eqn:Hh.
    - (* script / style without AllowUnsafe *)
      exists (set_recent st (normalise n)), [], []. split; [|split; [|split]].
      + cbn [step]. unfold hidden_tag in Hh. rewrite Hh. reflexivity.
      + apply inv2_set_recent; exact Hi2.
      + intros r. cbn [step]. unfold hidden_tag in Hh. rewrite Hh. rewrite (end_recent_state (set_recent st (normalise n)) r n). reflexivity.
      + apply BHidden; auto.
    - assert (Hh' : is_script_or_style n && negb (allowUnsafe p) = false) by exact Hh.
      destruct (element_policies I p n) as [aps|] eqn:Ep.
      + destruct (dropped n a aps) eqn:Ed.
        * (* allowed by name but left without attributes: pushed, popped by its own end tag *)
          set (stA := {| skip := skip st; skipCount := skipCount st; skipClosing := true; stack := (n, O) :: stack st; recent := normalise n |}).
          exists stA, sp, sp. split; [|split; [|split]].
          -- cbn [step]. rewrite Hh', Ep. unfold dropped in Ed. rewrite Ed, Hv. reflexivity.
          -- split; [apply (inv_push (set_recent st (normalise n)))|]. split; [exact Hc0|]. split; [exact Hsk|].
             constructor; [cbn [fst]; congruence | exact Hf].
          -- intros r. cbn [step]. rewrite Hh'. rewrite (end_recent_state stA r n).
             cbn [skipClosing stack set_recent stA]. rewrite beqb_refl. cbn [skip skipCount recent].
             f_equal. apply mk_eq; try reflexivity.
             destruct (stack st) eqn:Es; destruct (skipClosing st) eqn:Ec; try reflexivity.
             ++ exfalso. destruct Hi as [Hi _]. apply (Hi Ec). exact Es.
             ++ exfalso. destruct Hi as [_ Hi]. rewrite Hi in Ec; [discriminate | rewrite Es; discriminate].
          -- eapply BDropped; eauto.
        * (* kept *)
          set (c := ITag (TStart n (clean_attrs I p n a aps))).
          assert (Hstart : step I p st (TStart n a) = kept_start (set_recent st (normalise n)) n c).
          { cbn [step]. rewrite Hh', Ep. unfold dropped in Ed. rewrite Ed. reflexivity. }
          assert (Hkept : forall stA, Inv2 stA -> skip stA = skip st -> recent stA = normalise n ->
                    (forall r, step I p (set_recent stA r) (TEnd n) = Ok (set_recent st (end_recent r n)) (if skip st then [] else [ITag (TEnd n)])) ->
                    kept_start (set_recent st (normalise n)) n c = Ok stA (if skip st then [] else [c]) ->
                    exists stA oA oB, step I p st (TStart n a) = Ok stA oA /\ Inv2 stA /\
                      (forall r, step I p (set_recent stA r) (TEnd n) = Ok (set_recent st (end_recent r n)) oB) /\
                      bclass st n a stA oA oB).
          { intros stA HA Hs Hr Hend Hk. exists stA, (if skip st then [] else [c]), (if skip st then [] else [ITag (TEnd n)]).
            split; [rewrite Hstart; exact Hk|]. split; [exact HA|]. split; [exact Hend|]. eapply BKept; eauto. }
          unfold kept_start in *. cbn [skip skipClosing stack set_recent] in *. rewrite Hv in *. cbn [negb] in *. rewrite andb_true_r in *.
          destruct (skipClosing st) eqn:Ec.
          -- destruct (stack st) as [|[top k] rest] eqn:Es.
             { exfalso. destruct Hi as [Hi _]. apply (Hi Ec). exact Es. }
             destruct (beqb top n) eqn:Et.
             ++ (* nested in a dropped element of the same name: counted *)
                apply (Hkept {| skip := skip st; skipCount := skipCount st; skipClosing := true; stack := (top, S k) :: rest; recent := normalise n |}).
                ** split; [apply (inv_true_cons (skip st) (skipCount st) (top, S k) rest (normalise n))|]. split; [exact Hc0|]. split; [exact Hsk|].
                   inversion Hf; subst. constructor; assumption.
                ** reflexivity.
                ** reflexivity.
                ** intros r. cbn [step]. rewrite Hh'.
                   rewrite (end_recent_state {| skip := skip st; skipCount := skipCount st; skipClosing := true; stack := (top, S k) :: rest; recent := normalise n |} r n).
                   cbn [skipClosing stack set_recent]. rewrite Et. cbn [skip skipCount recent].
                   rewrite (end_tail_allowed _ n aps Ep). cbn [skip]. f_equal. apply mk_eq; auto.
                ** reflexivity.
             ++ apply (Hkept (set_recent st (normalise n))).
                ** apply inv2_set_recent; exact Hi2.
                ** reflexivity.
                ** reflexivity.
                ** intros r. rewrite step_end_other; [| exact Hh | apply inv_set_recent; exact Hi | cbn [stack set_recent]; rewrite Es; exact Et].
                   rewrite (end_recent_state (set_recent st (normalise n)) r n). rewrite (end_tail_allowed _ n aps Ep). reflexivity.
                ** reflexivity.
          -- apply (Hkept (set_recent st (normalise n))).
             ++ apply inv2_set_recent; exact Hi2.
             ++ reflexivity.
             ++ reflexivity.
             ++ intros r. rewrite step_end_other; [| exact Hh | apply inv_set_recent; exact Hi |].
                ** rewrite (end_recent_state (set_recent st (normalise n)) r n). rewrite (end_tail_allowed _ n aps Ep). reflexivity.
                ** cbn [stack set_recent]. destruct (stack st) as [|[top k] rest] eqn:Es; [exact Logic.I|].
                   exfalso. destruct Hi as [_ Hi]. rewrite Hi in Ec; [discriminate | rewrite Es; discriminate].
             ++ reflexivity.
      + destruct (mem n (elsSkipContent p)) eqn:Em.
        * (* a disallowed skip-content element: skipping until its end tag *)
          set (stA := {| skip := true; skipCount := (skipCount st + 1)%Z; skipClosing := skipClosing st; stack := stack st; recent := normalise n |}).
          exists stA, sp, sp. split; [|split; [|split]].
          -- cbn [step]. rewrite Hh', Ep, Em, Hv. reflexivity.
          -- split; [apply (inv_same (set_recent st (normalise n))); apply inv_set_recent; exact Hi|].
             split; [cbn; lia|]. split; [|exact Hf]. cbn [skip skipCount stA].
             destruct (Z.eqb_spec (skipCount st + 1) 0); [lia | reflexivity].
          -- intros r. rewrite step_end_other; [| exact Hh | |].
             ++ rewrite (end_recent_state stA r n). rewrite (end_tail_skip _ n Ep Em). f_equal.
                cbn [skip skipCount skipClosing stack recent set_recent stA]. apply mk_eq; try reflexivity; [|lia].
                replace (skipCount st + 1 - 1)%Z with (skipCount st) by lia. rewrite Hsk.
                destruct (skipCount st =? 0)%Z; reflexivity.
             ++ apply inv_set_recent. apply (inv_same (set_recent st (normalise n))). apply inv_set_recent; exact Hi.
             ++ cbn [stack set_recent stA]. apply (top_other st n Hi2 Ep).
          -- apply BSkip; auto.
        * exists (set_recent st (normalise n)), sp, sp. split; [|split; [|split]].
          -- cbn [step]. rewrite Hh', Ep, Em. reflexivity.
          -- apply inv2_set_recent; exact Hi2.
          -- intros r. rewrite step_end_other; [| exact Hh | apply inv_set_recent; exact Hi | cbn [stack set_recent]; apply (top_other st n Hi2 Ep)].
             rewrite (end_recent_state (set_recent st (normalise n)) r n). rewrite (end_tail_plain _ n Ep Em). reflexivity.
          -- apply BNone; auto.
  Qed.

  (* ---- the frame theorem ---- *)
  Definition result_ok (st : lstate) (plainb : bool) (sk outp : list item) (r : bytes) (o : list item) : Prop :=
    (skip st = true -> o = sk) /\
    (skip st = false -> plainb = true -> recent_is_raw st = false -> o = outp) /\
    (plainb = true -> recent_is_raw st = false -> nraw r) /\
    balanced o.

  Definition node_ok (nd : node) : Prop :=
    wf nd = true -> forall st, Inv2 st ->
    exists r o, exec st (flatten nd) = Some (set_recent st r, o) /\
                result_ok st (plain nd) (skipped nd) (out_node nd) r o.
  Definition forest_ok (f : list node) : Prop :=
    forallb wf f = true -> forall st, Inv2 st ->
    exists r o, exec st (flat_map flatten f) = Some (set_recent st r, o) /\
                result_ok st (forallb plain f) (flat_map skipped f) (flat_map out_node f) r o.

  Lemma leaf_balanced it : leaf_item it -> balanced [it].
  Proof. intros H. apply bal_leaf; [exact H | constructor]. Qed.

  Lemma forest_of_nodes f : Forall node_ok f -> forest_ok f.
  Proof.
    induction 1 as [|nd f Hnd Hf IH]; intros Hwf st Hi.
    - exists (recent st), []. cbn [flat_map exec]. rewrite set_recent_id. split; [reflexivity|].
      split; [reflexivity|]. split; [reflexivity|]. split; [intros _ H; exact H | constructor].
    - cbn [forallb] in Hwf. apply andb_true_iff in Hwf as [Hw1 Hw2].
      destruct (Hnd Hw1 st Hi) as (r1 & o1 & E1 & (A1 & B1 & C1 & D1)).
      destruct (IH Hw2 (set_recent st r1) (inv2_set_recent st r1 Hi)) as (r2 & o2 & E2 & (A2 & B2 & C2 & D2)).
      exists r2, (o1 ++ o2). cbn [flat_map]. rewrite exec_app, E1, E2. split; [reflexivity|].
      cbn [forallb]. split; [|split; [|split]].
      + intros Hs. rewrite (A1 Hs), (A2 Hs). reflexivity.
      + intros Hs Hp Hr. apply andb_true_iff in Hp as [Hp1 Hp2].
        rewrite (B1 Hs Hp1 Hr). rewrite (B2 Hs Hp2 (C1 Hp1 Hr)). reflexivity.
      + intros Hp Hr. apply andb_true_iff in Hp as [Hp1 Hp2]. apply C2; [exact Hp2 | exact (C1 Hp1 Hr)].
      + apply balanced_app; assumption.
  Qed.


  Lemma plain_not_hidden n : negb (is_script_or_style n) = true -> hidden_tag n = false.
  Proof. intros H. apply negb_true_iff in H. unfold hidden_tag. rewrite H. reflexivity. Qed.

  Lemma spaces_balanced_sp : balanced sp.
  Proof. apply balanced_spaces, sp_spaces. Qed.

  (* a lone tag: self-closing, or the start tag of a void element *)
  Lemma single_ok (mk : bytes -> list attr -> token) n a st out :
    (forall a', leaf_item (ITag (mk n a'))) ->
    step I p st (mk n a) = Ok (set_recent st (normalise n)) out ->
    (hidden_tag n = true -> out = []) ->
    (hidden_tag n = false -> element_policies I p n = None -> out = sp) ->
    (forall aps, hidden_tag n = false -> element_policies I p n = Some aps ->
       out = if dropped n a aps then sp else if skip st then [] else [ITag (mk n (clean_attrs I p n a aps))]) ->
    result_ok st (negb (is_script_or_style n)) (skipped_single n a) (out_single mk n a) (normalise n) out.
  Proof.
    intros Hleaf _ H1 H2 H3. unfold skipped_single, out_single.
    destruct (hidden_tag n) eqn:Hh.
    - rewrite (H1 eq_refl). split; [reflexivity|]. split; [|split; [|constructor]].
      + intros _ Hp. rewrite (plain_not_hidden n Hp) in Hh. discriminate.
      + intros Hp. rewrite (plain_not_hidden n Hp) in Hh. discriminate.
    - assert (Hr : negb (is_script_or_style n) = true -> nraw (normalise n)).
      { intros Hp. apply negb_true_iff in Hp. exact Hp. }
      destruct (element_policies I p n) as [aps|] eqn:Ep.
      + rewrite (H3 aps eq_refl eq_refl). destruct (dropped n a aps).
        * split; [reflexivity|]. split; [reflexivity|]. split; [intros Hp _; auto | apply spaces_balanced_sp].
        * split; [intros ->; reflexivity|]. split; [intros ->; reflexivity|]. split; [intros Hp _; auto|].
          destruct (skip st); [constructor | apply leaf_balanced, Hleaf].
      + rewrite (H2 eq_refl eq_refl). split; [reflexivity|]. split; [reflexivity|]. split; [intros Hp _; auto | apply spaces_balanced_sp].
  Qed.

  Theorem all_nodes_ok : forall nd, node_ok nd.
  Proof.
    apply node_ind2.
    - (* text *)
      intros d _ st Hi. exists (recent st). rewrite set_recent_id. cbn [flatten].
      destruct (step I p st (TText d)) as [st' out|] eqn:E; cbn [step] in E.
      + exists out. assert (Hst : st' = st) by (destruct (skip st); [|destruct (_ || _)]; inversion E; reflexivity). subst st'.
        split; [apply exec_one; exact E|]. split; [|split; [|split]].
        * intros Hs. rewrite Hs in E. inversion E; reflexivity.
        * intros Hs _ Hr. unfold recent_is_raw in Hr. rewrite Hs, Hr in E. inversion E; reflexivity.
        * intros _ Hr. exact Hr.
        * destruct (skip st); [inversion E; constructor|]. destruct (_ || _); inversion E; [destruct (allowUnsafe p)|];
            try constructor; try exact Logic.I; constructor.
      + exfalso. destruct (skip st); [|destruct (_ || _)]; discriminate.
    - (* comment *)
      intros d _ st Hi. exists (recent st). rewrite set_recent_id. cbn [flatten].
      exists (if allowComments p && negb (skip st) then [IComment d] else []).
      split; [apply exec_one; cbn [step]; destruct (allowComments p && negb (skip st)); reflexivity|].
      cbn [skipped out_node plain]. split; [intros ->; rewrite andb_false_r; reflexivity|].
      split; [intros -> _ _; rewrite andb_true_r; reflexivity|]. split; [intros _ Hr; exact Hr|].
      destruct (allowComments p && negb (skip st)); [apply leaf_balanced; exact Logic.I | constructor].
    - (* doctype *)
      intros d _ st Hi. exists (recent st), []. rewrite set_recent_id. split; [reflexivity|].
      split; [reflexivity|]. split; [reflexivity|]. split; [intros _ Hr; exact Hr | constructor].
    - (* self-closing *)
      intros n a _ st Hi. exists (normalise n). cbn [flatten skipped out_node plain].
      destruct (step I p st (TSelf n a)) as [st' out|] eqn:E; cbn [step] in E.
      + assert (Hst : st' = set_recent st (normalise n)).
        { destruct (is_script_or_style n && negb (allowUnsafe p)); [inversion E; reflexivity|].
          destruct (element_policies I p n) as [aps|]; [|inversion E; reflexivity].
          destruct (clean_attrs I p n a aps); [destruct (negb _)|]; inversion E; reflexivity. }
        subst st'. exists out. split; [apply exec_one; cbn [step]; exact E|].
        apply single_ok; [intros; exact Logic.I | cbn [step]; exact E | | |].
        * intros Hh. unfold hidden_tag in Hh. rewrite Hh in E. inversion E; reflexivity.
        * intros Hh Hp. unfold hidden_tag in Hh. rewrite Hh, Hp in E. inversion E; reflexivity.
        * intros aps Hh Hp. unfold hidden_tag in Hh. rewrite Hh, Hp in E. unfold dropped. cbn [skip set_recent] in E.
          destruct (clean_attrs I p n a aps); cbn [andb]; [destruct (negb (allow_no_attrs I p n))|]; inversion E; reflexivity.
      + exfalso. destruct (is_script_or_style n && negb (allowUnsafe p)); [discriminate|].
        destruct (element_policies I p n) as [aps|]; [|discriminate].
        destruct (clean_attrs I p n a aps); [destruct (negb _)|]; discriminate.
    - (* start tag of a void element *)
      intros n a Hwf st Hi. cbn [wf] in Hwf. exists (normalise n). cbn [flatten skipped out_node plain].
      assert (E : exists out, step I p st (TStart n a) = Ok (set_recent st (normalise n)) out /\
                  (hidden_tag n = true -> out = []) /\
                  (hidden_tag n = false -> element_policies I p n = None -> out = sp) /\
                  (forall aps, hidden_tag n = false -> element_policies I p n = Some aps ->
                     out = if dropped n a aps then sp else if skip st then [] else [ITag (TStart n (clean_attrs I p n a aps))])).
      { cbn [step]. unfold hidden_tag, dropped. destruct (is_script_or_style n && negb (allowUnsafe p)).
        - eexists. split; [reflexivity|]. split; [reflexivity|]. split; intros; discriminate.
        - destruct (element_policies I p n) as [aps|].
          + destruct ((match clean_attrs I p n a aps with [] => true | _ => false end) && negb (allow_no_attrs I p n)) eqn:Ed.
            * rewrite Hwf. eexists. split; [reflexivity|]. split; [discriminate|]. split; [discriminate|].
              intros aps' _ Ha. inversion Ha; subst. rewrite Ed. reflexivity.
            * unfold kept_start. rewrite Hwf. cbn [negb]. rewrite andb_false_r. cbn [skip set_recent].
              eexists. split; [reflexivity|]. split; [discriminate|]. split; [discriminate|].
              intros aps' _ Ha. inversion Ha; subst. rewrite Ed. reflexivity.
          + rewrite Hwf. cbn [negb]. rewrite andb_false_r. eexists. split; [reflexivity|]. split; [discriminate|].
            split; [reflexivity | discriminate]. }
      destruct E as (out & E & H1 & H2 & H3). exists out. split; [apply exec_one; exact E|].
      apply single_ok; auto.
    - (* element *)
      intros n a kids Hkids Hwf st Hi. cbn [wf] in Hwf. apply andb_true_iff in Hwf as [Hv Hwk]. apply negb_true_iff in Hv.
      destruct (bracket n a st Hi Hv) as (stA & oA & oB & Estart & HiA & Eend & Hclass).
      destruct (forest_of_nodes kids Hkids Hwk stA HiA) as (rk & ok & Ek & (Ak & Bk & Ck & Dk)).
      exists (end_recent rk n), (oA ++ ok ++ oB). split.
      + cbn [flatten exec]. rewrite Estart. rewrite exec_app, Ek. rewrite (exec_one _ _ _ _ (Eend rk)). reflexivity.
      + cbn [skipped out_node plain].
        destruct Hclass as [Hh -> -> Hs | Hh Hp Hm -> -> Hs | Hh Hp Hm -> -> Hs Hr | aps Hh Hp Hd -> -> Hs Hr | aps Hh Hp Hd -> -> Hs Hr].
        * (* hidden *)
          rewrite Hh. cbn [app]. rewrite app_nil_r. split; [intros H; apply Ak; congruence|].
          split; [intros _ Hpl; apply andb_true_iff in Hpl as [Hpl _]; rewrite (plain_not_hidden n Hpl) in Hh; discriminate|].
          split; [intros Hpl; apply andb_true_iff in Hpl as [Hpl _]; rewrite (plain_not_hidden n Hpl) in Hh; discriminate | exact Dk].
        * (* skipped content *)
          rewrite Hh, Hp, Hm. rewrite (Ak Hs). split; [reflexivity|]. split; [reflexivity|]. split.
          -- intros Hpl Hraw. apply andb_true_iff in Hpl as [Hpl1 Hpl2]. apply end_recent_nraw. apply Ck; [exact Hpl2|].
             (* recent stA: in this class the start tag set it to normalise n; read it off the step *)
             clear - Estart Hh Hp Hm Hv Hpl1. cbn [step] in Estart. unfold hidden_tag in Hh. rewrite Hh, Hp, Hm, Hv in Estart.
             inversion Estart; subst. unfold recent_is_raw. cbn [recent set_recent]. apply negb_true_iff in Hpl1. exact Hpl1.
          -- apply balanced_app; [apply spaces_balanced_sp|]. apply balanced_app; [|apply spaces_balanced_sp].
             apply balanced_spaces. clear. induction kids as [|k ks IH]; cbn [flat_map]; [constructor|].
             apply Forall_app. split; [apply skipped_spaces | exact IH].
        * (* disallowed, content kept *)
          rewrite Hh, Hp, Hm.
          assert (HrA : negb (is_script_or_style n) = true -> recent_is_raw stA = false).
          { intros Hpl. unfold recent_is_raw. rewrite Hr. apply negb_true_iff in Hpl. exact Hpl. }
          split; [intros H; rewrite Ak by congruence; reflexivity|]. split; [|split].
          -- intros H Hpl _. apply andb_true_iff in Hpl as [Hpl1 Hpl2]. rewrite (Bk ltac:(congruence) Hpl2 (HrA Hpl1)). reflexivity.
          -- intros Hpl _. apply andb_true_iff in Hpl as [Hpl1 Hpl2]. apply end_recent_nraw. apply Ck; auto.
          -- apply balanced_app; [apply spaces_balanced_sp|]. apply balanced_app; [exact Dk | apply spaces_balanced_sp].
        * (* allowed by name, dropped for lack of attributes, content kept *)
          rewrite Hh, Hp, Hd.
          assert (HrA : negb (is_script_or_style n) = true -> recent_is_raw stA = false).
          { intros Hpl. unfold recent_is_raw. rewrite Hr. apply negb_true_iff in Hpl. exact Hpl. }
          split; [intros H; rewrite Ak by congruence; reflexivity|]. split; [|split].
          -- intros H Hpl _. apply andb_true_iff in Hpl as [Hpl1 Hpl2]. rewrite (Bk ltac:(congruence) Hpl2 (HrA Hpl1)). reflexivity.
          -- intros Hpl _. apply andb_true_iff in Hpl as [Hpl1 Hpl2]. apply end_recent_nraw. apply Ck; auto.
          -- apply balanced_app; [apply spaces_balanced_sp|]. apply balanced_app; [exact Dk | apply spaces_balanced_sp].
        * (* kept *)
          rewrite Hh, Hp, Hd.
          assert (HrA : negb (is_script_or_style n) = true -> recent_is_raw stA = false).
          { intros Hpl. unfold recent_is_raw. rewrite Hr. apply negb_true_iff in Hpl. exact Hpl. }
          split; [intros H; rewrite H; cbn [app]; rewrite app_nil_r; apply Ak; congruence|]. split; [|split].
          -- intros H Hpl _. apply andb_true_iff in Hpl as [Hpl1 Hpl2]. rewrite H. rewrite (Bk ltac:(congruence) Hpl2 (HrA Hpl1)). reflexivity.
          -- intros Hpl _. apply andb_true_iff in Hpl as [Hpl1 Hpl2]. apply end_recent_nraw. apply Ck; auto.
          -- destruct (skip st); [cbn [app]; rewrite app_nil_r; exact Dk|]. apply balanced_wrap; assumption.
  Qed.

  (* ---- consequences for whole documents ---- *)
  Lemma all_forests_ok f : forest_ok f.
  Proof. apply forest_of_nodes. apply Forall_forall. intros nd _. apply all_nodes_ok. Qed.

  (* the denotation is what the loop emits, for every well-formed forest without script / style *)
  Theorem tree_semantics f : forallb wf f = true -> forallb plain f = true ->
    run_items I p (flatten_forest f) = (flat_map out_node f, false).
  Proof.
    intros Hw Hp. destruct (all_forests_ok f Hw init_state inv2_init) as (r & o & E & (_ & B0 & _ & _)).
    unfold run_items, flatten_forest. rewrite (exec_run _ _ _ _ E). rewrite (B0 eq_refl Hp eq_refl). reflexivity.
  Qed.

  (* well-nested input yields well-nested output (script / style included) *)
  Theorem output_balanced f : forallb wf f = true -> balanced (emitted I p (flatten_forest f)).
  Proof.
    intros Hw. destruct (all_forests_ok f Hw init_state inv2_init) as (r & o & E & (_ & _ & _ & D)).
    unfold emitted, run_items, flatten_forest. rewrite (exec_run _ _ _ _ E). exact D.
  Qed.

  (* the loop state after a well-formed forest is the state before it, up to the most recent tag *)
  Theorem state_restored f st : forallb wf f = true -> Inv2 st ->
    exists r o, exec st (flatten_forest f) = Some (set_recent st r, o).
  Proof. intros Hw Hi. destruct (all_forests_ok f Hw st Hi) as (r & o & E & _). eauto. Qed.

  (* the text that is outside disallowed skip-content elements *)
  Fixpoint texts_outside (nd : node) : list bytes :=
    match nd with
    | NText d => [d]
    | NElem n a kids =>
      match element_policies I p n with
      | None => if mem n (elsSkipContent p) then [] else flat_map texts_outside kids
      | Some _ => flat_map texts_outside kids
      end
    | _ => []
    end.
  Definition item_texts_of (its : list item) : list bytes :=
    flat_map (fun it => match it with IText d => [d] | _ => [] end) its.

  Lemma item_texts_app a b : item_texts_of (a ++ b) = item_texts_of a ++ item_texts_of b.
  Proof. unfold item_texts_of. apply flat_map_app. Qed.
  Lemma item_texts_spaces l : Forall (fun it => it = ISpace) l -> item_texts_of l = [].
  Proof. induction 1 as [|it l -> Hl IH]; [reflexivity | exact IH]. Qed.
  Lemma item_texts_flat {A} (f : A -> list item) (g : A -> list bytes) l :
    Forall (fun x => item_texts_of (f x) = g x) l -> item_texts_of (flat_map f l) = flat_map g l.
  Proof. induction 1 as [|x l Hx Hl IH]; cbn [flat_map]; [reflexivity|]. rewrite item_texts_app, Hx, IH. reflexivity. Qed.

  Lemma out_single_texts mk n a : item_texts_of (out_single mk n a) = [].
  Proof.
    unfold out_single. destruct (hidden_tag n); [reflexivity|].
    destruct (element_policies I p n) as [aps|]; [destruct (dropped n a aps)|]; try (apply item_texts_spaces, sp_spaces).
    reflexivity.
  Qed.

  Theorem out_node_texts : forall nd, item_texts_of (out_node nd) = texts_outside nd.
  Proof.
    apply node_ind2; intros; cbn [out_node texts_outside]; try reflexivity.
    - destruct (allowComments p); reflexivity.
    - apply out_single_texts.
    - apply out_single_texts.
    - assert (Hk : item_texts_of (flat_map out_node kids) = flat_map texts_outside kids) by (apply item_texts_flat; exact H).
      assert (Hs : item_texts_of (flat_map skipped kids) = []).
      { apply item_texts_spaces. clear. induction kids as [|k ks IH]; cbn [flat_map]; [constructor|].
        apply Forall_app. split; [apply skipped_spaces | exact IH]. }
      assert (Hsp : item_texts_of sp = []) by (apply item_texts_spaces, sp_spaces).
      destruct (element_policies I p n) as [aps|].
      + destruct (dropped n a aps).
        * rewrite !item_texts_app, Hsp, Hk. cbn [app]. apply app_nil_r.
        * change (ITag (TStart n (clean_attrs I p n a aps)) :: flat_map out_node kids ++ [ITag (TEnd n)])
            with ([ITag (TStart n (clean_attrs I p n a aps))] ++ flat_map out_node kids ++ [ITag (TEnd n)]).
          rewrite !item_texts_app, Hk. cbn. apply app_nil_r.
      + destruct (mem n (elsSkipContent p)).
        * rewrite !item_texts_app, Hsp, Hs. reflexivity.
        * rewrite !item_texts_app, Hsp, Hk. cbn [app]. apply app_nil_r.
  Qed.
End Tree.
Arguments tree_semantics {M U R} I p f.
Arguments output_balanced {M U R} I p f.
Arguments out_node_texts {M U R} I p nd.
