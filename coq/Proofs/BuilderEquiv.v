(* C17: the order of the rule-adding builder calls does not matter (up to the rule-set
   equivalence of PolicyEquiv, hence not at all for the sanitized bytes). *)
From Coq Require Import List NArith ZArith Bool Lia Permutation.
Import ListNotations.
From BM Require Import Bytes Utf8 Strings Policy Attrs Loop Builder MapProofs PolicyEquiv.
Open Scope N_scope.

Lemma NoDup_snoc {A} (l : list A) x : NoDup l -> ~ In x l -> NoDup (l ++ [x]).
Proof.
  induction 1 as [|y l Hy Hl IH]; intros Hx; cbn [app]; [constructor; [tauto | constructor]|].
  constructor.
  - intros Hin. apply in_app_or in Hin as [Hin|[<-|[]]]; [exact (Hy Hin) | apply Hx; left; reflexivity].
  - apply IH. intros Hin. apply Hx. right. exact Hin.
Qed.

(* ---- association lists ---- *)
Lemma upsert_keys {V} k (f : option V -> V) (m : amap V) :
  map fst (upsert k f m) = if has_key k m then map fst m else map fst m ++ [k].
Proof.
  unfold has_key. induction m as [|[k' v] m IH]; cbn [upsert lookup map fst]; [reflexivity|].
  destruct (beqb k' k) eqn:E; cbn [map fst]; [reflexivity|]. rewrite IH. destruct (lookup k m); reflexivity.
Qed.

Lemma lookup_in_keys {V} k (m : amap V) : lookup k m = None -> ~ In k (map fst m).
Proof.
  induction m as [|[k' v] m IH]; cbn; [tauto|]. destruct (beqb k' k) eqn:E; [discriminate|].
  intros H [Hk|Hk]; [subst; rewrite beqb_refl in E; discriminate | exact (IH H Hk)].
Qed.

Lemma upsert_nodup {V} k (f : option V -> V) (m : amap V) : nodup_keys m -> nodup_keys (upsert k f m).
Proof.
  unfold nodup_keys. intros H. rewrite upsert_keys. unfold has_key. destruct (lookup k m) eqn:E; [exact H|].
  apply NoDup_snoc; [exact H | apply lookup_in_keys; exact E].
Qed.

(* ---- pattern tables: lookup by pointer id ---- *)
Section RTab.
  Variables M V : Type.
  Notation rtab := (list (N * M * V)).
  Definition ids (t : rtab) : list N := map (fun e => fst (fst e)) t.
  Fixpoint rfind (id : N) (t : rtab) : option (M * V) :=
    match t with
    | [] => None
    | (i, r, v) :: t' => if i =? id then Some (r, v) else rfind id t'
    end.

  Lemma rfind_rupsert_same id r (f : option V -> V) t :
    rfind id (rupsert id r f t) = Some (match rfind id t with Some (r0, v) => (r0, f (Some v)) | None => (r, f None) end).
  Proof.
    induction t as [|[[i r'] v] t IH]; cbn [rupsert rfind]; [rewrite N.eqb_refl; reflexivity|].
    destruct (i =? id) eqn:E; cbn [rfind]; rewrite E; [reflexivity | exact IH].
  Qed.
  Lemma rfind_rupsert_other id id2 r (f : option V -> V) t : (id =? id2) = false ->
    rfind id2 (rupsert id r f t) = rfind id2 t.
  Proof.
    intros Hne. induction t as [|[[i r'] v] t IH]; cbn [rupsert rfind]; [rewrite Hne; reflexivity|].
    destruct (i =? id) eqn:E; cbn [rfind].
    - apply N.eqb_eq in E. subst i. rewrite Hne. reflexivity.
    - destruct (i =? id2); [reflexivity | exact IH].
  Qed.
  Lemma rfind_none_notin id t : rfind id t = None <-> ~ In id (ids t).
  Proof.
    induction t as [|[[i r] v] t IH]; cbn [rfind ids map fst]; [tauto|].
    destruct (i =? id) eqn:E.
    - apply N.eqb_eq in E. subst i. split; [discriminate | intros H; exfalso; apply H; left; reflexivity].
    - apply N.eqb_neq in E. rewrite IH. split; [intros H [Hi|Hi]; [congruence | exact (H Hi)] | intros H Hi; apply H; right; exact Hi].
  Qed.
  Lemma rupsert_ids id r (f : option V -> V) t :
    ids (rupsert id r f t) = match rfind id t with Some _ => ids t | None => ids t ++ [id] end.
  Proof.
    induction t as [|[[i r'] v] t IH]; cbn [rupsert rfind ids map fst]; [reflexivity|].
    destruct (i =? id) eqn:E; cbn [ids map fst]; [reflexivity|]. fold (ids (rupsert id r f t)). rewrite IH.
    destruct (rfind id t); reflexivity.
  Qed.
  Lemma rupsert_nodup id r (f : option V -> V) t : NoDup (ids t) -> NoDup (ids (rupsert id r f t)).
  Proof.
    intros H. rewrite rupsert_ids. destruct (rfind id t) eqn:E; [exact H|]. apply NoDup_snoc; [exact H | apply rfind_none_notin; exact E].
  Qed.
End RTab.
Arguments ids {M V} t.
Arguments rfind {M V} id t.

(* ---- pattern tables equal by lookup (with unique ids) are equal as permutations ---- *)
Section RTabEq.
  Variables M X : Type.
  Notation rtab := (list (N * M * amap (list X))).
  Definition entry_eq (e1 e2 : M * amap (list X)) : Prop := fst e1 = fst e2 /\ rules_eq (snd e1) (snd e2).
  Definition rtab_eq (t1 t2 : rtab) : Prop :=
    NoDup (ids t1) /\ NoDup (ids t2) /\ forall id, opt_rel entry_eq (rfind id t1) (rfind id t2).

  Lemma rfind_split id : forall (t : rtab) r v, rfind id t = Some (r, v) ->
    exists pre post, t = pre ++ (id, r, v) :: post /\ ~ In id (ids pre).
  Proof.
    induction t as [|[[i r'] v'] t IH]; intros r v H; cbn [rfind] in H; [discriminate|].
    destruct (i =? id) eqn:E.
    - apply N.eqb_eq in E. subst i. inversion H; subst. exists [], t. split; [reflexivity | intros []].
    - destruct (IH r v H) as (pre & post & -> & Hn). exists ((i, r', v') :: pre), post. split; [reflexivity|].
      apply N.eqb_neq in E. intros [Hi|Hi]; [cbn in Hi; congruence | exact (Hn Hi)].
  Qed.

  Lemma rmap_eq_move_front (e : N * M * amap (list X)) : forall pre post, rmap_eq (pre ++ e :: post) (e :: pre ++ post).
  Proof.
    induction pre as [|[[i r] m] pre IH]; intros post; cbn [app]; [apply rmap_eq_refl|].
    eapply re_trans; [apply re_cons; [apply rules_eq_refl | apply IH]|]. apply re_swap.
  Qed.

  Lemma ids_app (a b : rtab) : ids (a ++ b) = ids a ++ ids b.
  Proof. unfold ids. apply map_app. Qed.

  Lemma rfind_app_notin id (pre post : rtab) : ~ In id (ids pre) -> rfind id (pre ++ post) = rfind id post.
  Proof.
    induction pre as [|[[i r] m] pre IH]; intros Hn; cbn [app rfind]; [reflexivity|].
    destruct (i =? id) eqn:E; [apply N.eqb_eq in E; subst; exfalso; apply Hn; left; reflexivity|].
    apply IH. intros Hi. apply Hn. right. exact Hi.
  Qed.

  Lemma rfind_remove_mid id i r m (pre post : rtab) : (i =? id) = false ->
    rfind id (pre ++ (i, r, m) :: post) = rfind id (pre ++ post).
  Proof.
    intros Hne. induction pre as [|[[j r'] m'] pre IH]; cbn [app rfind]; [rewrite Hne; reflexivity|].
    destruct (j =? id); [reflexivity | exact IH].
  Qed.

  Lemma NoDup_remove_mid {A} (pre post : list A) x : NoDup (pre ++ x :: post) -> NoDup (pre ++ post) /\ ~ In x (pre ++ post).
  Proof. apply NoDup_remove. Qed.

  Theorem rtab_eq_rmap_eq : forall t1 t2, rtab_eq t1 t2 -> rmap_eq t1 t2.
  Proof.
    induction t1 as [|[[i r] m1] t1 IH]; intros t2 (N1 & N2 & H).
    - destruct t2 as [|[[j r'] m'] t2]; [constructor|]. exfalso. specialize (H j). cbn [rfind] in H. rewrite N.eqb_refl in H. exact H.
    - pose proof (H i) as Hi. cbn [rfind] in Hi. rewrite N.eqb_refl in Hi.
      destruct (rfind i t2) as [[r2 m2]|] eqn:E2; [|contradiction]. destruct Hi as [Hr Hm]. cbn [fst snd] in Hr, Hm. subst r2.
      destruct (rfind_split i t2 r m2 E2) as (pre & post & -> & Hpre).
      eapply re_trans; [|apply rmap_eq_sym; apply rmap_eq_move_front].
      apply re_cons; [exact Hm|]. apply IH.
      cbn [ids map fst] in N1. inversion N1 as [|? ? Hnotin N1']; subst.
      rewrite ids_app in N2. cbn [ids map fst] in N2. fold (ids post) in N2. apply NoDup_remove in N2 as [N2 Hni]. rewrite <- ids_app in N2, Hni.
      split; [exact N1'|]. split; [exact N2|]. intros id. specialize (H id). cbn [rfind] in H.
      destruct (i =? id) eqn:E.
      + apply N.eqb_eq in E. subst id.
        assert (R1 : rfind i t1 = None) by (apply rfind_none_notin; exact Hnotin).
        assert (R2 : rfind i (pre ++ post) = None) by (apply rfind_none_notin; exact Hni).
        rewrite R1, R2. exact Logic.I.
      + rewrite (rfind_remove_mid id i r m2 pre post E) in H. exact H.
  Qed.

  Lemma rtab_eq_refl t : NoDup (ids t) -> rtab_eq t t.
  Proof.
    intros H. split; [exact H|]. split; [exact H|]. intros id. apply opt_rel_refl. intros e. split; [reflexivity | apply rules_eq_refl].
  Qed.
  Lemma rtab_eq_trans t1 t2 t3 : rtab_eq t1 t2 -> rtab_eq t2 t3 -> rtab_eq t1 t3.
  Proof.
    intros (A1 & A2 & A) (B1 & B2 & B0). split; [exact A1|]. split; [exact B2|]. intros id.
    eapply opt_rel_trans; [|apply A | apply B0]. intros a b c [E1 R1] [E2 R2]. split; [congruence | eapply rules_eq_trans; eauto].
  Qed.
  Lemma rtab_eq_sym t1 t2 : rtab_eq t1 t2 -> rtab_eq t2 t1.
  Proof.
    intros (A1 & A2 & A). split; [exact A2|]. split; [exact A1|]. intros id. apply opt_rel_sym; [|apply A].
    intros a b [E1 R1]. split; [congruence | apply rules_eq_sym; exact R1].
  Qed.
End RTabEq.
Arguments rtab_eq {M X} t1 t2.

(* ---- rule tables under the builder's primitive updates ---- *)
Definition or_empty {V} (o : option (amap V)) : amap V := match o with Some m => m | None => [] end.
Definition add_rule {X} (a : bytes) (x : X) (o : option (amap (list X))) : amap (list X) := app_rule a x (or_empty o).

Lemma app_rule_lookup {X} a (x : X) m k :
  lookup k (app_rule a x m) = if beqb a k then Some (match lookup a m with Some l => l ++ [x] | None => [x] end) else lookup k m.
Proof.
  unfold app_rule. destruct (beqb a k) eqn:E.
  - apply beqb_eq in E. subst k. rewrite lookup_upsert_same. reflexivity.
  - apply lookup_upsert_other. exact E.
Qed.

Lemma same_set_snoc {X} (l1 l2 : list X) x : same_set l1 l2 -> same_set (l1 ++ [x]) (l2 ++ [x]).
Proof. intros H y. rewrite !in_app_iff. rewrite (H y). tauto. Qed.
Lemma same_set_snoc2 {X} (l : list X) x y : same_set ((l ++ [x]) ++ [y]) ((l ++ [y]) ++ [x]).
Proof. intros z. rewrite !in_app_iff. cbn. tauto. Qed.

Lemma app_rule_congr {X} a (x : X) m1 m2 : rules_eq m1 m2 -> rules_eq (app_rule a x m1) (app_rule a x m2).
Proof.
  intros H k. rewrite !app_rule_lookup. destruct (beqb a k); [|apply H].
  specialize (H a). destruct (lookup a m1), (lookup a m2); cbn in *; try contradiction; [apply same_set_snoc; exact H | apply same_set_refl].
Qed.

Lemma app_rule_comm {X} a (x : X) b y m : rules_eq (app_rule a x (app_rule b y m)) (app_rule b y (app_rule a x m)).
Proof.
  intros k. rewrite !app_rule_lookup. destruct (beqb a k) eqn:Ea, (beqb b k) eqn:Eb; cbn [opt_rel].
  - apply beqb_eq in Ea, Eb. subst a b. rewrite !beqb_refl. destruct (lookup k m); cbn; [apply same_set_snoc2|].
    intros z. cbn. tauto.
  - apply beqb_eq in Ea. subst a. rewrite Eb. destruct (lookup k m); apply same_set_refl.
  - apply beqb_eq in Eb. subst b. rewrite Ea. destruct (lookup k m); apply same_set_refl.
  - apply opt_rel_refl. apply same_set_refl.
Qed.

Lemma add_rule_congr {X} a (x : X) o1 o2 : opt_rel rules_eq o1 o2 -> rules_eq (add_rule a x o1) (add_rule a x o2).
Proof.
  intros H. unfold add_rule. apply app_rule_congr. destruct o1, o2; cbn in *; try contradiction; [exact H | apply rules_eq_refl].
Qed.
Lemma or_empty_congr {X} (o1 o2 : option (amap (list X))) : opt_rel rules_eq o1 o2 -> rules_eq (or_empty o1) (or_empty o2).
Proof. intros H. destruct o1, o2; cbn in *; try contradiction; [exact H | apply rules_eq_refl]. Qed.

(* upserts into a table of rule maps *)
Section TableUpsert.
  Variable X : Type.
  Notation rules := (amap (list X)).
  Variables F G : option rules -> rules.
  Hypothesis Fc : forall o1 o2, opt_rel rules_eq o1 o2 -> rules_eq (F o1) (F o2).
  Hypothesis Gc : forall o1 o2, opt_rel rules_eq o1 o2 -> rules_eq (G o1) (G o2).

  Lemma upsert_table_congr e t1 t2 : table_eq t1 t2 -> table_eq (upsert e F t1) (upsert e F t2).
  Proof.
    intros H k. destruct (beqb e k) eqn:E.
    - apply beqb_eq in E. subst k. rewrite !lookup_upsert_same. cbn. apply Fc. apply H.
    - rewrite !lookup_upsert_other by exact E. apply H.
  Qed.

  Hypothesis FG : forall o, rules_eq (F (Some (G o))) (G (Some (F o))).

  Lemma upsert_table_comm e e' t : table_eq (upsert e F (upsert e' G t)) (upsert e' G (upsert e F t)).
  Proof.
    intros k. destruct (beqb e k) eqn:E, (beqb e' k) eqn:E'.
    - apply beqb_eq in E, E'. subst e e'. rewrite !lookup_upsert_same. cbn. apply FG.
    - apply beqb_eq in E. subst e. rewrite lookup_upsert_same, (lookup_upsert_other e' k G) by exact E'.
      rewrite (lookup_upsert_other e' k G) by exact E'. rewrite lookup_upsert_same. cbn. apply rules_eq_refl.
    - apply beqb_eq in E'. subst e'. rewrite (lookup_upsert_other e k F) by exact E. rewrite lookup_upsert_same.
      rewrite lookup_upsert_same. rewrite (lookup_upsert_other e k F) by exact E. cbn. apply rules_eq_refl.
    - rewrite !lookup_upsert_other by assumption. apply opt_rel_refl. apply rules_eq_refl.
  Qed.
End TableUpsert.

(* the same for pattern tables, by pointer id *)
Section RTableUpsert.
  Variables M X : Type.
  Notation rules := (amap (list X)).
  Variables F G : option rules -> rules.
  Hypothesis Fc : forall o1 o2, opt_rel rules_eq o1 o2 -> rules_eq (F o1) (F o2).
  Hypothesis FG : forall o, rules_eq (F (Some (G o))) (G (Some (F o))).

  Definition rlook_eq (t1 t2 : list (N * M * rules)) : Prop := forall id, opt_rel (entry_eq M X) (rfind id t1) (rfind id t2).

  Lemma rupsert_congr id r t1 t2 : rlook_eq t1 t2 -> rlook_eq (rupsert id r F t1) (rupsert id r F t2).
  Proof.
    intros H k. destruct (id =? k) eqn:E.
    - apply N.eqb_eq in E. subst k. rewrite !rfind_rupsert_same. specialize (H id).
      destruct (rfind id t1) as [[r1 m1]|], (rfind id t2) as [[r2 m2]|]; cbn in *; try contradiction.
      + destruct H as [Hr Hm]. cbn in *. split; [exact Hr | apply Fc; exact Hm].
      + split; [reflexivity | apply Fc; exact Logic.I].
    - rewrite !rfind_rupsert_other by exact E. apply H.
  Qed.

  (* two updates of the same entry must agree on the pattern the id stands for (ids are pointers) *)
  Lemma rupsert_comm id r id' r' t : (id = id' -> r = r') ->
    rlook_eq (rupsert id r F (rupsert id' r' G t)) (rupsert id' r' G (rupsert id r F t)).
  Proof.
    intros Hr k. destruct (id =? k) eqn:E, (id' =? k) eqn:E'.
    - apply N.eqb_eq in E, E'. subst id id'. specialize (Hr eq_refl). subst r'. rewrite !rfind_rupsert_same.
      destruct (rfind k t) as [[r0 m0]|]; cbn; (split; [reflexivity | apply FG]).
    - apply N.eqb_eq in E. subst id. rewrite rfind_rupsert_same, (rfind_rupsert_other _ _ id' k r' G) by exact E'.
      rewrite (rfind_rupsert_other _ _ id' k r' G) by exact E'. rewrite rfind_rupsert_same.
      destruct (rfind k t) as [[r0 m0]|]; cbn; (split; [reflexivity | apply rules_eq_refl]).
    - apply N.eqb_eq in E'. subst id'. rewrite (rfind_rupsert_other _ _ id k r F) by exact E. rewrite rfind_rupsert_same.
      rewrite rfind_rupsert_same. rewrite (rfind_rupsert_other _ _ id k r F) by exact E.
      destruct (rfind k t) as [[r0 m0]|]; cbn; (split; [reflexivity | apply rules_eq_refl]).
    - rewrite !rfind_rupsert_other by assumption. apply opt_rel_refl. intros e. split; [reflexivity | apply rules_eq_refl].
  Qed.
End RTableUpsert.
Arguments rlook_eq {M X} t1 t2.

(* ---- the primitive updates the rule-adding builder calls are made of ---- *)
Section Prims.
  Variables M U R : Type.
  Variable dh : bytes -> M.
  Notation pol := (policy M U R).

  Inductive prim :=
  | PAttr (e a : bytes) (ap : attr_policy M)
  | PEnsure (e : bytes)
  | PEnsureNoAttr (e : bytes)
  | PMAttr (id : N) (r : M) (a : bytes) (ap : attr_policy M)
  | PMEnsure (id : N) (r : M)
  | PMEnsureNoAttr (id : N) (r : M)
  | PGAttr (a : bytes) (ap : attr_policy M)
  | PStyle (e a : bytes) (sp : style_policy M)
  | PMStyle (id : N) (r : M) (a : bytes) (sp : style_policy M)
  | PGStyle (a : bytes) (sp : style_policy M).

  Definition prim_apply (p : pol) (x : prim) : pol :=
    match x with
    | PAttr e a ap => set_elsAndAttrs p (upsert e (fun o => app_rule a ap (match o with Some m => m | None => [] end)) (elsAndAttrs p))
    | PEnsure e => set_elsAndAttrs p (ensure e (elsAndAttrs p))
    | PEnsureNoAttr e => set_elsAndAttrs (set_noattrs p (add_set e (elsNoAttrs p)) (elsMatchingNoAttrs p)) (ensure e (elsAndAttrs p))
    | PMAttr id r a ap => set_elsMatchingAndAttrs p (rupsert id r (fun o => app_rule a ap (match o with Some m => m | None => [] end)) (elsMatchingAndAttrs p))
    | PMEnsure id r => set_elsMatchingAndAttrs p (rupsert id r (fun o => match o with Some m => m | None => [] end) (elsMatchingAndAttrs p))
    | PMEnsureNoAttr id r =>
        set_elsMatchingAndAttrs (set_noattrs p (elsNoAttrs p) (elsMatchingNoAttrs p ++ [r]))
          (rupsert id r (fun o => match o with Some m => m | None => [] end) (elsMatchingAndAttrs p))
    | PGAttr a ap => set_globalAttrs p (app_rule a ap (globalAttrs p))
    | PStyle e a sp => set_styles p (upsert e (fun o => app_rule a sp (match o with Some m => m | None => [] end)) (elsAndStyles p)) (elsMatchingAndStyles p) (globalStyles p)
    | PMStyle id r a sp => set_styles p (elsAndStyles p) (rupsert id r (fun o => app_rule a sp (match o with Some m => m | None => [] end)) (elsMatchingAndStyles p)) (globalStyles p)
    | PGStyle a sp => set_styles p (elsAndStyles p) (elsMatchingAndStyles p) (app_rule a sp (globalStyles p))
    end.

  (* the style matcher the builder stores for a property *)
  Definition sp_for (handler : option M) (enum : list bytes) (re : option M) (prop : bytes) : style_policy M :=
    match handler with
    | Some h => SPHandler h
    | None => match enum with
              | _ :: _ => SPEnum enum
              | [] => match re with Some r => SPRegexp r | None => SPHandler (dh prop) end
              end
    end.

  Definition prims_of (o : op M U R) : list prim :=
    match o with
    | @OAllowAttrs _ _ _ names re noattrs sc =>
      let nm := map to_lower names in
      match sc with
      | @OnElements _ els => flat_map (fun el => map (fun a => PAttr (to_lower el) a re) nm ++ (if noattrs then [PEnsureNoAttr (to_lower el)] else [])) els
      | @OnElementsMatching _ id r => map (fun a => PMAttr id r a re) nm ++ (if noattrs then [PMEnsureNoAttr id r] else [])
      | @Globally _ => map (fun a => PGAttr a re) nm
      end
    | @OAllowStyles _ _ _ props h e re sc =>
      let pr := map to_lower props in
      match sc with
      | @OnElements _ els => flat_map (fun el => map (fun a => PStyle (to_lower el) a (sp_for h e re a)) pr) els
      | @OnElementsMatching _ id r => map (fun a => PMStyle id r a (sp_for h e re a)) pr
      | @Globally _ => map (fun a => PGStyle a (sp_for h e re a)) pr
      end
    | @OAllowElements _ _ _ names => map (fun el => PEnsure (to_lower el)) names
    | @OAllowElementsMatching _ _ _ id r => [PMEnsure id r]
    | _ => []
    end.
  Definition is_rule (o : op M U R) : bool :=
    match o with @OAllowAttrs _ _ _ _ _ _ _ | @OAllowStyles _ _ _ _ _ _ _ _ | @OAllowElements _ _ _ _ | @OAllowElementsMatching _ _ _ _ _ => true | _ => false end.

  Lemma fold_left_map {A B0 C} (f : A -> C -> A) (g : B0 -> C) l a : fold_left f (map g l) a = fold_left (fun a x => f a (g x)) l a.
  Proof. revert a. induction l as [|x l IH]; intros a; cbn; [reflexivity | apply IH]. Qed.
  Lemma fold_left_flat_map {A B0 C} (f : A -> C -> A) (g : B0 -> list C) l a :
    fold_left f (flat_map g l) a = fold_left (fun a x => fold_left f (g x) a) l a.
  Proof. revert a. induction l as [|x l IH]; intros a; cbn [flat_map fold_left]; [reflexivity|]. rewrite fold_left_app. apply IH. Qed.
  Lemma fold_left_ext {A B0} (f g : A -> B0 -> A) l a : (forall a x, f a x = g a x) -> fold_left f l a = fold_left g l a.
  Proof. intros H. revert a. induction l as [|x l IH]; intros a; cbn; [reflexivity|]. rewrite H. apply IH. Qed.

  (* a rule-adding call is the sequence of its primitive updates *)
  Theorem apply_prims p o : is_rule o = true -> apply dh p o = fold_left prim_apply (prims_of o) p.
  Proof.
    destruct o; cbn [is_rule]; try discriminate; intros _; cbn [apply prims_of].
    - (* AllowAttrs *)
      unfold bind_attrs. destruct sc as [els|id r|].
      + rewrite fold_left_flat_map. apply fold_left_ext. intros q el. rewrite fold_left_app. cbv zeta. rewrite !fold_left_map.
        destruct noattrs; reflexivity.
      + rewrite fold_left_app. cbv zeta. rewrite !fold_left_map. destruct noattrs; reflexivity.
      + rewrite !fold_left_map. reflexivity.
    - (* AllowStyles *)
      unfold bind_styles. destruct sc as [els|id r|].
      + rewrite fold_left_flat_map. apply fold_left_ext. intros q el. cbv zeta. rewrite !fold_left_map. reflexivity.
      + cbv zeta. rewrite !fold_left_map. reflexivity.
      + cbv zeta. rewrite !fold_left_map. reflexivity.
    - rewrite !fold_left_map. reflexivity.
    - reflexivity.
  Qed.
End Prims.
Arguments PAttr {M} e a ap.
Arguments PEnsure {M} e.
Arguments PEnsureNoAttr {M} e.
Arguments PMAttr {M} id r a ap.
Arguments PMEnsure {M} id r.
Arguments PMEnsureNoAttr {M} id r.
Arguments PGAttr {M} a ap.
Arguments PStyle {M} e a sp.
Arguments PMStyle {M} id r a sp.
Arguments PGStyle {M} a sp.

(* ---- commutation of the concrete update functions ---- *)
Definition addF {X} (a : bytes) (x : X) : option (amap (list X)) -> amap (list X) :=
  fun o => app_rule a x (match o with Some m => m | None => [] end).
Definition ensF {X} : option (amap (list X)) -> amap (list X) := fun o => match o with Some m => m | None => [] end.

Lemma addF_congr {X} a (x : X) o1 o2 : opt_rel rules_eq o1 o2 -> rules_eq (addF a x o1) (addF a x o2).
Proof. apply add_rule_congr. Qed.
Lemma ensF_congr {X} (o1 o2 : option (amap (list X))) : opt_rel rules_eq o1 o2 -> rules_eq (ensF o1) (ensF o2).
Proof. apply or_empty_congr. Qed.
Lemma addF_addF {X} a (x : X) b y o : rules_eq (addF a x (Some (addF b y o))) (addF b y (Some (addF a x o))).
Proof. unfold addF. apply app_rule_comm. Qed.
Lemma addF_ensF {X} a (x : X) o : rules_eq (addF a x (Some (ensF o))) (ensF (Some (addF a x o))).
Proof. apply rules_eq_refl. Qed.
Lemma ensF_addF {X} a (x : X) o : rules_eq (ensF (Some (addF a x o))) (addF a x (Some (ensF o))).
Proof. apply rules_eq_refl. Qed.
Lemma ensF_ensF {X} (o : option (amap (list X))) : rules_eq (ensF (Some (ensF o))) (ensF (Some (ensF o))).
Proof. apply rules_eq_refl. Qed.

Lemma add_set_in k s x : In x (add_set k s) <-> x = k \/ In x s.
Proof.
  unfold add_set. destruct (mem k s) eqn:E.
  - apply mem_In in E. split; [tauto | intros [->|H]; assumption].
  - rewrite in_app_iff. cbn. split; [intros [H|[H|[]]]; auto | intros [H|H]; auto].
Qed.
Lemma add_set_comm k k' s : same_set (add_set k (add_set k' s)) (add_set k' (add_set k s)).
Proof. intros x. rewrite !add_set_in. tauto. Qed.
Lemma add_set_congr k s1 s2 : same_set s1 s2 -> same_set (add_set k s1) (add_set k s2).
Proof. intros H x. rewrite !add_set_in. rewrite (H x). tauto. Qed.
Lemma snoc_comm {X} (l : list X) x y : same_set ((l ++ [x]) ++ [y]) ((l ++ [y]) ++ [x]).
Proof. apply same_set_snoc2. Qed.

Lemma rlook_eq_refl {M X} (t : list (N * M * amap (list X))) : rlook_eq t t.
Proof. intros id. apply opt_rel_refl. intros e. split; [reflexivity | apply rules_eq_refl]. Qed.

Section CoreEq.
  Variables M U R : Type.
  Notation pol := (policy M U R).

  Definition wf_policy (p : pol) : Prop :=
    NoDup (ids (elsMatchingAndAttrs p)) /\ nodup_tab (elsMatchingAndAttrs p) /\
    NoDup (ids (elsMatchingAndStyles p)) /\ nodup_tab (elsMatchingAndStyles p).

  Record core_eq (p q : pol) : Prop := {
    ce_opts : get_opts p = get_opts q;
    ce_ea : table_eq (elsAndAttrs p) (elsAndAttrs q);
    ce_ema : rlook_eq (elsMatchingAndAttrs p) (elsMatchingAndAttrs q);
    ce_ga : rules_eq (globalAttrs p) (globalAttrs q);
    ce_es : table_eq (elsAndStyles p) (elsAndStyles q);
    ce_ems : rlook_eq (elsMatchingAndStyles p) (elsMatchingAndStyles q);
    ce_gs : rules_eq (globalStyles p) (globalStyles q);
    ce_na : same_set (elsNoAttrs p) (elsNoAttrs q);
    ce_mna : same_set (elsMatchingNoAttrs p) (elsMatchingNoAttrs q)
  }.

  Lemma core_eq_refl p : core_eq p p.
  Proof.
    constructor; auto using table_eq_refl, rules_eq_refl, same_set_refl, rlook_eq_refl.
  Qed.
  Lemma core_eq_of_eq p q : p = q -> core_eq p q.
  Proof. intros ->. apply core_eq_refl. Qed.

  Lemma rlook_eq_trans {X} (a b c : list (N * M * amap (list X))) : rlook_eq a b -> rlook_eq b c -> rlook_eq a c.
  Proof.
    intros H1 H2 id. eapply opt_rel_trans; [|apply H1 | apply H2].
    intros x y z [E1 R1] [E2 R2]. split; [congruence | eapply rules_eq_trans; eauto].
  Qed.

  Lemma core_eq_trans p q r : core_eq p q -> core_eq q r -> core_eq p r.
  Proof.
    intros A B0. constructor.
    - rewrite (ce_opts _ _ A). apply (ce_opts _ _ B0).
    - eapply table_eq_trans; [apply (ce_ea _ _ A) | apply (ce_ea _ _ B0)].
    - eapply rlook_eq_trans; [apply (ce_ema _ _ A) | apply (ce_ema _ _ B0)].
    - eapply rules_eq_trans; [apply (ce_ga _ _ A) | apply (ce_ga _ _ B0)].
    - eapply table_eq_trans; [apply (ce_es _ _ A) | apply (ce_es _ _ B0)].
    - eapply rlook_eq_trans; [apply (ce_ems _ _ A) | apply (ce_ems _ _ B0)].
    - eapply rules_eq_trans; [apply (ce_gs _ _ A) | apply (ce_gs _ _ B0)].
    - eapply same_set_trans; [apply (ce_na _ _ A) | apply (ce_na _ _ B0)].
    - eapply same_set_trans; [apply (ce_mna _ _ A) | apply (ce_mna _ _ B0)].
  Qed.

  (* the same rules in well-formed tables: the same behaviour (PolicyEquiv.peq) *)
  Theorem core_eq_peq p q : wf_policy p -> wf_policy q -> core_eq p q -> peq p q.
  Proof.
    intros (W1 & W2 & W3 & W4) (V1 & V2 & V3 & V4) C. pose proof (ce_opts _ _ C) as O.
    constructor.
    - exact (f_equal (@o_addSpaces M U R) O).
    - exact (f_equal (@o_nf M U R) O).
    - exact (f_equal (@o_nffq M U R) O).
    - exact (f_equal (@o_nr M U R) O).
    - exact (f_equal (@o_nrfq M U R) O).
    - exact (f_equal (@o_co M U R) O).
    - pose proof (f_equal (@o_sandbox M U R) O) as S. cbn in S. rewrite S. apply opt_rel_refl. apply same_set_refl.
    - exact (f_equal (@o_tb M U R) O).
    - exact (f_equal (@o_parse M U R) O).
    - exact (f_equal (@o_rel M U R) O).
    - exact (f_equal (@o_data M U R) O).
    - exact (f_equal (@o_comments M U R) O).
    - apply (ce_ea _ _ C).
    - apply rtab_eq_rmap_eq. split; [exact W1|]. split; [exact V1 | apply (ce_ema _ _ C)].
    - exact W2.
    - exact V2.
    - apply (ce_ga _ _ C).
    - apply (ce_es _ _ C).
    - apply rtab_eq_rmap_eq. split; [exact W3|]. split; [exact V3 | apply (ce_ems _ _ C)].
    - exact W4.
    - exact V4.
    - apply (ce_gs _ _ C).
    - pose proof (f_equal (@o_schemes M U R) O) as S. cbn in S. rewrite S. apply rules_eq_refl.
    - pose proof (f_equal (@o_schemeres M U R) O) as S. cbn in S. rewrite S. apply same_set_refl.
    - exact (f_equal (@o_rewriter M U R) O).
    - apply (ce_na _ _ C).
    - apply (ce_mna _ _ C).
    - pose proof (f_equal (@o_skip M U R) O) as S. cbn in S. rewrite S. apply same_set_refl.
    - exact (f_equal (@o_unsafe M U R) O).
  Qed.
End CoreEq.
Arguments core_eq {M U R} p q.
Arguments wf_policy {M U R} p.

Section PrimLaws.
  Variables M U R : Type.
  Notation pol := (policy M U R).
  Notation prim := (prim M).
  Notation papply := (@prim_apply M U R).

  (* the pattern a primitive update names, with the pointer identity that stands for it *)
  Definition prim_rid (x : prim) : option (N * M) :=
    match x with
    | PMAttr id r _ _ | PMEnsure id r | PMEnsureNoAttr id r | PMStyle id r _ _ => Some (id, r)
    | _ => None
    end.
  (* ids are pointers: two updates that name the same id name the same pattern *)
  Definition compat (x y : prim) : Prop :=
    match prim_rid x, prim_rid y with Some (i, r), Some (j, r') => i = j -> r = r' | _, _ => True end.

  Lemma same_set_app_congr {X} (a b : list X) c : same_set a b -> same_set (a ++ c) (b ++ c).
  Proof. intros H x. rewrite !in_app_iff, (H x). tauto. Qed.

  Ltac fin := first [ assumption | reflexivity | apply table_eq_refl | apply rules_eq_refl | apply same_set_refl | apply rlook_eq_refl ].

  Theorem prim_congr p q x : core_eq p q -> core_eq (papply p x) (papply q x).
  Proof.
    intros [O A B0 C D0 E F G H].
    destruct x; constructor; cbn [prim_apply set_elsAndAttrs set_elsMatchingAndAttrs set_globalAttrs set_styles set_noattrs get_opts
      elsAndAttrs elsMatchingAndAttrs globalAttrs elsAndStyles elsMatchingAndStyles globalStyles elsNoAttrs elsMatchingNoAttrs
      addSpaces requireNoFollow requireNoFollowFQ requireNoReferrer requireNoReferrerFQ requireCrossOrigin requireSandbox addTargetBlank
      requireParseableURLs allowRelativeURLs allowDataAttributes allowComments allowURLSchemes allowURLSchemeRegexps srcRewriter elsSkipContent allowUnsafe];
      try fin; try exact O.
    - apply (upsert_table_congr _ (addF a ap)); [apply addF_congr | exact A].
    - apply (upsert_table_congr _ ensF); [apply ensF_congr | exact A].
    - apply (upsert_table_congr _ ensF); [apply ensF_congr | exact A].
    - apply add_set_congr. exact G.
    - apply (rupsert_congr _ _ (addF a ap)); [apply addF_congr | exact B0].
    - apply (rupsert_congr _ _ ensF); [apply ensF_congr | exact B0].
    - apply (rupsert_congr _ _ ensF); [apply ensF_congr | exact B0].
    - apply same_set_app_congr. exact H.
    - apply app_rule_congr. exact C.
    - apply (upsert_table_congr _ (addF a sp)); [apply addF_congr | exact D0].
    - apply (rupsert_congr _ _ (addF a sp)); [apply addF_congr | exact E].
    - apply app_rule_congr. exact F.
  Qed.

  (* same-slot commutations *)
  Lemma tc_aa {X} e a (x : X) e' b y t : table_eq (upsert e (addF a x) (upsert e' (addF b y) t)) (upsert e' (addF b y) (upsert e (addF a x) t)).
  Proof. apply upsert_table_comm. intros o. apply addF_addF. Qed.
  Lemma tc_ae {X} e a (x : X) e' t : table_eq (upsert e (addF a x) (upsert e' ensF t)) (upsert e' ensF (upsert e (addF a x) t)).
  Proof. apply upsert_table_comm. intros o. apply addF_ensF. Qed.
  Lemma tc_ea {X} e e' b (y : X) t : table_eq (upsert e ensF (upsert e' (addF b y) t)) (upsert e' (addF b y) (upsert e ensF t)).
  Proof. apply upsert_table_comm. intros o. apply ensF_addF. Qed.
  Lemma tc_ee {X} e e' (t : amap (amap (list X))) : table_eq (upsert e ensF (upsert e' ensF t)) (upsert e' ensF (upsert e ensF t)).
  Proof. apply upsert_table_comm. intros o. apply rules_eq_refl. Qed.

  Lemma rc_aa {X} id r a (x : X) id' r' b y (t : list (N * M * amap (list X))) : (id = id' -> r = r') ->
    rlook_eq (rupsert id r (addF a x) (rupsert id' r' (addF b y) t)) (rupsert id' r' (addF b y) (rupsert id r (addF a x) t)).
  Proof. intros H. apply rupsert_comm; [intros o; apply addF_addF | exact H]. Qed.
  Lemma rc_ae {X} id r a (x : X) id' r' (t : list (N * M * amap (list X))) : (id = id' -> r = r') ->
    rlook_eq (rupsert id r (addF a x) (rupsert id' r' ensF t)) (rupsert id' r' ensF (rupsert id r (addF a x) t)).
  Proof. intros H. apply rupsert_comm; [intros o; apply addF_ensF | exact H]. Qed.
  Lemma rc_ea {X} id r id' r' b (y : X) (t : list (N * M * amap (list X))) : (id = id' -> r = r') ->
    rlook_eq (rupsert id r ensF (rupsert id' r' (addF b y) t)) (rupsert id' r' (addF b y) (rupsert id r ensF t)).
  Proof. intros H. apply rupsert_comm; [intros o; apply ensF_addF | exact H]. Qed.
  Lemma rc_ee {X} id r id' r' (t : list (N * M * amap (list X))) : (id = id' -> r = r') ->
    rlook_eq (rupsert id r ensF (rupsert id' r' ensF t)) (rupsert id' r' ensF (rupsert id r ensF t)).
  Proof. intros H. apply rupsert_comm; [intros o; apply rules_eq_refl | exact H]. Qed.

  Ltac proj := cbn [prim_apply set_elsAndAttrs set_elsMatchingAndAttrs set_globalAttrs set_styles set_noattrs get_opts
      elsAndAttrs elsMatchingAndAttrs globalAttrs elsAndStyles elsMatchingAndStyles globalStyles elsNoAttrs elsMatchingNoAttrs
      addSpaces requireNoFollow requireNoFollowFQ requireNoReferrer requireNoReferrerFQ requireCrossOrigin requireSandbox addTargetBlank
      requireParseableURLs allowRelativeURLs allowDataAttributes allowComments allowURLSchemes allowURLSchemeRegexps srcRewriter elsSkipContent allowUnsafe].

  Theorem prim_comm p x y : compat x y -> core_eq (papply (papply p x) y) (papply (papply p y) x).
  Proof.
    intros Hc.
    destruct x, y; try (apply core_eq_of_eq; reflexivity); unfold compat in Hc; cbn [prim_rid] in Hc;
      (assert (Hc' := fun E => eq_sym (Hc (eq_sym E))) || idtac);
      constructor; proj; try fin;
      first [ apply tc_aa | apply tc_ae | apply tc_ea | apply tc_ee
            | apply rc_aa; assumption | apply rc_ae; assumption | apply rc_ea; assumption | apply rc_ee; assumption
            | apply add_set_comm | apply snoc_comm | apply app_rule_comm | idtac ].
  Qed.
End PrimLaws.

(* ---- well-formedness is preserved ---- *)
Section WfPreserved.
  Variables M U R : Type.
  Variable dh : bytes -> M.
  Notation pol := (policy M U R).
  Notation papply := (@prim_apply M U R).

  Lemma nodup_addF {X} a (x : X) o : match o with Some m => nodup_keys m | None => True end -> nodup_keys (addF a x o).
  Proof. intros H. unfold addF, app_rule. apply upsert_nodup. destruct o; [exact H | constructor]. Qed.
  Lemma nodup_ensF {X} (o : option (amap (list X))) : match o with Some m => nodup_keys m | None => True end -> nodup_keys (ensF o).
  Proof. intros H. unfold ensF. destruct o; [exact H | constructor]. Qed.

  Lemma rupsert_nodup_tab {X} id (r : M) (F : option (amap (list X)) -> amap (list X)) t :
    (forall o, match o with Some m => nodup_keys m | None => True end -> nodup_keys (F o)) ->
    nodup_tab t -> nodup_tab (rupsert id r F t).
  Proof.
    intros HF. unfold nodup_tab. induction t as [|[[i r'] m] t IH]; intros H; cbn [rupsert].
    - constructor; [cbn; apply HF; exact Logic.I | constructor].
    - inversion H as [|? ? Hm Ht]; subst. destruct (i =? id).
      + constructor; [cbn in *; apply HF; exact Hm | exact Ht].
      + constructor; [exact Hm | apply IH; exact Ht].
  Qed.

  Lemma prim_wf p x : wf_policy p -> wf_policy (papply p x).
  Proof.
    intros (W1 & W2 & W3 & W4). destruct x; cbn [prim_apply]; unfold wf_policy;
      cbn [set_elsAndAttrs set_elsMatchingAndAttrs set_globalAttrs set_styles set_noattrs elsMatchingAndAttrs elsMatchingAndStyles];
      try (split; [assumption | split; [assumption | split; assumption]]).
    - split; [apply rupsert_nodup; exact W1|]. split; [|split; assumption]. apply (rupsert_nodup_tab id r (addF a ap)); [apply nodup_addF | exact W2].
    - split; [apply rupsert_nodup; exact W1|]. split; [|split; assumption]. apply (rupsert_nodup_tab id r ensF); [apply nodup_ensF | exact W2].
    - split; [apply rupsert_nodup; exact W1|]. split; [|split; assumption]. apply (rupsert_nodup_tab id r ensF); [apply nodup_ensF | exact W2].
    - split; [assumption|]. split; [assumption|]. split; [apply rupsert_nodup; exact W3|]. apply (rupsert_nodup_tab id r (addF a sp)); [apply nodup_addF | exact W4].
  Qed.

  Lemma prims_wf l : forall p, wf_policy p -> wf_policy (fold_left papply l p).
  Proof. induction l as [|x l IH]; intros p H; cbn [fold_left]; [exact H | apply IH, prim_wf, H]. Qed.

  Lemma new_policy_wf : wf_policy (@new_policy M U R).
  Proof. repeat split; constructor. Qed.
End WfPreserved.

(* ---- any order of the primitive updates ---- *)
Section Perm.
  Variables M U R : Type.
  Notation pol := (policy M U R).
  Notation papply := (@prim_apply M U R).

  Definition all_compat (l : list (prim M)) : Prop := forall x y, In x l -> In y l -> compat M x y.

  Lemma fold_congr l : forall p q, core_eq p q -> core_eq (fold_left papply l p) (fold_left papply l q).
  Proof. induction l as [|x l IH]; intros p q H; cbn [fold_left]; [exact H | apply IH, prim_congr, H]. Qed.

  Theorem prims_perm l1 l2 : Permutation l1 l2 -> all_compat l1 ->
    forall p q, core_eq p q -> core_eq (fold_left papply l1 p) (fold_left papply l2 q).
  Proof.
    induction 1 as [|x l1 l2 HP IH|x y l|l1 l2 l3 H1 IH1 H2 IH2]; intros Hc p q Hpq.
    - exact Hpq.
    - cbn [fold_left]. apply IH; [|apply prim_congr; exact Hpq]. intros a b Ha Hb. apply Hc; right; assumption.
    - cbn [fold_left]. apply fold_congr.
      eapply core_eq_trans; [apply prim_congr, prim_congr, Hpq|]. apply prim_comm. apply Hc; [left; reflexivity | right; left; reflexivity].
    - eapply core_eq_trans; [apply (IH1 Hc p p (core_eq_refl _ _ _ p))|]. apply IH2; [|exact Hpq].
      intros a b Ha Hb. apply Hc; eapply Permutation_in; try eassumption; apply Permutation_sym; assumption.
  Qed.
End Perm.

(* ---- whole builder histories ---- *)
Section Histories.
  Variables M U R : Type.
  Variable dh : bytes -> M.
  Notation pol := (policy M U R).
  Notation papply := (@prim_apply M U R).
  Notation oapply := (@apply M U R dh).
  Notation prims_of := (@prims_of M U R dh).
  Notation is_rule := (@is_rule M U R).

  (* a switch-like call touches only the options; it commutes, exactly, with every primitive rule update *)
  Lemma switch_prim_comm p o x : is_rule o = false -> papply (oapply p o) x = oapply (papply p x) o.
  Proof. destruct o; cbn [BuilderEquiv.is_rule]; try discriminate; intros _; destruct x; reflexivity. Qed.

  Lemma switch_prims_comm l : forall p o, is_rule o = false -> fold_left papply l (oapply p o) = oapply (fold_left papply l p) o.
  Proof.
    induction l as [|x l IH]; intros p o H; cbn [fold_left]; [reflexivity|]. rewrite (switch_prim_comm p o x H). apply IH. exact H.
  Qed.

  Definition rules_of (h : list (op M U R)) := filter is_rule h.
  Definition switches_of (h : list (op M U R)) := filter (fun o => negb (is_rule o)) h.

  (* normal form of a history: all rule updates first, then the switch-like calls in their order *)
  Theorem history_normal_form : forall h p,
    fold_left oapply h p = fold_left oapply (switches_of h) (fold_left papply (flat_map prims_of (rules_of h)) p).
  Proof.
    induction h as [|o h IH]; intros p; cbn [fold_left]; [reflexivity|].
    unfold rules_of, switches_of in *. cbn [filter]. destruct (is_rule o) eqn:E; cbn [negb flat_map].
    - rewrite (apply_prims M U R dh p o E). rewrite IH. rewrite fold_left_app. reflexivity.
    - cbn [fold_left]. rewrite IH. rewrite switch_prims_comm by exact E. reflexivity.
  Qed.

  Definition eta_opts (o : opts M U R) : opts M U R :=
    {| o_addSpaces := o_addSpaces o; o_nf := o_nf o; o_nffq := o_nffq o; o_nr := o_nr o; o_nrfq := o_nrfq o; o_co := o_co o;
       o_sandbox := o_sandbox o; o_tb := o_tb o; o_parse := o_parse o; o_rel := o_rel o; o_data := o_data o; o_comments := o_comments o;
       o_schemes := o_schemes o; o_schemeres := o_schemeres o; o_rewriter := o_rewriter o; o_skip := o_skip o; o_unsafe := o_unsafe o |}.
  Lemma get_set_opts (p0 : pol) o : get_opts (set_opts p0 o) = eta_opts o.
  Proof. reflexivity. Qed.
  Lemma get_opts_upd_congr (p q : pol) f : get_opts p = get_opts q -> get_opts (upd p f) = get_opts (upd q f).
  Proof. intros H. unfold upd. rewrite !get_set_opts, H. reflexivity. Qed.

  Lemma switch_congr p q o : is_rule o = false -> core_eq p q -> core_eq (oapply p o) (oapply q o).
  Proof.
    intros H [O A B0 C D0 E F G Hh].
    destruct o; cbn [BuilderEquiv.is_rule] in H; try discriminate; cbn [apply];
      (constructor; [apply get_opts_upd_congr; exact O | exact A | exact B0 | exact C | exact D0 | exact E | exact F | exact G | exact Hh]).
  Qed.

  Lemma switches_congr l : forall p q, Forall (fun o => is_rule o = false) l -> core_eq p q -> core_eq (fold_left oapply l p) (fold_left oapply l q).
  Proof.
    induction l as [|o l IH]; intros p q Hl H; cbn [fold_left]; [exact H|]. inversion Hl; subst. apply IH; [assumption | apply switch_congr; assumption].
  Qed.

  Lemma switch_wf p o : is_rule o = false -> wf_policy p -> wf_policy (oapply p o).
  Proof. destruct o; cbn [BuilderEquiv.is_rule]; try discriminate; intros _ H; exact H. Qed.
  Lemma switches_wf l : forall p, Forall (fun o => is_rule o = false) l -> wf_policy p -> wf_policy (fold_left oapply l p).
  Proof. induction l as [|o l IH]; intros p Hl H; cbn [fold_left]; [exact H|]. inversion Hl; subst. apply IH; [assumption | apply switch_wf; assumption]. Qed.

  Lemma switches_of_all h : Forall (fun o => is_rule o = false) (switches_of h).
  Proof. apply Forall_forall. intros o Ho. apply filter_In in Ho as [_ Ho]. apply negb_true_iff in Ho. exact Ho. Qed.

  (* two histories that make the same switch-like calls in the same order and the same rule-adding
     calls in ANY order build policies with the same rules *)
  Theorem histories_core_eq h1 h2 p : wf_policy p ->
    switches_of h1 = switches_of h2 -> Permutation (rules_of h1) (rules_of h2) ->
    all_compat M (flat_map prims_of (rules_of h1)) ->
    let p1 := fold_left oapply h1 p in let p2 := fold_left oapply h2 p in
    core_eq p1 p2 /\ wf_policy p1 /\ wf_policy p2.
  Proof.
    intros Hwf Hs Hp Hc. cbv zeta. rewrite (history_normal_form h1), (history_normal_form h2), Hs.
    split; [|split].
    - apply switches_congr; [apply switches_of_all|]. apply prims_perm; [apply Permutation_flat_map; exact Hp | exact Hc | apply core_eq_refl].
    - rewrite <- Hs. apply switches_wf; [apply switches_of_all | apply prims_wf; exact Hwf].
    - apply switches_wf; [apply switches_of_all | apply prims_wf; exact Hwf].
  Qed.
End Histories.

(* ---- letter case of names ---- *)
Section LetterCase.
  Variables M U R : Type.
  Variable dh : bytes -> M.
  Notation pol := (policy M U R).
  Notation oapply := (@apply M U R dh).

  (* equal after strings.ToLower *)
  Definition names_eq (l1 l2 : list bytes) : Prop := map to_lower l1 = map to_lower l2.
  Definition scope_case_eq (s1 s2 : scope M) : Prop :=
    match s1, s2 with
    | @OnElements _ e1, @OnElements _ e2 => names_eq e1 e2
    | _, _ => s1 = s2
    end.

  Inductive op_case_eq : op M U R -> op M U R -> Prop :=
  | ce_attrs n1 n2 re na s1 s2 : names_eq n1 n2 -> scope_case_eq s1 s2 ->
      op_case_eq (@OAllowAttrs M U R n1 re na s1) (@OAllowAttrs M U R n2 re na s2)
  | ce_styles n1 n2 h e re s1 s2 : names_eq n1 n2 -> scope_case_eq s1 s2 ->
      op_case_eq (@OAllowStyles M U R n1 h e re s1) (@OAllowStyles M U R n2 h e re s2)
  | ce_elements n1 n2 : names_eq n1 n2 -> op_case_eq (@OAllowElements M U R n1) (@OAllowElements M U R n2)
  | ce_schemes n1 n2 : names_eq n1 n2 -> op_case_eq (@OAllowURLSchemes M U R n1) (@OAllowURLSchemes M U R n2)
  | ce_custom s1 s2 f : to_lower s1 = to_lower s2 ->
      op_case_eq (@OAllowURLSchemeWithCustomPolicy M U R s1 f) (@OAllowURLSchemeWithCustomPolicy M U R s2 f)
  | ce_skip n1 n2 : names_eq n1 n2 -> op_case_eq (@OSkipElementsContent M U R n1) (@OSkipElementsContent M U R n2)
  | ce_keep n1 n2 : names_eq n1 n2 -> op_case_eq (@OAllowElementsContent M U R n1) (@OAllowElementsContent M U R n2).

  Lemma fold_lower {A} (F : A -> bytes -> A) l1 l2 a : names_eq l1 l2 ->
    fold_left (fun a x => F a (to_lower x)) l1 a = fold_left (fun a x => F a (to_lower x)) l2 a.
  Proof.
    intros H. rewrite <- (fold_left_map F to_lower l1 a), <- (fold_left_map F to_lower l2 a). unfold names_eq in H. rewrite H. reflexivity.
  Qed.

  (* the builder looks at names only through strings.ToLower: calls whose names agree after
     lower-casing have the same effect *)
  Theorem apply_case_eq p o1 o2 : op_case_eq o1 o2 -> oapply p o1 = oapply p o2.
  Proof.
    intros H. destruct H as [n1 n2 re na s1 s2 Hn Hs|n1 n2 h e re s1 s2 Hn Hs|n1 n2 Hn|n1 n2 Hn|s1 s2 f Hs|n1 n2 Hn|n1 n2 Hn]; cbn [apply].
    - unfold names_eq in Hn. rewrite Hn. destruct s1 as [e1|i1 r1|], s2 as [e2|i2 r2|]; cbn [scope_case_eq] in Hs; try discriminate; try (inversion Hs; subst; reflexivity).
      unfold bind_attrs.
      apply (fold_lower (fun p el =>
               let p1 := fold_left (fun p a => set_elsAndAttrs p (upsert el (fun o => app_rule a re (match o with Some m => m | None => [] end)) (elsAndAttrs p))) (map to_lower n2) p in
               if na then set_elsAndAttrs (set_noattrs p1 (add_set el (elsNoAttrs p1)) (elsMatchingNoAttrs p1)) (ensure el (elsAndAttrs p1)) else p1)).
      exact Hs.
    - unfold names_eq in Hn. rewrite Hn. destruct s1 as [e1|i1 r1|], s2 as [e2|i2 r2|]; cbn [scope_case_eq] in Hs; try discriminate; try (inversion Hs; subst; reflexivity).
      unfold bind_styles.
      match goal with |- fold_left ?f e1 p = fold_left _ e2 p =>
        apply (fold_lower (fun p el => fold_left (fun p a => set_styles p (upsert el (fun o => app_rule a
                 (match h with Some h0 => SPHandler h0 | None => match e with _ :: _ => SPEnum e | [] => match re with Some r => SPRegexp r | None => SPHandler (dh a) end end end)
                 (match o with Some m => m | None => [] end)) (elsAndStyles p)) (elsMatchingAndStyles p) (globalStyles p)) (map to_lower n2) p)) end.
      exact Hs.
    - apply (fold_lower (fun p el => set_elsAndAttrs p (ensure el (elsAndAttrs p)))). exact Hn.
    - unfold upd. f_equal. f_equal.
      apply (fold_lower (fun m s => upsert s (fun _ => []) m)). exact Hn.
    - rewrite Hs. reflexivity.
    - unfold upd. f_equal. f_equal. apply (fold_lower (fun s n => add_set n s)). exact Hn.
    - unfold upd. f_equal. f_equal. apply (fold_lower (fun s n => filter (fun x => negb (beqb x n)) s)). exact Hn.
  Qed.
End LetterCase.
