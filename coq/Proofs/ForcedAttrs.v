(* Post-conditions of the crossorigin and sandbox passes of sanitizeAttrs (C12). *)
From Coq Require Import List NArith Bool Lia.
Import ListNotations.
From BM Require Import Bytes Utf8 Strings Tokenizer Policy Url Style Attrs GenTables.
Open Scope N_scope.

Section Forced.
  Variables M U R : Type.
  Variable I : interp M U R.
  Variable p : policy M U R.

  Definition has_key_attr (k : bytes) (l : list attr) : bool := existsb (key_is k) l.
  Definition all_vals (k : bytes) (P : bytes -> Prop) (l : list attr) : Prop :=
    forall a, In a l -> key_is k a = true -> P (aval a).

  Lemma existsb_map_key k (f : attr -> attr) l : (forall a, akey (f a) = akey a) ->
    existsb (key_is k) (map f l) = existsb (key_is k) l.
  Proof.
    intros Hf. induction l as [|a l IH]; simpl; auto. unfold key_is at 1 3. rewrite Hf, IH. reflexivity.
  Qed.

  (* ---- crossorigin ---- *)
  Lemma crossorigin_pass_spec elem attrs :
    requireCrossOrigin p = true -> mem elem crossorigin_elements = true -> attrs <> [] ->
    has_key_attr (B"crossorigin") (crossorigin_pass p elem attrs) = true /\
    all_vals (B"crossorigin") (fun v => v = B"anonymous") (crossorigin_pass p elem attrs).
  Proof.
    intros Hr He Hne. unfold crossorigin_pass. rewrite Hr, He.
    destruct attrs as [|a0 attrs0] eqn:Ea; [congruence|]. rewrite <- Ea. cbn [andb].
    destruct (existsb (key_is (B"crossorigin")) attrs) eqn:Ex.
    - split.
      + unfold has_key_attr. rewrite existsb_map_key; auto. intros a. destruct (key_is _ a); reflexivity.
      + intros a Hin Hk. apply in_map_iff in Hin as (b & Hb & _). destruct (key_is (B"crossorigin") b) eqn:Ekb.
        * subst a. reflexivity.
        * subst a. congruence.
    - split.
      + unfold has_key_attr. rewrite existsb_app. simpl. rewrite orb_true_r. reflexivity.
      + intros a Hin Hk. apply in_app_or in Hin as [Hin|[<-|[]]]; [|reflexivity].
        exfalso. assert (existsb (key_is (B"crossorigin")) attrs = true) by (apply existsb_exists; eauto). congruence.
  Qed.

  (* the sandbox pass leaves attributes with other keys alone *)
  Lemma sandbox_pass_other k elem attrs P : beqb k (B"sandbox") = false ->
    has_key_attr k attrs = true -> all_vals k P attrs ->
    has_key_attr k (sandbox_pass p elem attrs) = true /\ all_vals k P (sandbox_pass p elem attrs).
  Proof.
    intros Hk Hh Ha. unfold sandbox_pass. unfold has_key_attr in Hh.
    destruct (requireSandbox p) as [allowed|]; [|auto].
    destruct (beqb elem (B"iframe")); [|auto].
    assert (Hks : forall a, key_is k a = true -> key_is (B"sandbox") a = false).
    { intros a Hka. unfold key_is in *. apply beqb_eq in Hka. rewrite Hka.
      destruct (beqb k (B"sandbox")) eqn:E; congruence. }
    destruct (existsb (key_is (B"sandbox")) attrs).
    - split.
      + unfold has_key_attr. rewrite existsb_map_key; auto. intros a. destruct (key_is _ a); reflexivity.
      + intros a Hin Hka. apply in_map_iff in Hin as (b & Hb & Hinb). destruct (key_is (B"sandbox") b) eqn:Esb.
        * subst a. unfold key_is in Hka. cbn in Hka. rewrite (Hks b Hka) in Esb. discriminate.
        * subst a. apply Ha; auto.
    - split.
      + unfold has_key_attr. rewrite existsb_app, Hh. reflexivity.
      + intros a Hin Hka. apply in_app_or in Hin as [Hin|[<-|[]]]; [apply Ha; auto|].
        unfold key_is, akey in Hka. cbn [fst] in Hka. apply beqb_eq in Hka. rewrite <- Hka in Hk. rewrite beqb_refl in Hk. discriminate.
  Qed.

  (* ---- sandbox ---- *)
  Lemma dedup_keep_spec allowed : forall ws seen,
    NoDup (dedup_keep allowed seen ws) /\
    (forall w, In w (dedup_keep allowed seen ws) -> In w ws /\ mem w allowed = true /\ mem w seen = false).
  Proof.
    induction ws as [|w ws IH]; intros seen; simpl; [split; [constructor | intros ? []]|].
    destruct (mem w allowed && negb (mem w seen)) eqn:E.
    - apply andb_true_iff in E as [Ea Es]. apply negb_true_iff in Es.
      destruct (IH (w :: seen)) as [Hnd Hin]. split.
      + constructor; auto. intros Hc. apply Hin in Hc as (_ & _ & Hm). unfold mem in Hm. simpl in Hm.
        rewrite beqb_refl in Hm. discriminate.
      + intros x [<-|Hx]; [auto|]. apply Hin in Hx as (H1 & H2 & H3). repeat split; auto.
        unfold mem in *. simpl in H3. apply orb_false_iff in H3 as [_ H3]. exact H3.
    - destruct (IH seen) as [Hnd Hin]. split; auto. intros x Hx. apply Hin in Hx as (H1 & H2 & H3). auto.
  Qed.

  Definition sandbox_value_ok (allowed : list bytes) (v : bytes) : Prop :=
    exists ws, v = join ws [32] /\ NoDup ws /\ (forall w, In w ws -> mem w allowed = true).

  Lemma sandbox_pass_spec allowed attrs :
    requireSandbox p = Some allowed ->
    has_key_attr (B"sandbox") (sandbox_pass p (B"iframe") attrs) = true /\
    all_vals (B"sandbox") (sandbox_value_ok allowed) (sandbox_pass p (B"iframe") attrs).
  Proof.
    intros Hr. unfold sandbox_pass. rewrite Hr. rewrite beqb_refl.
    destruct (existsb (key_is (B"sandbox")) attrs) eqn:Ex.
    - split.
      + unfold has_key_attr. rewrite existsb_map_key; auto. intros a. destruct (key_is _ a); reflexivity.
      + intros a Hin Hk. apply in_map_iff in Hin as (b & Hb & _). destruct (key_is (B"sandbox") b) eqn:Ekb.
        * subst a. cbn [aval snd]. destruct (dedup_keep_spec allowed (fields (aval b)) []) as [Hnd Hin].
          exists (dedup_keep allowed [] (fields (aval b))). repeat split; auto. intros w Hw. apply Hin in Hw. tauto.
        * subst a. congruence.
    - split.
      + unfold has_key_attr. rewrite existsb_app. simpl. rewrite orb_true_r. reflexivity.
      + intros a Hin Hk. apply in_app_or in Hin as [Hin|[<-|[]]].
        * exfalso. assert (existsb (key_is (B"sandbox")) attrs = true) by (apply existsb_exists; eauto). congruence.
        * exists []. repeat split; [constructor | intros ? []].
  Qed.

  (* ---- the whole function ---- *)
  Lemma sanitize_attrs_shape elem attrs aps : sanitize_attrs I p elem attrs aps <> [] ->
    exists clean1, sanitize_attrs I p elem attrs aps = sandbox_pass p elem (crossorigin_pass p elem clean1) /\
                   (clean1 = [] -> requireSandbox p <> None /\ elem = B"iframe").
  Proof.
    unfold sanitize_attrs. destruct attrs as [|a attrs]; [congruence|].
    set (cl := flat_map _ _). destruct cl as [|c cl'] eqn:Ec; [congruence|]. rewrite <- Ec.
    intros Hne. eexists. split; [reflexivity|].
    intros E0. rewrite E0 in Hne. unfold crossorigin_pass in Hne. rewrite andb_false_r in Hne. cbn [andb] in Hne.
    unfold sandbox_pass in Hne. destruct (requireSandbox p); [|congruence]. split; [discriminate|].
    destruct (beqb elem (B"iframe")) eqn:Eb; [apply beqb_eq in Eb; auto | congruence].
  Qed.

  Hypothesis iframe_not_crossorigin : mem (B"iframe") crossorigin_elements = false.

  Theorem crossorigin_forced elem attrs aps :
    requireCrossOrigin p = true -> mem elem crossorigin_elements = true ->
    sanitize_attrs I p elem attrs aps <> [] ->
    has_key_attr (B"crossorigin") (sanitize_attrs I p elem attrs aps) = true /\
    all_vals (B"crossorigin") (fun v => v = B"anonymous") (sanitize_attrs I p elem attrs aps).
  Proof.
    intros Hr He Hne. destruct (sanitize_attrs_shape elem attrs aps Hne) as (clean1 & -> & Hc).
    assert (Hne1 : clean1 <> []).
    { intros E0. destruct (Hc E0) as [_ ->]. congruence. }
    destruct (crossorigin_pass_spec elem clean1 Hr He Hne1) as [H1 H2].
    apply sandbox_pass_other; auto.
  Qed.

  Theorem sandbox_forced attrs aps allowed :
    requireSandbox p = Some allowed -> sanitize_attrs I p (B"iframe") attrs aps <> [] ->
    has_key_attr (B"sandbox") (sanitize_attrs I p (B"iframe") attrs aps) = true /\
    all_vals (B"sandbox") (sandbox_value_ok allowed) (sanitize_attrs I p (B"iframe") attrs aps).
  Proof.
    intros Hr Hne. destruct (sanitize_attrs_shape _ attrs aps Hne) as (clean1 & -> & _).
    apply sandbox_pass_spec. exact Hr.
  Qed.
End Forced.

Arguments crossorigin_forced {M U R} I p _ elem attrs aps.
Arguments sandbox_forced {M U R} I p attrs aps allowed.
