(* Idempotence of sanitizeAttrs on area / base / link when the policy attaches a VALUE PATTERN to rel
   that is closed under what the link pass does to a rel value (append " nofollow" / " noreferrer")
   and accepts the value the pass writes when there was no rel: the second pass keeps the rewritten
   rel, finds the tokens and changes nothing.  (UGCPolicy: rel on area must match
   SpaceSeparatedTokens; the closure of that regexp is checked in Instances/UGCRelClosed.v.) *)
From Coq Require Import List NArith Bool Lia.
Import ListNotations.
From BM Require Import Bytes Utf8 Strings Tokenizer Policy Url Style Attrs Loop GenTables ForcedAttrs LinkProofs LinkCompose
  AttrProvenance AttrIdem AttrIdemLinks LinkIdem AttrIdemAccepted.
Open Scope N_scope.

Section Prov.
  Variables M U R : Type.
  Variable I : interp M U R.
  Variable p : policy M U R.
  Variable elem : bytes.
  Variable P : attr -> Prop.
  Hypothesis Hnot_a : beqb elem (B"a") = false.
  Hypothesis Hmod : forall a c1 c2, key_is REL a = true -> P a ->
    P (akey a, add_word c2 NOREFERRER (add_word c1 NOFOLLOW (aval a))).
  Hypothesis Happ : forall nf nr, nf || nr = true -> P (REL, added_rel_value nf nr).

  Lemma lp1_prov3 nfq nrq tbq : forall attrs nf nr tb r nf' nr' tb',
    link_pass1 false nfq nrq tbq attrs nf nr tb = (r, nf', nr', tb') -> Forall P attrs -> Forall P r /\ tb' = tb.
  Proof.
    induction attrs as [|a rest IH]; intros nf nr tb r nf' nr' tb' H Hq; cbn [link_pass1] in H.
    - inversion H; subst. split; [constructor | reflexivity].
    - inversion Hq as [|? ? Ha Hrest]; subst.
      destruct (key_is REL a && (nfq || nrq)) eqn:E1.
      + apply andb_true_iff in E1 as [E1 _].
        destruct (link_pass1 false nfq nrq tbq rest nfq nrq tb) as [[[r0 x] y] z] eqn:E. inversion H; subst.
        destruct (IH _ _ _ _ _ _ _ E Hrest) as [Hr Ht]. split; [|exact Ht].
        constructor; [apply Hmod; assumption | exact Hr].
      + cbn [andb] in H.
        destruct (link_pass1 false nfq nrq tbq rest nf nr tb) as [[[r0 x] y] z] eqn:E. inversion H; subst.
        destruct (IH _ _ _ _ _ _ _ E Hrest) as [Hr Ht]. split; [|exact Ht]. constructor; assumption.
  Qed.

  Lemma link_pass_prov3 attrs : Forall P attrs -> Forall P (link_pass I p elem attrs).
  Proof.
    intros Hq. unfold link_pass.
    match goal with |- Forall P (if ?c then _ else _) => destruct c end; [|exact Hq].
    destruct (href_external I attrs) as [hf ext]. destruct hf; [|exact Hq].
    rewrite Hnot_a.
    set (NF := requireNoFollow p || ext && requireNoFollowFQ p). set (NR := requireNoReferrer p || ext && requireNoReferrerFQ p).
    destruct (link_pass1 false NF NR (ext && addTargetBlank p) attrs false false false) as [[[tmp nf] nr] tb] eqn:E.
    destruct (lp1_prov3 _ _ _ _ _ _ _ _ _ _ _ E Hq) as [Ht Etb]. subst tb.
    set (attrs1 := if nf || nr || false then tmp else attrs).
    assert (H1 : Forall P attrs1) by (subst attrs1; destruct (nf || nr || false); auto).
    cbn [andb]. cbv iota beta.
    destruct ((NF && negb nf) || (NR && negb nr)) eqn:Eadd; [|exact H1].
    apply Forall_app. split; [exact H1|]. constructor; [|constructor].
    change (P (REL, added_rel_value NF NR)). apply Happ.
    destruct NF; [reflexivity|]. destruct NR; [reflexivity|]. cbn in Eadd. discriminate.
  Qed.
End Prov.

Section Idem.
  Variables M U R : Type.
  Variable I : interp M U R.
  Variable p : policy M U R.
  Variable elem : bytes.
  Variable aps : amap (list (attr_policy M)).
  Notation Fa := (filter_attr I p elem aps (has_style_policies I p elem)).

  Hypothesis Hstyle : style_stable M U R I p elem.
  Hypothesis Hnot_a : beqb elem (B"a") = false.
  (* the filter's verdict on rel survives what the link pass does to a rel value, and covers what it writes *)
  Hypothesis Hmod : forall v c1 c2, Fa (REL, v) = [(REL, v)] ->
    Fa (REL, add_word c2 NOREFERRER (add_word c1 NOFOLLOW v)) = [(REL, add_word c2 NOREFERRER (add_word c1 NOFOLLOW v))].
  Hypothesis Happ : forall nf nr, nf || nr = true -> Fa (REL, added_rel_value nf nr) = [(REL, added_rel_value nf nr)].
  Hypothesis Hurl : forall k v u, url_attr_of elem = Some k -> Fa (k, v) = [(k, v)] -> Fa (k, u) = [(k, u)].
  Hypothesis Hrw : srcRewriter p = None.
  Hypothesis Hstable : forall raw u, valid_url I p raw = Some u -> valid_url I p u = Some u.
  Hypothesis Hnosandbox : forall l, sandbox_pass p elem l = l.
  Hypothesis Hnocross : forall l, crossorigin_pass p elem l = l.

  Notation kept := (kept M U R I p elem aps).
  Notation url_kept := (url_kept M U R I p elem aps).

  Lemma rel_key_eq (a : attr) : key_is REL a = true -> akey a = REL.
  Proof. unfold key_is. intros H. apply beqb_eq in H. exact H. Qed.

  Theorem sanitize_attrs_idem_rel_closed attrs :
    sanitize_attrs I p elem (sanitize_attrs I p elem attrs aps) aps = sanitize_attrs I p elem attrs aps.
  Proof.
    pose proof (sanitize_attrs_unfold M U R I p elem aps Hnosandbox) as Unf.
    rewrite (Unf attrs). destruct attrs as [|a0 ar]; [reflexivity|].
    remember (flat_map Fa (a0 :: ar)) as c0 eqn:Ec0.
    assert (S0 : Forall kept c0) by (subst c0; apply F_kept; exact Hstyle).
    destruct c0 as [|x xs] eqn:Ecc; [reflexivity|]. rewrite <- Ecc in *. clear Ecc x xs.
    rewrite Hnocross.
    set (c := if linkable elem then (if requireParseableURLs p then flat_map (url_pass_attr I p elem) c0 else c0) else c0).
    assert (Hmid : mid_passes M U R I p elem c0 = if linkable elem then link_pass I p elem c else c).
    { unfold mid_passes. subst c. destruct (linkable elem); reflexivity. }
    set (y := mid_passes M U R I p elem c0).
    assert (Kc : Forall kept c).
    { subst c. destruct (linkable elem); [|exact S0]. destruct (requireParseableURLs p); [|exact S0].
      eapply Forall_impl; [|apply (U_kept M U R I p elem aps Hurl Hrw Hstable); exact S0]. intros a [Ha _]. exact Ha. }
    assert (Ky : Forall kept y).
    { subst y. rewrite Hmid. destruct (linkable elem); [|exact Kc].
      apply (link_pass_prov3 M U R I p elem kept Hnot_a); [| |exact Kc].
      - intros a c1 c2 Hk Ha. unfold AttrIdemAccepted.kept in *. rewrite (rel_key_eq a Hk). apply Hmod.
        rewrite <- (rel_key_eq a Hk). rewrite attr_eta. exact Ha.
      - intros nf nr H. apply Happ. exact H. }
    assert (Ky2 : linkable elem = true -> requireParseableURLs p = true -> Forall url_kept y).
    { intros Hl Hp. subst y. rewrite Hmid, Hl.
      apply (link_pass_prov3 M U R I p elem url_kept Hnot_a).
      - intros a c1 c2 Hk [Ha _]. rewrite (rel_key_eq a Hk). split; [|apply url_pass_forced; reflexivity].
        unfold AttrIdemAccepted.kept in *. apply Hmod. rewrite <- (rel_key_eq a Hk). rewrite attr_eta. exact Ha.
      - intros nf nr H. split; [apply Happ; exact H | apply url_pass_forced; reflexivity].
      - subst c. rewrite Hl, Hp. apply (U_kept M U R I p elem aps Hurl Hrw Hstable). exact S0. }
    assert (Hlpy : (if linkable elem then link_pass I p elem y else y) = y).
    { subst y. rewrite Hmid. destruct (linkable elem); [apply link_pass_idem | reflexivity]. }
    fold y. rewrite (Unf y). destruct y as [|o os] eqn:Ey; [reflexivity|]. rewrite <- Ey in *.
    rewrite (F_of_kept M U R I p elem aps y Ky).
    assert (Hm : forall X : list attr, match y with [] => [] | _ :: _ => X end = X) by (intros X; rewrite Ey; reflexivity).
    etransitivity; [apply Hm|]. rewrite Hnocross. unfold mid_passes. destruct (linkable elem) eqn:El; [|reflexivity].
    assert (EU : (if requireParseableURLs p then flat_map (url_pass_attr I p elem) y else y) = y).
    { destruct (requireParseableURLs p) eqn:Ep; [|reflexivity]. apply (U_of_kept M U R I p elem aps). apply Ky2; reflexivity. }
    rewrite EU. exact Hlpy.
  Qed.
End Idem.
Arguments sanitize_attrs_idem_rel_closed {M U R} I p elem aps.
