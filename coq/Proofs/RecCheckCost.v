(* recursiveCheck is quadratic: with the memo table, check(k) runs at most once for every start
   position k, so the sub-handlers are called at most |funcs| * n * n times (n components).
   Accounting: every start position that is not yet marked failed holds a credit of
   |funcs| * (n - k) calls; a run of check(k) that fails is paid by the credit of k (which is then
   marked), a run that succeeds ends the whole search. *)
From Coq Require Import List NArith Bool Arith Lia.
Import ListNotations.
From BM Require Import Bytes Strings RecCheck.
Local Open Scope nat_scope.

Section Cost.
  Variable value : list bytes.
  Variable funcs : list (bytes -> bool).
  Let n := length value.
  Let F := length funcs.

  Definition w (k : nat) : nat := F * (n - k).
  Definition wsum (st : rstate) (ks : list nat) : nat := list_sum (map (fun k => if is_failed k st then 0 else w k) ks).
  Definition potr (lo hi : nat) (st : rstate) : nat := wsum st (seq (lo + 1) (hi - (lo + 1))).   (* positions in (lo, hi) *)
  Definition pot (lo : nat) (st : rstate) : nat := potr lo n st.

  Definition grows (st st' : rstate) : Prop := forall k, is_failed k st = true -> is_failed k st' = true.

  Lemma grows_refl st : grows st st. Proof. intros k H; exact H. Qed.
  Lemma grows_trans a b c : grows a b -> grows b c -> grows a c. Proof. intros H1 H2 k H. apply H2, H1, H. Qed.
  Lemma grows_tick st : grows st (tick st). Proof. intros k H; exact H. Qed.
  Lemma grows_mark st m : grows st (mark st m).
  Proof. intros k H. unfold is_failed, mark. cbn [failed existsb]. rewrite orb_true_iff. right. exact H. Qed.

  Lemma wsum_cons st k ks : wsum st (k :: ks) = (if is_failed k st then 0 else w k) + wsum st ks.
  Proof. reflexivity. Qed.
  Lemma wsum_app st a b : wsum st (a ++ b) = wsum st a + wsum st b.
  Proof. unfold wsum. rewrite map_app, list_sum_app. reflexivity. Qed.
  Lemma wsum_grows st st' ks : grows st st' -> wsum st' ks <= wsum st ks.
  Proof.
    intros H. induction ks as [|k ks IH]; [apply le_n|]. rewrite !wsum_cons.
    apply Nat.add_le_mono; [|exact IH].
    destruct (is_failed k st) eqn:E; [rewrite (H k E); apply le_n|]. destruct (is_failed k st'); [apply Nat.le_0_l | apply le_n].
  Qed.
  Lemma wsum_mark_other st m ks : ~ In m ks -> wsum (mark st m) ks = wsum st ks.
  Proof.
    intros Hn. induction ks as [|k ks IH]; [reflexivity|]. rewrite !wsum_cons.
    rewrite IH by (intros H; apply Hn; right; exact H). f_equal.
    unfold is_failed, mark. cbn [failed existsb]. destruct (Nat.eqb k m) eqn:E; [|reflexivity].
    apply Nat.eqb_eq in E. subst k. exfalso. apply Hn. left. reflexivity.
  Qed.
  Lemma wsum_bound st ks : wsum st ks <= length ks * (F * n).
  Proof.
    induction ks as [|k ks IH]; [apply le_n|]. rewrite wsum_cons. cbn [length].
    assert (H : (if is_failed k st then 0 else w k) <= F * n).
    { destruct (is_failed k st); [apply Nat.le_0_l|]. unfold w. apply Nat.mul_le_mono_l. apply Nat.le_sub_l. }
    change (S (length ks) * (F * n)) with (F * n + length ks * (F * n)). apply Nat.add_le_mono; assumption.
  Qed.

  (* (lo, n) = (lo, m) ++ [m] ++ (m, n) *)
  Lemma seq_split lo m : lo < m -> m < n ->
    seq (lo + 1) (n - (lo + 1)) = seq (lo + 1) (m - (lo + 1)) ++ [m] ++ seq (m + 1) (n - (m + 1)).
  Proof.
    intros H1 H2. replace (n - (lo + 1)) with ((m - (lo + 1)) + (1 + (n - (m + 1)))) by lia.
    rewrite seq_app. f_equal. replace (lo + 1 + (m - (lo + 1))) with m by lia. rewrite seq_app. cbn [seq app].
    replace (m + 1) with (S m) by lia. reflexivity.
  Qed.
  Lemma pot_split lo m st : lo < m -> m < n ->
    pot lo st = potr lo m st + (if is_failed m st then 0 else w m) + pot m st.
  Proof.
    intros H1 H2. unfold pot, potr. rewrite (seq_split lo m H1 H2), !wsum_app, wsum_cons. change (wsum st []) with 0. lia.
  Qed.
  Lemma pot_mark lo m st : lo < m -> m < n -> pot lo (mark st m) = potr lo m st + pot m st.
  Proof.
    intros H1 H2. rewrite (pot_split lo m _ H1 H2).
    assert (E : is_failed m (mark st m) = true) by (unfold is_failed, mark; cbn [failed existsb]; rewrite Nat.eqb_refl; reflexivity).
    rewrite E. unfold potr, pot, potr. rewrite !wsum_mark_other; [lia | |]; intros Hin; apply in_seq in Hin; lia.
  Qed.

  (* what a recursive call at a later position guarantees *)
  Definition rec_cost (rec : nat -> rstate -> bool * rstate) (lo : nat) : Prop :=
    forall s st, lo <= s -> s < n ->
      grows st (snd (rec s st)) /\
      calls (snd (rec s st)) + (if fst (rec s st) then 0 else pot s (snd (rec s st))) <= calls st + w s + pot s st.

  Lemma loop_j_cost rec start i : rec_cost rec (i + 1) -> start <= i -> i < n ->
    forall js st,
    grows st (snd (loop_j value rec start i js st)) /\
    calls (snd (loop_j value rec start i js st)) + (if fst (loop_j value rec start i js st) then 0 else pot start (snd (loop_j value rec start i js st)))
      <= calls st + length js + pot start st.
  Proof.
    intros Hrec Hs Hi. induction js as [|j js IH]; intros st; cbn [loop_j].
    - cbn [fst snd length]. split; [apply grows_refl | lia].
    - assert (Ht : calls (tick st) = S (calls st)) by reflexivity.
      assert (Pt : pot start (tick st) = pot start st) by reflexivity.
      destruct (negb (j (tempval value start i))).
      { destruct (IH (tick st)) as [G C]. split; [eapply grows_trans; [apply grows_tick | exact G]|]. cbn [length]. lia. }
      fold n. destruct (Nat.eqb (i + 1) n) eqn:En.
      { cbn [fst snd length]. split; [apply grows_tick | lia]. }
      apply Nat.eqb_neq in En. destruct (is_failed (i + 1) (tick st)) eqn:Ef.
      { destruct (IH (tick st)) as [G C]. split; [eapply grows_trans; [apply grows_tick | exact G]|]. cbn [length]. lia. }
      assert (Hlt : i + 1 < n) by lia. assert (Hgt : start < i + 1) by lia.
      destruct (Hrec (i + 1) (tick st) (le_n _) Hlt) as [G2 C2].
      destruct (rec (i + 1) (tick st)) as [r st2]. cbn [fst snd] in *.
      pose proof (pot_split start (i + 1) (tick st) Hgt Hlt) as Sp. rewrite Ef in Sp.
      destruct r.
      + cbn [fst snd length]. split; [eapply grows_trans; [apply grows_tick | exact G2]|]. lia.
      + destruct (IH (mark st2 (i + 1))) as [G C].
        split; [eapply grows_trans; [apply grows_tick|]; eapply grows_trans; [exact G2|]; eapply grows_trans; [apply grows_mark | exact G]|].
        rewrite (pot_mark start (i + 1) st2 Hgt Hlt) in C.
        assert (Hm : potr start (i + 1) st2 <= potr start (i + 1) (tick st)) by (apply wsum_grows; exact G2).
        assert (Cm : calls (mark st2 (i + 1)) = calls st2) by reflexivity.
        cbn [length]. lia.
  Qed.

  Lemma loop_i_cost rec start : rec_cost rec (start + 1) ->
    forall is st, (forall i, In i is -> start <= i /\ i < n) ->
    grows st (snd (loop_i value funcs rec start is st)) /\
    calls (snd (loop_i value funcs rec start is st)) + (if fst (loop_i value funcs rec start is st) then 0 else pot start (snd (loop_i value funcs rec start is st)))
      <= calls st + length is * F + pot start st.
  Proof.
    intros Hrec. induction is as [|i is IH]; intros st His; cbn [loop_i].
    - cbn [fst snd length]. split; [apply grows_refl | lia].
    - destruct (His i (or_introl eq_refl)) as [Hs Hi].
      assert (Hrec' : rec_cost rec (i + 1)).
      { intros s st0 Hs0 Hn0. apply Hrec; [lia | exact Hn0]. }
      destruct (loop_j_cost rec start i Hrec' Hs Hi funcs st) as [G1 C1].
      destruct (loop_j value rec start i funcs st) as [r st1]. cbn [fst snd] in *. fold F in C1. destruct r.
      + cbn [fst snd length]. split; [exact G1 | lia].
      + assert (His' : forall i0, In i0 is -> start <= i0 /\ i0 < n) by (intros i0 H0; apply His; right; exact H0).
        destruct (IH st1 His') as [G C]. split; [eapply grows_trans; eauto|]. cbn [length]. lia.
  Qed.

  Lemma check_cost : forall fuel start st, n - start < fuel ->
    grows st (snd (check value funcs fuel start st)) /\
    calls (snd (check value funcs fuel start st)) + (if fst (check value funcs fuel start st) then 0 else pot start (snd (check value funcs fuel start st)))
      <= calls st + w start + pot start st.
  Proof.
    induction fuel as [|f IH]; intros start st Hf; [lia|]. cbn [check]. fold n.
    assert (Hrec : rec_cost (check value funcs f) (start + 1)).
    { intros s st0 Hs Hn. apply IH. lia. }
    destruct (loop_i_cost (check value funcs f) start Hrec (seq start (n - start)) st) as [G C].
    - intros i Hi. apply in_seq in Hi. lia.
    - split; [exact G|]. rewrite seq_length in C. unfold w. lia.
  Qed.

  (* the number of sub-handler calls of one recursiveCheck *)
  Theorem recursive_check_calls : calls (snd (recursive_check_run value funcs)) <= F * n * n.
  Proof.
    unfold recursive_check_run. fold n.
    destruct (check_cost (S n) 0 {| failed := []; calls := 0 |}) as [_ C]; [lia|].
    cbn [calls] in C.
    assert (Hp : pot 0 {| failed := []; calls := 0 |} <= (n - 1) * (F * n)).
    { unfold pot, potr. eapply Nat.le_trans; [apply wsum_bound|]. rewrite seq_length. lia. }
    assert (Hw : w 0 = F * n) by (unfold w; f_equal; lia).
    assert (Hb : F * n + (n - 1) * (F * n) <= F * n * n).
    { generalize n. intros m. destruct m as [|m]; [lia|]. replace (S m - 1) with m by lia. nia. }
    destruct (fst (check value funcs (S n) 0 _)); lia.
  Qed.
End Cost.
